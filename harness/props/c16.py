"""C16 -- SCSV save/read round trip is lossless; invalid schemas and data are refused.

tie H: hand-written Gallina model (coq/Model_scsv.v) evaluated by `vm_compute` inside coqc on
generated case files build/cases/C16_k.v; the implementation (pydrex.io.save_scsv /
read_scsv / _validate_scsv_schema / parse_scsv_schema) runs on the same inputs.
Text layers (csv, str/int/float/complex, str.isidentifier, namedtuple, PyYAML) are oracles:
their values on the strings of each case are passed to the model as tables, and the
hypotheses the theorems make about them are checked on every case (residual checks)."""
from __future__ import annotations

import cmath
import collections
import copy
import csv
import io as _pyio
import json
import logging
import math
import os
import re
import shutil
import subprocess
import sys

import numpy as np
import yaml

import common
import proofs

FILES = ["Model_scsv.v", "Proofs_scsv.v", "Model_scsv_frame.v", "Proofs_scsv_frame.v", "Model_scsv_header.v",
         "Proofs_scsv_header.v", "Model_scsv_py.v", "gen/Gen_scsv.v", "Inst_scsv.v", "Inst_scsv_save.v", "Inst_scsv_header.v", "Entry_scsv.v", "Entry_scsv_gen.v",
         "Proofs_scsv_faults.v", "Model_memo.v", "Proofs_memo.v", "Proofs_scsv_session.v"]
PROP = "Properties/C16.v"
WS = " \t\n\r\x0b\x0c\x1c\x1d\x1e\x1f"
TYPEMAP = {"string": str, "integer": int, "float": float, "boolean": bool, "complex": complex}

# ----------------------------------------------------------------------------------------
# open findings of the unchanged tree (proposed known_findings.json entries are in docs/C16.md)
# key -> (description, witness schema, witness data, predicate on the observed result)
# ----------------------------------------------------------------------------------------
def _S(fields, d=",", m="-"):
    return {"delimiter": d, "missing": m, "fields": fields}


KNOWN = {
    "C16:write_scsv_header:string-fill-empty": (
        "string field with fill '' is written as 'fill: ' (YAML null); missing cells read back as the string 'None'",
        _S([{"name": "a", "type": "string", "fill": ""}]), [["x", "", "y"]],
        lambda r: r[0] == "OK" and r[2] == [("x", "None", "y")]),
    "C16:write_scsv_header:fill-retyped-by-yaml": (
        "fill scalars are written unquoted and re-typed by YAML: integer fill '010' is read back as 8",
        _S([{"name": "a", "type": "integer", "fill": "010"}]), [[10, 8, 1]],
        lambda r: r[0] == "OK" and r[2] == [(8, 8, 1)]),
    "C16:write_scsv_header:name-retyped-by-yaml": (
        "field names are written unquoted: the identifier 'yes' is loaded as a YAML bool and read_scsv raises AttributeError",
        _S([{"name": "yes", "type": "integer", "fill": "0"}]), [[1, 2]],
        lambda r: r[0] == "READ-ERR" and r[1] == "EAttr"),
    "C16:write_scsv_header:scalar-breaks-yaml": (
        "header scalars are interpolated without escaping: a missing marker containing an apostrophe makes the file unreadable (YAML error)",
        _S([{"name": "a", "type": "string", "fill": "x"}], m="n'a"), [["p", "q"]],
        lambda r: r[0] == "READ-ERR" and r[1] == "EYaml"),
    "C16:_parse_scsv_cell:string-fill-NaN": (
        "string field with fill 'NaN': cells equal to the fill read back as 'nan' (func(np.nan) special case applies to str)",
        _S([{"name": "a", "type": "string", "fill": "NaN"}]), [["NaN", "q"]],
        lambda r: r[0] == "OK" and r[2] == [("nan", "q")]),
    "C16:read_scsv:namedtuple-rejects-identifier": (
        "identifier field names that namedtuple rejects (leading underscore, keyword, duplicate) are saved but read_scsv raises ValueError",
        _S([{"name": "_a", "type": "integer", "fill": "0"}]), [[1, 2]],
        lambda r: r[0] == "READ-ERR" and r[1] == "EValue"),
    "C16:read_scsv:single-column-yaml-fence": (
        "a one-column row whose text is '---' is taken for the YAML fence when reading",
        _S([{"name": "a", "type": "string", "fill": "x"}]), [["---", "q"]],
        lambda r: r[0] == "READ-ERR"),
    "C16:read_scsv:number-text-equals-missing": (
        "a non-string cell whose text equals the missing marker reads back as the fill (missing '5', integer 5, fill 0 -> 0)",
        _S([{"name": "a", "type": "integer", "fill": "0"}], m="5"), [[5, 6]],
        lambda r: r[0] == "OK" and r[2] == [(0, 6)]),
    "C16:save_scsv:marker-text-in-numeric-column": (
        "a cell of the wrong type in a numeric column whose text is the missing marker ('' with marker '', True with marker 'True') "
        "passes the per-cell parse check (it parses as 'missing'); save_scsv then raises TypeError from np.isnan or writes the file "
        "instead of raising SCSVError",
        _S([{"name": "a", "type": "float", "fill": "NaN"}], m=""), [[2.5, "", 2.5]],
        lambda r: r[0] == "SAVE-ERR" and r[1] == "EType"),
    "C16:read_scsv:dash-delimited-empty-row-is-fence": (
        "with the delimiter '-' a row of four empty cells is written as the line '---', which read_scsv takes for the YAML fence",
        _S([{"name": n, "type": "string", "fill": "x"} for n in "abcd"], d="-", m="N"), [["p", "", "q"]] * 4,
        lambda r: r[0] == "READ-ERR"),
    "C16:write_scsv_header:unit-breaks-yaml": (
        "the unit of a field is written unquoted into the header: a unit that is not a plain YAML scalar ('%' - the docstring example of "
        "parse_scsv_schema -, 'a: b', '[', '*', '-', ...) makes the saved file unreadable (YAML error)",
        _S([{"name": "a", "type": "float", "fill": "NaN", "unit": "%"}]), [[1.5, 2.5]],
        lambda r: r[0] == "READ-ERR" and r[1] == "EYaml"),
    "C16:write_scsv_header:yaml-special-character": (
        "a CSV-legal delimiter that YAML does not accept verbatim (C0 control characters other than tab, DEL, NEL) is written "
        "unescaped into the header; the saved file cannot be read back",
        _S([{"name": "a", "type": "integer", "fill": "0"}], d="\x1f"), [[1, 2]],
        lambda r: r[0] == "READ-ERR" and r[1] == "EYaml"),
}

EXC_ENUM = {"SCSVError": "SCSV", "ValueError": "EValue", "TypeError": "EType", "KeyError": "EKey",
            "IndexError": "EIndex", "AttributeError": "EAttr", "OverflowError": "EOverflow",
            "StopIteration": "EStop", "Error": "ECsv"}


def exc_enum(e):
    if isinstance(e, yaml.YAMLError):
        return "EYaml"
    if isinstance(e, csv.Error):
        return "ECsv"
    return EXC_ENUM.get(type(e).__name__, "Other:" + type(e).__name__)


# ----------------------------------------------------------------------------------------
# Python values <-> model terms
# ----------------------------------------------------------------------------------------
def ftok(x):
    x = float(x)
    if math.isnan(x):
        return ("n",)
    if math.isinf(x):
        return ("m",) if x < 0 else ("p",)
    return ("f", repr(x))


_LIT = re.compile(r"^[A-Za-z0-9_ .,;:+\-()/#?|&~=*<>\[\]{}!@$%^']*$")
_POOL = {}          # string -> Coq constant name (a string literal costs ~2 ms to elaborate: define each one once)


def cs(s):
    n = _POOL.get(s)
    if n is None:
        n = _POOL[s] = "s%d_" % len(_POOL)
    return n


def pool_definitions(terms):
    used = set(re.findall(r"\bs\d+_", "\n".join(terms)))
    out = []
    for s, n in _POOL.items():
        if n in used:
            lit = '"%s"' % s if _LIT.match(s) else '(h "%s")' % s.encode("utf-8", "surrogatepass").hex()
            out.append("Definition %s : string := Eval vm_compute in %s.\n" % (n, lit))
    return "".join(out)


def cz(z):
    return "(%d)%%Z" % z


def cf(x):
    t = ftok(x)
    return {"n": "FNan", "p": "(FInf false)", "m": "(FInf true)"}.get(t[0]) or "(FFin %s)" % cs(t[1])


def cb(b):
    return "true" if b else "false"


def ccell(d):
    if isinstance(d, bool):
        return "(CBool %s)" % cb(d)
    if isinstance(d, int):
        return "(CInt %s)" % cz(d)
    if isinstance(d, float):
        return "(CFloat %s)" % cf(d)
    if isinstance(d, complex):
        return "(CCplx %s %s)" % (cf(d.real), cf(d.imag))
    if isinstance(d, str):
        return "(CStr %s)" % cs(d)
    raise Unmodelled(f"cell {d!r}")


class Unmodelled(Exception):
    pass


def cy(v):
    if v is None:
        return "YNull"
    if isinstance(v, bool):
        return "(YBool %s)" % cb(v)
    if isinstance(v, int):
        return "(YInt %s)" % cz(v)
    if isinstance(v, float):
        return "(YFloat %s)" % cf(v)
    if isinstance(v, str):
        return "(YStr %s)" % cs(v)
    return "YOther"


_PYTYPES = {str: "TStr", int: "TInt", float: "TFloat", bool: "TBool", complex: "TCplx"}


def cpy(v):
    """a Python value as a term of Model_scsv_py.pyval (anything outside the universe: POther)"""
    if v is None:
        return "PNone"
    if isinstance(v, bool):
        return "(PBool %s)" % cb(v)
    if isinstance(v, int):
        return "(PInt %s)" % cz(v)
    if isinstance(v, float):
        return "(PFloat %s)" % cf(v)
    if isinstance(v, complex):
        return "(PCplx %s %s)" % (cf(v.real), cf(v.imag))
    if isinstance(v, str):
        return "(PStr %s)" % cs(v)
    if isinstance(v, list):
        return "(PList %s)" % clist(v, cpy)
    if isinstance(v, tuple):
        return "(PTuple %s)" % clist(v, cpy)
    if isinstance(v, dict) and all(isinstance(k, str) for k in v):
        return "(PDict %s)" % clist(list(v.items()), lambda kv: "(%s, %s)" % (cs(kv[0]), cpy(kv[1])))
    if isinstance(v, type) and v in _PYTYPES:
        return "(PType %s)" % _PYTYPES[v]
    return '(POther "x")'


def walk_values(v):
    """every scalar inside a nested Python value (for the oracle tables)"""
    if isinstance(v, (list, tuple)):
        for x in v:
            yield from walk_values(x)
    elif isinstance(v, dict):
        for k, x in v.items():
            yield k
            yield from walk_values(x)
    else:
        yield v


def copt(x, f):
    return "None" if x is None else "(Some %s)" % f(x)


def clist(xs, f):
    return "[" + "; ".join(f(x) for x in xs) + "]"


def cfield(f):
    if not isinstance(f, dict):
        raise Unmodelled("field is not a mapping")
    t = f.get("type")
    if t is not None and not isinstance(t, str):
        raise Unmodelled("field type is not a string")
    name = "(Some %s)" % cy(f["name"]) if "name" in f else "None"
    fill = "(Some %s)" % cy(f["fill"]) if "fill" in f else "None"
    return "(mkField %s %s %s)" % (name, copt(t, cs), fill)


def cschema(s):
    if not isinstance(s, dict):
        raise Unmodelled("schema is not a mapping")
    for k in ("delimiter", "missing"):
        if k in s and not isinstance(s[k], str):
            raise Unmodelled(f"{k} is not a string")
    if "fields" in s and not isinstance(s["fields"], list):
        raise Unmodelled("fields is not a list")
    return "(mkSchema %s %s %s)" % (copt(s.get("delimiter"), cs), copt(s.get("missing"), cs),
                                     copt(s.get("fields"), lambda fs: clist(fs, cfield)))


def cres(r, f):
    return "(Ok %s)" % f(r[1]) if r[0] == "OK" else "(Err %s)" % r[1]


def py_oracle(fn, x, conv):
    try:
        return ("OK", conv(fn(x)))
    except Exception as e:  # noqa: BLE001
        en = exc_enum(e)
        return ("ERR", en if not en.startswith("Other") else "EUnmodelled")


class Tables:
    """Values of the text-layer oracles on every string / number that occurs in a case."""

    def __init__(self):
        self.strs, self.ints, self.floats, self.cplx, self.namelists, self.delims = set(), set(), set(), set(), [], set()
        self.values = set()        # strings that occur as a name / fill / cell (positions the code may strip)

    def add_value(self, v):
        if isinstance(v, bool) or v is None:
            return
        if isinstance(v, str):
            self.values.add(v)
            self.strs.add(v)
            self.strs.add(v.strip(WS))
        elif isinstance(v, int):
            self.ints.add(v)
        elif isinstance(v, float):
            self.floats.add(ftok(v))
        elif isinstance(v, complex):
            self.cplx.add((ftok(v.real), ftok(v.imag)))
            self.floats.add(ftok(v.real))
            self.floats.add(ftok(v.imag))

    def close(self):
        # strings produced by str(), values produced by the parsers
        for _ in range(2):
            for z in list(self.ints):
                self.strs.add(str(z))
            for a, b in list(self.cplx):
                self.strs.add(str(complex(untok(a), untok(b))))
            for f in list(self.floats):
                self.strs.add(repr(untok(f)))
            for s in list(self.strs):
                for fn in (int, float, complex):
                    try:
                        self.add_value(fn(s))
                    except Exception:  # noqa: BLE001
                        pass

    def emit(self, transport):
        def tf(t):
            return {"n": "FNan", "p": "(FInf false)", "m": "(FInf true)"}.get(t[0]) or "(FFin %s)" % cs(t[1])

        strs = sorted(self.strs)
        names = sorted({n for l in self.namelists for n in l})
        ident = clist([n for n in names if n.isidentifier()], lambda s: "(%s, true)" % cs(s))
        nt = clist(self.namelists, lambda l: "(%s, %s)" % (clist(l, cs), cb(namedtuple_ok(l))))
        delim = clist(sorted(self.delims), lambda d: "(%s, %s)" % (cs(d), copt(delim_err(d), lambda e: e)))
        strint = clist(sorted(self.ints), lambda z: "(%s, %s)" % (cz(z), cs(str(z))))
        strc = clist(sorted(self.cplx), lambda p: "((%s, %s), %s)" % (tf(p[0]), tf(p[1]), cs(str(complex(untok(p[0]), untok(p[1]))))))
        def parses(fn, x):
            try:
                fn(x)
                return True
            except ValueError:
                return False

        intof = clist([x for x in strs if parses(int, x)], lambda s: "(%s, %s)" % (cs(s), cres(py_oracle(int, s, lambda z: z), cz)))
        floatof = clist([x for x in strs if parses(float, x)], lambda s: "(%s, %s)" % (cs(s), cres(py_oracle(float, s, ftok), tf)))
        cplxof = clist([x for x in strs if parses(complex, x)], lambda s: "(%s, %s)" % (cs(s), cres(py_oracle(complex, s, lambda c: (ftok(c.real), ftok(c.imag))),
                                                                 lambda p: "(%s, %s)" % (tf(p[0]), tf(p[1])))))
        small = [z for z in sorted(self.ints) if abs(z) < 2 ** 62]
        zfeq = clist([(z, f) for z in small for f in sorted(self.floats) if z == untok(f)],
                     lambda p: "((%s, %s), %s)" % (cz(p[0]), tf(p[1]), cb(p[0] == untok(p[1]))))
        tr = cres(transport, lambda rows: clist(rows, lambda r: clist(r, cs)))
        return "(mkT %s %s %s %s %s %s %s %s %s %s)" % (ident, nt, delim, strint, strc, intof, floatof, cplxof, zfeq, tr)


def untok(t):
    return {"n": float("nan"), "p": float("inf"), "m": float("-inf")}.get(t[0]) if t[0] != "f" else float(t[1])


def namedtuple_ok(names):
    try:
        collections.namedtuple("Columns", list(names))
        return True
    except Exception:  # noqa: BLE001
        return False


def delim_err(d):
    try:
        csv.writer(_pyio.StringIO(), delimiter=d, lineterminator=os.linesep)
        csv.reader([], delimiter=d, skipinitialspace=True)
        return None
    except Exception as e:  # noqa: BLE001
        return exc_enum(e)


# ----------------------------------------------------------------------------------------
# decoding of the model's output
# ----------------------------------------------------------------------------------------
def unhex(x):
    return bytes.fromhex(x).decode("utf-8", "surrogatepass")


def dec_ftok(x):
    return {"n": float("nan"), "p": float("inf"), "m": float("-inf")}[x] if x in "npm" else float(unhex(x[1:]))


def dec_cell(x):
    k, r = x[0], x[1:]
    if k == "S":
        return unhex(r)
    if k == "I":
        return int(r)
    if k == "F":
        return dec_ftok(r)
    if k == "B":
        return r == "1"
    if k == "C":
        a, b = r.split("_")
        return complex(dec_ftok(a), dec_ftok(b))
    raise ValueError(x)


def dec_res(x, f):
    if x.startswith("OK"):
        return ("OK", f(x[3:]))
    return ("ERR", x[4:])


def dec_rows(x):
    if x == "":
        return []
    return [[unhex(c[1:]) for c in r.split(",")] if r else [] for r in x.split(";")]


def dec_table(x):
    names, cols = x.split("/")
    names = [unhex(n[1:]) for n in names.split(",")] if names else []
    cols = [tuple(dec_cell(c) for c in col.split(",")) if col else () for col in cols.split(";")] if cols else []
    return names, cols


def same_value(a, b):
    """exact, typed equality (NaN equals NaN, signed zeros differ)"""
    if type(a) is not type(b):
        return False
    if isinstance(a, float):
        return repr(a) == repr(b)
    if isinstance(a, complex):
        return repr(a.real) == repr(b.real) and repr(a.imag) == repr(b.imag)
    return a == b


def same_cols(a, b):
    return len(a) == len(b) and all(len(x) == len(y) and all(same_value(p, q) for p, q in zip(x, y)) for x, y in zip(a, b))


# ----------------------------------------------------------------------------------------
# the implementation
# ----------------------------------------------------------------------------------------
class Impl:
    def __init__(self, tmp):
        import pydrex.io as pio
        self.io = pio
        self.tmp = tmp
        self.n = 0
        self.last = None

    def validate(self, s):
        try:
            return ("OK", bool(self.io._validate_scsv_schema(s)))
        except Exception as e:  # noqa: BLE001
            return ("ERR", exc_enum(e))

    def split_file(self, path):
        """the line classification of read_scsv (text layer)"""
        yaml_lines, csv_lines, is_yaml = [], [], False
        with open(path) as f:
            for line in f:
                if line == "\n":
                    continue
                if line == "---\n":
                    is_yaml = not is_yaml
                    continue
                (yaml_lines if is_yaml else csv_lines).append(line)
        return yaml_lines, csv_lines

    def load_header(self, yaml_lines):
        try:
            md = yaml.safe_load(_pyio.StringIO("".join(yaml_lines)))
        except yaml.YAMLError:
            return None
        if not isinstance(md, dict) or "schema" not in md:
            raise Unmodelled("header without schema mapping")
        return md["schema"]

    def read(self, path):
        try:
            r = self.last = self.io.read_scsv(path)          # the object the caller received (sessions edit it afterwards)
            return ("OK", list(r._fields), [tuple(c) for c in r])
        except Exception as e:  # noqa: BLE001
            return ("READ-ERR", exc_enum(e), str(e)[:120])

    def roundtrip(self, s, data, comments=None, path=None):
        """-> (result, path of the file); path given: the caller writes to a file that already exists"""
        self.n += 1
        self.last = None
        path = path or os.path.join(self.tmp, f"c{self.n}.scsv")
        try:
            if comments is None:
                self.io.save_scsv(path, s, data)
            else:
                self.io.save_scsv(path, s, data, comments=comments)
        except Exception as e:  # noqa: BLE001
            return ("SAVE-ERR", exc_enum(e), str(e)[:120]), path
        return self.read(path), path


def csv_rows(csv_lines, d):
    try:
        return ("OK", list(csv.reader(csv_lines, delimiter=d, skipinitialspace=True)))
    except csv.Error:
        return ("ERR", "ECsv")
    except Exception:  # noqa: BLE001   (illegal delimiter: the model fails before it looks at the rows)
        return ("OK", [])


# ----------------------------------------------------------------------------------------
# the property, read directly on the public API (used for classification and for the search)
# ----------------------------------------------------------------------------------------
def plain(s):
    return s.strip(WS) == s and s.strip() == s and "\n" not in s and "\r" not in s


def csv_legal(d):
    return isinstance(d, str) and len(d) == 1 and d not in ' "\n\r'


def fill_value(t, f):
    return TYPEMAP[t](f)


def prop_valid_schema(s):
    if not all(k in s for k in ("delimiter", "missing", "fields")):
        return False
    d, m, fs = s["delimiter"], s["missing"], s["fields"]
    if not (csv_legal(d) and isinstance(m, str) and d not in m and plain(m) and len(fs) > 0):
        return False
    for f in fs:
        n = f.get("name")
        t = f.get("type", "string")
        if not (isinstance(n, str) and n.isidentifier() and t in TYPEMAP):
            return False
        if t not in ("string", "boolean"):
            if "fill" not in f:
                return False
        if t != "boolean":
            try:
                fill_value(t, f.get("fill", ""))
            except Exception:  # noqa: BLE001
                return False
    return True


def prop_representable(s, data):
    fs = s["fields"]
    if len(data) != len(fs) or len(data[0]) == 0 or any(len(c) != len(data[0]) for c in data):
        return False
    for f, col in zip(fs, data):
        T = TYPEMAP[f.get("type", "string")]
        for d in col:
            if type(d) is not T:
                return False
            if T is str and not (plain(d) and d != s["missing"]):
                return False
    return True


def is_nan(v):
    return isinstance(v, (float, complex)) and (cmath.isnan(v) if isinstance(v, complex) else math.isnan(v))


def expected_columns(s, data):
    out = []
    for f, col in zip(s["fields"], data):
        t = f.get("type", "string")
        if t == "boolean":
            out.append(tuple(col))
            continue
        fv = fill_value(t, f.get("fill", ""))
        out.append(tuple(fv if (d == fv or (is_nan(d) and is_nan(fv))) else d for d in col))
    return out


def out_texts(s, data):
    """the text save_scsv writes for every cell"""
    out = []
    for f, col in zip(s["fields"], data):
        t = f.get("type", "string")
        if t == "boolean":
            out.append([str(d) for d in col])
            continue
        fv = fill_value(t, f.get("fill", ""))
        out.append([s["missing"] if (d == fv or (is_nan(d) and is_nan(fv))) else str(d) for d in col])
    return out


def roundtrip_failure(s, data, r):
    """None when the observed result r is what C16 demands for a valid schema / representable data"""
    if r[0] != "OK":
        return f"{r[0]} {r[1]}: {r[2]}"
    if r[1] != [f["name"] for f in s["fields"]]:
        return f"field names {r[1]}"
    exp = expected_columns(s, data)
    if not same_cols(exp, r[2]):
        for j, (a, b) in enumerate(zip(exp, r[2])):
            for i, (p, q) in enumerate(zip(a, b)):
                if not same_value(p, q):
                    return f"column {j} row {i}: wrote {data[j][i]!r}, expected back {p!r}, read {q!r}"
        return "shape differs"
    return None


DOCUMENTED_FAULTS = ("missing_key_delimiter", "missing_key_missing", "missing_key_fields", "no_fields",
                     "name_not_identifier", "unknown_type", "numeric_without_fill", "delimiter_equals_missing",
                     "delimiter_in_missing", "unequal_column_lengths", "too_few_columns", "too_many_columns",
                     "cell_unparsable")


def yaml_special(x):
    """characters a YAML stream does not accept verbatim (not c-printable), or folds (NEL)"""
    def printable(ch):
        o = ord(ch)
        return ch in "\t\n\r" or 0x20 <= o <= 0x7e or 0xa0 <= o <= 0xd7ff or 0xe000 <= o <= 0xfffd or o >= 0x10000
    return any(not printable(ch) for ch in x)


def dash_fence_rows(d, rows):
    """rows (tuples of cell texts) whose written line is exactly '---' although the row is not ['---']"""
    return any(len(r) > 1 and model_csv_text([list(r)], d) == "---" + os.linesep for r in rows) if csv_legal(d) else False


def line_class(line):
    """how read_scsv's line loop could see a line of the csv body"""
    if line in ("\n", "---\n"):
        return "exact blank/fence"
    if line.strip() == "":
        return "white space only"
    if line.strip() == "---":
        return "strips to ---"
    if not line.endswith("\n"):
        return "no terminator"
    return "ordinary"


def delim_class(d):
    if not isinstance(d, str) or len(d) != 1:
        return "not one character"
    if d == "-":
        return "dash"
    if yaml_special(d):
        return "yaml-special"
    if d.strip() == "":
        return "ascii white space" if ord(d) < 128 else "unicode white space"
    return "other ascii" if ord(d) < 128 else "other unicode"


def marker_text_in_numeric_column(s, data):
    """a cell of the wrong type in a numeric column whose text is the missing marker (it parses as 'missing')"""
    try:
        return any(type(d) is not TYPEMAP[f["type"]] and str(d).strip() == s["missing"]
                   for f, col in zip(s["fields"], data) if f.get("type", "string") in ("integer", "float", "complex") for d in col)
    except Exception:  # noqa: BLE001
        return False


def unit_breaks_yaml(s):
    """a field whose unit, written verbatim after 'unit: ', is not loadable YAML"""
    for f in s.get("fields") or []:
        if isinstance(f, dict) and isinstance(f.get("unit"), str):
            try:
                yaml.safe_load("k:\n  - name: 'a'\n    unit: " + f["unit"] + "\n    fill: 'x'\n")
            except yaml.YAMLError:
                return True
    return False


def finding_keys(s, data):
    """every recorded finding the input carries by itself (whatever else is wrong with it): inputs that carry one which still
    reproduces on the unchanged tree are poor witnesses of a *new* failure and are tried last by the search"""
    keys = set()
    try:
        fs = s["fields"]
        texts = out_texts(s, data)
        if len(fs) == 1 and "---" in texts[0]:
            keys.add("C16:read_scsv:single-column-yaml-fence")
        if dash_fence_rows(s["delimiter"], zip(*texts)):
            keys.add("C16:read_scsv:dash-delimited-empty-row-is-fence")
        if yaml_special(s["delimiter"]) or yaml_special(s["missing"]) or any(
                yaml_special(x) for f in fs for x in (f.get("name"), f.get("fill"), f.get("unit")) if isinstance(x, str)):
            keys.add("C16:write_scsv_header:yaml-special-character")
        if not namedtuple_ok([f["name"] for f in fs]):
            keys.add("C16:read_scsv:namedtuple-rejects-identifier")
        if unit_breaks_yaml(s):
            keys.add("C16:write_scsv_header:unit-breaks-yaml")
        for f, col in zip(fs, data):
            t = f.get("type", "string")
            if t != "string" and any(str(d) == s["missing"] for d in col):
                keys.add("C16:read_scsv:number-text-equals-missing")
            if t == "string" and f.get("fill") == "NaN" and any(d == "NaN" for d in col):
                keys.add("C16:_parse_scsv_cell:string-fill-NaN")
        if marker_text_in_numeric_column(s, data):
            keys.add("C16:save_scsv:marker-text-in-numeric-column")
    except Exception:  # noqa: BLE001
        pass
    return keys


def classify(s, data, loaded):
    """which hypothesis of C16_roundtrip fails on a case the property statement covers"""
    if len(s["fields"]) == 1 and "---" in out_texts(s, data)[0]:
        return "C16:read_scsv:single-column-yaml-fence"
    if dash_fence_rows(s["delimiter"], zip(*out_texts(s, data))):
        return "C16:read_scsv:dash-delimited-empty-row-is-fence"
    if yaml_special(s["delimiter"]) or yaml_special(s["missing"]) or any(
            yaml_special(x) for f in s["fields"] for x in (f.get("name"), f.get("fill"), f.get("unit")) if isinstance(x, str)):
        return "C16:write_scsv_header:yaml-special-character"
    if loaded is None and unit_breaks_yaml(s):
        return "C16:write_scsv_header:unit-breaks-yaml"
    if loaded is None:
        return "C16:write_scsv_header:scalar-breaks-yaml"
    fs, fs2 = s["fields"], loaded.get("fields", []) if isinstance(loaded, dict) else []
    if not isinstance(loaded, dict) or loaded.get("delimiter") != s["delimiter"] or loaded.get("missing") != s["missing"] \
            or len(fs2) != len(fs):
        return "C16:write_scsv_header:scalar-breaks-yaml"
    for f, g in zip(fs, fs2):
        if not isinstance(g, dict) or g.get("name") != f["name"] or type(g.get("name")) is not str:
            return "C16:write_scsv_header:name-retyped-by-yaml"
    for f, g in zip(fs, fs2):
        t = f.get("type", "string")
        if t == "boolean":
            continue
        a = fill_value(t, f.get("fill", ""))
        f2 = g.get("fill", "")
        try:
            b = TYPEMAP[t](np.nan) if (isinstance(f2, str) and f2 == "NaN") else TYPEMAP[t](f2)
        except Exception:  # noqa: BLE001
            b = None
        if b is None or not same_value(a, b):
            if t == "string" and f.get("fill", "") == "" and "fill" in f:
                return "C16:write_scsv_header:string-fill-empty"
            if t == "string" and f.get("fill") == "NaN":
                return "C16:_parse_scsv_cell:string-fill-NaN"
            return "C16:write_scsv_header:fill-retyped-by-yaml"
    if not namedtuple_ok([f["name"] for f in fs]):
        return "C16:read_scsv:namedtuple-rejects-identifier"
    if len(fs) == 1 and "---" in out_texts(s, data)[0]:
        return "C16:read_scsv:single-column-yaml-fence"
    for f, col in zip(fs, data):
        if f.get("type", "string") != "string" and any(str(d) == s["missing"] for d in col):
            return "C16:read_scsv:number-text-equals-missing"
    return "unclassified"


# ----------------------------------------------------------------------------------------
# generator
# ----------------------------------------------------------------------------------------
NAMES_OK = ["a", "b", "col_1", "x2", "Temp", "strain", "angle", "ϕ", "名前", "é", "m_index", "T", "fabric", "study", "z9", "none"]
NAMES_HOSTILE = ["yes", "null", "on", "true", "_hidden", "class", "None"]
DELIMS = [",", ",", ",", ";", "\t", "|", ":", "/", "#", "e", "0", "¦", "→", "~", "&", "\U0001f539"]
MISSING_OK = ["-", "-", "", "NA", "N/A", "?", "--", "∅", "—", "nul", "NaN", "nan", "None", "9999", "-1", "True", "1.0", "---", "(nan+0j)", "\U0001f600", "n\U0001d4dca", "\ufeff"]
FILLS_OK = {
    "string": [None, "MISSING", "N/A", "x y", "ü", "-", "none", "a,b", "missing value", "\U0001f600", "f\U00020000g"],
    "integer": ["0", "999999", "-1", 7, "12345678901234567890", -5],
    "float": ["NaN", "nan", "0.0", "-0.0", "inf", "-inf", "1e+300", 0, 1.5, "-999.0", "2.5", -1],
    "boolean": [None, None, "True", "yes", True, False, "", "False", 0],
    "complex": ["NaN", "nan", "0j", "(1+2j)", 1.5, 0, "(inf+0j)"],
}
FILLS_HOSTILE = {
    "string": ["", "", "", "NaN", "010", "1_0", "yes", "~", "null", "1.0", "0x1F", "[", "a: b", "'"],
    "integer": ["010", "1_000", "0x10"],
    "float": ["1_0.5"],
    "complex": [],
    "boolean": [],
}
STR_CELLS = ["", "s1", "B, b", 'q"r', "x y", "ü∅", "1.0", "10", "-", "NaN", "None", "nan", "#c", "a;b|c", "it's", "e", "0",
             "true", "MISSING", "N/A", "---", "--", "(1+2j)", "名", "a\tb", "→", "~", ":", "/", "\U0001f600", "c\U0001d4dcd", "a\u2028b",
             "\ufeffx", "x\x7fy", "\U0010ffff"]
STR_CELLS_BAD = [" lead", "trail ", "\tx", "a\nb", "c\rd", "x\n"]
FLOATS = [float("nan"), float("inf"), float("-inf"), 0.0, -0.0, 1.5, 0.1, 1e22, 5e-324, 1.7976931348623157e308,
          -999.0, 2.5, 1e300, 1.0, 1e16, 123456.789, -1.0, 0.5]


def gen_cell(rng, t, f, hostile=False):
    fill = f.get("fill", "")
    r = rng.random()
    if t == "string":
        if r < 0.2:
            return str(fill)
        if hostile and r < 0.3:
            return STR_CELLS_BAD[rng.integers(len(STR_CELLS_BAD))]
        return STR_CELLS[rng.integers(len(STR_CELLS))]
    if t == "integer":
        if r < 0.2:
            try:
                return int(fill)
            except Exception:  # noqa: BLE001
                return 0
        return [0, 1, -1, 5, 10, 8, 9999, 10 ** 30, -(10 ** 19), int(rng.integers(-10 ** 6, 10 ** 6))][rng.integers(10)]
    if t == "float":
        if r < 0.2:
            try:
                return float(fill)
            except Exception:  # noqa: BLE001
                return 0.0
        if r < 0.4:
            return float(rng.standard_normal() * 10.0 ** rng.integers(-5, 6))
        return FLOATS[rng.integers(len(FLOATS))]
    if t == "boolean":
        return bool(rng.integers(2))
    if r < 0.2:
        try:
            return complex(fill)
        except Exception:  # noqa: BLE001
            return 0j
    return complex(FLOATS[rng.integers(len(FLOATS))], FLOATS[rng.integers(3, len(FLOATS))] if rng.random() < 0.9 else float("nan"))


def gen_schema(rng, hostile=0.0, nfields=None):
    k = int(nfields or rng.integers(1, 9))
    d = DELIMS[rng.integers(len(DELIMS))]
    while True:
        m = MISSING_OK[rng.integers(len(MISSING_OK))]
        if d not in m:
            break
    names = list(rng.permutation(NAMES_OK)[:k])
    fields = []
    for i in range(k):
        t = list(TYPEMAP)[rng.integers(5)]
        f = {"name": str(names[i])}
        if not (t == "string" and rng.random() < 0.3):
            f["type"] = t
        pool = FILLS_HOSTILE[t] if (rng.random() < hostile and FILLS_HOSTILE[t]) else FILLS_OK[t]
        fill = pool[rng.integers(len(pool))]
        if fill is not None:
            f["fill"] = fill
        if rng.random() < 0.2:
            f["unit"] = "percent"
        if rng.random() < hostile * 0.3:
            f["name"] = NAMES_HOSTILE[rng.integers(len(NAMES_HOSTILE))]
        fields.append(f)
    if rng.random() < hostile * 0.3:
        m = ["n'a", "5", "-"][rng.integers(3)]
    return {"delimiter": d, "missing": m, "fields": fields}


def gen_data(rng, s, nrows=None, hostile=False):
    n = int(nrows if nrows is not None else rng.integers(1, 7))
    return [[gen_cell(rng, f.get("type", "string"), f, hostile) for _ in range(n)] for f in s["fields"]]


def apply_fault(rng, kind, s, data):
    """exactly one fault on a valid schema / data set"""
    s = json.loads(json.dumps(s))
    data = [list(c) for c in data]
    fs = s["fields"]
    i = int(rng.integers(len(fs)))
    if kind == "missing_key_delimiter":
        del s["delimiter"]
    elif kind == "missing_key_missing":
        del s["missing"]
    elif kind == "missing_key_fields":
        del s["fields"]
    elif kind == "no_fields":
        s["fields"] = []
    elif kind == "name_not_identifier":
        fs[i]["name"] = ["bad name", "1abc", "", "a-b", "x.y", "é!"][rng.integers(6)]
    elif kind == "unknown_type":
        fs[i]["type"] = ["int", "Float", "str", "decimal", "bool", ""][rng.integers(6)]
    elif kind == "numeric_without_fill":
        fs[i]["type"] = ["integer", "float", "complex"][rng.integers(3)]
        fs[i].pop("fill", None)
        data[i] = [{"integer": 1, "float": 1.5, "complex": 1j}[fs[i]["type"]]] * len(data[i])
    elif kind == "delimiter_equals_missing":
        s["missing"] = s["delimiter"]
    elif kind == "delimiter_in_missing":
        s["missing"] = ["-" + s["delimiter"], s["delimiter"] + "x", "a" + s["delimiter"] + "b"][rng.integers(3)]
    elif kind == "unequal_column_lengths":
        if len(data) == 1:
            fs.append({"name": "extra_col", "type": "string"})
            data.append(["x"] * (len(data[0]) + 1))
        else:
            j = int(rng.integers(len(data)))
            data[j] = data[j] + [data[j][0]] if rng.random() < 0.5 or len(data[j]) < 2 else data[j][:-1]
    elif kind == "too_few_columns":
        if len(data) == 1:
            fs.append({"name": "extra_col", "type": "string"})
        else:
            data.pop()
    elif kind == "too_many_columns":
        data.append(["x"] * len(data[0]))
    elif kind == "cell_unparsable":
        t = ["integer", "float", "complex"][rng.integers(3)]
        fs[i]["type"] = t
        fs[i]["fill"] = {"integer": "0", "float": "NaN", "complex": "NaN"}[t]
        good = {"integer": 3, "float": 2.5, "complex": 1 + 2j}[t]
        bad = {"integer": ["abc", 0.5, True, 1 + 2j, "1.5", float("nan"), ""], "float": ["abc", True, 1 + 2j, "1,5", ""],
               "complex": ["abc", False, "1+", "j2"]}[t]
        data[i] = [good] * len(data[i])
        data[i][int(rng.integers(len(data[i])))] = bad[rng.integers(len(bad))]
    # not part of the documented list: compared with the model only
    elif kind == "long_delimiter":
        s["delimiter"] = [",,", "ab", "→→"][rng.integers(3)]
    elif kind == "empty_delimiter":
        s["delimiter"] = ""
    elif kind == "field_without_name":
        del fs[i]["name"]
    elif kind == "name_not_string":
        fs[i]["name"] = [5, None, True, 1.5][rng.integers(4)]
    elif kind == "no_data_columns":
        data = []
    elif kind == "zero_rows":
        data = [[] for _ in data]
    elif kind == "fill_not_convertible":
        t = ["integer", "float", "complex"][rng.integers(3)]
        fs[i]["type"] = t
        fs[i]["fill"] = ["abc", None, "NaN" if t == "integer" else "1,5", float("inf") if t == "integer" else "x"][rng.integers(4)]
        data[i] = [{"integer": 3, "float": 2.5, "complex": 1 + 2j}[t]] * len(data[i])
    elif kind == "accepted_wrong_kind":
        t = ["float", "complex", "string", "boolean", "integer", "float"][rng.integers(6)]
        fs[i]["type"] = t
        fs[i]["fill"] = {"float": "7.5", "complex": "NaN", "string": "x", "boolean": "", "integer": "7"}[t]
        pool = {"float": [5, 7, "5", 10 ** 30, 7.5], "complex": [5, 2.5, "1j", 7], "string": [5, 2.5, True, 1j, "x"],
                "boolean": [5, "yes", "TRUE", " true", "t", 1, 0.0, "no", 1j], "integer": ["5", "7", " 9", "1_0", "٣"]}[t]
        data[i] = [pool[rng.integers(len(pool))] for _ in data[i]]
    else:
        raise KeyError(kind)
    return s, data


EXTRA_FAULTS = ("long_delimiter", "empty_delimiter", "field_without_name", "name_not_string", "no_data_columns",
                "zero_rows", "fill_not_convertible", "accepted_wrong_kind")
FILE_FAULTS = ("file_missing_key", "file_column_renamed", "file_ragged_row", "file_unparsable_cell", "file_extra_column",
               "file_no_rows", "file_bad_type", "file_numeric_without_fill", "file_padded_cells", "file_intact")


def fence_parts(text):
    """[text before the first fence line, header block, body] of a written file; the fences are whole LINES '---' (a header
    line that merely ends in '---', e.g. a unit '---', is not a fence)"""
    lines = text.split(os.linesep)
    idx = [i for i, ln in enumerate(lines) if ln == "---"][:2]
    if len(idx) < 2:
        return [text]
    join = lambda ls: "".join(x + os.linesep for x in ls)      # noqa: E731
    return [join(lines[:idx[0]]), join(lines[idx[0] + 1:idx[1]]), os.linesep.join(lines[idx[1] + 1:])]


def split_at_second_fence(text):
    """(text before the closing fence of the header, text after it); the csv body may itself contain '---' at a line end"""
    ls = text.split("\n")
    fences = [i for i, ln in enumerate(ls) if ln == "---"]
    if len(fences) < 2:
        return tuple(text.rsplit("---\n", 1)) if "---\n" in text else (text, "")
    i2 = fences[1]
    return "\n".join(ls[:i2]) + "\n", "\n".join(ls[i2 + 1:])


def edit_file(rng, kind, text, s):
    """one edit of a file written by save_scsv (hand-edited files; read_scsv side of the property)"""
    head, body = split_at_second_fence(text)
    lines = body.split("\n")[:-1]
    d = s["delimiter"]
    if len(lines) < 2:
        return text
    if kind == "file_missing_key":
        k = ["  missing:", "  delimiter:"][rng.integers(2)]
        head = "\n".join(ln for ln in head.split("\n") if not ln.startswith(k))
    elif kind == "file_column_renamed":
        lines[0] = "renamed_" + lines[0]
    elif kind == "file_ragged_row":
        lines[-1] = lines[-1] + d + "1"
    elif kind == "file_unparsable_cell":
        lines[-1] = d.join(["@@"] * len(s["fields"]))
    elif kind == "file_extra_column":
        lines = [ln + d + "q" for ln in lines]
    elif kind == "file_no_rows":
        lines = lines[:1]
    elif kind == "file_bad_type":
        head = head.replace("type: string", "type: text", 1).replace("type: integer", "type: int", 1)
    elif kind == "file_numeric_without_fill":
        head = "\n".join(ln for ln in head.split("\n") if not ln.startswith("      fill:"))
    elif kind == "file_padded_cells":
        lines = [(d + " ").join(x + " " for x in ln.split(d)) for ln in lines]
    return head + "---\n" + "\n".join(lines) + "\n"


TERSE = ["d,m-:colA(s)colB(s:N/A:...)colC()colD(i:999999)colE(f:NaN:%)", "d,m-:a(s)", "x", "", "d", "d,m:a(s)", "d,,m-:a(s)",
         "dm-:a()", "d,m-:a", "d,m-:a(s", "d,m-:a(s)b", "d,m-:a(q)", "d,m-:a(s:1:2:3)", "d,m-:(s)()", "d,m-:a(s))",
         "d;mNA:x(f:NaN)y(i:0)", "d\tm:a(b)", "d|m--:z(c:NaN:GPa)y(b:True)", "d,mm:a(s)", "dmm-:a(s)", "d,m-:a(s:)", "d,m-:a(:x)",
         "d,m-a(s)", "d→m∅:ϕ(f:NaN)", "d,m-:a(i)", "d,m-:a(s)b(i:0)c(f)", "d,m-::a(s)", "d,m-:a(s:x:y)(", "d,m-:a()b()c()d()"]


# delimiters that are white space for str.strip (a row of empty cells is then a white-space-only line) and
# that YAML loads back; CSV-legal delimiters YAML does not load back (finding); '-' (four empty cells = '---')
WS_DELIMS = ["\t", "\t", "\t", "\t", "\xa0", "\u3000", "\u2003", "\u1680", "\u202f", "\u2028"]
CTRL_DELIMS = ["\x0b", "\x0c", "\x1c", "\x1d", "\x1e", "\x1f", "\x01", "\x7f"]     # (NEL U+0085 is folded to a space by YAML: the rows
#                are then read with another delimiter and contain NEL, which the model's ASCII strip does not cover - not generated)
BLANK_VARIANTS = ("fills_empty_marker", "empty_strings", "fence_like", "near_miss", "bool_or_number_keeps_line")
FILL_FOR = {"string": ["MISSING", "N/A", "x", "n/a"], "integer": ["0", "-1", 7], "float": ["NaN", "nan", "0.0", "inf", 1.5],
            "complex": ["NaN", "0j", "(1+2j)"]}


def typed_fill(t, fill):
    return TYPEMAP[t](fill)


def gen_blank_case(rng, variant, k=None, d=None):
    """a valid schema / representable columns with rows whose every cell is written as the empty string
    (or rows that come close): the line of such a row consists of delimiters only"""
    k = int(k or [1, 2, 2, 3, 4, 4, 5, 8][rng.integers(8)])
    if d is None:
        r = rng.random()
        d = (WS_DELIMS[rng.integers(len(WS_DELIMS))] if r < 0.6 else CTRL_DELIMS[rng.integers(len(CTRL_DELIMS))] if r < 0.68
             else "-" if r < 0.8 else [",", ";", "|", ":", "e", "0", "→"][rng.integers(7)])
    names = [str(x) for x in rng.permutation(NAMES_OK)[:k]]
    n = int(rng.integers(1, 6))
    blank = sorted(set(int(x) for x in rng.integers(0, n, size=int(rng.integers(1, 3)))))
    if rng.random() < 0.2:
        blank = list(range(n))
    if variant in ("fills_empty_marker", "near_miss", "bool_or_number_keeps_line"):
        m = "" if variant != "bool_or_number_keeps_line" or rng.random() < 0.5 else "NA"
        types = [["string", "integer", "float", "complex"][rng.integers(4)] for _ in range(k)]
    else:
        while True:
            m = ["-", "NA", "?", "∅", "nul", "--"][rng.integers(6)]
            if d not in m:
                break
        types = ["string"] * k
    fields, cols = [], []
    for name, t in zip(names, types):
        pool = FILL_FOR[t]
        f = {"name": name, "type": t, "fill": pool[rng.integers(len(pool))]}
        if t == "string" and rng.random() < 0.3:
            del f["type"]
        fields.append(f)
        col = []
        for i in range(n):
            if i in blank:
                col.append(typed_fill(t, f["fill"]) if m == "" else ("" if t == "string" else typed_fill(t, f["fill"])))
            else:
                x = gen_cell(rng, t, f)
                if t == "string" and (x == m or d in x and rng.random() < 0.5):
                    x = "s1"
                col.append(x)
        cols.append(col)
    if variant == "fence_like" and k >= 2:
        for i in blank:
            cols[0 if rng.random() < 0.5 else k - 1][i] = "---"
    if variant == "near_miss":
        for i in blank:
            j = int(rng.integers(k))
            cols[j][i] = {"string": "z", "integer": 12345, "float": 0.25, "complex": 2j}[types[j]]
    if variant == "bool_or_number_keeps_line":
        j = int(rng.integers(k))
        if rng.random() < 0.5:
            fields[j] = {"name": names[j], "type": "boolean"}
            cols[j] = [bool(rng.integers(2)) for _ in range(n)]
        elif m != "":
            pass            # non-empty marker: the row is written as markers, never blank
    s = {"delimiter": d, "missing": m, "fields": fields}
    if rng.random() < 0.5:
        cols = [tuple(c) for c in cols]        # columns as tuples instead of lists
    return s, cols, blank


FRAME_EDITS = ("intact", "blank_lines", "crlf", "ws_line_in_body", "ws_line_in_header", "fence_trailing_ws", "fence_leading_ws",
               "no_final_newline", "fence_without_newline_at_eof", "comment_block_in_body", "lone_fence_in_body",
               "row_strips_to_fence", "text_before_first_fence", "blank_lines_crlf_ws_mix")


def edit_frame(rng, kind, text, s):
    """edits of the line structure of a saved file (blank lines, fences, white space, terminators)"""
    lines = text.split("\n")[:-1]
    fences = [i for i, ln in enumerate(lines) if ln == "---"]
    if len(fences) < 2:
        return text
    f1, f2 = fences[0], fences[1]
    d = s["delimiter"]
    k = len(s["fields"])
    wsline = [" ", "\t", "  ", d * (k - 1) if k > 1 else " ", "\x0c", d * k][rng.integers(6)]
    body_at = int(rng.integers(f2 + 1, len(lines) + 1))
    tail = "\n"
    if kind == "blank_lines":
        for _ in range(int(rng.integers(1, 5))):
            lines.insert(int(rng.integers(0, len(lines) + 1)), "")
    elif kind == "crlf":
        return "\r\n".join(lines) + "\r\n"
    elif kind == "ws_line_in_body":
        lines.insert(body_at, wsline)
    elif kind == "ws_line_in_header":
        lines.insert(int(rng.integers(f1 + 1, f2 + 1)), ["  ", " ", "      "][rng.integers(3)])
    elif kind == "fence_trailing_ws":
        lines[[f1, f2][rng.integers(2)]] = "---" + [" ", "\t", "  "][rng.integers(3)]
    elif kind == "fence_leading_ws":
        lines[[f1, f2][rng.integers(2)]] = [" ", "\t"][rng.integers(2)] + "---"
    elif kind == "no_final_newline":
        tail = ""
    elif kind == "fence_without_newline_at_eof":
        lines = lines[:f2 + 1] if rng.random() < 0.5 else lines + ["---"]
        tail = ""
    elif kind == "comment_block_in_body":
        lines[body_at:body_at] = ["---", "# a second header block", "---"]
    elif kind == "lone_fence_in_body":
        lines.insert(body_at, "---")
    elif kind == "row_strips_to_fence":
        lines.insert(body_at, ["---" + d * (k - 1), d * (k - 1) + "---", "---" + d, " ---"][rng.integers(4)])
    elif kind == "text_before_first_fence":
        lines.insert(0, ["# comment", d.join(f["name"] for f in s["fields"]), " "][rng.integers(3)])
    elif kind == "blank_lines_crlf_ws_mix":
        lines.insert(body_at, "")
        lines.insert(f2 + 1, "")
        lines.append(wsline)
        return "\r\n".join(lines) + ("\r\n" if rng.random() < 0.5 else "")
    return "\n".join(lines) + tail


# ----------------------------------------------------------------------------------------
# code points of every plane / category that YAML, csv or str.strip treat specially (added after seeded change C16d)
# ----------------------------------------------------------------------------------------
UNI_FAMILIES = {
    # supplementary planes (UTF-16 surrogate pairs; 4 bytes in UTF-8)
    "astral-first-U+10000": "\U00010000", "astral-emoji-U+1F600": "\U0001f600", "astral-math-U+1D4DC": "\U0001d4dc",
    "astral-cjk-ext-b-U+20000": "\U00020000", "astral-tag-U+E0001": "\U000e0001", "astral-pua-U+F0000": "\U000f0000",
    "astral-nonchar-U+1FFFF": "\U0001ffff", "astral-last-U+10FFFF": "\U0010ffff",
    # line breaks and separators outside ASCII
    "NEL-U+0085": "\x85", "LS-U+2028": "\u2028", "PS-U+2029": "\u2029",
    # BOM, DEL, C1 controls, non-characters, specials
    "BOM-U+FEFF": "\ufeff", "DEL-U+007F": "\x7f", "C1-U+0080": "\x80", "C1-U+0090": "\x90", "C1-U+009F": "\x9f",
    "nonchar-U+FFFE": "\ufffe", "nonchar-U+FFFF": "\uffff", "nonchar-U+FDD0": "\ufdd0", "replacement-U+FFFD": "\ufffd",
    "last-before-surrogates-U+D7FF": "\ud7ff", "first-after-surrogates-U+E000": "\ue000",
    # white space / format characters of the BMP
    "NBSP-U+00A0": "\xa0", "ideographic-space-U+3000": "\u3000", "ZWJ-U+200D": "\u200d", "RLO-U+202E": "\u202e",
    "combining-U+0301": "\u0301", "soft-hyphen-U+00AD": "\xad",
    # Latin-1 / BMP letters (controls of the comparison: these always worked)
    "latin1-U+00E9": "\xe9", "cjk-U+4E2D": "\u4e2d",
    # C0 controls, NUL
    "C0-US-U+001F": "\x1f", "C0-VT-U+000B": "\x0b", "NUL-U+0000": "\x00", "tab": "\t",
    # the characters quoting is about
    "apostrophe": "'", "double-quote": '"', "backslash": "\\",
}
UNI_POSITIONS = ("delimiter", "missing-embedded", "missing-bare", "fill-embedded", "fill-bare", "cell-embedded", "cell-bare", "name")
UNITS = ["percent", "\xb5m", "m/s", "\U0001d4dc", "kg"]


def gen_unicode_cases(rng):
    """one valid schema + representable columns per (special code point, position in the schema / data)"""
    out = []
    for fam, ch in UNI_FAMILIES.items():
        ws = ch.strip() == ""
        for pos in UNI_POSITIONS:
            d, m, sfill, cell, name = ",", "-", "unknown", "s1", "label"
            if pos == "delimiter":
                # NEL is folded to a space by YAML: the file is then split at another delimiter and the cells keep the NEL,
                # which the model's ASCII strip does not cover -- the family is exercised in the other positions
                if ch in ' "\n\r' or ch == "\x85":
                    continue
                d = ch
            elif pos == "missing-embedded":
                m = "a" + ch + "b"
            elif pos == "missing-bare":
                if ws:
                    continue
                m = ch
            elif pos == "fill-embedded":
                sfill = "f" + ch + "g"
            elif pos == "fill-bare":
                if ws:
                    continue
                sfill = ch
            elif pos == "cell-embedded":
                cell = "c" + ch + "d"
            elif pos == "cell-bare":
                if ws:
                    continue
                cell = ch
            elif pos == "name":
                name = "n" + ch
                if not (name.isidentifier() and namedtuple_ok([name, "count"])):
                    continue
            if d in m or m == d or cell == m or sfill == m:
                continue
            t2 = ["integer", "float", "complex"][rng.integers(3)]
            f2 = {"integer": -1, "float": "NaN", "complex": "0j"}[t2]
            v2 = {"integer": [3, -1, 10 ** 20], "float": [1.5, float("nan"), float("-inf")], "complex": [1 + 2j, 0j, -3.5j]}[t2]
            fields = [{"name": name, "type": "string", "fill": sfill}, {"name": "count", "type": t2, "fill": f2}]
            if rng.random() < 0.4:
                fields[int(rng.integers(2))]["unit"] = UNITS[rng.integers(len(UNITS))]
            out.append({"kind": "rt", "stream": "unicode", "family": fam, "position": pos,
                        "schema": {"delimiter": d, "missing": m, "fields": fields}, "data": [["p", sfill, cell], v2],
                        "comments": ["\U0001f600 comment"] if rng.random() < 0.1 else None})
    return out


QUOTE_EXTRA = ["", "'", "''", "it's", "a''b'", "'a'", '"', "\\", "a b", " lead", "trail ", "x: y", "#", "~", "null", "010", "yes"]
UNQUOTE_TEXTS = ["'a'b'", "'a", "a'", "'a''", "'", "''", "'" * 4, "'a''b'", "'\U0001f600'", "", "'a'b"]


def yaml_single_quoted(text):
    """what PyYAML makes of a one-line scalar text that starts with an apostrophe -> ('OK', str) | ('ERR',)"""
    try:
        v = yaml.safe_load("k: " + text)
    except yaml.YAMLError:
        return ("ERR",)
    if isinstance(v, dict) and isinstance(v.get("k"), str) and text.startswith("'"):
        return ("OK", v["k"])
    return ("ERR",)


def gen_quote_cases(cases):
    """every special code point bare and embedded, the quoting corner cases, and every string scalar of the unicode stream"""
    xs = list(QUOTE_EXTRA)
    for ch in UNI_FAMILIES.values():
        xs += [ch, "a" + ch + "b", ch + "'" + ch]
    for c in cases:
        if c.get("stream") == "unicode":
            s = c["schema"]
            xs += [s["delimiter"], s["missing"]] + [f["name"] for f in s["fields"]] + \
                  [f["fill"] for f in s["fields"] if isinstance(f.get("fill"), str)]
    seen, out = set(), []
    for x in xs:
        if x not in seen:
            seen.add(x)
            out.append({"kind": "quote", "stream": "quote", "text": x})
    for t in UNQUOTE_TEXTS:
        out.append({"kind": "unquote", "stream": "quote", "text": t})
    return out


LOOKALIKES = ["True", "true", "TRUE", "T", "t", "yes", "Yes", "y", "Y", "n", "on", "off", "1", "0", "no", "False", "1.0", "1.", ".5", "nan", "NaN", "-nan", "inf",
              "-inf", "Infinity", "1e3", "1E3", "1e", "0x10", "0b1", "0o7", "1_000", "1__0", "_1", "1_", "+5", "-0", "-0.0", " 7 ",
              "\t8", "9\n", "", " ", "1j", "(1+2j)", "1+2j", "nanj", "abc", "٣", "1,5", "1 000", "--", "-", "NA"]


def gen_direct_cases(rng, scale):
    """the generated functions of coq/gen/Gen_scsv.v run directly on raw Python values (tie T: the primitives of
    Model_scsv_py.v against the real builtins), also outside the typed model"""
    cases = []

    def base():
        return {"delimiter": ",", "missing": "-", "fields": [{"name": "a", "type": "float", "fill": "NaN"}, {"name": "b"}]}
    weird = [None, [], "delimiter", 5, ["delimiter", "missing", "fields"], ("delimiter", "missing", "fields"), {},
             {"delimiter": ","}, {"delimiter": ",", "missing": "-"}, {"fields": [], "delimiter": ",", "missing": "-"}, base()]
    for key in ("delimiter", "missing"):
        for v in (5, None, True, 1.5, ["a"], ("a",), [","], {"a": 1}, {",": 1}, "", ",", "-", ",-", "ab", 1j, str):
            sch = base()
            sch[key] = v
            weird.append(sch)
    for v in (None, 5, "ab", (), ({"name": "a"},), ({"name": "a"}, {"name": "b c"}), {"name": "a"}, [None], [5], ["a"], [[("name", "a")]],
              [{}], [{"name": None}], [{"name": 5}], [{"name": ["a"]}], [{"name": True}], [{"name": 1.5}], [{"name": str}],
              [{"name": "a", "type": 5}], [{"name": "a", "type": None}], [{"name": "a", "type": ["float"]}], [{"name": "a", "type": ("float",)}],
              [{"name": "a", "type": {}}], [{"name": "a", "type": "float", "fill": None}], [{"name": "a", "type": "complex", "fill": 1j}],
              [{"name": "a", "type": "integer", "unit": "m"}], [{"type": "string", "name": "x", "fill": [1]}],
              [{"name": "a", "extra": {"k": 1}}, {"name": "bad name"}], [{"name": "a"}, {"type": "float"}],
              [{"name": "a", "type": "boolean"}, {"name": "b", "type": "Boolean"}], [{"name": "a", "type": "complex"}],
              [{"name": "a", "type": "string", "fill": 0}, {"name": "b", "type": "integer", "fill": None}, None]):
        sch = base()
        sch["fields"] = v
        weird.append(sch)
    for sch in weird:
        cases.append({"kind": "gen_validate", "stream": "gen-direct", "schema": sch})
    for k in range(30 * scale):                 # valid / single-fault schemas through the generated function as well
        sch = gen_schema(rng, nfields=int(rng.integers(1, 5)))
        if rng.random() < 0.5:
            sch, _ = apply_fault(rng, DOCUMENTED_FAULTS[rng.integers(9)], sch, gen_data(rng, sch, nrows=1))
        if rng.random() < 0.3:
            sch["fields"] = tuple(sch["fields"]) if "fields" in sch else ()
        cases.append({"kind": "gen_validate", "stream": "gen-direct", "schema": sch})
    # _parse_scsv_cell / _parse_scsv_bool on look-alike texts, every type, markers and fills of every kind
    fills = [None, "NaN", "", "abc", "0", 0, 5, 1.5, float("nan"), True, False, "0x10", "1_000", "nan", " 3 ", 1j, [1], "None", "1.0"]
    markers = ["", "-", "NA", "nan", "1", "True", None, "NaN", "0", "1.0"]
    for t in (str, int, float, bool, complex):
        for x in LOOKALIKES:
            for m in (["", "-", x.strip(), None] if scale == 1 else markers + [x.strip(), x]):
                f = fills[int(rng.integers(len(fills)))]
                cases.append({"kind": "gen_cell", "stream": "gen-direct", "func": t, "data": x, "missing": m, "fill": f})
        for f in fills:                          # every fill once, cell = marker
            cases.append({"kind": "gen_cell", "stream": "gen-direct", "func": t, "data": " - ", "missing": "-", "fill": f})
    for x in LOOKALIKES + [5, 1, 0, None, True, False, 1.0, 0.0, 1j, [1], "YES", "tRuE", " true"]:
        cases.append({"kind": "gen_bool", "stream": "gen-direct", "x": x})
    return cases


# ----------------------------------------------------------------------------------------
# streams added with the tie T of the decision logic (round 5): every CSV-legal one-character delimiter of ASCII,
# missing markers that are affixes of cell texts, fills that occur as cells of other columns, look-alike texts,
# generated terse schemas, long columns
# ----------------------------------------------------------------------------------------
def gen_delimiter_sweep(rng):
    """every ASCII character csv accepts as a delimiter (and a few it refuses), two fields, cells with and without it"""
    out = []
    for o in list(range(1, 128)) + [0xa0, 0xb7, 0x3b1, 0x2192, 0x1f539]:
        d = chr(o)
        m = "NA" if d not in "NA" else "-"
        s = {"delimiter": d, "missing": m,
             "fields": [{"name": "a", "type": "string", "fill": "zz"}, {"name": "b", "type": "float", "fill": "NaN"}]}
        cells = ["p", "zz", "q" + d + "r" if d not in " \t\n\r\x0b\x0c\x1c\x1d\x1e\x1f" else "qr", "s"]
        out.append({"kind": "rt", "stream": "delimiter-sweep", "schema": s,
                    "data": [cells, [1.5, float("nan"), 1e5, -2.0]]})
    return out


AFFIX_MARKERS = ["NA", "-", "nan", "1", "0", "--", "N/A", "None", "x", "1.0", "e", "nul", "()", "inf", "j"]


def gen_affix_cases(rng, n):
    """missing markers that are proper prefixes / suffixes / infixes of cell texts; fills that are cells of other columns"""
    out = []
    for k in range(n):
        m = AFFIX_MARKERS[k % len(AFFIX_MARKERS)]
        d = [",", ";", "|", "\t"][k % 4]
        strs = [m + "x", "x" + m, m + m, "a" + m + "b", (m[:-1] or "y"), (m[1:] or "z"), m.upper() if m.upper() != m else m + "_"]
        strs = [x for x in strs if x != m and d not in x and x.strip() == x]
        ints = [z for z in (10, 21, 100, -1, -10, 11, 101, 0, 1) if str(z) != m]
        floats = [x for x in (1.0, 10.0, 0.1, 1.5, -1.0, float("inf"), float("-inf"), float("nan"), 1e10, 0.0, -0.0) if repr(x) != m and str(x) != m]
        cplx = [c for c in (1j, 1 + 1j, complex(0, 0), complex(float("nan"), 0), complex(1, float("inf"))) if str(c) != m]
        nrows = 5
        pick = lambda pool: [pool[int(rng.integers(len(pool)))] for _ in range(nrows)]      # noqa: E731
        # fills of one column are cells of the neighbouring column of the same type
        s = {"delimiter": d, "missing": m, "fields": [
            {"name": "s1", "type": "string", "fill": strs[0]}, {"name": "s2", "type": "string", "fill": strs[-1]},
            {"name": "i1", "type": "integer", "fill": str(ints[0])}, {"name": "i2", "type": "integer", "fill": ints[1]},
            {"name": "f1", "type": "float", "fill": "NaN"}, {"name": "f2", "type": "float", "fill": repr(floats[0])},
            {"name": "c1", "type": "complex", "fill": "NaN"}, {"name": "b1", "type": "boolean"}]}
        data = [pick(strs) + [strs[-1], strs[0]], pick(strs) + [strs[0], strs[-1]],
                pick(ints) + [ints[1], ints[0]], pick(ints) + [ints[0], ints[1]],
                pick(floats) + [floats[0], float("nan")], pick(floats) + [float("nan"), floats[0]],
                pick(cplx) + [cplx[0], complex(float("nan"), 0)], [bool(rng.integers(2)) for _ in range(nrows + 2)]]
        out.append({"kind": "rt", "stream": "marker-affix", "schema": s, "data": data})
    return out


def gen_lookalike_cases(rng):
    """the texts that look like another type, as string cells / string fills / missing markers, next to the values they denote"""
    out = []
    texts = [x for x in LOOKALIKES if x.strip() == x and x != "" and "\n" not in x]
    for k in range(0, len(texts), 6):
        chunk = texts[k:k + 6]
        for m in ("-", chunk[0]):
            cells = [x for x in chunk if x != m]
            if not cells:
                continue
            s = {"delimiter": [",", ";", "\t"][k % 3], "missing": m, "fields": [
                {"name": "txt", "type": "string", "fill": cells[-1]}, {"name": "flag", "type": "boolean"},
                {"name": "n", "type": "integer", "fill": "1_000"}, {"name": "x", "type": "float", "fill": "1e3"},
                {"name": "z", "type": "complex", "fill": "1j"}]}
            n = len(cells)
            data = [cells, [bool((i + k) % 2) for i in range(n)], [[1, 0, 1000, 16, -5, 10][i % 6] for i in range(n)],
                    [[1.0, float("nan"), float("inf"), 1000.0, 0.5, -0.0][i % 6] for i in range(n)],
                    [[1j, 1 + 2j, complex(float("nan"), 0), 0j, 1j, complex(0, float("inf"))][i % 6] for i in range(n)]]
            out.append({"kind": "rt", "stream": "lookalike", "schema": s, "data": data})
    return out


TERSE_NAMES = ["a", "colA", "x_1", "T", "ϕ", "名", "_h", "class", "1a", "a b", "", "d", "m"]
TERSE_FILLS = ["", "NaN", "0", "-1", "N/A", "1e3", "x y", "a,b", "(", "m", "d", "ü", "0x10", "1_000", "True", " ", "''"]
TERSE_UNITS = ["", "%", "m/s", "GPa", "a:b", "µm", "1"]


def gen_terse_inputs(rng, n):
    """terse schema strings from the grammar d<delim>m<missing>:<name>(<type>[:<fill>[:<unit>]])... and near misses"""
    out = []
    for k in range(n):
        d = [",", ";", "\t", "|", " ", ",,", "", "→", "d", "m", ":", "(", "md"][int(rng.integers(13))] if rng.random() < 0.5 else ","
        m = ["-", "", "NA", "nan", "m", "mm", ":", "--", "∅", "(", "d", " "][int(rng.integers(12))] if rng.random() < 0.5 else "-"
        cols = []
        for j in range(int(rng.integers(0, 5))):
            name = TERSE_NAMES[int(rng.integers(len(TERSE_NAMES)))] if rng.random() < 0.4 else "c%d" % j
            t = ["s", "i", "f", "b", "c", "", "q", "S", "string", "ff"][int(rng.integers(10))] if rng.random() < 0.4 else "sifbc"[int(rng.integers(5))]
            spec = t
            if rng.random() < 0.6:
                spec += ":" + TERSE_FILLS[int(rng.integers(len(TERSE_FILLS)))]
                if rng.random() < 0.4:
                    spec += ":" + TERSE_UNITS[int(rng.integers(len(TERSE_UNITS)))]
                    if rng.random() < 0.1:
                        spec += ":extra"
            cols.append(name + "(" + spec + ")")
        text = "d" + d + "m" + m + ":" + "".join(cols)
        r = rng.random()
        if r < 0.08:
            text = text[1:]
        elif r < 0.16:
            text = text.replace(":", "", 1)
        elif r < 0.24:
            text = text + ["x", "(", ")", "()", "(s", "a(s))"][int(rng.integers(6))]
        elif r < 0.30:
            text = text.replace("(", "((", 1)
        out.append(text)
    return out


HOSTILE_UNITS = ["%", "%d", "a: b", ": x", "x: ", "[", "{", "}", ",", "'", '"x', "*", "&a", "!t", "@", "`", "-", "- x", "? x", "#c", "x #c", "|", ">",
                 "yes", "null", "1e3", "...", "---", "", " ", "[m]", "(m)", "m]", "percent", "\xb5m", "m/s", "kg m^-3", "\xb0C", "\U0001d4dc",
                 "it's", "''", "'", "a 'b' c", "\x1f", "k\x7fg", "a\x85b", "\ufffe"]     # the last four: open finding yaml-special-character, through the unit


def gen_unit_cases(rng):
    """the unit of a field is free text: every kind of YAML indicator as a unit, two fields, the unit on either"""
    out = []
    for k, u in enumerate(HOSTILE_UNITS):
        s = {"delimiter": [",", ";", "\t"][k % 3], "missing": "-", "fields": [
            {"name": "a", "type": "float", "fill": "NaN"}, {"name": "b", "type": "string", "fill": "none"}]}
        s["fields"][k % 2]["unit"] = u
        out.append({"kind": "rt", "stream": "units", "schema": s, "data": [[1.5, float("nan"), 2.5], ["p", "none", "q r"]]})
    return out


def gen_terse_roundtrips(rng, impl_parse):
    """schemas produced by parse_scsv_schema used for a round trip (string fill '' included)"""
    out = []
    for text in ["d,m-:colA(s)colB(s:N/A:...)colC()colD(i:999999)colE(f:NaN:%)", "d;mNA:x(f:NaN)y(i:0)z(c:NaN:GPa)w(b)",
                 "d\tm:name(s)count(i:-1)", "d|m--:a()b(s:x y)c(f:1e3)", "d,m-:a(s:)b(i:1_000)"]:
        try:
            s = impl_parse(text)
        except Exception:  # noqa: BLE001
            continue
        plain_cell = {"string": ["p", "q r", "s"], "integer": [1, 7, 3], "float": [1.5, float("inf"), 2.5], "boolean": [True, False, True],
                      "complex": [1j, 1 + 2j, 0j]}
        data = [plain_cell[f["type"]] + [TYPEMAP[f["type"]](f["fill"]) if f["type"] != "boolean" else True] for f in s["fields"]]
        out.append({"kind": "rt", "stream": "terse-roundtrip", "schema": s, "data": data})
    return out


# ----------------------------------------------------------------------------------------
# sessions: several round trips in ONE process (added after seeded change C16f).  The property quantifies over single
# save / read pairs, so each round trip of a session is judged on its own -- what was saved or read before must not matter.
# The caller carries between the calls: values that are equal but not the same (schemas that differ only in the
# REPRESENTATION of a scalar), the same dictionary object edited in place, the same file path written again, and the
# objects it handed over / got back, which it may edit afterwards.
# ----------------------------------------------------------------------------------------
# scalars that compare equal (==) and hash equal although they are different values: whatever looks a value up by
# equality (dict / set / functools.lru_cache key, `in`, `.index`) takes one for the other
TWINS = {
    "zero": [0, 0.0, -0.0, False],
    "one": [1, 1.0, True],
    "minus-one": [-1, -1.0],
    "seven": [7, 7.0],
    "2^53": [2 ** 53, 2.0 ** 53],
    "1e16": [10 ** 16, 1e16],
}
SESSION_TYPES = ("string", "float", "complex", "integer")
SESSION_OTHER = {"string": ["p", "q r", "s1", "ü∅"], "integer": [3, 12, -4, 10 ** 20], "float": [1.5, -2.25, float("inf"), 1e-5],
                 "complex": [1 + 2j, -3.5j, complex(2.5, float("inf"))], "boolean": [True, False, True, True]}
SESSION_VARIANTS = ("fill_twins", "marker_swap", "type_swap", "fill_swap", "same_again", "grow_shrink")
SESSION_FLAGS = ("same_object", "same_path", "scribble")


def yaml_keeps_number(fill):
    """a non-string fill is written verbatim after 'fill: '; does YAML load a number back?"""
    try:
        v = yaml.safe_load("k: %s" % (fill,))["k"]
    except Exception:  # noqa: BLE001
        return False
    return isinstance(v, (int, float)) and v == fill


def session_fill(t, fill):
    """the fill of a field of type t in a session.  EXCLUDED INPUT CLASS: an *integer* field with a *float* fill -- the float
    member of a class is replaced by the integer it denotes (integer fields run through the int / bool members only).
    Two reasons: (1) model restriction: int(<float fill>) is outside `conv` of Model_scsv (the model answers Err EUnmodelled
    for such a schema); (2) behaviour of the unchanged tree met while building this family and reported with it (docs/C16.md,
    "integer field with a float fill in exponent form"): a float that Python prints without a decimal point (1e16, 1e22:
    `fill: 1e+16`) is loaded by YAML 1.1 as a *string*, and read_scsv raises ValueError from int('1e+16') on the missing cells
    of a file save_scsv wrote without complaint.  Float / complex / string fields keep every member (1e16 included)."""
    if t == "integer" and isinstance(fill, float):
        return int(fill)
    return fill


def others_for(t, fv, n, rng):
    pool = [x for x in SESSION_OTHER[t] if not (x == fv)]
    return [pool[int(rng.integers(len(pool)))] for _ in range(n)]


def session_columns(rng, fields, n_other=2):
    """columns for `fields`: rows of cells that differ from the fill, one row of fill-valued cells (all written as the missing
    marker), one mixed row; a fill-valued cell is always IDENTICAL to the typed fill (signed zeros)"""
    cols = []
    for j, f in enumerate(fields):
        t = f.get("type", "string")
        if t == "boolean":
            cols.append([bool(rng.integers(2)) for _ in range(n_other + 2)])
            continue
        fv = fill_value(t, f.get("fill", ""))
        oth = others_for(t, fv, n_other + 1, rng)
        cols.append(oth[:n_other] + [fv] + [fv if j % 2 == 0 else oth[-1]])
    return cols


def _step(variant, s, data, **kw):
    st = {"schema": s, "data": data, "variant": variant}
    st.update(kw)
    return st


def twin_session(rng, members, types, d, m, offsets=None, with_bool=False):
    """one round trip per member of a class of equal-but-different scalars: the same fields, the same missing marker,
    the fills replaced by the next member; every file has missing cells in every column"""
    offsets = offsets or [0] * len(types)
    steps = []
    names = ["a", "b", "col_1", "x2", "Temp", "strain", "angle", "T"]
    for i in range(len(members)):
        fields = []
        for j, t in enumerate(types):
            fields.append({"name": names[j], "type": t, "fill": session_fill(t, members[(i + offsets[j]) % len(members)])})
        if with_bool:
            fields.append({"name": "flag", "type": "boolean"})
        steps.append(_step("fill_twins", {"delimiter": d, "missing": m, "fields": fields}, session_columns(rng, fields)))
    return steps


def gen_sessions(rng, scale):
    """-> list of sessions; a session is a list of steps {schema, data, variant, same_object, same_path, scribble}"""
    out = []
    delims, markers = [",", ";", "\t", "|", "~"], ["NA", "-", "n/a", "--", "", "?"]

    def flags(steps, r=None):
        r = rng.random(3) if r is None else r
        for k, st in enumerate(steps):
            st["same_object"] = bool(r[0] < 0.4 and k > 0)      # the caller edits its schema dictionary in place and passes it again
            st["same_path"] = bool(r[1] < 0.4 and k > 0)        # ... writes to the path of the previous file
            st["scribble"] = bool(r[2] < 0.4)                   # ... overwrites what it handed over and what it got back, after the call
        return steps

    # (a) equal-but-different fills: every class forwards and backwards over one field of each type (systematic) ...
    for cls, members in TWINS.items():
        out.append(flags(twin_session(rng, members, SESSION_TYPES, ",", "NA"), r=(1, 1, 1)))
        out.append(flags(twin_session(rng, members[::-1], SESSION_TYPES, ";", "-"), r=(0, 0, 1)))
    # ... and drawn: a sub-sequence of a class in any order, 1..5 fields of any types, per-field offsets, delimiters, markers
    for k in range(8 * scale):
        members = list(TWINS[list(TWINS)[int(rng.integers(len(TWINS)))]])
        members = [members[int(i)] for i in rng.permutation(len(members))[:int(rng.integers(2, len(members) + 1))]]
        nf = int(rng.integers(1, 6))
        types = [SESSION_TYPES[int(rng.integers(4))] for _ in range(nf)]
        out.append(flags(twin_session(rng, members, types, delims[int(rng.integers(len(delims)))], markers[int(rng.integers(len(markers)))],
                                      offsets=[int(x) for x in rng.integers(0, len(members), nf)], with_bool=rng.random() < 0.3)))
    # (b) the missing marker of one file is a string cell of the next and the other way round; then the first file again
    for k in range(4 * scale):
        m1, m2 = [("NA", "-"), ("n/a", "NA"), ("--", "?"), ("", "NA"), ("N/A", "n/a")][int(rng.integers(5))]
        d = delims[int(rng.integers(len(delims)))]
        fields = [{"name": "label", "type": "string", "fill": "none"}, {"name": "x", "type": "float", "fill": ["NaN", 1.5, "inf"][int(rng.integers(3))]},
                  {"name": "n", "type": "integer", "fill": ["0", 7][int(rng.integers(2))]}]
        steps = []
        for m, other in ((m1, m2), (m2, m1), (m1, m2)):
            cols = session_columns(rng, fields)
            cols[0][0] = other if other != "" else "p"
            steps.append(_step("marker_swap", {"delimiter": d, "missing": m, "fields": copy.deepcopy(fields)}, cols))
        out.append(flags(steps))
    # (c) the same field name and the same cell texts under another declared type
    typed = {"string": ["1", "0", "10", "0"], "integer": [1, 0, 10, 0], "float": [1.0, 0.0, 10.0, 0.0], "boolean": [True, False, True, False],
             "complex": [1 + 0j, 0j, 10 + 0j, 0j]}
    for k in range(3 * scale):
        order = [list(typed)[int(i)] for i in rng.permutation(5)]
        d, m = delims[int(rng.integers(len(delims)))], ["NA", "-", "n/a"][int(rng.integers(3))]
        steps = []
        for t in order:
            fx = {"name": "x", "type": t}
            if t != "boolean":
                fx["fill"] = "0"
            steps.append(_step("type_swap", {"delimiter": d, "missing": m, "fields": [fx, {"name": "k", "type": "integer", "fill": -1}]},
                               [list(typed[t]), [5, -1, 6, 7]]))
        out.append(flags(steps))
    # (d) the fill of one file is an ordinary cell of the next and the other way round
    pairs = {"string": [("none", "n.a."), ("x y", "MISSING")], "float": [(1.5, -2.25), ("NaN", "inf"), ("0.0", 1e-5)],
             "integer": [("0", 7), (-1, "999999")], "complex": [("NaN", "(1+2j)"), ("0j", 1.5)]}
    for k in range(4 * scale):
        nf = int(rng.integers(1, 5))
        types = [SESSION_TYPES[int(rng.integers(4))] for _ in range(nf)]
        pick = [pairs[t][int(rng.integers(len(pairs[t])))] for t in types]
        d, m = delims[int(rng.integers(len(delims)))], markers[int(rng.integers(len(markers)))]
        steps = []
        for side in (0, 1, 0):
            fields = [{"name": "c%d" % j, "type": t, "fill": pick[j][side]} for j, t in enumerate(types)]
            cols = []
            for j, t in enumerate(types):
                a, b = fill_value(t, pick[j][0]), fill_value(t, pick[j][1])
                cols.append([a, b, [x for x in SESSION_OTHER[t] if not (x == a) and not (x == b)][0], b, a])
            steps.append(_step("fill_swap", {"delimiter": d, "missing": m, "fields": fields}, cols))
        out.append(flags(steps))
    # (e) the very same schema and columns three times
    for k in range(3 * scale):
        while True:
            s = gen_schema(rng, nfields=int(rng.integers(1, 5)))
            data = gen_data(rng, s, nrows=int(rng.integers(1, 5)))
            if s["delimiter"] != "-" and not finding_keys(s, data) and prop_valid_schema(s) and prop_representable(s, data):
                break
        out.append(flags([_step("same_again", copy.deepcopy(s), copy.deepcopy(data)) for _ in range(3)]))
    # (f) one path written three times, with fewer and with more rows than the file it replaces
    for k in range(3 * scale):
        d, m = delims[int(rng.integers(len(delims)))], markers[int(rng.integers(len(markers)))]
        fields = [{"name": "label", "type": "string", "fill": "none"}, {"name": "x", "type": "float", "fill": "NaN"},
                  {"name": "n", "type": "integer", "fill": 0}][:int(rng.integers(1, 4))]
        steps = [_step("grow_shrink", {"delimiter": d, "missing": m, "fields": copy.deepcopy(fields)}, session_columns(rng, fields, n_other=n))
                 for n in [(4, 0, 6), (1, 5, 0), (6, 3, 1)][k % 3]]
        steps = flags(steps)
        for st in steps[1:]:
            st["same_path"] = True
        out.append(steps)
    return out


def _scribble(o):
    """overwrite every mutable container reachable from o"""
    if isinstance(o, dict):
        for k in list(o):
            if isinstance(o[k], (dict, list)):
                _scribble(o[k])
            else:
                o[k] = "scribbled"
    elif isinstance(o, list):
        for i, x in enumerate(o):
            if isinstance(x, (dict, list)):
                _scribble(x)
            else:
                o[i] = "scribbled"


def typed_snapshot(s, data):
    return (json.dumps(s, sort_keys=True, default=repr), repr(data))


class Session:
    """what a caller carries from one round trip to the next in one process"""

    def __init__(self, impl):
        self.impl, self.obj, self.path = impl, None, None

    def begin(self, st):
        """-> (schema object, columns, path or None) to call save_scsv with"""
        s = copy.deepcopy(st["schema"])
        data = [type(col)(col) if isinstance(col, (list, tuple)) else col for col in st["data"]]
        if st.get("same_object") and isinstance(self.obj, dict) and isinstance(s, dict):
            self.obj.clear()
            self.obj.update(s)
            s = self.obj
        self.obj = s
        return s, data, (self.path if st.get("same_path") else None)

    def end(self, st, s, data, path):
        self.path = path
        if st.get("scribble"):
            _scribble(data)
            _scribble(s)
            _scribble(getattr(self.impl.last, "_schema", None))

    def run(self, st):
        """-> (result, text of the written file or None, the caller's objects were modified by the calls)"""
        s, data, path = self.begin(st)
        before = typed_snapshot(s, data)
        r, path = self.impl.roundtrip(s, data, st.get("comments"), path=path)
        mutated = before != typed_snapshot(s, data)
        text = None
        if r[0] != "SAVE-ERR" and os.path.exists(path):
            try:
                text = open(path, newline="").read().replace("\r\n", "\n")
            except Exception:  # noqa: BLE001
                text = None
        self.end(st, s, data, path)
        return r, text, mutated


def session_failures(impl, steps):
    """the property oracle on every round trip of a session run in this process, in order -> [(None, text)]"""
    sess, out = Session(impl), []
    for i, st in enumerate(steps):
        r, text, _ = sess.run(st)
        for k, t in judge(st["schema"], st["data"], r, text, st.get("fault")):
            out.append((k, f"round trip {i + 1} of {len(steps)}: {t}"))
    return out


def encode_session(steps):
    return {"session": [dict(encode_case(st), variant=st.get("variant"), **{k: bool(st.get(k)) for k in SESSION_FLAGS}) for st in steps]}


def decode_session(d):
    steps = []
    for e in d["session"]:
        s, data, fault = decode_case(e)
        steps.append(dict({"schema": s, "data": data, "fault": fault, "variant": e.get("variant")}, **{k: bool(e.get(k)) for k in SESSION_FLAGS}))
    return steps


def fresh_process_failures(inp):
    """the replay of `inp` (a case or a session) in a NEW process: what an earlier call of this process left behind (caches,
    module state, files) is not there.  -> list of failure texts (empty: the input does not fail by itself)"""
    d = os.path.join(common.BUILD, "cases")
    os.makedirs(d, exist_ok=True)
    path = os.path.join(d, f"C16_candidate_{os.getpid()}.json")
    with open(path, "w") as f:
        json.dump({"kind": "property-violation", "input": inp}, f, default=str)
    try:
        p = subprocess.run([sys.executable, os.path.join(common.VERIF, "harness", "main.py"), "C16", "--replay", path],
                           stdout=subprocess.PIPE, stderr=subprocess.STDOUT, text=True, timeout=600)
    except Exception:  # noqa: BLE001
        return []
    finally:
        try:
            os.unlink(path)
        except OSError:
            pass
    fails = [ln[len("still fails: "):] for ln in p.stdout.splitlines() if ln.startswith("still fails: ")]
    return fails if p.returncode == 1 else []


def restrict_session(steps, col):
    """the session with only the field / column number col of every round trip"""
    out = []
    for st in steps:
        s = dict(st["schema"], fields=[st["schema"]["fields"][col]])
        out.append(dict(st, schema=s, data=[st["data"][col]]))
    return out


def shrink_session(steps, fails):
    """fewer round trips, one column, no caller-side edits -- every reduction is confirmed in a fresh process"""
    best, best_fails, runs = steps, fails, 0
    m = re.match(r"round trip (\d+) of", fails[0])
    j = int(m.group(1)) - 1 if m else len(steps) - 1
    for cand in [[steps[j]]] + [[steps[i], steps[j]] for i in range(j - 1, -1, -1)]:
        if len(cand) >= len(best) or runs >= 5:
            break
        runs += 1
        f = fresh_process_failures(encode_session(cand))
        if f:
            best, best_fails = cand, f
            break
    m = re.search(r"column (\d+) row", best_fails[0])
    if m and len(best[0]["schema"]["fields"]) > 1:
        try:
            cand = restrict_session(best, int(m.group(1)))
            f = fresh_process_failures(encode_session(cand))
            if f:
                best, best_fails = cand, f
        except Exception:  # noqa: BLE001
            pass
    if any(st.get(k) for st in best for k in SESSION_FLAGS):
        cand = [dict(st, **{k: False for k in SESSION_FLAGS}) for st in best]
        f = fresh_process_failures(encode_session(cand))
        if f:
            best, best_fails = cand, f
    return best, best_fails


def gen_cases(chk, tier):
    rng = np.random.default_rng(chk.seed)
    scale = 1 if tier == "quick" else 6
    cases = []
    # (1) valid schemas, mostly representable columns
    for k in range(240 * scale):
        s = gen_schema(rng, hostile=0.0)
        cases.append({"kind": "rt", "stream": "valid", "schema": s, "data": gen_data(rng, s)})
    # every field count, every type, long columns
    for k in range(1, 9):
        for t in TYPEMAP:
            s = gen_schema(rng, nfields=k)
            s["fields"][0]["type"] = t
            s["fields"][0]["fill"] = {"string": "MISSING", "integer": "0", "float": "NaN", "boolean": "", "complex": "NaN"}[t]
            cases.append({"kind": "rt", "stream": "valid", "schema": s,
                          "data": gen_data(rng, s, nrows=int(rng.integers(1, 4)))})
    for n in ((40,) if tier == "quick" else (40, 400, 3000)):
        s = gen_schema(rng, nfields=5)
        cases.append({"kind": "rt", "stream": "valid-long", "schema": s, "data": gen_data(rng, s, nrows=n)})
    # (2) the same with cells outside the representable domain (white space, line breaks)
    for k in range(40 * scale):
        s = gen_schema(rng, hostile=0.0)
        cases.append({"kind": "rt", "stream": "unrepresentable-cells", "schema": s, "data": gen_data(rng, s, hostile=True)})
    # (3) header-hostile scalars (open findings live here)
    for k in range(60 * scale):
        s = gen_schema(rng, hostile=0.5, nfields=int(rng.integers(1, 4)))
        cases.append({"kind": "rt", "stream": "hostile-header", "schema": s, "data": gen_data(rng, s)})
    for key, (_, s, data, _) in KNOWN.items():
        cases.append({"kind": "rt", "stream": "finding-witness", "schema": s, "data": data, "witness": key})
    # (4) exactly one fault per case
    for kind in DOCUMENTED_FAULTS + EXTRA_FAULTS:
        for k in range((8 if kind in DOCUMENTED_FAULTS else 5) * scale):
            s = gen_schema(rng, nfields=int(rng.integers(1, 6)))
            data = gen_data(rng, s, nrows=int(rng.integers(1, 5)))
            s2, d2 = apply_fault(rng, kind, s, data)
            cases.append({"kind": "rt", "stream": "fault", "fault": kind, "schema": s2, "data": d2})
    # (4b) every unparsable-cell kind once per run, systematically (cells whose Python type is a
    #      subclass of the declared type's class -- a bool in an integer column -- included)
    BAD = {"integer": ["abc", 0.5, True, False, 1 + 2j, "1.5", float("nan"), ""],
           "float": ["abc", True, 1 + 2j, "1,5", ""], "complex": ["abc", False, "1+", "j2"]}
    GOOD = {"integer": 3, "float": 2.5, "complex": 1 + 2j}
    for t, bads in BAD.items():
        for bad in bads:
            for fill in ({"integer": "0", "float": "NaN", "complex": "NaN"}[t], {"integer": "1", "float": "1.0", "complex": "1j"}[t]):
                s = {"delimiter": ",", "missing": "-", "fields": [{"name": "a", "type": t, "fill": fill},
                                                                   {"name": "b", "type": "string", "fill": "x"}]}
                cases.append({"kind": "rt", "stream": "fault", "fault": "cell_unparsable", "schema": s,
                              "data": [[GOOD[t], bad, GOOD[t]], ["p", "q", "r"]]})
    # (5) edited files
    for kind in FILE_FAULTS:
        for k in range(4 * scale):
            s = gen_schema(rng, nfields=int(rng.integers(1, 5)))
            s["delimiter"] = [",", ";", "|"][rng.integers(3)]
            if s["delimiter"] in s["missing"]:
                s["missing"] = "-"
            cases.append({"kind": "file", "stream": "file", "fault": kind, "schema": s,
                          "data": gen_data(rng, s, nrows=int(rng.integers(1, 4))), "r": int(rng.integers(1 << 30))})
    # (6) terse schemas
    for t in TERSE:
        cases.append({"kind": "terse", "stream": "terse", "text": t})
    # (7) rows that are written as delimiters only (every cell the empty string) or nearly so, over white-space
    #     delimiters (ASCII / Unicode), '-', control characters and ordinary ones; each saved file is also read
    #     through the model of the line loop (kind "file", framed)
    blank = []
    for variant in BLANK_VARIANTS:
        for k in range({"fills_empty_marker": 14, "empty_strings": 10, "fence_like": 6, "near_miss": 5,
                        "bool_or_number_keeps_line": 5}[variant] * scale):
            s, data, rows = gen_blank_case(rng, variant)
            blank.append((variant, s, data))
    for kk in (2, 4):                      # every white-space delimiter once; '-' with 3, 4, 5 columns
        for d in sorted(set(WS_DELIMS)):
            blank.append(("fills_empty_marker",) + gen_blank_case(rng, "fills_empty_marker", k=kk, d=d)[:2])
    for kk in (3, 4, 5):
        blank.append(("empty_strings",) + gen_blank_case(rng, "empty_strings", k=kk, d="-")[:2])
    for variant, s, data in blank:
        cases.append({"kind": "rt", "stream": "blank-rows", "variant": variant, "schema": s, "data": data})
    for variant, s, data in blank[::2]:
        cases.append({"kind": "file", "stream": "frame", "framed": True, "fault": "frame_intact", "schema": s, "data": data,
                      "r": int(rng.integers(1 << 30))})
    # (8) the line structure of a saved file, edited
    for kind in FRAME_EDITS[1:]:
        for k in range(3 * scale):
            if rng.random() < 0.5:
                s, data, _ = gen_blank_case(rng, BLANK_VARIANTS[rng.integers(2)], k=int(rng.integers(1, 4)),
                                            d=["\t", "\t", "\xa0", ",", ";"][rng.integers(5)])
            else:
                s = gen_schema(rng, nfields=int(rng.integers(1, 4)))
                s["delimiter"] = [",", ";", "|", "\t"][rng.integers(4)]
                if s["delimiter"] in s["missing"]:
                    s["missing"] = "-"
                data = gen_data(rng, s, nrows=int(rng.integers(1, 4)))
            cases.append({"kind": "file", "stream": "frame", "framed": True, "fault": "frame_" + kind, "schema": s, "data": data,
                          "r": int(rng.integers(1 << 30)), "comments": ["written by the check", "second: line"] if k == 0 else None})
    # (9) special code points of every plane in every position of the schema / data; the quoting function itself
    uni = gen_unicode_cases(rng)
    cases += uni
    cases += gen_quote_cases(uni)
    # (10) the generated functions directly (tie T), look-alike cell texts
    cases += gen_direct_cases(rng, scale)
    # (11) every ASCII delimiter; missing markers that are affixes of cell texts / fills that are cells of the neighbouring
    #      column; look-alike texts as string cells, fills and markers; generated terse schemas; 1e4 rows (thorough)
    rng2 = np.random.default_rng(chk.seed + 11)
    cases += gen_delimiter_sweep(rng2)
    cases += gen_affix_cases(rng2, 30 * scale)
    cases += gen_lookalike_cases(rng2)
    cases += gen_unit_cases(rng2)
    for t in gen_terse_inputs(rng2, 70 * scale):
        cases.append({"kind": "terse", "stream": "terse-generated", "text": t})
    if tier != "quick":
        s = {"delimiter": ",", "missing": "-", "fields": [{"name": "n", "type": "integer", "fill": "0"},
                                                            {"name": "label", "type": "string", "fill": "none"}]}
        n = 10000
        cases.append({"kind": "rt", "stream": "valid-long", "schema": s,
                      "data": [[int(x) for x in rng2.integers(0, 50, n)], [["a", "none", "b c", "x,y", "-x"][int(x)] for x in rng2.integers(0, 5, n)]]})
    # state between calls: every 8th round trip is run twice
    for i, c in enumerate(cases):
        if c["kind"] == "rt" and i % 8 == 0:
            c["repeat"] = True
    # (12) sessions: consecutive round trips of one process whose schemas are equal-but-different (fills 0 / 0.0 / -0.0 / False ...),
    #      swap markers / types / fills, repeat, or overwrite one path; each step is an ordinary round-trip case, run in this order
    for sid, steps in enumerate(gen_sessions(np.random.default_rng(chk.seed + 16), scale)):
        for k, st in enumerate(steps):
            cases.append(dict(st, kind="rt", stream="session", session=sid, step=k, session_steps=steps))
    return cases


# ----------------------------------------------------------------------------------------
# running a batch: implementation first (it provides the oracle values), then coqc
# ----------------------------------------------------------------------------------------
def prepare(impl, c):
    """runs the implementation on case c, fills c['impl'...] and returns the Coq term, or None"""
    T = Tables()
    if c["kind"] == "terse":
        try:
            c["impl"] = ("OK", impl.io.parse_scsv_schema(c["text"]))
        except Exception as e:  # noqa: BLE001
            c["impl"] = ("ERR", exc_enum(e))
        if not GEN_ENTRY:
            return "(run_terse %s)" % cs(c["text"])
        return "(run_terse2 %s %s)" % (Tables().emit(("OK", [])), cs(c["text"]))
    if c["kind"] in ("gen_validate", "gen_cell", "gen_bool"):
        if c["kind"] == "gen_validate":
            c["impl"] = impl.validate(c["schema"])
            vals = [c["schema"]]
        elif c["kind"] == "gen_cell":
            try:
                c["impl"] = ("OK", impl.io._parse_scsv_cell(c["func"], c["data"], missingstr=c["missing"], fillval=c["fill"]))
            except Exception as e:  # noqa: BLE001
                c["impl"] = ("ERR", exc_enum(e))
            vals = [c["data"], c["missing"], c["fill"]]
        else:
            try:
                c["impl"] = ("OK", impl.io._parse_scsv_bool(c["x"]))
            except Exception as e:  # noqa: BLE001
                c["impl"] = ("ERR", exc_enum(e))
            vals = [c["x"]]
        names = []
        for v in walk_values(vals):
            if isinstance(v, (str, int, float, complex)) or v is None:
                T.add_value(v)
                if isinstance(v, str):
                    names.append(v)
                elif not isinstance(v, bool) and v is not None:
                    T.add_value(str(v))
        T.namelists.append(names)
        T.close()
        c["strings"] = set(T.strs)
        tbl = T.emit(("OK", []))
        if c["kind"] == "gen_validate":
            return "(run_gen_validate %s %s)" % (tbl, cpy(c["schema"]))
        if c["kind"] == "gen_cell":
            return "(run_gen_cell %s %s %s %s %s)" % (tbl, cpy(c["func"]), cpy(c["data"]), cpy(c["missing"]), cpy(c["fill"]))
        return "(run_gen_bool %s %s)" % (tbl, cpy(c["x"]))
    if c["kind"] == "quote":
        x = c["text"]
        try:
            qd = impl.io._yaml_quote(x)
            c["impl"] = ("OK", qd, yaml_single_quoted(qd) if isinstance(qd, str) else ("ERR",))
        except Exception as e:  # noqa: BLE001
            c["impl"] = ("ERR", exc_enum(e))
        return "(run_quote %s)" % cs(x)
    if c["kind"] == "unquote":
        c["impl"] = yaml_single_quoted(c["text"])
        return "(run_unquote %s)" % cs(c["text"])
    s, data = c["schema"], c["data"]
    c["impl_validate"] = impl.validate(s)
    sess, live_s, live_data, at = None, s, data, None
    if c.get("session") is not None:          # the caller's objects of this step (a dictionary edited in place, a path written before)
        sess = _LIVE.setdefault((id(impl), c["session"]), Session(impl))
        live_s, live_data, at = sess.begin(c)
    before = typed_snapshot(live_s, live_data)
    r, path = impl.roundtrip(live_s, live_data, c.get("comments"), path=at)
    c["impl"] = r
    c["text"] = None
    # the calls leave the caller's schema and columns alone; a second call gives the same result
    c["inputs_mutated"] = before != typed_snapshot(live_s, live_data)
    c["repeat_differs"] = None
    if c["kind"] == "rt" and c.get("repeat"):
        r2, path2 = impl.roundtrip(s, data)
        c["repeat_differs"] = not (r2[:2] == r[:2] and (r[0] != "OK" or same_cols(r[2], r2[2])))
        if os.path.exists(path2):
            os.unlink(path2)
    loaded, rows = None, ("OK", [])
    lines = yl = cl = None
    if r[0] != "SAVE-ERR":
        if c["kind"] == "file":
            text = open(path).read()
            if c.get("framed"):
                text = edit_frame(np.random.default_rng(c["r"]), c["fault"][len("frame_"):], text, s)
            else:
                text = edit_file(np.random.default_rng(c["r"]), c["fault"], text, s)
            with open(path, "w", newline="" if c.get("framed") else None) as f:
                f.write(text)
            c["edited_text"] = text
            c["base_ok"] = r[0] == "OK"
            c["impl"] = impl.read(path)
        c["text"] = open(path, newline="").read()
        with open(path) as f:                       # the io layer: the lines iterating the text-mode file yields
            lines = list(f)
        yl, cl = impl.split_file(path)
        loaded = impl.load_header(yl)
        d = loaded.get("delimiter") if isinstance(loaded, dict) and isinstance(loaded.get("delimiter"), str) else s.get("delimiter", ",")
        rows = csv_rows(cl, d)
        c["rows"] = rows
    c["loaded"] = loaded
    if sess is not None:
        sess.end(c, live_s, live_data, path)      # (the files of a session stay until the run ends: a later step may write the path again)
    elif os.path.exists(path):
        os.unlink(path)
    # oracle tables
    for sch in (s, loaded if isinstance(loaded, dict) else {}):
        for k in ("delimiter", "missing"):
            if isinstance(sch.get(k), str):
                T.strs.add(sch[k])
        if isinstance(sch.get("delimiter"), str):
            T.delims.add(sch["delimiter"])
        fl = sch.get("fields") if isinstance(sch.get("fields"), list) else []
        for f in fl:
            if isinstance(f, dict):
                T.add_value(f.get("name"))
                T.add_value(f.get("fill"))
        T.namelists.append([f.get("name") if isinstance(f, dict) and isinstance(f.get("name"), str) else "" for f in fl])
    for col in data:
        for d in col:
            T.add_value(d)
            T.add_value(str(d))
    if rows[0] == "OK":
        for row in rows[1]:
            for x in row:
                T.add_value(x)
    T.close()
    c["strings"] = T.strs
    # the delimiter itself is never stripped by the code under study (cells cannot contain it unquoted)
    c["never_stripped"] = {sch["delimiter"] for sch in (s, loaded if isinstance(loaded, dict) else {})
                           if isinstance(sch.get("delimiter"), str)} - T.values
    y = "YFail" if (loaded is None and r[0] != "SAVE-ERR") else ("(YLoaded %s)" % cschema(loaded if loaded is not None else s))
    tbl = T.emit(rows)
    if c["kind"] == "file" and c.get("framed"):
        if lines is None:
            raise Unmodelled("no file was written")
        c["lines"] = lines
        return "(run_file %s %s [(%s, %s)] [(%s, %s)])" % (
            tbl, clist(lines, cs), clist(yl, cs), y, clist(cl, cs), cres(rows, lambda rr: clist(rr, lambda r_: clist(r_, cs))))
    if c["kind"] == "file":
        return "(run_read %s %s)" % (tbl, y)
    fl = s.get("fields") if isinstance(s.get("fields"), list) else []
    units = [f.get("unit") if isinstance(f, dict) and isinstance(f.get("unit"), str) else None for f in fl]
    return "(run_rt_h %s %s %s %s %s %s)" % (tbl, cschema(s), y, clist(data, lambda col: clist(col, ccell)),
                                               clist(c.get("comments") or [], cs), clist(units, lambda u: copt(u, cs)))


_LIVE = {}              # (implementation object, session number) -> Session: the caller's state between the steps of a session
GEN_ENTRY = True        # Entry_scsv_gen.vo is up to date (False: the translator failed closed; the generated functions are not run)


def run_coq(terms, tag):
    """terms: list of Coq terms of type string -> list of output strings (one per term)"""
    d = os.path.join(common.BUILD, "cases")
    os.makedirs(d, exist_ok=True)
    outs = []
    paths = []
    for k in range(0, len(terms), 250):
        path = os.path.join(d, f"C16_{tag}_{k // 250}.v")
        with open(path, "w") as f:
            f.write("From Coq Require Import String List ZArith.\nFrom PV Require Import Model_scsv Entry_scsv.\n"
                    + ("From PV Require Import Model_scsv_py Entry_scsv_gen.\n" if GEN_ENTRY else "")
                    + "Import ListNotations.\nOpen Scope string_scope.\n")
            f.write(pool_definitions(terms[k:k + 250]))
            for t in terms[k:k + 250]:
                f.write("Eval vm_compute in %s.\n" % t)
        paths.append((path, len(terms[k:k + 250])))
    for g in range(0, len(paths), 4):            # at most 4 coqc at a time; long columns need a deep stack
        procs = [(path, n, subprocess.Popen(
            ["bash", "-c", f"ulimit -s unlimited 2>/dev/null || ulimit -s 1000000; exec timeout 1500 coqc -noglob -Q {common.COQ} PV {path}"],
            cwd=d, stdout=subprocess.PIPE, stderr=subprocess.STDOUT, text=True)) for path, n in paths[g:g + 4]]
        for path, n, p in procs:
            out, _ = p.communicate()
            got = re.findall(r'=\s*"([^"]*)"\s*:\s*string', out)
            if p.returncode != 0 or len(got) != n:
                raise RuntimeError(f"coqc on {path}: rc={p.returncode}, {len(got)} results for {n} cases\n{out[-1500:]}")
            outs += got
    return outs


def parse_out(o):
    if o.startswith("T:"):
        return {"T": o[2:]}
    if o.startswith("G:"):
        return {"G": o[2:]}
    return dict(p.split(":", 1) for p in o.split("|"))


def model_csv_text(rows, d):
    buf = _pyio.StringIO()
    w = csv.writer(buf, delimiter=d, lineterminator=os.linesep)
    for r in rows:
        w.writerow(r)
    return buf.getvalue()


def to_enum(r):
    """implementation result -> ('OK', names, cols) | ('ERR', enum)"""
    return r if r[0] == "OK" else ("ERR", r[1])


def schema_to_show(s):
    def sy(v):
        if v is None:
            return "N"
        if isinstance(v, bool):
            return "B1" if v else "B0"
        return "S" + v.encode().hex()
    return "S%s|S%s|%s" % (s["delimiter"].encode().hex(), s["missing"].encode().hex(),
                           ";".join("%s:S%s:%s" % (sy(f["name"]), f["type"].encode().hex(), sy(f["fill"])) for f in s["fields"]))


def file_expect_scsv(c):
    """edited files on which C16 demands the SCSV error from read_scsv"""
    k, t = c.get("fault"), c.get("edited_text") or ""
    if not c.get("base_ok"):
        return False
    if k in ("file_missing_key", "file_column_renamed"):
        return t != "" and len(split_at_second_fence(t)[1].split("\n")) > 2
    if k == "file_numeric_without_fill":
        return any(f.get("type") in ("integer", "float", "complex") for f in c["schema"]["fields"])
    if k == "file_bad_type":
        return "type: text" in t or "type: int\n" in t
    return False


def oracle_file(impl, text):
    impl.n += 1
    path = os.path.join(impl.tmp, f"f{impl.n}.scsv")
    with open(path, "w") as f:
        f.write(text)
    r = impl.read(path)
    os.unlink(path)
    if r[0] == "READ-ERR" and r[1] == "SCSV":
        return []
    return [(None, f"read_scsv on a file whose header / header row violates the documented constraints did not raise SCSVError: {r[:2]}")]


def compare(chk, cases, outs):
    """-> (disagreements, finding hits {key: [case]}, unclassified property failures)"""
    bad, hits, unclassified = [], {}, []
    H = chk.cov.setdefault("histogram", {})

    def count(name, key):
        h = H.setdefault(name, {})
        h[str(key)] = h.get(str(key), 0) + 1

    for c, o in zip(cases, outs):
        count("stream", c["stream"])
        m = parse_out(o)
        c["model"] = o if len(o) < 400 else o[:400] + "..."
        if c["kind"] == "terse":
            r = c["impl"]
            exp = "OK " + schema_to_show(r[1]) if r[0] == "OK" else "ERR " + r[1]
            parts_t = m["T"].split("#")
            if parts_t[0] == "ERR EUnmodelled":
                # non-ASCII text before the first ':' : str.find counts code points, the model's strings are UTF-8 bytes; the
                # model gives no answer (Model_scsv.ascii_prefix) and neither does the generated parser (py_find)
                count("terse_result", "outside the model (non-ASCII before the first colon)")
                chk.note_case(("terse", c["text"]), nontrivial=False, sample=None)
                if GEN_ENTRY and (len(parts_t) < 2 or parts_t[1] != "T:ERR EUnmodelled"):
                    bad.append((c, f"parse_scsv_schema({c['text']!r}): model outside its domain, generated parser {parts_t[1:]}"))
                if any(ord(ch) > 127 for ch in c["text"].split(":")[0]) is False:
                    bad.append((c, f"parse_scsv_schema({c['text']!r}): the model answers EUnmodelled on a text that is ASCII up to the first colon"))
                continue
            count("terse_result", exp[:3])
            chk.note_case(("terse", c["text"]), nontrivial=True, sample={"terse": c["text"], "impl": exp[:80], "model": parts_t[0][:80]})
            if parts_t[0] != exp:
                bad.append((c, f"parse_scsv_schema({c['text']!r}): implementation {exp}, model {parts_t[0]}"))
            # the generated parser (tie T), units included
            if not GEN_ENTRY:
                continue
            if len(parts_t) < 2 or parts_t[1] != "T:" + exp:
                bad.append((c, f"parse_scsv_schema({c['text']!r}): implementation {exp}, generated parser {parts_t[1:]}"))
            elif r[0] == "OK":
                units = ";".join("S" + f["unit"].encode().hex() if "unit" in f else "-" for f in r[1]["fields"])
                if len(parts_t) < 3 or parts_t[2] != "U:" + units:
                    bad.append((c, f"parse_scsv_schema({c['text']!r}): units {units}, generated parser {parts_t[2:]}"))
            continue
        if c["kind"] in ("gen_validate", "gen_cell", "gen_bool"):
            r, g = c["impl"], m["G"]
            count("gen_direct_kind", c["kind"])
            key = (c["kind"], repr(c.get("schema")), repr(c.get("func")), repr(c.get("data")), repr(c.get("missing")), repr(c.get("fill")), repr(c.get("x")))
            chk.note_case(key, nontrivial=True, sample=None)
            for x in c.get("strings", ()):
                if x.strip() != x.strip(WS):
                    bad.append((c, f"residual: str.strip is not ASCII strip on {x!r}"))
            if g == "ERR EUnmodelled":
                count("gen_direct_outcome", "outside the primitives (EUnmodelled)")
                continue
            if r[0] == "ERR":
                okc = g == "ERR " + r[1]
            else:
                try:
                    okc = g.startswith("OK ") and g[3:] not in ("?",) and (
                        (g[3:] == "N" and r[1] is None) or (g[3:] != "N" and same_value(dec_cell(g[3:]), r[1])))
                except Exception:  # noqa: BLE001
                    okc = False
            count("gen_direct_outcome", ("agree: " + (r[1] if r[0] == "ERR" else type(r[1]).__name__)))
            if not okc:
                what = {"gen_validate": lambda: f"_validate_scsv_schema({c['schema']!r})",
                        "gen_cell": lambda: f"_parse_scsv_cell({c['func'].__name__}, {c['data']!r}, missingstr={c['missing']!r}, fillval={c['fill']!r})",
                        "gen_bool": lambda: f"_parse_scsv_bool({c['x']!r})"}[c["kind"]]()
                bad.append((c, f"{what}: implementation {r}, generated function {g}"))
            continue
        if c["kind"] == "quote":
            x, r = c["text"], c["impl"]
            mq, mu = unhex(m["Q"]), m["U"]
            count("quote_text_class", "yaml-special" if yaml_special(x) else "has line break" if ("\n" in x or "\r" in x)
                  else "astral" if any(ord(ch) >= 0x10000 for ch in x) else "has apostrophe" if "'" in x else "ascii" if x.isascii() else "bmp")
            chk.note_case(("quote", x), nontrivial=True, sample={"text": x, "impl": list(r[:2]), "model": mq} if len(x) < 4 and "'" in x else None)
            if mu != "S" + x.encode("utf-8", "surrogatepass").hex():
                bad.append((c, f"model contradicts C16_yaml_quote_roundtrip on {x!r}: {mu}"))
            if r[0] != "OK" or r[1] != mq:
                bad.append((c, f"_yaml_quote({x!r}): implementation {r[1]!r}, model {mq!r}"))
            elif not yaml_special(x) and "\n" not in x and "\r" not in x:
                # hypothesis about PyYAML: a one-line single-quoted scalar of YAML-verbatim characters loads as unquote says
                count("yaml_single_quoted_scalar_loads_back", r[2] == ("OK", x))
                if r[2] != ("OK", x):
                    bad.append((c, f"residual: PyYAML loads the quoted scalar {r[1]!r} as {r[2]}, the scanner model gives {x!r}"))
            else:
                count("yaml_single_quoted_scalar_loads_back", "not verbatim in YAML: " + ("same" if r[2] == ("OK", x) else "differs / refused"))
            continue
        if c["kind"] == "unquote":
            r = c["impl"]
            exp = "S" + r[1].encode("utf-8", "surrogatepass").hex() if r[0] == "OK" else "-"
            count("unquote_result", "accepted" if r[0] == "OK" else "refused")
            chk.note_case(("unquote", c["text"]), nontrivial=True, sample=None)
            if m["U"] != exp:
                bad.append((c, f"single-quoted scalar {c['text']!r}: PyYAML {r}, model {m['U']}"))
            continue
        s, data, r = c["schema"], c["data"], c["impl"]
        fs = s.get("fields") if isinstance(s.get("fields"), list) else []
        if c.get("stream") == "unicode":
            count("unicode_family", c["family"])
            count("unicode_position", c["position"])
            count("unicode_outcome_by_position", c["position"] + ": " + (r[0] if r[0] == "OK" else r[0] + ":" + r[1]))
        count("n_fields", len(fs))
        count("n_rows", len(data[0]) if data else "no columns")
        for f in fs:
            count("field_type", f.get("type", "(default)"))
            count("fill", repr(f.get("fill", "(absent)"))[:24])
        count("delimiter", repr(s.get("delimiter", "(absent)")))
        count("delimiter_class", delim_class(s.get("delimiter")))
        count("column_container", type(data[0]).__name__ if data else "no columns")
        if c.get("stream") == "session":
            count("session_variant", c["variant"])
            count("session_step", "%d of %d" % (c["step"] + 1, len(c["session_steps"])))
            count("session_caller_edits", "+".join(k for k in SESSION_FLAGS if c.get(k)) or "none")
            count("session_step_outcome", c["variant"] + ": " + (r[0] if r[0] == "OK" else r[0] + ":" + r[1]))
            if c["step"] > 0:
                prev = c["session_steps"][c["step"] - 1]["schema"]["fields"]
                for f, g in zip(fs, prev):
                    if "fill" in f and "fill" in g and type(f["fill"]) is not str and type(g["fill"]) is not str \
                            and f["fill"] == g["fill"] and (type(f["fill"]) is not type(g["fill"]) or repr(f["fill"]) != repr(g["fill"])):
                        count("session_equal_but_different_fill", "%s: %r after %r" % (f.get("type", "string"), f["fill"], g["fill"]))
        elif "variant" in c:
            count("blank_row_variant", c["variant"])
        if c.get("inputs_mutated"):
            bad.append((c, "save_scsv / read_scsv modified the caller's schema or columns"))
        if c.get("repeat_differs") is not None:
            count("repeated_call_same_result", not c["repeat_differs"])
            if c["repeat_differs"]:
                bad.append((c, "a second save_scsv / read_scsv of the same schema and columns gives a different result"))
        count("missing", repr(s.get("missing", "(absent)")))
        if "fault" in c:
            count("fault", c["fault"])
        count("impl_outcome", r[0] if r[0] == "OK" else r[0] + ":" + r[1])
        key = (c["kind"], c.get("fault"), json.dumps(s, sort_keys=True, default=str), repr(data))
        # residual check of the text-layer hypotheses used by the model
        for x in c.get("strings", ()):
            if x in c.get("never_stripped", ()):
                continue
            if x.strip() != x.strip(WS):
                bad.append((c, f"residual: str.strip is not ASCII strip on {x!r}"))
        if c["kind"] == "file":
            mr = dec_res(m["R"], dec_table)
            ir = to_enum(r)
            okc = (mr[0] == ir[0] == "ERR" and mr[1] == ir[1]) or \
                  (mr[0] == ir[0] == "OK" and mr[1][0] == ir[1] and same_cols(mr[1][1], ir[2]))
            chk.note_case(key, nontrivial=True, sample=None)
            if c.get("framed"):
                count("frame_edit", c["fault"][len("frame_"):])
                count("frame_split_yaml_csv_lines", m.get("N", "?") if len(c["lines"]) > 40 else "%s of %d lines" % (m.get("N", "?"), len(c["lines"])))
                for ln in c["lines"]:
                    count("frame_line_class", line_class(ln))
                if m.get("F") != "1":
                    bad.append((c, f"the model's line loop (frame) splits the file differently from the harness' reading of read_scsv: "
                                   f"model (yaml, csv) line counts {m.get('N')}, file {c['edited_text'][-160:]!r}"))
            if file_expect_scsv(c):
                count("file_refusal_expected", ir[:2] if ir[0] == "ERR" else "OK")
                if ir[:2] != ("ERR", "SCSV"):
                    unclassified.append((c, f"edited file ({c['fault']}) is not refused with SCSVError: {ir[:2]}"))
            if not okc:
                bad.append((c, f"read_scsv on an edited file ({c['fault']}): implementation {ir[:2]}, model {m['R'][:120]}"))
            continue
        mv = dec_res(m["V"], lambda x: x == "1")
        if mv != c["impl_validate"]:
            bad.append((c, f"_validate_scsv_schema: implementation {c['impl_validate']}, model {mv}"))
        ms = dec_res(m["S"], dec_rows)
        mb = dec_res(m["B"], dec_table)
        P, Hf = m["P"] == "1", m["H"] == "1"
        count("model_representable", P)
        count("model_header_faithful", Hf)
        dash = False         # open finding: the transport hypothesis fails on this case (delimiter '-', four empty cells)
        # save
        if r[0] == "SAVE-ERR":
            if not (ms[0] == "ERR" and ms[1] == r[1]):
                bad.append((c, f"save_scsv raised {r[1]} ({r[2]}), model save: {m['S'][:80]}"))
        else:
            if ms[0] != "OK":
                bad.append((c, f"save_scsv wrote a file, model save: {m['S']}"))
            else:
                parts = fence_parts(c["text"])
                # the header block, byte-wise against the model of write_scsv_header
                ml = dec_res(m["L"], lambda x: [unhex(t[1:]) for t in x.split(",")] if x else [])
                if ml[0] == "OK":
                    want_hdr = "".join(ln + os.linesep for ln in ml[1])
                    count("header_block_compared", len(parts) == 3 and parts[1] == want_hdr)
                    if len(parts) != 3 or parts[1] != want_hdr:
                        bad.append((c, f"header block differs: implementation {parts[1][:300] if len(parts) == 3 else c['text'][:300]!r}, "
                                       f"model header_lines {want_hdr[:300]!r}"))
                elif ml[1] == "EUnmodelled":
                    count("header_block_compared", "outside the header model (fill of another type)")
                else:
                    bad.append((c, f"save_scsv wrote a header, model header_lines: {m['L'][:80]}"))
                want = model_csv_text(ms[1], s["delimiter"])
                if len(parts) != 3 or parts[2] != want:
                    bad.append((c, f"file body differs: implementation {c['text'][-200:]!r}, model rows written by csv.writer {want[-200:]!r}"))
                # transport hypothesis: on transportable rows the csv layer is the identity
                rows = ms[1]
                transportable = csv_legal(s["delimiter"]) and all(r_ and r_ != ["---"] and all(plain(x) for x in r_) for r_ in rows)
                count("transport_hypothesis_applies", transportable)
                # open finding: with the delimiter '-' a transportable row of four empty cells is the line '---'
                dash = transportable and dash_fence_rows(s["delimiter"], rows)
                if transportable and c["rows"] != ("OK", rows):
                    if dash:
                        hits.setdefault("C16:read_scsv:dash-delimited-empty-row-is-fence", []).append(
                            (c, "a row of four empty cells, delimiter '-', is read as the YAML fence"))
                    else:
                        bad.append((c, f"residual: csv transport is not the identity on plain rows: wrote {rows[:3]}, read {c['rows'][1][:3] if c['rows'][0]=='OK' else c['rows']}"))
                # the same hypothesis decomposed as in C16_roundtrip_through_file: header lines and written lines
                # are neither "\n" nor "---\n"; csv.reader inverts csv.writer on the written rows (no line loop)
                if len(parts) == 3 and os.linesep == "\n":
                    hdr_lines, body_lines = parts[1].splitlines(True), [x + "\n" for x in parts[2].split("\n")[:-1]]
                    for ln in body_lines:
                        count("written_line_class", line_class(ln))
                    if transportable:
                        rw = csv_rows(body_lines, s["delimiter"])
                        if rw != ("OK", rows):
                            bad.append((c, f"residual: csv.reader does not invert csv.writer on plain rows: wrote {rows[:3]}, read {rw[1][:3] if rw[0] == 'OK' else rw}"))
                        lost = [ln for ln in body_lines if ln in ("\n", "---\n")]
                        if lost and not dash:
                            bad.append((c, f"residual: a plain row is written as the line {lost[0]!r}, which read_scsv's line loop drops"))
                        if P and any(ln in ("\n", "---\n") for ln in hdr_lines):
                            bad.append((c, "residual: a header line of a representable case is blank or a fence"))
                if transportable and delim_err(s["delimiter"]) is not None:
                    bad.append((c, "residual: csv refuses a CSV-legal delimiter"))
            # read back
            ir = to_enum(r if r[0] == "OK" else ("ERR", r[1]))
            okc = (mb[0] == "ERR" and r[0] == "READ-ERR" and mb[1] == r[1]) or \
                  (mb[0] == "OK" and r[0] == "OK" and mb[1][0] == r[1] and same_cols(mb[1][1], r[2]))
            if not okc:
                bad.append((c, f"read_scsv(save_scsv(..)): implementation {r[:3]}, model {m['B'][:160]}"))
        # theorem instance (sanity): hypotheses of C16_roundtrip hold => the model returns the data
        if P and Hf and mv == ("OK", True) and not dash:
            if not (mb[0] == "OK" and same_cols(mb[1][1], [tuple(col) for col in data])):
                bad.append((c, f"model contradicts C16_roundtrip: {m['B'][:160]}"))
        # the property itself
        nontrivial = r[0] == "OK" and any(len(col) for col in r[2])
        premises = False
        try:
            premises = prop_valid_schema(s) and prop_representable(s, data)
        except Exception:  # noqa: BLE001
            premises = False
        count("property_premises_hold", premises)
        if premises:
            fail = roundtrip_failure(s, data, r)
            if fail is not None:
                k = classify(s, data, c["loaded"])
                count("finding_class", k)
                if P and Hf and not dash:
                    bad.append((c, f"round trip fails although the theorem's hypotheses hold: {fail}"))
                elif k == "unclassified":
                    unclassified.append((c, fail))
                else:
                    hits.setdefault(k, []).append((c, fail))
            else:
                count("roundtrip_verified_cases", "hypotheses hold" if (P and Hf and not dash) else "outside hypotheses, still fine")
        if c.get("fault") in DOCUMENTED_FAULTS and not (r[0] == "SAVE-ERR" and r[1] == "SCSV"):
            if c["fault"] == "cell_unparsable" and marker_text_in_numeric_column(s, data):
                count("finding_class", "C16:save_scsv:marker-text-in-numeric-column")
                hits.setdefault("C16:save_scsv:marker-text-in-numeric-column", []).append((c, f"not refused with SCSVError: {r[:3]}"))
            else:
                unclassified.append((c, f"documented violation {c['fault']} was not refused with SCSVError: {r[:3]}"))
        chk.note_case(key, nontrivial=nontrivial or r[0] != "OK",
                      sample={"stream": c["stream"], "fault": c.get("fault"), "schema": s,
                              "data": [[repr(x) for x in col[:4]] for col in data[:8]],
                              "impl": [r[0], r[1] if r[0] != "OK" else [[repr(x) for x in col[:4]] for col in r[2][:8]]],
                              "model": c["model"][:200]})
    return bad, hits, unclassified


def encode_case(c):
    def ev(x):
        if isinstance(x, bool):
            return {"b": x}
        if isinstance(x, int):
            return {"i": str(x)}
        if isinstance(x, float):
            return {"f": common.hx(x)}
        if isinstance(x, complex):
            return {"c": [common.hx(x.real), common.hx(x.imag)]}
        if x is None:
            return {"none": True}
        return {"s": x}
    s = json.loads(json.dumps(c["schema"], default=str))
    fills = [[ev(f.get("fill")) if "fill" in f else None, ev(f.get("name")) if "name" in f else None]
             for f in (c["schema"].get("fields") or [])] if isinstance(c["schema"].get("fields"), list) else []
    return {"schema": s, "typed_fill_and_name": fills, "data": [[ev(x) for x in col] for col in c["data"]], "fault": c.get("fault")}


def decode_case(d):
    def dv(x):
        if x is None:
            return None
        if "b" in x:
            return x["b"]
        if "i" in x:
            return int(x["i"])
        if "f" in x:
            return common.unhx(x["f"])
        if "c" in x:
            return complex(common.unhx(x["c"][0]), common.unhx(x["c"][1]))
        if "none" in x:
            return None
        return x["s"]
    s = d["schema"]
    for f, (fill, name) in zip(s.get("fields") or [], d["typed_fill_and_name"]):
        if fill is not None:
            f["fill"] = dv(fill)
        if name is not None:
            f["name"] = dv(name)
    return s, [[dv(x) for x in col] for col in d["data"]], d.get("fault")


def written_marker_failure(s, data, text):
    """C16: "cells equal to a field's fill value are written as the missing marker" -- read on the file save_scsv wrote.
    None when every such cell of the csv body is the missing marker (or the body cannot be attributed to cells)"""
    try:
        exp = out_texts(s, data)
        body = split_at_second_fence(text)[1]
        rows = list(csv.reader(body.split("\n")[:-1], delimiter=s["delimiter"]))[1:]
        if len(rows) != len(data[0]) or any(len(r) != len(data) for r in rows):
            return None
        m = s["missing"]
        for j, (f, col) in enumerate(zip(s["fields"], exp)):
            if f.get("type", "string") == "boolean":
                continue
            for i, x in enumerate(col):
                if x == m and str(data[j][i]) != m and rows[i][j] != m:
                    return f"column {j} row {i}: the cell {data[j][i]!r} equals the fill value but is written as {rows[i][j]!r}, not as the missing marker {m!r}"
    except Exception:  # noqa: BLE001
        return None
    return None


def oracle(impl, s, data, fault=None):
    """direct reading of C16 on the public API.  -> list of (finding key | None, text)"""
    r, path = impl.roundtrip(s, data)
    text = None
    if os.path.exists(path):
        try:
            text = open(path, newline="").read().replace("\r\n", "\n")
        except Exception:  # noqa: BLE001
            text = None
        os.unlink(path)
    return judge(s, data, r, text, fault)


def judge(s, data, r, text, fault=None):
    """what C16 says about ONE save / read pair: schema s, columns data, observed result r, text of the written file"""
    if fault in DOCUMENTED_FAULTS:
        if not (r[0] == "SAVE-ERR" and r[1] == "SCSV"):
            return [(None, f"documented violation {fault} is not refused with SCSVError: {r[:3]}")]
        return []
    try:
        if not (prop_valid_schema(s) and prop_representable(s, data)):
            return []
    except Exception:  # noqa: BLE001
        return []
    fail = roundtrip_failure(s, data, r)
    if fail is None and text is not None:
        fail = written_marker_failure(s, data, text)
    if fail is None:
        return []
    return [(None, fail)]


def run(chk):
    logging.disable(logging.CRITICAL)
    import time
    t0 = time.time()
    ok, br = proofs.prove(chk, FILES, PROP, groups=(), gen_modules=("scsv",))
    chk.cov["seconds_build_and_proofs"] = round(time.time() - t0, 1)
    tmp = os.path.join(common.BUILD, f"tmp-{os.getpid()}")
    os.makedirs(tmp, exist_ok=True)
    try:
        _run(chk, ok, br, tmp)
    finally:
        shutil.rmtree(tmp, ignore_errors=True)
        logging.disable(logging.NOTSET)


def _run(chk, ok, br, tmp):
    impl = Impl(tmp)
    chk.cov["trusted_base"] = [
        common.TRUSTED_COMMON[0],
        "tie T: translator/specs_scsv.py (Python-ast, fail closed) regenerates coq/gen/Gen_scsv.v from src/pydrex/io.py on every run: _validate_scsv_schema, _parse_scsv_bool, _parse_scsv_cell, parse_scsv_schema, _yaml_quote, write_scsv_header, the constants, and the statement blocks of save_scsv (lengths / fills,types,names / row loop body) and read_scsv (line loop / name check / coltypes,missingstr,fillvals); Inst_scsv*.v prove generated = Model_scsv / Model_scsv_frame / Model_scsv_header for all inputs, and Model_scsv.save = skeleton over the generated blocks.  Trusted there: the translator, the abstraction abs_schema (= the encoding of case terms used here), and the primitives of Model_scsv_py.v (models of Python builtins; compared with the real builtins by the gen-direct stream)",
        "hand-written and tied by this differential run only (tie H): the skeleton of save_scsv (order of the blocks, csv.writer construction, outer except ValueError) and the tail of read_scsv (yaml.safe_load, csv.reader, namedtuple, the zip(*reader, strict=True) comprehension = read_cols); compared on every generated case: validation result, rows handed to csv.writer byte-wise against the file, header block byte-wise, returned names and typed values, exception types",
        "the line loop of read_scsv (blank lines, --- fences) is modelled (Model_scsv_frame.v: frame) and run by the model on the lines of every file of the 'frame' stream; for the other streams the harness' transcription Impl.split_file is used, which the frame stream compares with the model line by line",
        "text layers are oracles, not modelled: csv.writer/csv.reader (hypotheses: identity on rows of plain cells for CSV-legal delimiters; no written line is blank or a fence; csv.reader inverts csv.writer - checked on every case), text-mode file iteration (universal newlines), str()/int()/float()/complex() (hypothesis t(str(d)) = d instance-wise inside `representable` - evaluated by the model from the real conversions of every string of the case), str.isidentifier, str.strip (checked equal to ASCII strip on every string of the case), collections.namedtuple, PyYAML (the loaded header is passed to the model as data; `header_faithful` is evaluated by the model on it)",
        "float values are named by their Python repr (injective on binary64 up to the sign of zero); Python strings are UTF-8 byte strings in the model; str.lower is ASCII lower in _parse_scsv_bool's model",
        "case files build/cases/C16_*.v are evaluated by coqc with vm_compute; output parsed by harness/props/c16.py",
    ]
    chk.cov["rule"] = (
        "cases = (1) seeded random valid schemas: 1..8 fields over string/integer/float/boolean/complex, delimiters from 13 CSV-legal "
        "characters incl. tab, letters, digits and non-ASCII, missing markers incl. '', 'NaN', numeric-looking, '---', unicode, fills incl. "
        "absent, 'NaN', '-0.0', inf, non-string fills; columns of 1..6 rows (40 rows once; thorough: up to 3000) drawn from pools with the "
        "fill value, '', quoted/delimiter-bearing/unicode strings, huge integers, NaN/inf/signed zeros/denormals, complex with NaN parts; every "
        "(field count, first field type) pair; (2) the same with cells outside the representable domain (white space, line breaks); "
        "(3) header-hostile scalars (YAML-retyped fills and names, apostrophes) + the fixed witnesses of the open findings; (4) exactly one "
        "fault per case on a valid base: every documented violation kind + 8 undocumented kinds; (5) files written by save_scsv and then "
        "edited (10 edit kinds) read with read_scsv; (6) terse schema strings; (7) rows whose every cell is written as the empty string "
        "(missing marker '' with all cells equal to the fill; string columns with cells ''), rows that strip to '---', near misses, over "
        "white-space delimiters (tab, NBSP, U+3000, U+2003, U+1680, U+202F, U+2028), '-', control characters and ordinary delimiters, "
        "1..8 fields, blank rows first / last / all / consecutive, columns as lists or tuples; (8) files written by save_scsv whose line "
        "structure is edited (13 kinds: blank lines, CRLF, white-space-only lines, fences with surrounding white space / without "
        "terminator, extra fences, text before the first fence) read through the model of the line loop; every 8th round trip is run "
        "twice (same result) and every call is checked to leave the caller's schema and columns unmodified; (10) gen-direct: the generated "
        "functions on raw Python values (schemas outside the typed model: non-string delimiter / missing, fields that are not lists of dictionaries, "
        "names / types of any kind; _parse_scsv_cell on 52 look-alike texts x five classes x markers x fills; _parse_scsv_bool); (11) every ASCII "
        "character as delimiter; missing markers that are affixes of cell texts with the fill of each column occurring as a cell of its neighbour; "
        "look-alike texts as string cells / fills / markers; 70 generated terse schemas (+ near misses) compared with the hand-written and the generated "
        "parser; schemas returned by parse_scsv_schema round-tripped; thorough: 10 000 rows; (12) sessions = consecutive round trips of ONE process, each "
        "judged on its own: the same fields and marker with the fills replaced by an equal-but-different scalar (0 / 0.0 / -0.0 / False, 1 / 1.0 / True, "
        "-1 / -1.0, 7 / 7.0, 2^53, 1e16 as int and float; every class forwards and backwards over string / float / complex / integer fields + drawn "
        "sub-sequences, 1..5 fields, per-field offsets), the missing marker of one file as a cell of the next, the same cell texts under another declared "
        "type, the fill of one file as an ordinary cell of the next, the very same input three times, one path written with fewer and more rows; the caller "
        "edits its schema dictionary in place, writes to the previous path and overwrites what it handed over / got back after the call (drawn per session). "
        "distinct = distinct (kind, fault, schema, data); non-trivial = "
        "the implementation returned at least one cell or raised")
    cases = gen_cases(chk, chk.tier)
    cases += gen_terse_roundtrips(np.random.default_rng(chk.seed + 12), impl.io.parse_scsv_schema)
    bad, hits, unclassified = [], {}, []
    global GEN_ENTRY
    GEN_ENTRY = "Entry_scsv_gen.v" in br.built_vo
    chk.cov["generated_functions_run"] = GEN_ENTRY
    if ok or PROP in br.built_vo or "Entry_scsv.v" in br.built_vo:
        terms, kept = [], []
        for c in cases:
            if c["kind"].startswith("gen_") and not GEN_ENTRY:
                continue
            try:
                t = prepare(impl, c)
            except Unmodelled as e:
                chk.cov["outside_model"] = chk.cov.get("outside_model", 0) + 1
                chk.cov.setdefault("outside_model_examples", []).append(str(e))
                continue
            terms.append(t)
            kept.append(c)
        import time
        chk.cov["seconds_implementation_runs"] = round(time.time() - chk.t0 - chk.cov.get("seconds_build_and_proofs", 0), 1)
        t1 = time.time()
        outs = run_coq(terms, chk.tier)
        chk.cov["seconds_model_evaluation_coqc"] = round(time.time() - t1, 1)
        bad, hits, unclassified = compare(chk, kept, outs)
        chk.cov["traces_validated_against_impl"] = len(kept)
    chk.cov["disagreements"] = len(bad)
    chk.cov["finding_hits"] = {k: len(v) for k, v in hits.items()}
    # open findings: KNOWN-FINDING only while the fixed witness reproduces
    fixed = {f["key"] for f in common.load_known_findings() if f.get("property") == "C16" and str(f.get("status", "")).startswith("fixed")}
    reproducing = set()
    for key, (desc, s, data, pred) in KNOWN.items():
        r, path = impl.roundtrip(s, data)
        if pred(r) and key not in fixed:
            reproducing.add(key)
            chk.known_finding(f"key={key} {desc}; witness schema={json.dumps(s)} data={data!r} observed={r[:3]!r}")
    # a round-trip failure is excused when it is classified as a recorded finding that still reproduces, or when the input
    # carries the SIGNATURE of one (finding_keys: any field type, any position - delimiter / missing / name / fill / unit -,
    # independent of the order classify() looks at things and of whether the header could be loaded)
    def by_signature(c):
        try:
            return (c.get("kind") == "rt" and c.get("fault") not in DOCUMENTED_FAULTS
                    and bool(finding_keys(c["schema"], c["data"]) & reproducing))
        except Exception:  # noqa: BLE001
            return False
    new = [(c, t) for c, t in unclassified if not by_signature(c)]
    for k, v in hits.items():
        if k not in reproducing:
            new += [(c, t) for c, t in v if not by_signature(c)]
    chk.cov["excused_by_signature"] = sum(1 for c, _ in unclassified if by_signature(c)) + sum(
        1 for k, v in hits.items() if k not in reproducing for c, _ in v if by_signature(c))
    chk.cov["open_findings_reproduced"] = sorted(reproducing)
    chk.cov["unexcused_property_failures"] = [t for _, t in new[:10]]
    if ok and not bad and not new:
        return
    # ---- something broke: search for a failing input with the property oracle
    found = []
    pool = [c for c, _ in new] + [c for c, _ in bad if c.get("kind") in ("rt", "file")] + [c for c in cases if c["kind"] in ("rt", "file")]
    # inputs that carry the signature of a recorded finding which still reproduces on this tree fail for that reason as well
    global SHRINK_AVOID
    SHRINK_AVOID = set(reproducing)
    # ... and are no witnesses of anything new: they are not reported (documented-fault cases are judged by the refusal only)
    pool = [c for c in pool if c["kind"] == "file" or c.get("fault") in DOCUMENTED_FAULTS
            or not (finding_keys(c["schema"], c["data"]) & reproducing)]
    # the steps of a session are judged as a session (below); a single input is reported only if it also fails in a fresh
    # process, as the replay will run it -- otherwise the failure needs what earlier calls of THIS process left behind
    flagged_sessions = [c["session"] for c, _ in list(new) + list(bad) if c.get("session") is not None]
    pool = [c for c in pool if c.get("session") is None]
    state_dependent = []
    seen = set()
    for c in pool:
        if len(state_dependent) >= 4:
            break
        if c["kind"] == "file":
            if not file_expect_scsv(c):
                continue
            fails = oracle_file(impl, c["edited_text"])
            if fails and ("file", c["fault"]) not in seen:
                seen.add(("file", c["fault"]))
                found.append((c, fails))
                if len(found) >= 3:
                    break
            continue
        fails = oracle(impl, c["schema"], c["data"], c.get("fault"))
        if not fails:
            continue
        if "loaded" not in c:            # the correspondence stage did not run (Entry_scsv.v not built): load the header now
            try:
                prepare(impl, c)
            except Exception:  # noqa: BLE001
                pass
        try:
            k = classify(c["schema"], c["data"], c.get("loaded")) if c.get("fault") not in DOCUMENTED_FAULTS else "refusal"
            if c.get("fault") == "cell_unparsable" and marker_text_in_numeric_column(c["schema"], c["data"]):
                k = "C16:save_scsv:marker-text-in-numeric-column"
        except Exception:  # noqa: BLE001
            k = "unclassified"
        if k in reproducing or (k, fails[0][1][:40]) in seen:
            continue
        seen.add((k, fails[0][1][:40]))
        fresh = fresh_process_failures(encode_case(c))
        if not fresh:
            state_dependent.append(fails[0][1])
            continue
        small = shrink(impl, c)
        if small is not c:
            fresh_small = fresh_process_failures(encode_case(small))
            if fresh_small:
                fresh = fresh_small
            else:
                small = c
        found.append((small, [(None, x) for x in fresh]))
        if len(found) >= 3:
            break
    chk.cov["search_failures_only_with_process_history"] = state_dependent[:4]
    if not found:
        # sessions: every candidate is run in a fresh process (this process has a history); the ones with a step that failed
        # or disagreed here first, then the ones the oracle fails on here, then the rest
        sessions = {}
        for c in cases:
            if c.get("session") is not None:
                sessions.setdefault(c["session"], c["session_steps"])
        order = list(dict.fromkeys(flagged_sessions))
        rest = [sid for sid in sessions if sid not in order]
        hinted = []
        for sid in rest:
            try:
                if session_failures(impl, sessions[sid]):
                    hinted.append(sid)
            except Exception:  # noqa: BLE001
                pass
        order += hinted + [sid for sid in rest if sid not in hinted]
        tried, variants = 0, set()
        for sid in order:
            steps = sessions[sid]
            if tried >= 8 or found:
                break
            if steps[0]["variant"] in variants or any(finding_keys(st["schema"], st["data"]) & reproducing for st in steps):
                continue
            tried += 1
            fresh = fresh_process_failures(encode_session(steps))
            if not fresh:
                continue
            variants.add(steps[0]["variant"])
            small, fresh = shrink_session(steps, fresh)
            found.append(({"kind": "session", "steps": small}, [(None, x) for x in fresh]))
        chk.cov["search_sessions_run_in_fresh_processes"] = tried
    if found:
        for c, fails in found:
            if c.get("kind") == "session":
                chk.replay({"kind": "property-violation", "call": "pydrex.io.save_scsv / read_scsv, %d round trips in one process, in this order" % len(c["steps"]),
                            "input": encode_session(c["steps"]), "observed": [t for _, t in fails],
                            "required": "C16 (see properties.jsonl), for every round trip of the sequence on its own",
                            "broken": chk.cov.get("broken_obligations", []), "disagreements": [m for _, m in bad[:3]]})
                continue
            if c.get("kind") == "file":
                chk.replay({"kind": "property-violation", "call": "pydrex.io.read_scsv", "input": {"file_text": c["edited_text"], "edit": c["fault"]},
                            "observed": [t for _, t in fails], "required": "C16: SCSVError (see properties.jsonl)",
                            "broken": chk.cov.get("broken_obligations", []), "disagreements": [m for _, m in bad[:3]]})
                continue
            chk.replay({"kind": "property-violation", "call": "pydrex.io.save_scsv / read_scsv", "input": encode_case(c),
                        "observed": [t for _, t in fails], "required": "C16 (see properties.jsonl)",
                        "broken": chk.cov.get("broken_obligations", []), "disagreements": [m for _, m in bad[:3]]})
    else:
        chk.replay({"kind": "unproved", "broken": chk.cov.get("broken_obligations", []),
                    "disagreements": [{"input": encode_case(c) if c.get("kind") in ("rt", "file") else
                                       c.get("text", repr({k: c[k] for k in ("schema", "func", "data", "missing", "fill", "x") if k in c})),
                                       "detail": m} for c, m in bad[:3]],
                    "note": "proof obligation or correspondence no longer checks; no failing input found by the search"},
                   no_input=True)


SHRINK_AVOID = set()      # recorded findings that reproduce on this tree: reductions that carry one are not taken


def shrink(impl, c):
    """fewer rows / fewer columns while the oracle still fails"""
    s, data, fault = c["schema"], c["data"], c.get("fault")
    best = c
    if finding_keys(s, data) & SHRINK_AVOID:
        return best
    if fault in DOCUMENTED_FAULTS or not data or not isinstance(s.get("fields"), list):
        return best
    try:                                        # one row, all columns (failures that need the whole line)
        for i in range(len(data[0]) if len(data[0]) > 1 else 0):
            d1 = [[col[i]] for col in data]
            if oracle(impl, s, d1) and not (finding_keys(s, d1) & SHRINK_AVOID):
                best = {"schema": s, "data": d1, "fault": None, "kind": "rt"}
                break
    except Exception:  # noqa: BLE001
        pass
    for j in range(len(data)):
        for i in range(len(data[j])):
            s1 = dict(s, fields=[s["fields"][j]])
            d1 = [[data[j][i]]]
            try:
                if oracle(impl, s1, d1) and not (finding_keys(s1, d1) & SHRINK_AVOID):
                    return {"schema": s1, "data": d1, "fault": None, "kind": "rt"}
            except Exception:  # noqa: BLE001
                pass
    return best


def replay(d):
    common.use_repo_source()
    logging.disable(logging.CRITICAL)
    if d.get("kind") != "property-violation":
        print("replay file names a broken obligation; re-run the check itself")
        return 1
    tmp = os.path.join(common.BUILD, f"tmp-{os.getpid()}")
    os.makedirs(tmp, exist_ok=True)
    try:
        if "file_text" in d["input"]:
            fails = oracle_file(Impl(tmp), d["input"]["file_text"])
        elif "session" in d["input"]:
            fails = session_failures(Impl(tmp), decode_session(d["input"]))
        else:
            s, data, fault = decode_case(d["input"])
            fails = oracle(Impl(tmp), s, data, fault)
    finally:
        shutil.rmtree(tmp, ignore_errors=True)
    for _, f in fails:
        print("still fails:", f)
    return 1 if fails else 0
