"""C20 -- coordinate conversions and pole-figure primitives are geometrically correct."""
from __future__ import annotations

import math
import warnings

import numpy as np

import common
import proofs
from common import hx, unhx

GROUP = "geometry"
FILES = ["gen/Gen_geometry.v", "Model_density.v", "Proofs_geometry.v", "Proofs_density.v",
         "Model_poles_axes.v", "Proofs_poles_axes.v", "Entry_geometry.v", "Extract_geometry.v",
         # tie T for point_density (five kernels, g = 2, 3; n = 1, 2) and for poles on 2 / 3 orientations
         "gen/Gen_density.v", "Inst_density.v", "Inst_density_kamb.v", "Inst_density_exp.v", "Inst_density_inv.v", "Inst_density_all.v",
         "Model_memo.v", "Proofs_memo.v", "Proofs_density_session.v"]
PROP = "Properties/C20.v"
AXES = ("xy", "xz", "yx", "yz", "zx", "zy")
KERNELS = ("kamb_count", "schmidt_count", "exponential_kamb", "linear_inverse_kamb", "square_inverse_kamb")
SPELLINGS = tuple(sp for a, b in AXES for sp in (a + b, a.upper() + b, a + b.upper(), a.upper() + b.upper()))
# reference-axes strings outside the six legal ones (ASCII; what the source does with them is
# modelled by ref_axes_read in coq/Model_poles_axes.v and compared)
ILLEGAL = ("xx", "yy", "zz", "XX", "xX", "Zz", "xzz", "xz ", "xzx", "XZz", "yxzz", " xz", "xyz", "XYZ", "zyx", "x", "Z",
           "", "ab", "xw", "wz", "xa", "x z", "x,z", "xz\n", "\txz", "1", "12", "++", "x-z", "x+y", "XZ ", "Xx", "zZ")
HKL_AS = ("array", "list", "tuple", "intlist", "inttuple", "intarray", "f32", "strided", "readonly", "alias_row")
ORI_AS = ("c", "f32", "fortran", "stride2", "reversed", "transposed_view", "sub4x4", "readonly")
HKLS = ([1, 0, 0], [0, 1, 0], [0, 0, 1], [1, 1, 0], [1, 1, 1], [0, 1, 1], [1, 0, 1], [2, 1, 0], [-1, 1, 0], [1, -2, 3])


# --------------------------------------------------------------------------
# case generation (every random choice comes from chk.seed)
# --------------------------------------------------------------------------
def unit_vectors(rng, n):
    v = rng.normal(size=(n, 3))
    return v / np.linalg.norm(v, axis=1)[:, None]


def rotations(rng, n):
    from scipy.spatial.transform import Rotation
    return Rotation.random(n, random_state=int(rng.integers(0, 2**31))).as_matrix()


def gen_points(rng, tier):
    """points of R^3 for to_spherical (and its images for to_cartesian)"""
    pts = [(0.0, 0.0, 0.0)]
    for s in (1.0, -1.0):
        for m in (1.0, 1e-8, 1e8, 3.5):
            pts += [(s * m, 0.0, 0.0), (0.0, s * m, 0.0), (0.0, 0.0, s * m)]
    for a in (-1.0, 1.0):  # octant boundaries and diagonals
        for b in (-1.0, 1.0):
            pts += [(a, b, 0.0), (a, 0.0, b), (0.0, a, b), (a, b, 1.0), (a, b, -1.0)]
    pts += [(-1.0, -0.0, 0.0), (-1.0, 0.0, 0.0), (-1.0, 1e-300, 0.0), (-1.0, -1e-300, 0.0), (1.0, 1.0, 1.0)]
    n = 250 if tier == "quick" else 5000
    mags = 10.0 ** rng.uniform(-8, 8, size=n)
    for v, m in zip(unit_vectors(rng, n), mags):
        pts.append(tuple(float(x) for x in v * m))
    return [("to_spherical", p) for p in pts]


def gen_angles(rng, tier):
    out = [(0.0, 0.0, 1.0), (0.0, math.pi, 1.0), (math.pi / 2, math.pi / 2, 1.0), (-math.pi, math.pi / 2, 2.0),
           (0.3, 0.4, 1.0), (0.3, 0.4, 2.0)]
    n = 150 if tier == "quick" else 3000
    for _ in range(n):
        out.append((float(rng.uniform(-2 * math.pi, 2 * math.pi)), float(rng.uniform(0, math.pi)),
                    float(10.0 ** rng.uniform(-6, 6))))
    return [("to_cartesian", a) for a in out]


def gen_lambert(rng, tier):
    pts = [(0.0, 0.0, 1.0), (0.0, 0.0, -1.0), (1.0, 0.0, 0.0), (0.0, 1.0, 0.0), (-1.0, 0.0, 0.0), (0.0, -1.0, 0.0),
           (0.6, 0.0, 0.8), (0.6, 0.0, -0.8), (0.0, 0.6, 0.8)]
    # around the cut-off |x|,|y| < 1e-16 of the source
    for e in (0.0, 5e-17, 9.999999999999999e-17, 1e-16, 1.0000000000000001e-16, 2e-16, 1e-12, 1e-9):
        for (x, y) in ((e, 0.0), (0.0, e), (e, e), (-e, e), (e, 5e-17)):
            z = math.sqrt(max(0.0, 1.0 - x * x - y * y))
            pts += [(x, y, z), (x, y, -z)]
    # the equator and its neighbourhood, non-unit vectors (|z| > 1 is masked by numpy.ma.sqrt)
    for k in range(16):
        a = 2 * math.pi * k / 16
        pts.append((math.cos(a), math.sin(a), 0.0))
    pts += [(0.1, 0.1, 2.0), (0.0, 0.0, 2.0), (0.6, 0.8, 1.0000000000000002), (3.0, 4.0, 0.5)]
    n = 250 if tier == "quick" else 5000
    pts += [tuple(float(x) for x in v) for v in unit_vectors(rng, n)]
    return [("lambert", p) for p in pts]


def gen_poles(rng, tier):
    cases = []
    sizes = (1, 2, 3, 17, 1000) if tier == "quick" else (1, 2, 3, 17, 100, 1000, 1000, 5000)
    for ax in AXES:
        for hkl in HKLS:
            n = int(sizes[int(rng.integers(0, len(sizes)))]) if hkl != [1, 0, 0] else 3
            cases.append(("poles", ax, np.asarray(hkl, dtype=float), rotations(rng, n)))
    for ax in AXES:  # non-orthonormal matrices: the theorem needs no orthogonality
        cases.append(("poles", ax, rng.normal(size=3), rng.normal(size=(5, 3, 3))))
    # axis-aligned orientation with the direction along each axis (which output is +-1?)
    for ax in AXES:
        cases.append(("poles", ax, np.array([0.0, 0.0, 1.0]), np.eye(3)[None]))
    # a singular matrix annihilating hkl: zero direction -> 0/0
    cases.append(("poles", "xz", np.array([1.0, 0.0, 0.0]), np.array([np.eye(3), np.diag([0.0, 1.0, 1.0])])))
    return cases


def canon(hkl, A, o):
    """canonical float64 values of a poles case for the chosen input representation"""
    A = np.array(A, dtype=float)
    hkl = np.array(hkl, dtype=float)
    if o.get("ori_as") == "f32":
        A = A.astype(np.float32).astype(float)
    if o.get("hkl_as") == "alias_row":
        hkl = A[0, 0].copy()
    elif o.get("hkl_as") == "f32":
        hkl = hkl.astype(np.float32).astype(float)
    return hkl, A


def gen_poles_options(rng, tier):
    """The option space of geometry.poles beyond six lower-case strings x float64 arrays:
    every case spelling, illegal strings, hkl / orientations given as lists, tuples, ints,
    float32, views, read-only or aliasing arrays, default arguments, empty stacks, extreme
    magnitudes, zero directions, and calls preceded by other calls (prelude)."""
    cases = []
    small = (1, 2, 3, 4, 17)

    def add(ax, hkl, n=None, A=None, family="", **o):
        if A is None:
            A = rotations(rng, int(n))
        hkl, A = canon(hkl, A, o)
        o = {k: v for k, v in o.items() if v is not None}
        o["family"] = family
        cases.append(("poles", ax, hkl, A, o))

    def some_hkl():
        return list(HKLS[int(rng.integers(0, len(HKLS)))])

    rep = 3 if tier == "quick" else 12
    # (a) all 24 spellings, each with randomly chosen input representations
    for sp in SPELLINGS:
        for _ in range(rep):
            n = int(small[int(rng.integers(0, len(small)))])
            add(sp, some_hkl(), n=n, family="spelling",
                hkl_as=str(HKL_AS[int(rng.integers(0, len(HKL_AS)))]), ori_as=str(ORI_AS[int(rng.integers(0, len(ORI_AS)))]),
                axes_as=str(rng.choice(["kw", "pos"])))
    # (b) every input representation at least once with an upper-case and a lower-case string
    for ha in HKL_AS:
        add("XZ", some_hkl(), n=3, family="hkl_as", hkl_as=ha)
        add("zy", some_hkl(), n=2, family="hkl_as", hkl_as=ha, ori_as="f32")
    for oa in ORI_AS:
        add("Yx", some_hkl(), n=3, family="ori_as", ori_as=oa)
        add("xy", rng.normal(size=3), n=4, family="ori_as", ori_as=oa, hkl_as="list")
    add("yz", [1.0, 0.0, 0.0], A=np.eye(3)[None].repeat(2, axis=0), family="ori_as", ori_as="int", hkl_as="list")
    # (c) the default arguments: ref_axes = "xz", hkl = [1, 0, 0]
    add("xz", [1, 0, 0], n=5, family="defaults", hkl_as="default", axes_as="default")
    add("xz", [0, 1, 1], n=5, family="defaults", axes_as="default")
    add("ZX", [1, 0, 0], n=5, family="defaults", hkl_as="default")
    add("xz", [1, 0, 0], n=1, family="defaults", hkl_as="default", axes_as="default", ori_as="f32")
    # (d) illegal strings (fixed list + random ones over a small alphabet)
    for sp in ILLEGAL:
        add(sp, some_hkl(), n=2, family="illegal")
    alphabet = "xyzXYZ w"
    for _ in range(20 if tier == "quick" else 200):
        k = int(rng.integers(0, 5))
        add("".join(alphabet[int(i)] for i in rng.integers(0, len(alphabet), size=k)), some_hkl(), n=2, family="random-string")
    # (e) boundaries: empty stack, zero direction, signed zeros, extreme magnitudes
    for sp in ("xz", "YX", "xx", "ab"):
        add(sp, [1, 0, 0], A=np.empty((0, 3, 3)), family="empty")
    add("Xy", [0.0, 0.0, 0.0], n=2, family="zero-hkl")
    add("zY", [-0.0, 0.0, 1.0], n=2, family="signed-zero")
    for e in (-150, -100, -20, 20, 100, 150, 200):
        add(str(rng.choice(SPELLINGS)), np.array(some_hkl(), dtype=float) * 10.0 ** e, n=2, family="magnitude")
        add(str(rng.choice(SPELLINGS)), some_hkl(), A=rotations(rng, 2) * 10.0 ** (e / 2), family="magnitude")
    # (f) the measured call preceded by other calls (state carried between calls?)
    for _ in range(8 if tier == "quick" else 60):
        pre = [[str(rng.choice(SPELLINGS + ILLEGAL[:12])), some_hkl()] for _ in range(int(rng.integers(1, 4)))]
        add(str(rng.choice(SPELLINGS)), some_hkl(), n=int(rng.integers(1, 5)), family="prelude", prelude=pre,
            hkl_as=str(rng.choice(["list", "array"])))
    # (g) larger batches with an upper-case string
    add("XZ", [1, 1, 0], n=1000, family="batch")
    add("zX", [2, 1, 0], n=257, family="batch", ori_as="stride2", hkl_as="intlist")
    order = rng.permutation(len(cases))   # interleave the strings: call order is part of the input
    return [cases[int(i)] for i in order]


# inputs for which poles has no model (wrong container / shape / dtype, non-finite entries,
# non-ASCII or non-str ref_axes): the outcome is recorded; returning finite vectors that are
# not unit vectors is reported
def malformed_calls(rng):
    A = rotations(rng, 4)
    e = [1.0, 0.0, 0.0]
    return [
        ("orientations (3,3)", lambda g: g.poles(A[0], hkl=e)),
        ("orientations (1,n,3,3)", lambda g: g.poles(A[None], hkl=e)),
        ("orientations list", lambda g: g.poles(A.tolist(), hkl=e)),
        ("orientations (n,3,2)", lambda g: g.poles(A[:, :, :2], hkl=e)),
        ("orientations (n,2,3)", lambda g: g.poles(A[:, :2, :], hkl=e)),
        ("orientations (n,2,3) hkl len 2", lambda g: g.poles(A[:, :2, :], hkl=[1.0, 0.0])),
        ("orientations int, hkl int", lambda g: g.poles(np.eye(3, dtype=int)[None], hkl=[1, 0, 0])),
        ("orientations nan", lambda g: g.poles(np.full((1, 3, 3), np.nan), hkl=e)),
        ("orientations inf", lambda g: g.poles(np.full((1, 3, 3), np.inf), hkl=e)),
        ("orientations float16", lambda g: g.poles(A.astype(np.float16), hkl=e)),
        ("hkl len 2", lambda g: g.poles(A, hkl=[1.0, 0.0])),
        ("hkl len 4", lambda g: g.poles(A, hkl=[1.0, 0.0, 0.0, 0.0])),
        ("hkl scalar int", lambda g: g.poles(A, hkl=1)),
        ("hkl scalar float", lambda g: g.poles(A, hkl=1.0)),
        ("hkl (3,1)", lambda g: g.poles(A, hkl=np.array([[1.0], [0.0], [0.0]]))),
        ("hkl (1,3)", lambda g: g.poles(A, hkl=np.array([[1.0, 0.0, 0.0]]))),
        ("hkl None", lambda g: g.poles(A, hkl=None)),
        ("hkl str", lambda g: g.poles(A, hkl="100")),
        ("hkl bool", lambda g: g.poles(A, hkl=[True, False, False])),
        ("hkl nan", lambda g: g.poles(A, hkl=[np.nan, 0.0, 0.0])),
        ("ref_axes None", lambda g: g.poles(A, ref_axes=None, hkl=e)),
        ("ref_axes tuple", lambda g: g.poles(A, ref_axes=("x", "z"), hkl=e)),
        ("ref_axes list", lambda g: g.poles(A, ref_axes=["X", "z"], hkl=e)),
        ("ref_axes bytes", lambda g: g.poles(A, ref_axes=b"xz", hkl=e)),
        ("ref_axes int", lambda g: g.poles(A, ref_axes=2, hkl=e)),
        ("ref_axes non-ASCII", lambda g: g.poles(A, ref_axes="x\u017d", hkl=e)),
        ("ref_axes fullwidth", lambda g: g.poles(A, ref_axes="\uff38\uff3a", hkl=e)),
    ]


def run_malformed(chk):
    import pydrex.geometry as geo
    rng = np.random.default_rng([chk.seed, 2020])
    out, bad = {}, []
    for name, f in malformed_calls(rng):
        try:
            with warnings.catch_warnings():
                warnings.simplefilter("ignore")
                r = f(geo)
            v = np.stack([np.asarray(t) for t in r], axis=1)
            if np.iscomplexobj(v) or v.size == 0 or not np.all(np.isfinite(v)):
                out[name] = "returns non-finite/empty/complex"
            elif np.abs(np.linalg.norm(v.astype(float), axis=1) - 1).max() <= 1e-3:
                out[name] = "returns unit vectors"
            else:
                out[name] = "returns finite NON-unit vectors"
                bad.append(name)
        except Exception as e:  # noqa: BLE001
            out[name] = "raises " + type(e).__name__
    chk.cov["poles_malformed_outcomes"] = out
    return bad


def gen_density(rng, tier):
    cases = []

    def add(n, g, k, axial, sigma=10.0, w=1.0, kind="random", base=None):
        if base is None:
            if kind == "girdle":
                a = rng.uniform(0, 2 * math.pi, n)
                d = np.stack([np.cos(a), np.sin(a), 0.05 * rng.normal(size=n)], axis=1)
                d /= np.linalg.norm(d, axis=1)[:, None]
            elif kind == "cluster":
                d = np.array([0.2, 0.3, 1.0]) + 0.1 * rng.normal(size=(n, 3))
                d /= np.linalg.norm(d, axis=1)[:, None]
            else:
                d = unit_vectors(rng, n)
        else:
            d = base
        cases.append(("density", k, bool(axial), int(g), float(sigma), float(w), d, kind))
        return d

    for k in range(5):
        for axial in (True, False):
            n = int(rng.integers(101, 400)) if not axial else int(rng.integers(1, 400))
            g = int(rng.choice([5, 8, 11, 21, 30]))
            d = add(n, g, k, axial, kind=str(rng.choice(["random", "girdle", "cluster"])))
            perm = rng.permutation(n)
            add(n, g, k, axial, kind="permuted", base=d[perm])
            if axial:
                signs = rng.choice([-1.0, 1.0], size=n)
                add(n, g, k, axial, kind="sign-flipped", base=d * signs[:, None])
    for k in range(5):  # scalar weights, sigma, small and large data sets
        add(1, 11, k, True, kind="single")
        add(2, 7, k, True, sigma=3.0, w=2.5)
        add(500, 15, k, True, sigma=float(rng.uniform(3, 20)), w=float(rng.uniform(0.1, 10)))
        add(40, 9, k, False)  # non-axial, n <= sigma^2: the Kamb-radius kernels are NaN everywhere
    add(150, 101, 3, True)     # default grid size, default kernel
    if tier != "quick":
        for _ in range(60):
            add(int(rng.integers(1, 500)), int(rng.integers(5, 102)), int(rng.integers(0, 5)),
                bool(rng.integers(0, 2)), sigma=float(rng.uniform(2, 25)), w=float(10 ** rng.uniform(-2, 2)),
                kind=str(rng.choice(["random", "girdle", "cluster"])))
    return cases


# --------------------------------------------------------------------------
# INPUT REPRESENTATIONS of one mathematical point (added after seeded change C20d, which dropped the
# `.astype(float)` of to_cartesian / to_spherical: integer-dtype coordinates wrapped around in
# x**2 + y**2 + z**2, int8 / int16 / float16 / float32 input was evaluated in reduced precision, and
# every case of this harness was a tuple of Python floats).  A case (fn, args, rep) carries the EXACT
# values `args` (what the model is given, as binary64) and `rep` = {"dt": dtype name, "as": container}:
# the implementation receives the same numbers in that representation.  Only values that the
# representation holds exactly are generated, so every representation denotes the same point.
# --------------------------------------------------------------------------
INT_RANGE = {"bool": (0, 1), "int8": (-2**7, 2**7 - 1), "int16": (-2**15, 2**15 - 1), "int32": (-2**31, 2**31 - 1),
             "int64": (-2**63, 2**63 - 1), "uint8": (0, 2**8 - 1), "uint16": (0, 2**16 - 1), "uint32": (0, 2**32 - 1),
             "uint64": (0, 2**64 - 1), "pyint": (-2**80, 2**80)}
FLOAT_DT = ("float16", "float32", "float64", "pyfloat")
REP_DT = tuple(INT_RANGE) + FLOAT_DT
CONTAINERS = ("scalar", "0d", "1d", "list", "mixed", "batch3")
NP_OF = {"bool": np.bool_, "int8": np.int8, "int16": np.int16, "int32": np.int32, "int64": np.int64, "uint8": np.uint8,
         "uint16": np.uint16, "uint32": np.uint32, "uint64": np.uint64, "float16": np.float16, "float32": np.float32,
         "float64": np.float64}
BATCH_OTHERS = ((1, 1), (0, 1), (1, 1))    # two more points (1,0,1), (1,1,1) stacked behind the case in "batch3"


def rep_of(c):
    return c[2] if c[0] in ("to_spherical", "to_cartesian", "lambert") and len(c) > 2 and isinstance(c[2], dict) else None


def holds(v, dt):
    """is the number v (int or float, exactly a binary64 value) held exactly by the representation?"""
    if dt in INT_RANGE:
        lo, hi = INT_RANGE[dt]
        return float(v).is_integer() and lo <= int(v) <= hi and float(int(v)) == float(v)
    if dt in ("float64", "pyfloat"):
        return True
    with warnings.catch_warnings():
        warnings.simplefilter("ignore")
        w = NP_OF[dt](v)
    return bool(np.isfinite(w)) and float(w) == float(v)


def one(v, dt):
    """the number v as a scalar of the representation"""
    if dt == "pyint":
        return int(v)
    if dt == "pyfloat":
        return float(v)
    if dt in INT_RANGE:
        return NP_OF[dt](int(v))
    return NP_OF[dt](v)


def present(c):
    """arguments of the call, in the representation of the case (plain floats when there is none)"""
    rep = rep_of(c)
    if rep is None:
        return list(c[1])
    dt, how = rep["dt"], rep["as"]
    npdt = NP_OF.get(dt)      # None for pyint / pyfloat: NumPy chooses (int64 / uint64 / object; float64)
    vals = [one(v, dt) for v in c[1]]
    if how == "scalar":
        return vals
    if how == "0d":
        return [np.array(v, dtype=npdt) for v in vals]
    if how == "1d":
        return [np.array([v], dtype=npdt) for v in vals]
    if how == "list":
        return [[v] for v in vals]
    if how == "mixed":        # an array for the first argument, Python numbers for the others
        return [np.array([vals[0]], dtype=npdt)] + [int(v) if float(v).is_integer() else float(v) for v in c[1][1:]]
    if how == "batch3":       # the point first, two small points behind it, one array per coordinate
        return [np.array([v, one(o[0], dt), one(o[1], dt)], dtype=npdt) for v, o in zip(vals, BATCH_OTHERS)]
    raise ValueError(how)


def _reps_for(rng, dt, k=2):
    conts = [x for x in CONTAINERS if not (dt in ("pyint", "pyfloat") and x in ("0d", "1d", "batch3"))]
    pick = ["1d" if "1d" in conts else "scalar"]
    rest = [x for x in conts if x not in pick]
    pick += [rest[int(i)] for i in rng.permutation(len(rest))[:k]]
    return [{"dt": dt, "as": h} for h in pick]


def _emit(rng, fn, pts, dt, out, k=2):
    for p in pts:
        if all(holds(v, dt) for v in p):
            for rep in _reps_for(rng, dt, k):
                if rep["as"] == "batch3" and not all(holds(o, dt) for o in (0, 1)):
                    continue
                out.append((fn, tuple(p), rep))


def gen_point_reps(rng, tier):
    """to_spherical: the same points as integers / floats of every dtype the API accepts"""
    out = []
    for dt, (lo, hi) in INT_RANGE.items():
        hi_ = min(hi, 2**62)
        b = math.isqrt(hi_)                       # the largest |x| whose square the dtype still holds
        b3 = math.isqrt(hi_ // 3)                 # ... whose three squares still add up inside the dtype
        mags = sorted({1, 2, 3, b3, b3 + 1, b, b + 1, 2 * b, hi_ // 2, hi_} - {0})
        pts = []
        for m in mags:
            pts += [(m, 0, 0), (0, m, 0), (0, 0, m), (m, m, m)]
            if lo < 0:
                pts += [(-m, 0, 0), (0, -m, 0), (0, 0, -m), (-m, m, -m)]
        for kk in (1, max(1, b // 13), max(1, b // 12) + 1, max(1, hi_ // 12)):      # (3,4,12) k has norm 13 k
            pts += [(3 * kk, 4 * kk, 12 * kk)] + ([(-3 * kk, 4 * kk, -12 * kk), (12 * kk, -3 * kk, 4 * kk)] if lo < 0 else [])
        for _ in range(4 if tier == "quick" else 40):
            top = int(min(hi_, 10 ** int(rng.integers(1, 19))))
            q = [int(rng.integers(max(lo, -top), top + 1)) for _ in range(3)]
            pts.append(tuple(q))
        if dt == "pyint":
            pts += [(2**70, 0, 3 * 2**68), (-2**64, 2**64, 2**63), (5_000_000_000, 0, -1), (4_000_000_000, 0, 3_000_000_000)]
        pts = [p for p in dict.fromkeys(pts) if any(p)]
        _emit(rng, "to_spherical", pts, dt, out, k=1 if tier == "quick" else 3)
    for dt in FLOAT_DT:
        pts = []
        npdt = NP_OF.get(dt, np.float64)
        info = np.finfo(npdt)
        big, tiny = float(info.max), float(info.tiny)
        ladder = [1.0, 0.5, 3.0, math.sqrt(big) / 2, math.sqrt(big) * 2, big / 4, math.sqrt(tiny) * 4, math.sqrt(tiny) / 4,
                  tiny * 8, 1e-3, 300.0]
        with warnings.catch_warnings():
            warnings.simplefilter("ignore")
            for m in ladder:
                m = float(npdt(m))
                if not (math.isfinite(m) and m > 0) or (dt in ("float64", "pyfloat") and not 1e-150 < m < 1e150):
                    continue
                pts += [(m, 0.0, 0.0), (0.0, -m, 0.0), (0.0, 0.0, -m), (m, -m, m), (m, m / 2, 0.0)]
            for v in unit_vectors(rng, 6 if tier == "quick" else 60):
                m = 10.0 ** rng.uniform(-3, 3)
                q = tuple(float(npdt(x * m)) for x in v)
                if all(math.isfinite(x) for x in q) and any(q):
                    pts.append(q)
        _emit(rng, "to_spherical", list(dict.fromkeys(pts)), dt, out, k=1 if tier == "quick" else 3)
    return out


def gen_angle_reps(rng, tier):
    """to_cartesian: integer radians / radii, and floats of every width"""
    out = []
    for dt, (lo, hi) in INT_RANGE.items():
        hi_ = min(hi, 2**62)
        b = math.isqrt(hi_)
        pts = [(ph, th, r) for ph in (0, 1, 3, 6) for th in (0, 1, 2, 3) for r in (1, 2)]
        pts += [(1, 2, r) for r in (b, b + 1, hi_ // 2, hi_)]
        if lo < 0:
            pts += [(-1, 2, 5), (-3, 1, 7), (-6, 3, 100), (2, 1, -3)]
        _emit(rng, "to_cartesian", list(dict.fromkeys(pts)), dt, out, k=1 if tier == "quick" else 3)
    for dt in FLOAT_DT:
        npdt = NP_OF.get(dt, np.float64)
        pts = []
        for _ in range(8 if tier == "quick" else 80):
            q = (float(npdt(rng.uniform(-2 * math.pi, 2 * math.pi))), float(npdt(rng.uniform(0, math.pi))),
                 float(npdt(10.0 ** rng.uniform(-3, 3))))
            pts.append(q)
        _emit(rng, "to_cartesian", pts, dt, out, k=1 if tier == "quick" else 3)
    return out


def gen_lambert_reps(rng, tier):
    out = []
    ipts = [(0, 0, 1), (0, 0, -1), (1, 0, 0), (0, 1, 0), (-1, 0, 0), (0, -1, 0), (1, 1, 0), (2, 1, 2), (0, 0, 2), (1, 1, 1)]
    for dt, (lo, _) in INT_RANGE.items():
        _emit(rng, "lambert", [p for p in ipts if lo < 0 or min(p) >= 0], dt, out, k=1)
    for dt in FLOAT_DT:
        npdt = NP_OF.get(dt, np.float64)
        pts = [tuple(float(npdt(x)) for x in v) for v in unit_vectors(rng, 6 if tier == "quick" else 60)]
        _emit(rng, "lambert", pts, dt, out, k=1)
    return out


def density_rep(c):
    """representation of the data / weights of a point_density case (carried in its `kind` string)"""
    return c[7].split("|rep:")[1] if "|rep:" in c[7] else None


def present_density(c):
    _, k, axial, g, sigma, w, d, _ = c
    rep = density_rep(c)
    cols = [d[:, 0], d[:, 1], d[:, 2]]
    if rep in ("float32", "float16", "int64", "int8"):
        cols = [np.ascontiguousarray(x.astype(NP_OF[rep])) for x in cols]
    elif rep == "list":
        cols = [[float(v) for v in x] for x in cols]
    elif rep == "mixed":       # one float32 column, one list, one strided float64 view
        buf = np.zeros((len(d), 2))
        buf[:, 0] = d[:, 2]
        cols = [cols[0].astype(np.float32), [float(v) for v in cols[1]], buf[:, 0]]
    if rep in ("int64", "int8") or (rep and float(w).is_integer() and g % 2 == 0):
        w = int(w) if float(w).is_integer() else w
    return cols, w


def gen_density_reps(rng, tier):
    """point_density with the data as float32 / float16 arrays (values those formats hold exactly), as
    integer arrays (signed axis vectors), lists and mixed columns; integer weights"""
    cases = []
    for k in range(5):
        n = int(rng.integers(20, 120))
        g = int(rng.choice([6, 9, 11]))
        for rep in ("float32", "float16", "list", "mixed"):
            d = unit_vectors(rng, n)
            if rep in ("float32", "float16", "mixed"):
                d = d.astype(np.float16 if rep == "float16" else np.float32).astype(np.float64)
            cases.append(("density", k, True, g, 10.0, float(rng.choice([1.0, 2.0])), d, "random|rep:" + rep))
        ax = np.vstack([np.eye(3), -np.eye(3)])[rng.integers(0, 6, size=n)]
        cases.append(("density", k, True, g, 10.0, 1.0, ax, "axes|rep:" + str(rng.choice(["int64", "int8"]))))
    return cases


def gen_cases(chk, tier):
    rng = np.random.default_rng(chk.seed)
    rng2 = np.random.default_rng([chk.seed, 20])  # the option-space families have their own stream: the older cases stay as they were
    rng3 = np.random.default_rng([chk.seed, 204])  # input representations (after C20d): own stream as well
    return (gen_points(rng, tier) + gen_angles(rng, tier) + gen_lambert(rng, tier) + gen_poles(rng, tier)
            + gen_poles_options(rng2, tier) + gen_density(rng, tier)
            + gen_point_reps(rng3, tier) + gen_angle_reps(rng3, tier) + gen_lambert_reps(rng3, tier)
            + gen_density_reps(rng3, tier) + gen_grids(np.random.default_rng([chk.seed, 205]), tier)
            # call sequences come LAST: what they leave behind in the process cannot reach the single-call cases above
            + gen_sessions(np.random.default_rng([chk.seed, 206]), tier))


# --------------------------------------------------------------------------
# implementation / model calls
# --------------------------------------------------------------------------
def popts(c):
    return c[4] if len(c) > 4 and c[4] else {}


def build_call(c):
    """(orientations, args, kwargs) of the poles call of case c in the representation its
    options ask for; the canonical float64 values are c[2] (hkl) and c[3] (orientations)"""
    o = popts(c)
    A = np.array(c[3], dtype=float)
    n = len(A)
    oa = o.get("ori_as", "c")
    if oa == "c":
        A_in = A.copy()
    elif oa == "f32":
        A_in = A.astype(np.float32)
    elif oa == "int":
        A_in = A.astype(int)
    elif oa == "fortran":
        A_in = np.asfortranarray(A)
    elif oa == "stride2":
        big = np.full((2 * n, 3, 3), 7.0)
        big[::2] = A
        A_in = big[::2]
    elif oa == "reversed":
        A_in = A[::-1].copy()[::-1]
    elif oa == "transposed_view":
        A_in = A.transpose(0, 2, 1).copy().transpose(0, 2, 1)
    elif oa == "sub4x4":
        big = np.full((n, 4, 4), 7.0)
        big[:, :3, :3] = A
        A_in = big[:, :3, :3]
    elif oa == "readonly":
        A_in = A.copy()
        A_in.setflags(write=False)
    else:
        raise ValueError(oa)
    hkl = np.array(c[2], dtype=float)
    ha = o.get("hkl_as", "array")
    if ha == "array":
        h_in = hkl.copy()
    elif ha == "list":
        h_in = [float(v) for v in hkl]
    elif ha == "tuple":
        h_in = tuple(float(v) for v in hkl)
    elif ha == "intlist":
        h_in = [int(v) for v in hkl]
    elif ha == "inttuple":
        h_in = tuple(int(v) for v in hkl)
    elif ha == "intarray":
        h_in = hkl.astype(int)
    elif ha == "f32":
        h_in = hkl.astype(np.float32)
    elif ha == "strided":
        big = np.full(6, 7.0)
        big[::2] = hkl
        h_in = big[::2]
    elif ha == "readonly":
        h_in = hkl.copy()
        h_in.setflags(write=False)
    elif ha == "alias_row":
        h_in = A_in[0, 0]          # a view into the orientation stack itself
    elif ha == "default":
        h_in = None
    else:
        raise ValueError(ha)
    kw, args = {}, []
    aa = o.get("axes_as", "kw")
    if aa == "pos":
        args.append(c[1])
    elif aa == "kw":
        kw["ref_axes"] = c[1]
    if h_in is not None:
        kw["hkl"] = h_in
    return A_in, args, kw


def _bytes(v):
    return np.asarray(v).tobytes() if isinstance(v, np.ndarray) else repr(v)


def call_poles(c):
    """The poles call of case c on the public API, with the checks a pure function passes:
    the preceding calls of the case (prelude) are made first; inputs and default arguments are
    left untouched; the caller may overwrite the returned arrays and call again; each row of a
    batch is what the one-orientation call returns.  -> (n x 3 array, [hygiene failures])"""
    import copy
    import pydrex.geometry as geo
    o = popts(c)
    for ax, hkl in o.get("prelude", ()):
        try:
            geo.poles(np.eye(3)[None], ref_axes=ax, hkl=list(hkl))
        except Exception:  # noqa: BLE001  (illegal strings in the prelude raise; that is the point)
            pass
    A_in, args, kw = build_call(c)
    snap_A, snap_h = A_in.tobytes(), _bytes(kw.get("hkl"))
    defaults = copy.deepcopy(geo.poles.__defaults__)
    x, y, z = geo.poles(A_in, *args, **kw)
    n = len(A_in)
    hyg = []
    if not (np.shape(x) == np.shape(y) == np.shape(z) == (n,)):
        hyg.append(f"outputs have shapes {np.shape(x)}, {np.shape(y)}, {np.shape(z)} for {n} orientations")
        return np.stack([np.ravel(x), np.ravel(y), np.ravel(z)], axis=1), hyg
    first = np.stack([x, y, z], axis=1)
    if A_in.tobytes() != snap_A or _bytes(kw.get("hkl")) != snap_h:
        hyg.append("poles modified its input arrays")
    if geo.poles.__defaults__ != defaults:
        hyg.append(f"poles modified its default arguments: {geo.poles.__defaults__}")
    for t in (x, y, z):   # the caller owns the result: overwriting it must not influence the next call
        if isinstance(t, np.ndarray) and t.flags.writeable:
            t[...] = np.nan
    x2, y2, z2 = geo.poles(A_in, *args, **kw)
    second = np.stack([x2, y2, z2], axis=1)
    if second.tobytes() != first.tobytes():
        hyg.append("an identical second call returns different values")
    if 1 < n <= 17:
        tol = 1e-5 if first.dtype == np.float32 else 1e-13
        for g in range(n):
            xs, ys, zs = geo.poles(A_in[g:g + 1], *args, **kw)
            one = np.array([xs[0], ys[0], zs[0]])
            if not np.allclose(one, first[g], rtol=0, atol=tol, equal_nan=True):
                hyg.append(f"row {g} of the batch {first[g]} differs from the one-orientation call {one}")
                break
    return first, hyg


def impl(c):
    """Public API on one case -> ('OK', flat list of floats) | ('ERR', code, message)"""
    import pydrex.geometry as geo
    import pydrex.stats as stats
    try:
        with warnings.catch_warnings():
            warnings.simplefilter("ignore")
            if c[0] in ("to_spherical", "to_cartesian", "lambert"):
                fn = {"to_spherical": geo.to_spherical, "to_cartesian": geo.to_cartesian, "lambert": geo.lambert_equal_area}[c[0]]
                args = present(c)
                before = [_bytes(a) for a in args]
                out = fn(*args)
                if [_bytes(a) for a in args] != before:
                    return ("ERR", "ArgumentsModified", "the call changed its arguments")
                return ("OK", [float(np.asarray(v).reshape(-1)[0]) for v in out])
            if c[0] == "poles" and popts(c):
                v, hyg = call_poles(c)
                return ("OK", [float(t) for t in v.reshape(-1)], hyg, str(v.dtype))
            if c[0] == "poles":
                x, y, z = geo.poles(c[3].copy(), ref_axes=c[1], hkl=c[2])
                return ("OK", [float(v) for v in np.stack([x, y, z], axis=1).reshape(-1)])
            if c[0] == "density":
                _, k, axial, g, sigma, w, d, _ = c
                kw = {} if k == 1 else {"σ": sigma}
                cols, w = present_density(c)
                X, Y, t = stats.point_density(cols[0], cols[1], cols[2], gridsteps=g, weights=w,
                                              kernel=KERNELS[k], axial=axial, **kw)
                return ("OK", [float(v) for v in np.concatenate([X.ravel(), Y.ravel(), t.ravel()])])
    except Exception as e:  # noqa: BLE001
        return ("ERR", common.exc_code(e), str(e)[:200])
    raise ValueError(c[0])


def model_lines(c):
    if c[0] == "session":    # the models are pure: one block of lines per step, from that step's arguments alone
        return [ln for st in c[1] for ln in model_lines(st["case"])]
    if c[0] == "grid":
        return [common.model_line(c[1], [], [float(v) for v in p]) for p in c[3]]
    if c[0] in ("to_spherical", "to_cartesian", "lambert"):
        return [common.model_line(c[0], [], [float(v) for v in c[1]])]
    if c[0] == "poles" and popts(c):
        # any string: how it is read, and the result for both choices set.pop() can make
        codes = [ord(ch) for ch in c[1]]
        xs = list(c[3].reshape(-1)) + list(c[2])
        return [common.model_line("axes_read", codes, []),
                common.model_line("poles_str", [len(c[3]), 0] + codes, xs),
                common.model_line("poles_str", [len(c[3]), 1] + codes, xs)]
    if c[0] == "poles":
        return [common.model_line("poles", [AXES.index(c[1]), len(c[3])], list(c[3].reshape(-1)) + list(c[2]))]
    _, k, axial, g, sigma, w, d, _ = c
    xs = [sigma, w] + list(d.reshape(-1))
    return [common.model_line("density", [k, int(axial), g, len(d)], xs),
            common.model_line("raw_totals", [k, int(axial), g, len(d)], xs)]


def encode(c):
    if c[0] == "session":
        return {"fn": "session", "session": True, "pattern": c[2],
                "steps": [dict({k: v for k, v in st.items() if k != "case"}, call=encode(st["case"])) for st in c[1]],
                "how_to_read": "calls made one after the other in ONE process; `after` = what the caller does in place with the arrays that call returned "
                               "(`which`: indices of the returned arrays, default all) before the next call; g_as / kernel_as: gridsteps as that integer type, kernel "
                               "name as literal or as an equal string built at run time; bufs=reuse: the argument arrays are the objects of the previous step, "
                               "overwritten with this step's data"}
    if c[0] == "grid":
        return {"fn": c[1], "grid": True, "arrangement": c[4], "axes": None if c[2] is None else [[hx(v) for v in ax] for ax in c[2]],
                "points": [[hx(v) for v in p] for p in c[3]], "points_readable": [list(p) for p in c[3][:6]],
                "how_to_read": "K points in flat order; `arrangement` says how the three arguments are laid out (full arrays of a shape, Fortran / "
                               "transposed copies, or arguments of different shapes broadcast against each other); outputs are read back point by point"}
    if c[0] == "malformed":
        return {"fn": "poles", "malformed": c[1]}
    if c[0] in ("to_spherical", "to_cartesian", "lambert"):
        e = {"fn": c[0], "args": [hx(x) for x in c[1]]}
        if rep_of(c):
            e["representation"] = rep_of(c)          # dtype + container the implementation receives (see present)
            e["args_exact"] = [str(int(v)) if float(v).is_integer() else repr(float(v)) for v in c[1]]
        return e
    if c[0] == "poles":
        e = {"fn": "poles", "ref_axes": c[1], "hkl": [hx(x) for x in c[2]], "n": len(c[3]),
             "orientations": [hx(x) for x in c[3].reshape(-1)]}
        if popts(c):
            e["variant"] = popts(c)   # input representation (see build_call) and preceding calls
        return e
    _, k, axial, g, sigma, w, d, kind = c
    return {"fn": "point_density", "kernel": KERNELS[k], "axial": axial, "gridsteps": g, "sigma": hx(sigma),
            "weights": hx(w), "n": len(d), "data": [hx(x) for x in d.reshape(-1)], "kind": kind}


def decode(d):
    if d.get("session"):
        return ("session", [dict({k: v for k, v in st.items() if k != "call"}, case=decode(st["call"])) for st in d["steps"]], d.get("pattern", ""))
    if d.get("grid"):
        axes = None if d["axes"] is None else tuple([unhx(v) for v in ax] for ax in d["axes"])
        return ("grid", d["fn"], axes, [tuple(unhx(v) for v in p) for p in d["points"]], d["arrangement"])
    if d["fn"] in ("to_spherical", "to_cartesian", "lambert"):
        c = (d["fn"], tuple(unhx(x) for x in d["args"]))
        return c + (d["representation"],) if d.get("representation") else c
    if d["fn"] == "poles":
        c = ("poles", d["ref_axes"], np.array([unhx(x) for x in d["hkl"]]),
             np.array([unhx(x) for x in d["orientations"]], dtype=float).reshape(d["n"], 3, 3))
        return c + (d["variant"],) if d.get("variant") else c
    return ("density", KERNELS.index(d["kernel"]), d["axial"], d["gridsteps"], unhx(d["sigma"]), unhx(d["weights"]),
            np.array([unhx(x) for x in d["data"]]).reshape(d["n"], 3), d.get("kind", ""))


def sample_of(c, r, m):
    e = encode(c)
    for st in e.get("steps", ()):
        for k in ("data", "points"):
            if k in st["call"]:
                st["call"][k] = st["call"][k][:6] + (["..."] if len(st["call"][k]) > 6 else [])
    for k in ("orientations", "data"):
        if k in e:
            e[k] = e[k][:9] + (["..."] if len(e[k]) > 9 else [])
    fin = lambda v: v if math.isfinite(v) else repr(v)  # noqa: E731  (keep the evidence strict JSON)
    e["impl"] = r[0] if r[0] == "ERR" else [fin(v) for v in r[1][:3]]
    e["model"] = m[0] if m[0] == "ERR" else [fin(v) for v in m[1][:3]]
    return e


def near_threshold(c):
    """a (counter, datum) pair sits within rounding of a counting threshold: the two sides may
    legitimately count it differently (np.dot vs sequential products)"""
    _, k, axial, g, sigma, w, d, _ = c
    import pydrex.geometry as geo
    if k not in (0, 1):
        return False
    n = float(len(d))
    if k == 1:
        thr = 0.99
    else:
        r = sigma**2 / (n + sigma**2)
        thr = 1 - r if axial else 1 - 2 * r
    rho, h = np.mgrid[-np.pi:np.pi:g * 1j, -1:1:g * 1j]
    x, y, z = geo.to_cartesian(np.pi / 2 - rho.ravel(), np.pi / 2 - np.arcsin(h.ravel()))
    P = np.column_stack([x, y, z]) @ d.T
    if axial:
        P = np.abs(P)
    return bool(np.min(np.abs(P - thr)) < 1e-11)


def string_class(sp):
    if sp in AXES:
        return "legal-lower"
    if sp in SPELLINGS:
        return "legal-upper" if sp.isupper() else "legal-mixed"
    return "illegal"


def compare_poles_str(chk, c, r, m_axes, m0, m1, hist):
    """poles with any string / input representation vs poles_str of the extracted model
    (m0, m1: the two choices set.pop() can make; m_axes: how the model reads the string)."""
    o = popts(c)

    def bump(k):
        hist[k] = hist.get(k, 0) + 1
    cls = string_class(c[1])
    if cls == "illegal":
        cls += ":" + (m_axes[1] if m_axes[0] == "ERR" else ("ambiguous-pop" if len(m_axes[1]) > 3 else "accepted"))
    bump("poles_str:string:" + cls)
    if cls.startswith("legal"):
        bump("poles_str:spelling:" + c[1])
    for k in ("family", "hkl_as", "ori_as", "axes_as"):
        bump(f"poles_str:{k}:{o.get(k, 'array' if k == 'hkl_as' else 'c' if k == 'ori_as' else 'kw')}")
    bump(f"poles_str:n:{len(c[3]) if len(c[3]) <= 4 else '5+'}")
    if o.get("prelude"):
        bump(f"poles_str:prelude_calls:{len(o['prelude'])}")
    flat = r[1] if r[0] == "OK" else []
    chk.note_case(repr(encode(c)), nontrivial=(r[0] == "ERR" or any(flat)), sample=None)
    if len(chk.cov["samples"]) < 8 and hist["poles_str:string:" + cls] == 1:
        chk.cov["samples"].append(sample_of(c, r, m0))
    if r[0] == "OK" and r[2]:
        return "poles is not a pure function of its arguments: " + "; ".join(r[2])
    if m0[0] == "ERR":
        bump("model_err:" + m0[1])
        if m0[1] == "DivZero":   # 0/0: nan in NumPy
            if r[0] == "OK" and (any(math.isnan(v) or math.isinf(v) for v in flat)):
                return None
            return f"model: zero direction (0/0), implementation: {r[:2] if r[0] == 'ERR' else flat[:6]}"
        if r[0] == "ERR" and r[1] == m0[1]:
            return None
        return (f"ref_axes={c[1]!r}: the model of the pinned source raises {m0[1]}, the implementation "
                f"{'raises ' + r[1] + ': ' + r[2] if r[0] == 'ERR' else 'returns ' + str(flat[:6])}")
    if r[0] == "ERR":
        return f"ref_axes={c[1]!r}: implementation raises {r[1]}: {r[2]}; model returns values"
    rtol = 5e-6 if r[3] == "float32" else 1e-12
    ok0, j = common.vec_close(flat, m0[1], rtol=rtol)
    if ok0:
        return None
    if m1[0] == "OK" and m1[1] != m0[1] and common.vec_close(flat, m1[1], rtol=rtol)[0]:
        return None
    a = flat[j] if j is not None and 0 <= j < len(flat) else None
    b = m0[1][j] if j is not None and 0 <= j < len(m0[1]) else None
    return f"poles(ref_axes={c[1]!r}) output {j} (orientation {j // 3 if j is not None and j >= 0 else '?'}, component {j % 3 if j is not None and j >= 0 else '?'}): implementation {a!r} vs model {b!r}"


def verdict_plain(c, r, m, mraw, hist, guard):
    """one call of a conversion / plain poles / point_density (r: implementation, m: model, mraw: the model's raw totals
    of a density case) -> disagreement text | None.  Shared by the single cases and the steps of a session."""
    msg = _verdict_plain(c, r, m, mraw, hist, guard)
    if msg and c[0] == "density" and mraw is not None and mraw[0] == "OK" and mraw[1] and all(math.isfinite(v) and abs(v) < 1e-12 for v in mraw[1]):
        # EXCLUDED INPUT CLASS (the stated guard "raw grid mean != 0", met up to rounding): every raw total vanishes in exact
        # arithmetic -- schmidt_count when no counter lies within the 1 % cap of any datum, e.g. 25 clustered data on an
        # 11 x 11 grid: n * (0.5 / n) - 0.5.  What is left is the rounding of that sum: exactly 0 for NumPy's pairwise sum
        # (0 / 0: nan everywhere), 4.4e-16 for the model's sequential sum (x / x: 1 everywhere), or the other way round.
        # The summands are >= 1e-3 in size, so a total below 1e-12 is rounding noise.  Counted in the evidence, not compared.
        guard["raw_totals_vanish_excused"] = guard.get("raw_totals_vanish_excused", 0) + 1
        return None
    return msg


def _verdict_plain(c, r, m, mraw, hist, guard):
    flat = r[1] if r[0] == "OK" else []
    # the model raises where NumPy array arithmetic yields nan (0/0): map one onto the other
    if m[0] == "ERR":
        ok = (r[0] == "ERR" and r[1] == m[1]) or (m[1] == "DivZero" and r[0] == "OK" and any(math.isnan(v) for v in flat))
        hist["model_err:" + m[1]] = hist.get("model_err:" + m[1], 0) + 1
        if not ok:
            return f"model raises {m[1]}, implementation: {r[:2] if r[0] == 'ERR' else flat[:6]}"
        return None
    if r[0] == "ERR":
        return f"implementation raises {r[1]}: {r[2]}; model returns values"
    rtol = 1e-12
    if c[0] == "density":
        rtol = 1e-10
        raw = mraw[1]
        guard["cases"] += 1
        fin = [v for v in raw if math.isfinite(v)]
        if len(fin) != len(raw) or not fin:
            if all(math.isnan(v) or math.isinf(v) for v in flat[2 * c[3] ** 2:]) or not all(map(math.isfinite, m[1])):
                guard["nonfinite_both_sides"] += 1
        else:
            ma = sum(abs(v) for v in fin) / len(fin)
            ratio = abs(sum(fin) / len(fin)) / ma if ma > 0 else 0.0
            if guard["raw_mean_over_mean_abs_min"] is None or ratio < guard["raw_mean_over_mean_abs_min"]:
                guard["raw_mean_over_mean_abs_min"] = ratio
            if ratio < 1e-6:
                guard["below_1e-6"] += 1
                return None  # the normalisation divides by (almost) zero: not comparable
    okc, j = common.vec_close(flat, m[1], rtol=rtol)
    if not okc:
        if c[0] == "density" and near_threshold(c):
            guard["near_threshold_excused"] += 1
            return None
        a = flat[j] if 0 <= j < len(flat) else None
        b = m[1][j] if 0 <= j < len(m[1]) else None
        return f"{c[0]} output {j}: implementation {a!r} vs model {b!r}"
    return None


def compare(chk, cases):
    """Differential run: public functions vs extracted model.  Returns disagreements."""
    lines, idx = [], []
    for c in cases:
        ls = model_lines(c)
        idx.append((len(lines), len(ls)))
        lines += ls
    mres = common.run_model(lines, group=GROUP)
    bad = []
    hist = chk.cov.setdefault("histogram", {})
    guard = chk.cov.setdefault("density_guard", {"cases": 0, "raw_mean_over_mean_abs_min": None, "below_1e-6": 0,
                                                 "nonfinite_both_sides": 0, "near_threshold_excused": 0})
    for c, (i0, k) in zip(cases, idx):
        m = mres[i0]
        if c[0] == "session":
            msg = compare_session(chk, c, mres[i0:i0 + k], hist, guard)
            if msg:
                bad.append((c, msg))
            continue
        r = impl(c) if c[0] != "grid" else None
        key = c[0] if c[0] != "density" else f"density:{KERNELS[c[1]]}:{'axial' if c[2] else 'nonaxial'}"
        if c[0] == "poles":
            key = f"poles:{c[1]}"
        if c[0] == "grid":
            msg = compare_grid(chk, c, mres[i0:i0 + k], hist)
            if msg:
                bad.append((c, msg))
            continue
        if c[0] == "poles" and popts(c):
            msg = compare_poles_str(chk, c, r, mres[i0], mres[i0 + 1], mres[i0 + 2], hist)
            if msg:
                bad.append((c, msg))
            continue
        hist[key] = hist.get(key, 0) + 1
        if rep_of(c) or (c[0] == "density" and density_rep(c)):
            rk = f"representation:{c[0]}:" + (f"{rep_of(c)['dt']}/{rep_of(c)['as']}" if rep_of(c) else density_rep(c))
            hist[rk] = hist.get(rk, 0) + 1
        flat = r[1] if r[0] == "OK" else []
        trivial = r[0] == "OK" and not any(flat)
        chk.note_case(repr(encode(c)), nontrivial=not trivial, sample=None)
        if len(chk.cov["samples"]) < 6 and hist[key] == 1 and c[0] in ("to_spherical", "lambert", "poles", "density"):
            chk.cov["samples"].append(sample_of(c, r, m))
        msg = verdict_plain(c, r, m, mres[i0 + 1] if c[0] == "density" else None, hist, guard)
        if msg:
            bad.append((c, msg))
    return bad


# --------------------------------------------------------------------------
# judgements of ONE point (shared by the single-point cases and by the shape families)
# --------------------------------------------------------------------------
def _exact(p):
    return [int(v) if float(v).is_integer() else float(v) for v in p]


def sph_fails(shown, pt, r, ph, th, back):
    """to_spherical at one point: reference values from exact Python integers / math (never from NumPy)"""
    ex = _exact(pt)
    p = np.array([float(v) for v in ex])
    if not np.any(p):
        return []
    if all(isinstance(v, int) for v in ex):
        n = math.sqrt(sum(v * v for v in ex)) if max(abs(v) for v in ex) < 2**500 else math.hypot(*p)
    else:
        n = math.hypot(*p)
    fails = []
    if not np.all(np.isfinite([r, ph, th])):
        fails.append(f"{shown} is not finite: {(r, ph, th)}")
    elif not np.all(np.isfinite(back)) or np.abs(back - p).max() > 1e-9 * n:
        fails.append(f"to_cartesian({shown}) = {back} != p = {p} (r = {r}, |p| = {n})")
    else:
        if abs(r - n) > 1e-12 * n:
            fails.append(f"{shown}: r = {r} is not |p| = {n}")
        if not (0 <= th <= math.pi) or abs(math.cos(th) - p[2] / n) > 1e-9:
            fails.append(f"{shown}: theta = {th} is not the colatitude acos(z/r) = {math.acos(max(-1, min(1, p[2] / n)))}")
        s = math.hypot(p[0], p[1])
        if s > 1e-9 * n and (abs(s * math.cos(ph) - p[0]) > 1e-9 * n or abs(s * math.sin(ph) - p[1]) > 1e-9 * n):
            fails.append(f"{shown}: phi = {ph} is not the longitude of ({p[0]}, {p[1]})")
        elif s > 1e-9 * n and abs(math.remainder(ph - math.atan2(p[1], p[0]), 2 * math.pi)) > 1e-12:
            fails.append(f"{shown}: phi = {ph} is not atan2(y, x) = {math.atan2(p[1], p[0])}")
    return fails


def cart_fails(shown, pt, x, y, z):
    ph, th, r = (float(v) for v in pt)
    e = np.array([r * math.sin(th) * math.cos(ph), r * math.sin(th) * math.sin(ph), r * math.cos(th)])
    if not np.all(np.isfinite([x, y, z])) or np.abs(np.array([x, y, z]) - e).max() > 1e-12 * abs(r):
        return [f"{shown} = {(x, y, z)}, expected {tuple(e)}"]
    return []


def lambert_fails(pt, X, Y):
    x, y, z = (float(v) for v in pt)
    if abs(x * x + y * y + z * z - 1) > 1e-12:
        return []
    if not (math.isfinite(X) and math.isfinite(Y)):
        return [f"lambert_equal_area{tuple(pt)} is not finite"]
    fails = []
    if X * X + Y * Y > 1 + 1e-12:
        fails.append(f"image of {tuple(pt)} lies outside the unit disk")
    if abs(X * X + Y * Y - (1 - abs(z))) > 1e-9:
        fails.append(f"squared radius {X * X + Y * Y} != 1 - |z| = {1 - abs(z)} at {tuple(pt)}")
    if abs(X * y - Y * x) > 1e-9 or X * x + Y * y < -1e-12:
        fails.append(f"azimuth changed at {tuple(pt)}: image {(X, Y)}")
    return fails


# --------------------------------------------------------------------------
# INPUT SHAPES (added after seeded change C20e: `np.column_stack([x, y, z]).reshape(-1, 3)` groups unrelated
# numbers into a "point" as soon as the coordinate arrays have two or more dimensions, while every case of
# this harness was a scalar / 1-element call).  A case ("grid", fn, axes | None, pts, arr) carries K exact
# points `pts` in flat order -- for product grids `axes` = (xs, ys, zs) with pts[(i*b + j)*c + k] =
# (xs[i], ys[j], zs[k]) -- and an arrangement `arr`: how the three arguments are laid out.  The
# implementation is called once (K times for "scalar_calls"); every output is broadcast to the full shape and
# read back POINT BY POINT: outputs at the position of point q are compared with the model's single-point
# entry on pts[q] and judged by the single-point oracle.
# --------------------------------------------------------------------------
GRID_FN = ("to_spherical", "to_cartesian", "lambert")


def _shapes_of(K, dims):
    """full-array shapes for K = a*b*c points"""
    a, b, c = dims
    out = [(K,), (K, 1), (1, K), (a, b * c), (a * b, c), (a, b, c), (1, a, b * c)]
    if c == 1:
        out += [(a, b), (b, a)]
    return [s for s in dict.fromkeys(out) if int(np.prod(s)) == K]


def grid_arrangements(dims, has_axes, fn):
    a, b, c = dims
    K = a * b * c
    arrs = [{"kind": "scalar_calls"}]
    for shp in _shapes_of(K, dims):
        arrs.append({"kind": "full", "shape": list(shp)})
    for shp in _shapes_of(K, dims):
        if len(shp) >= 2 and min(shp) > 1:
            arrs.append({"kind": "full_F", "shape": list(shp)})           # Fortran-ordered copies
            arrs.append({"kind": "full_T", "shape": list(shp)})           # transposed views of a C array
    if has_axes and fn != "lambert":
        # arguments of DIFFERENT shapes, broadcast against each other (lambert_equal_area needs equal shapes:
        # numpy.ma.masked_where refuses a condition of another shape than its array)
        arrs.append({"kind": "sparse3"})                                  # (a,1,1), (1,b,1), (1,1,c)
        arrs.append({"kind": "sparse3_lastfull"})                         # (a,1,1), (1,b,1), full (a,b,c)
        if c == 1:
            arrs += [{"kind": "mesh_row_col"},                            # x (a,1), y (b,), third a Python scalar
                     {"kind": "mesh_row_col_arr0d"},                      # ... third a 0-d array
                     {"kind": "np_meshgrid_xy"}, {"kind": "np_meshgrid_ij"},   # first two from np.meshgrid, third full
                     {"kind": "np_mgrid"}]                                # index-style dense grids, third scalar
    return arrs


def present_grid(c):
    """-> (list of argument triples to call with, index array I: position in the broadcast output -> flat point)"""
    _, fn, axes, pts, arr = c
    P = np.array([[float(v) for v in p] for p in pts], dtype=np.float64)
    K = len(pts)
    kind = arr["kind"]
    if kind == "scalar_calls":
        return [tuple(float(v) for v in p) for p in P], np.arange(K)
    if kind in ("full", "full_F", "full_T"):
        shp = tuple(arr["shape"])
        if kind == "full_T":
            I = np.arange(K).reshape(shp[::-1]).T
            args = tuple(np.ascontiguousarray(P[:, d].reshape(shp[::-1])).T for d in range(3))
        else:
            I = np.arange(K).reshape(shp)
            args = tuple(P[:, d].reshape(shp).copy(order="F" if kind == "full_F" else "C") for d in range(3))
        return [args], I
    xs, ys, zs = (np.array([float(v) for v in ax], dtype=np.float64) for ax in axes)
    a, b, cc = len(xs), len(ys), len(zs)
    if kind == "sparse3":
        return [(xs.reshape(a, 1, 1), ys.reshape(1, b, 1), zs.reshape(1, 1, cc))], np.arange(K).reshape(a, b, cc)
    if kind == "sparse3_lastfull":
        return [(xs.reshape(a, 1, 1), ys.reshape(1, b, 1), np.broadcast_to(zs, (a, b, cc)).copy())], np.arange(K).reshape(a, b, cc)
    I2 = np.arange(K).reshape(a, b)
    if kind == "mesh_row_col":
        return [(xs.reshape(a, 1), ys.copy(), float(zs[0]))], I2
    if kind == "mesh_row_col_arr0d":
        return [(xs.reshape(a, 1), ys.reshape(1, b), np.array(zs[0]))], I2
    if kind == "np_meshgrid_xy":
        X, Y = np.meshgrid(xs, ys)                    # shape (b, a), X[j, i] = xs[i]
        return [(X, Y, np.full(X.shape, zs[0]))], I2.T
    if kind == "np_meshgrid_ij":
        X, Y = np.meshgrid(xs, ys, indexing="ij")     # shape (a, b)
        return [(X, Y, np.full(X.shape, zs[0]))], I2
    if kind == "np_mgrid":
        ii, jj = np.mgrid[0:a, 0:b]
        return [(xs[ii], ys[jj], float(zs[0]))], I2
    raise ValueError(kind)


def eval_grid(c):
    """outputs of the implementation, one row per point (flat order): ndarray (K, n_out); raises what the call raises"""
    import pydrex.geometry as geo
    _, fn, axes, pts, arr = c
    f = {"to_spherical": geo.to_spherical, "to_cartesian": geo.to_cartesian, "lambert": geo.lambert_equal_area}[fn]
    calls, I = present_grid(c)
    K = len(pts)
    if arr["kind"] == "scalar_calls":
        rows = [[float(np.asarray(v).reshape(-1)[0]) for v in f(*a)] for a in calls]
        outs = None
        return np.array(rows, dtype=np.float64), None
    args = calls[0]
    before = [_bytes(a) for a in args]
    outs = f(*args)
    if [_bytes(a) for a in args] != before:
        raise RuntimeError("the call changed its arguments")
    return read_grid(args, outs, I, K), outs


def read_grid(args, outs, I, K):
    """the outputs of one call, one row per point (flat order of the points)"""
    full = np.broadcast_shapes(*[np.shape(a) for a in args])
    res = np.full((K, len(outs)), np.nan)
    for d, o in enumerate(outs):
        o = np.asarray(o, dtype=np.float64)
        o = np.broadcast_to(o, full) if o.shape != full else o           # an output may have the shape of the arguments it depends on
        res[I.reshape(-1), d] = o.reshape(-1)
    return res


def grid_fails(c):
    import pydrex.geometry as geo
    _, fn, axes, pts, arr = c
    try:
        res, outs = eval_grid(c)
    except Exception as e:  # noqa: BLE001
        return [f"{fn} on arguments arranged as {arr} raised {type(e).__name__}: {e}"]
    return grid_judge(c, res, outs)


def grid_judge(c, res, outs):
    """the single-point judgements on the outputs `res` (one row per point) of one call that returned the arrays `outs`"""
    import pydrex.geometry as geo
    _, fn, axes, pts, arr = c
    back = None
    if fn == "to_spherical":
        if outs is not None:      # the round trip feeds the returned arrays back, as a caller does
            try:
                bo = geo.to_cartesian(outs[1], outs[2], outs[0])
                _, I = present_grid(c)
                full = np.broadcast_shapes(*[np.shape(o) for o in outs])
                back = np.full((len(pts), 3), np.nan)
                for d, o in enumerate(bo):
                    back[I.reshape(-1), d] = np.broadcast_to(np.asarray(o, dtype=np.float64), full).reshape(-1)
            except Exception as e:  # noqa: BLE001
                return [f"to_cartesian(*to_spherical(...)) on {arr} raised {type(e).__name__}: {e}"]
        else:
            back = np.array([[float(np.asarray(v).reshape(-1)[0]) for v in geo.to_cartesian(r[1], r[2], r[0])] for r in res])
    fails = []
    for q, p in enumerate(pts):
        where = f" [point {q} of {len(pts)}, arguments arranged as {arr}]"
        if fn == "to_spherical":
            f1 = sph_fails(f"to_spherical{tuple(_exact(p))}", p, res[q, 0], res[q, 1], res[q, 2], back[q])
        elif fn == "to_cartesian":
            f1 = cart_fails(f"to_cartesian{tuple(p)}", p, res[q, 0], res[q, 1], res[q, 2])
        else:
            f1 = lambert_fails(p, res[q, 0], res[q, 1])
        if f1:
            fails.append(f1[0] + where)
            if len(fails) >= 3:
                break
    return fails


def _grid_axes(rng, fn, dims, flavour):
    a, b, c = dims
    if fn == "to_cartesian":
        return ([float(v) for v in rng.uniform(-math.pi, math.pi, a)], [float(v) for v in rng.uniform(0.05, math.pi - 0.05, b)],
                [float(v) for v in 10.0 ** rng.uniform(-2, 2, c)])
    if flavour == "int":
        return tuple([float(v) for v in rng.choice(np.arange(-9, 10)[np.arange(-9, 10) != 0], size=n, replace=False)] for n in (a, b, c))
    m = 10.0 ** rng.uniform(-3, 3)
    return tuple([float(v) for v in m * rng.uniform(-1, 1, n)] for n in (a, b, c))


def gen_grids(rng, tier):
    """shape families: the same points as scalar calls, 1-D, column / row, 2-D grids of several aspect ratios, 3-D
    grids, Fortran / transposed layouts, and arguments of different shapes broadcast against each other"""
    cases = []
    dimss = [(2, 2, 1), (2, 3, 1), (3, 2, 1), (4, 3, 1), (1, 5, 1), (5, 1, 1), (2, 3, 2), (3, 2, 2), (2, 2, 3)]
    if tier != "quick":
        dimss += [(7, 5, 1), (3, 4, 5), (6, 2, 2), (2, 9, 1), (16, 16, 1)]
    for fn in ("to_spherical", "to_cartesian"):
        for dims in dimss:
            for flavour in (("float", "int") if fn == "to_spherical" else ("float",)):
                axes = _grid_axes(rng, fn, dims, flavour)
                pts = [(x, y, z) for x in axes[0] for y in axes[1] for z in axes[2]]
                for arr in grid_arrangements(dims, True, fn):
                    cases.append(("grid", fn, axes, pts, arr))
    for dims in dimss[:7] if tier == "quick" else dimss:       # lambert: unit vectors (no product structure), equal shapes only
        K = dims[0] * dims[1] * dims[2]
        pts = [tuple(float(x) for x in v) for v in unit_vectors(rng, K)]
        pts[0] = (0.0, 0.0, 1.0)
        if K > 3:
            pts[3] = (0.0, 0.0, -1.0)
        for arr in grid_arrangements(dims, False, "lambert"):
            cases.append(("grid", "lambert", None, pts, arr))
    return cases


def compare_grid(chk, c, mres, hist):
    """one grid case against the model's single-point entries; returns a disagreement text or None"""
    _, fn, axes, pts, arr = c
    key = f"shape:{fn}:{arr['kind']}" + (":" + "x".join(map(str, arr["shape"])) if "shape" in arr else "")
    hist[key] = hist.get(key, 0) + 1
    hist[f"shape_ndim:{fn}:" + (str(len(arr["shape"])) if "shape" in arr else arr["kind"])] = hist.get(
        f"shape_ndim:{fn}:" + (str(len(arr["shape"])) if "shape" in arr else arr["kind"]), 0) + 1
    chk.note_case(repr((fn, pts[:3], len(pts), arr)), nontrivial=arr["kind"] != "scalar_calls", sample=None)
    if len(chk.cov["samples"]) < 8 and hist[key] == 1 and arr["kind"] in ("full", "np_meshgrid_xy", "sparse3") and len(arr.get("shape", [0, 0])) >= 2:
        chk.cov["samples"].append({"fn": fn, "points": len(pts), "arrangement": arr, "first_point": list(pts[0])})
    try:
        with warnings.catch_warnings():
            warnings.simplefilter("ignore")
            res, _ = eval_grid(c)
    except Exception as e:  # noqa: BLE001
        return f"{fn} on arguments arranged as {arr}: implementation raises {type(e).__name__}: {e}"
    return grid_verdict(c, res, mres)


def grid_verdict(c, res, mres):
    """outputs `res` (one row per point) of one call against the model's single-point entries"""
    _, fn, axes, pts, arr = c
    for q, m in enumerate(mres):
        got = list(res[q])
        if m[0] == "ERR":
            if not (m[1] == "DivZero" and any(math.isnan(v) for v in got)):
                return f"{fn} point {q} {pts[q]} arranged as {arr}: model raises {m[1]}, implementation {got}"
            continue
        okc, j = common.vec_close(got, m[1], rtol=1e-12)
        if not okc:
            return (f"{fn} point {q} of {len(pts)} {tuple(pts[q])}, arguments arranged as {arr}: output {j}: implementation "
                    f"{got[j] if 0 <= j < len(got) else None!r} vs model {m[1][j] if 0 <= j < len(m[1]) else None!r}")
    return None


# --------------------------------------------------------------------------
# CALL SEQUENCES IN ONE PROCESS (added after seeded change C20f: the counting grid of point_density moved into a
# functools.lru_cache'd helper and the cached X / Y arrays were returned themselves, so a caller that rescales the
# grid of one pole figure in place changes the grid every later call with the same gridsteps reports; every case of
# this harness was ONE call judged on its own, apart from the repeated call of the poles option space).
# A case ("session", steps, pattern) is what a caller does in one process: step = {"case": a point_density case | a
# conversion on K points given as arrays ("grid" case, full arrangement), "after": what the caller does IN PLACE with
# the arrays that call returned before it makes the next call (rescale / shift / overwrite with nan or 0 / swap two
# outputs / reverse / transpose / re-shape; "none"), "g_as" / "kernel_as": gridsteps as int / NumPy integer, the
# kernel name as the literal or as an equal string built at run time (arguments that compare equal without being the
# same object), "bufs": "fresh" arrays or "reuse" = the array OBJECTS of the previous step overwritten with the new
# data (arguments that are the same object without being equal)}.  Every step is compared with the model's result for
# that step's arguments alone (the models are pure functions), arguments are digested around every call and around
# the caller's modification of the results (argguard), and results of different steps must not share storage.
# --------------------------------------------------------------------------
SESSION_OPS = ("scale", "shift", "nan", "zero", "swap", "reverse", "transpose", "flatten_shape")
G_AS = {"int": int, "int64": np.int64, "int32": np.int32, "intp": np.intp, "uint8": np.uint8}


def step_fn(st):
    c = st["case"]
    return "point_density" if c[0] == "density" else {"lambert": "lambert_equal_area"}.get(c[1], c[1])


def _after(rng, op):
    a = {"op": op}
    if op == "scale":      # another net radius (degrees), mirrored; or a plain mirror image that stays inside the disk
        a["factors"] = [[-90.0, 90.0, 1.0], [-1.0, 1.0, 1.0], [2.0, 2.0, 100.0], [1.0, -1.0, 0.5]][int(rng.integers(0, 4))]
    elif op == "shift":
        a["by"] = float(rng.choice([7.0, -1.5, 1e3]))
    if op in ("scale", "shift", "nan", "zero", "reverse", "transpose", "flatten_shape") and rng.integers(0, 3) == 0:
        a["which"] = [int(rng.integers(0, 2))]           # only one of the returned arrays
    return a


def apply_after(outs, after):
    """what the caller does, in place, with the arrays one call returned (read-only results cannot be modified: skipped)"""
    op = (after or {}).get("op", "none")
    if op == "none":
        return
    arrs = [o for o in outs if isinstance(o, np.ndarray)]
    sel = [arrs[i] for i in after["which"] if i < len(arrs)] if after.get("which") is not None else arrs
    sel = [a for a in sel if a.flags.writeable]
    if op == "swap":
        if len(sel) >= 2 and sel[0].shape == sel[1].shape:
            t = sel[0].copy()
            sel[0][...] = sel[1]
            sel[1][...] = t
        return
    for i, a in enumerate(sel):
        if op == "scale":
            a *= after["factors"][i % len(after["factors"])]
        elif op == "shift":
            a += after["by"]
        elif op == "nan":
            a[...] = np.nan
        elif op == "zero":
            a[...] = 0.0
        elif op == "reverse":
            a[...] = a[::-1].copy()
        elif op == "transpose":
            a[...] = (a.T if a.ndim == 2 and a.shape[0] == a.shape[1] else a.reshape(-1)[::-1].reshape(a.shape)).copy()
        elif op == "flatten_shape":
            try:
                a.shape = (a.size,)
            except Exception:  # noqa: BLE001  (a view that cannot be re-shaped in place)
                pass
        else:
            raise ValueError(op)


def step_call(st, prev):
    """(public function, argument list, keyword arguments, read-back map) of one step; `prev` = the data arrays of the
    previous point_density / conversion step (for "bufs": "reuse")"""
    import pydrex.geometry as geo
    import pydrex.stats as stats
    c = st["case"]
    if c[0] == "density":
        _, k, axial, g, sigma, w, d, _ = c
        args = [np.array(d[:, j], dtype=np.float64) for j in range(3)]        # fresh, contiguous, owned by the caller
        fn, I = stats.point_density, None
        name = KERNELS[k] if st.get("kernel_as", "literal") == "literal" else "".join(list(KERNELS[k]))
        kw = {"gridsteps": G_AS[st.get("g_as", "int")](g), "weights": w, "kernel": name, "axial": axial}
        if k != 1:
            kw["σ"] = sigma
    else:
        calls, I = present_grid(c)
        args, kw = list(calls[0]), {}
        fn = {"to_spherical": geo.to_spherical, "to_cartesian": geo.to_cartesian, "lambert": geo.lambert_equal_area}[c[1]]
    if st.get("bufs") == "reuse" and prev is not None and len(prev) == len(args) and all(
            isinstance(p, np.ndarray) and isinstance(a, np.ndarray) and p.shape == a.shape and p.dtype == a.dtype for p, a in zip(prev, args)):
        for p, a in zip(prev, args):
            np.copyto(p, a)               # the caller's buffers, new contents
        args = list(prev)
    return fn, args, kw, I


def run_session(c, keep=False):
    """-> one record per step: {"r": ("OK", flat outputs as returned, BEFORE the caller touches them) | ("ERR", code, msg),
    "faults": [...], "outs": pristine copies of the returned arrays (keep=True)}"""
    import argguard
    recs, prev, held = [], None, []
    for i, st in enumerate(c[1]):
        rec = {"r": None, "faults": [], "outs": None}
        recs.append(rec)
        try:
            with warnings.catch_warnings():
                warnings.simplefilter("ignore")
                fn, args, kw, I = step_call(st, prev)
                outs, faults = argguard.guarded(fn, args, kw)
                rec["faults"] += [f"step {i} ({step_fn(st)}): {f}" for f in faults]
                arrs = [o for o in outs if isinstance(o, np.ndarray)]
                if st["case"][0] == "density":
                    rec["r"] = ("OK", [float(v) for v in np.concatenate([np.ravel(o) for o in outs])])
                else:
                    rec["r"] = ("OK", read_grid(args, outs, I, len(st["case"][3])))
                if keep:
                    rec["outs"] = [np.array(o, copy=True) for o in outs]
                for j, harrs in held:     # the caller still holds the results of the earlier calls
                    if any(np.may_share_memory(a, b) for a in arrs for b in harrs):
                        rec["faults"].append(f"step {i} ({step_fn(st)}) returns arrays that share storage with the arrays returned by step {j}")
                        break
                if any(np.may_share_memory(a, b) for a in arrs for b in args if isinstance(b, np.ndarray)):
                    rec["faults"].append(f"step {i} ({step_fn(st)}) returns arrays that share storage with its arguments")
                snaps = argguard.snapshot(args, kw)
                apply_after(outs, st.get("after"))
                rec["faults"] += [f"step {i}: the caller modified the RESULT in place and an argument changed: {f}" for f in argguard.diff(snaps)]
                held.append((i, arrs))
                prev = args
        except Exception as e:  # noqa: BLE001
            rec["r"] = ("ERR", common.exc_code(e), str(e)[:200])
    return recs


def session_key(st):
    """the arguments of a step as values (what the outcome may depend on)"""
    e = encode(st["case"])
    e.pop("kind", None)
    return repr(sorted((k, repr(v)) for k, v in e.items()))


def compare_session(chk, c, mres, hist, guard):
    """every step of a call sequence against the model of that step's arguments alone"""
    import argguard
    steps, pattern = c[1], c[2]

    def bump(k):
        hist[k] = hist.get(k, 0) + 1
    bump("session:pattern:" + pattern)
    bump(f"session:steps:{len(steps)}")
    seen_g = set()
    for st in steps:
        bump("session:fn:" + step_fn(st))
        bump("session:after:" + (st.get("after") or {}).get("op", "none"))
        if st["case"][0] == "density":
            bump("session:gridsteps_as:" + st.get("g_as", "int"))
            bump("session:kernel_as:" + st.get("kernel_as", "literal"))
            bump("session:kernel:" + KERNELS[st["case"][1]])
            if st["case"][3] in seen_g:
                bump("session:call_after_modified_result_of_same_gridsteps")
            if (st.get("after") or {}).get("op", "none") != "none":
                seen_g.add(st["case"][3])
        bump("session:bufs:" + st.get("bufs", "fresh"))
    recs = run_session(c)
    chk.note_case(repr(encode(c)), nontrivial=len(steps) > 1, sample=None)
    if len(chk.cov["samples"]) < 10 and hist["session:pattern:" + pattern] == 1 and pattern in ("repeat", "same-gridsteps"):
        chk.cov["samples"].append({"fn": "session", "pattern": pattern, "steps": [
            {"fn": step_fn(st), "gridsteps": st["case"][3] if st["case"][0] == "density" else None, "after": st.get("after")} for st in steps]})
    i0 = 0
    for i, (st, rec) in enumerate(zip(steps, recs)):
        sc = st["case"]
        k = len(model_lines(sc))
        ms = mres[i0:i0 + k]
        i0 += k
        if rec["faults"]:
            return "point_density / the conversions are not pure functions of their arguments: " + "; ".join(rec["faults"][:2])
        r = rec["r"]
        if sc[0] == "density":
            msg = verdict_plain(sc, r, ms[0], ms[1], hist, guard)
        elif r[0] == "ERR":
            msg = f"implementation raises {r[1]}: {r[2]}"
        else:
            msg = grid_verdict(sc, r[1], ms)
        if msg:
            hist_before = [(st2.get("after") or {}).get("op", "none") for st2 in steps[:i]]
            return (f"step {i} of a {len(steps)}-call sequence ({step_fn(st)}; the caller's in-place modifications of earlier results: "
                    f"{hist_before}): {msg}")
    if pattern == "repeat":
        # the same question asked through the shared helper: two calls with equal arguments, the first result scribbled over
        try:
            with warnings.catch_warnings():
                warnings.simplefilter("ignore")
                fn = step_call(steps[0], None)[0]
                faults = argguard.fresh_result_probe(fn, lambda: step_call(steps[0], None)[1:3])
        except Exception as e:  # noqa: BLE001
            faults = [f"raised {type(e).__name__}: {e}"]
        bump("session:fresh_result_probe:" + step_fn(steps[0]))
        if faults:
            return f"{step_fn(steps[0])}: " + "; ".join(faults[:2])
    return None


def gen_sessions(rng, tier):
    """call sequences: the same call again after the caller modified the first result in place (every kind of
    modification x every kernel / conversion); another data set / kernel / weight at the SAME gridsteps; grid sizes
    interleaved g1, g2, g1; the caller's data buffers re-used with new contents; the three conversions on arrays; mixed
    pipelines.  gridsteps are drawn from the sizes the single-call families use and from sizes nothing else uses."""
    out = []
    GS = (4, 5, 6, 7, 9, 10, 11, 13, 15)

    def dens(g, k=None, n=None, axial=True, kind="random", sigma=10.0, w=1.0):
        k = int(rng.integers(0, 5)) if k is None else k
        if n is None:
            n = int(rng.integers(3, 40)) if axial else int(rng.integers(101, 140))
        if kind == "cluster":
            d = np.array([0.2, 0.3, 1.0]) + 0.15 * rng.normal(size=(n, 3))
            d /= np.linalg.norm(d, axis=1)[:, None]
        else:
            d = unit_vectors(rng, n)
        return ("density", k, bool(axial), int(g), float(sigma), float(w), d, "session")

    def conv(fn, shape):
        K = int(np.prod(shape))
        if fn == "lambert":
            pts = [tuple(float(x) for x in v) for v in unit_vectors(rng, K)]
            pts[0] = (0.0, 0.0, 1.0)
        elif fn == "to_cartesian":
            pts = [(float(rng.uniform(-math.pi, math.pi)), float(rng.uniform(0.05, math.pi - 0.05)), float(10.0 ** rng.uniform(-2, 2))) for _ in range(K)]
        else:
            m = 10.0 ** rng.uniform(-3, 3)
            pts = [tuple(float(x) for x in m * rng.uniform(-1, 1, 3)) for _ in range(K)]
        return ("grid", fn, None, pts, {"kind": "full", "shape": list(shape)})

    def step(case, after=None, **o):
        st = {"case": case, "after": after or {"op": "none"}}
        if case[0] == "density":
            st["g_as"] = o.get("g_as", str(rng.choice(list(G_AS))))
            st["kernel_as"] = o.get("kernel_as", str(rng.choice(["literal", "built"])))
        st["bufs"] = o.get("bufs", "fresh")
        return st

    def pick_g():
        return int(GS[int(rng.integers(0, len(GS)))])

    rep = 1 if tier == "quick" else 4
    for _ in range(rep):
        # (a) the same call again after the caller modified the first result in place: every modification, kernels in turn
        for i, op in enumerate(SESSION_OPS + ("scale", "scale")):
            c1 = dens(pick_g(), k=i % 5, axial=(i % 4 != 3), kind=str(rng.choice(["random", "cluster"])),
                      w=float(rng.choice([1.0, 2.5])), sigma=float(rng.choice([10.0, 3.0])))
            out.append(("session", [step(c1, _after(rng, op)), step(c1)], "repeat"))
        # (b) the same gridsteps, another data set / kernel / weight / axial flag
        for i in range(8):
            g = pick_g()
            op = str(SESSION_OPS[int(rng.integers(0, len(SESSION_OPS)))])
            out.append(("session", [step(dens(g), _after(rng, op)), step(dens(g, w=float(rng.choice([1.0, 0.5]))))], "same-gridsteps"))
        # (c) grid sizes interleaved: g1, g2, g1 (+ g2), every result modified
        for i in range(5):
            g1, g2 = (int(v) for v in rng.choice(GS, size=2, replace=False))
            ops = [str(SESSION_OPS[int(v)]) for v in rng.integers(0, len(SESSION_OPS), size=3)]
            steps = [step(dens(g1), _after(rng, ops[0])), step(dens(g2), _after(rng, ops[1])), step(dens(g1), _after(rng, ops[2]))]
            if i % 2:
                steps.append(step(dens(g2)))
            out.append(("session", steps, "interleaved"))
        # (d) the caller's data buffers re-used: same array objects, new contents (and the old results modified)
        for i in range(5):
            g, n = pick_g(), int(rng.integers(3, 30))
            k = int(rng.integers(0, 5))
            steps = [step(dens(g, k=k, n=n), _after(rng, "scale" if i % 2 else "none")), step(dens(g, k=k, n=n), bufs="reuse"),
                     step(dens(g, k=k, n=n), bufs="reuse")]
            out.append(("session", steps, "buffers-reused"))
        # (e) the conversions on arrays: the same call again / other points of the same shape, buffers re-used
        for fn in ("to_spherical", "to_cartesian", "lambert"):
            for i, shape in enumerate(((6,), (2, 3), (3, 3), (4,))):
                op = str(SESSION_OPS[int(rng.integers(0, len(SESSION_OPS)))])
                c1 = conv(fn, shape)
                c2 = c1 if i % 2 == 0 else conv(fn, shape)
                out.append(("session", [step(c1, _after(rng, op)), step(c2, bufs="reuse" if i == 3 else "fresh")],
                            "repeat" if c2 is c1 else "conversion-same-shape"))
        # (f) mixed pipelines: conversions between two pole figures of the same resolution
        for i in range(4):
            g = pick_g()
            fn = ("lambert", "to_spherical", "to_cartesian", "lambert")[i]
            c1 = dens(g)
            steps = [step(conv(fn, (5,)), _after(rng, "scale")), step(c1, _after(rng, str(rng.choice(SESSION_OPS)))),
                     step(conv(fn, (5,)), _after(rng, "nan")), step(c1 if i % 2 else dens(g))]
            out.append(("session", steps, "pipeline"))
    return out


def oracle_session(c):
    """C20 read on a call sequence: the property quantifies over the INPUTS of a call, so (1) every call of the sequence
    satisfies the clauses of its function, judged on what it returned (before the caller touches it), whatever was done
    with the results of earlier calls, and (2) calls with equal inputs report equal results."""
    fails = []
    recs = run_session(c, keep=True)
    first = {}
    last_density = None
    for i, (st, rec) in enumerate(zip(c[1], recs)):
        sc, r = st["case"], rec["r"]
        hist_before = [(st2.get("after") or {}).get("op", "none") for st2 in c[1][:i]]
        where = (f"step {i} of {len(c[1])}: {step_fn(st)}" + (f"(gridsteps={sc[3]}, kernel={KERNELS[sc[1]]!r}, {len(sc[6])} data)" if sc[0] == "density" else f"{tuple(sc[4]['shape'])}")
                 + f" after the caller's in-place modifications {hist_before} of the arrays returned by the earlier calls")
        if r[0] == "ERR":
            fails.append(f"{where}: raised {r[1]}: {r[2]}")
            continue
        if sc[0] == "density":
            _, k, axial, g, sigma, w, d, _ = sc
            if not axial and k in (0, 3, 4) and len(d) <= sigma**2:
                continue  # outside the stated guard (scale = sqrt of a non-positive number)
            X, Y, t = rec["outs"]
            if not (np.shape(X) == np.shape(Y) == np.shape(t)) or np.size(t) != g * g:
                fails.append(f"{where}: the estimates are not reported on {g} x {g} grid points: shapes {np.shape(X)}, {np.shape(Y)}, {np.shape(t)}")
                continue
            if np.all(np.isnan(t)):
                continue  # raw grid mean 0: the stated guard
            f1 = []
            if not np.all(np.isfinite(t)):
                f1.append("density estimates are not finite")
            else:
                if t.min() < 0:
                    f1.append("negative density estimate")
                if t.mean() < 1 - 1e-9:
                    f1.append(f"grid mean {t.mean()} < 1")
                if t.min() > 0 and abs(t.mean() - 1) > 1e-9:
                    f1.append(f"grid mean {t.mean()} != 1 although nothing was clipped")
            if not np.all(np.isfinite(X)) or not np.all(np.isfinite(Y)):
                f1.append("grid points are not finite")
            elif (X**2 + Y**2).max() > 1 + 1e-12:
                f1.append(f"grid points outside the closed unit disk, max radius^2 = {float((X**2 + Y**2).max()):.6g}")
            fails += [f"{where}: {f}" for f in f1]
            last_density = (i, st, rec)
        else:
            fails += [f"{where}: {f}" for f in grid_judge(sc, r[1], rec["outs"])[:2]]
        key = session_key(st)
        if key in first:
            j, o0 = first[key]
            for q, (a, b) in enumerate(zip(o0, rec["outs"])):
                if np.shape(a) != np.shape(b):
                    fails.append(f"{where}: output {q} has shape {np.shape(b)}, the call with the same arguments at step {j} returned shape {np.shape(a)}")
                    break
                sc_ = max(1.0, float(np.nanmax(np.abs(a), initial=0.0)) if np.size(a) else 1.0)
                if not np.allclose(a, b, rtol=0, atol=1e-9 * sc_, equal_nan=True):
                    fails.append(f"{where}: output {q} differs from what the call with the same arguments returned at step {j} "
                                 f"(max difference {float(np.nanmax(np.abs(np.asarray(a) - np.asarray(b)))):.6g})")
                    break
        else:
            first[key] = (i, rec["outs"])
    if last_density is not None and not fails:
        # order / sign independence of the last pole figure of the sequence (further calls, nothing modified)
        i, st, rec = last_density
        sc = st["case"]
        d, g = sc[6], sc[3]
        if not (not sc[2] and sc[1] in (0, 3, 4) and len(d) <= sc[4]**2) and np.all(np.isfinite(rec["outs"][2])):
            rng = np.random.default_rng(len(d) * 7919 + g)
            t = rec["outs"][2]
            scale = max(1.0, float(np.abs(t).max()))
            variants = [("order", d[rng.permutation(len(d))])] + ([("sign", d * rng.choice([-1.0, 1.0], size=len(d))[:, None])] if sc[2] else [])
            for name, dd in variants:
                r2 = run_session(("session", [dict(st, case=sc[:6] + (dd, sc[7]), after={"op": "none"}, bufs="fresh")], "probe"), keep=True)[0]
                if r2["r"][0] == "OK" and np.shape(r2["outs"][2]) == np.shape(t) and np.abs(r2["outs"][2] - t).max() > 1e-8 * scale and not near_threshold(sc):
                    fails.append(f"step {i}: density depends on the {name} of the data")
    return fails


def fresh_oracle(c):
    """the property oracle on case c in a NEW interpreter (what `./check C20 --replay` does): once one call sequence has
    failed, the state of this process is suspect, and a witness must fail from a clean start to be worth reporting"""
    import json
    import os
    import subprocess
    import tempfile
    with tempfile.NamedTemporaryFile("w", suffix=".json", delete=False) as f:
        json.dump({"kind": "property-violation", "input": encode(c)}, f, default=str)
    try:
        p = subprocess.run([common.PY, os.path.join(common.VERIF, "harness", "main.py"), "C20", "--replay", f.name],
                           capture_output=True, text=True, timeout=600, env=dict(os.environ, PYDREX_REPO=common.REPO))
    except Exception:  # noqa: BLE001
        return []
    finally:
        try:
            os.unlink(f.name)
        except OSError:
            pass
    fails = [ln[len("still fails: "):] for ln in p.stdout.splitlines() if ln.startswith("still fails: ")]
    return fails if p.returncode == 1 else []


def shrink_session(c, fails):
    """smaller call sequences to try (each is confirmed in a fresh interpreter by the caller): the failing step alone, as
    the plain single call it is; then the nearest earlier step whose result the caller modified + the failing step, with
    few data; the same with all data"""
    import re
    m = re.match(r"step (\d+) of", fails[0]) if fails else None
    if not m:
        return []
    j = int(m.group(1))
    steps = c[1]
    if j >= len(steps):
        return []
    out = [steps[j]["case"]]
    same = [i for i in range(j) if (steps[i].get("after") or {}).get("op", "none") != "none" and step_fn(steps[i]) == step_fn(steps[j])
            and (steps[i]["case"][0] != "density" or steps[i]["case"][3] == steps[j]["case"][3])]
    for i in reversed(same[-2:]):
        def small(st):
            sc = st["case"]
            return dict(st, case=sc[:6] + (sc[6][:4].copy(), sc[7])) if sc[0] == "density" and (sc[2] or sc[1] not in (0, 3, 4)) else st
        pair_small = [small(steps[i]), dict(small(steps[j]), bufs="fresh")]
        pair = [steps[i], dict(steps[j], bufs="fresh")]
        out.append(("session", pair_small, c[2]))
        if any(a["case"] is not b["case"] for a, b in zip(pair, pair_small)):
            out.append(("session", pair, c[2]))
    return out


# --------------------------------------------------------------------------
# the property oracle: a direct reading of C20 on the public API (search only)
# --------------------------------------------------------------------------
def oracle(c):
    import pydrex.geometry as geo
    import pydrex.stats as stats
    fails = []
    with warnings.catch_warnings():
        warnings.simplefilter("ignore")
        try:
            if c[0] == "session":
                fails += oracle_session(c)
            elif c[0] == "grid":
                fails += grid_fails(c)
            elif c[0] == "to_spherical":
                if not any(float(v) for v in c[1]):
                    return []
                out = geo.to_spherical(*present(c))
                r, ph, th = (float(np.asarray(v).reshape(-1)[0]) for v in out)
                # the round trip feeds the returned arrays back, as a caller does
                back = np.array([float(np.asarray(v).reshape(-1)[0]) for v in geo.to_cartesian(out[1], out[2], out[0])])
                shown = f"to_spherical{tuple(_exact(c[1]))}" + (f" given as {rep_of(c)['dt']} ({rep_of(c)['as']})" if rep_of(c) else "")
                fails += sph_fails(shown, c[1], r, ph, th, back)
            elif c[0] == "to_cartesian":
                x, y, z = (float(np.asarray(v).reshape(-1)[0]) for v in geo.to_cartesian(*present(c)))
                shown = f"to_cartesian({c[1][0]}, {c[1][1]}, {c[1][2]})" + (f" given as {rep_of(c)['dt']} ({rep_of(c)['as']})" if rep_of(c) else "")
                fails += cart_fails(shown, c[1], x, y, z)
            elif c[0] == "lambert":
                X, Y = (float(np.asarray(v).reshape(-1)[0]) for v in geo.lambert_equal_area(*present(c)))
                fails += lambert_fails(c[1], X, Y)
            elif c[0] == "poles":
                ax, hkl, A = c[1], np.asarray(c[2], dtype=float), np.asarray(c[3], dtype=float)
                if not isinstance(ax, str) or ax.lower() not in AXES:
                    return []  # not one of the six reference-axes strings (in any spelling): outside C20
                if popts(c):
                    # the call as recorded (spelling, input representation, preceding calls); the
                    # property must hold for the first and for an identical second call
                    got_all, _ = call_poles(c)
                    got_all = np.asarray(got_all, dtype=float)
                    tol = 1e-5 if popts(c).get("ori_as") == "f32" and popts(c).get("hkl_as") in ("f32", "alias_row") else 1e-9
                else:
                    x, y, z = geo.poles(A.copy(), ref_axes=ax, hkl=hkl)
                    got_all = np.stack([x, y, z], axis=1)
                    tol = 1e-9
                d = np.einsum("nij,i->nj", A, hkl)
                nd = np.linalg.norm(d, axis=1)
                okrows = nd > 1e-12 * max(1.0, float(np.abs(A).max(initial=0.0)) * float(np.abs(hkl).max()))
                okrows &= np.isfinite(nd) & (nd > 1e-140) & (nd < 1e140)   # the squared norm neither overflows nor underflows
                u = d[okrows] / nd[okrows][:, None]
                lm = {"x": 0, "y": 1, "z": 2}
                a0, a1 = lm[ax[0].lower()], lm[ax[1].lower()]
                up = 3 - a0 - a1
                got = got_all[okrows]
                want = np.stack([u[:, a0], u[:, a1], u[:, up]], axis=1)
                if got.size and not np.all(np.isfinite(got)):
                    fails.append("poles are not finite")
                elif got.size and np.abs(np.linalg.norm(got, axis=1) - 1).max() > tol:
                    g = int(np.abs(np.linalg.norm(got, axis=1) - 1).argmax())
                    fails.append(f"poles are not unit vectors: ref_axes={ax!r}, orientation {g}: {got[g]}")
                elif got.size and np.abs(got - want).max() > tol:
                    g = int(np.abs(got - want).max(axis=1).argmax())
                    fails.append(f"pole of orientation {g} is {got[g]}, the requested direction in the '{ax}' frame is {want[g]}")
            elif c[0] == "density":
                _, k, axial, g, sigma, w, d, _ = c
                n = len(d)
                if not axial and k in (0, 3, 4) and n <= sigma**2:
                    return []  # outside the stated guard (scale = sqrt of a non-positive number)
                kw = {} if k == 1 else {"σ": sigma}

                def run(dd):
                    cols, ww = present_density(c[:6] + (dd, c[7]))
                    return stats.point_density(cols[0], cols[1], cols[2], gridsteps=g, weights=ww,
                                               kernel=KERNELS[k], axial=axial, **kw)
                X, Y, t = run(d)
                if np.all(np.isnan(t)):
                    return []  # raw grid mean 0: the stated guard
                if not np.all(np.isfinite(t)):
                    fails.append("density estimates are not finite")
                else:
                    if t.min() < 0:
                        fails.append("negative density estimate")
                    if t.mean() < 1 - 1e-9:
                        fails.append(f"grid mean {t.mean()} < 1")
                    if t.min() > 0 and abs(t.mean() - 1) > 1e-9:
                        fails.append(f"grid mean {t.mean()} != 1 although nothing was clipped")
                    if (X**2 + Y**2).max() > 1 + 1e-12 or not np.all(np.isfinite(X)) or not np.all(np.isfinite(Y)):
                        fails.append("grid points outside the unit disk")
                    rng = np.random.default_rng(n * 7919 + g)
                    _, _, t2 = run(d[rng.permutation(n)])
                    scale = max(1.0, float(np.abs(t).max()))
                    if np.abs(t2 - t).max() > 1e-8 * scale and not near_threshold(c):
                        fails.append("density depends on the order of the data")
                    if axial:
                        _, _, t3 = run(d * rng.choice([-1.0, 1.0], size=n)[:, None])
                        if np.abs(t3 - t).max() > 1e-8 * scale and not near_threshold(c):
                            fails.append("axial density depends on the sign of the data")
        except Exception as e:  # noqa: BLE001
            fails.append(f"{c[0]} raised {type(e).__name__}: {e}")
    return fails


REP_PREF = ("int32", "int64", "pyint", "int16", "uint32", "float32", "uint8", "int8", "uint16", "uint64", "float16", "bool",
            "float64", "pyfloat")


def search(chk, extra=()):
    """failing inputs judged by the property oracle.  Disagreeing cases first; among input
    representations the integer dtypes come first (an overflowing integer coordinate is the more
    telling witness than a reduced-precision one), one witness per (function, dtype)."""
    found, seen = [], set()

    def pref(c):
        if c[0] == "session":
            return -1
        rep = rep_of(c)
        return REP_PREF.index(rep["dt"]) if rep else len(REP_PREF)

    # Call sequences first.  A sequence that fails HERE may fail because of what an earlier sequence (of the correspondence
    # run, of this search) left behind in the process, so every candidate is confirmed by the oracle in a fresh interpreter
    # (<= `fresh` of them, ~2 s each; only on a tree that already failed), smallest first: the failing call alone -- reported
    # as the plain single call it is --, then two calls with few data, then the sequence as generated.  Once a sequence has
    # failed in this process, single calls are no longer judged in it (their outcome would depend on the history).
    state_suspect, fresh = False, 12
    pool = sorted(extra, key=pref) + gen_cases(chk, "quick")
    for c in pool:
        if c[0] == "session":
            if fresh <= 0 or len([1 for x, _ in found if x[0] == "session"]) >= 2:
                continue
            sig0 = ("session", c[2], tuple(sorted({step_fn(st) for st in c[1]})))
            if sig0 in seen or not oracle(c):
                continue
            state_suspect = True
            fresh -= 1
            fails = fresh_oracle(c)
            if not fails:
                continue
            seen.add(sig0)
            best = (c, fails)
            for c1 in shrink_session(c, fails):
                if fresh <= 0:
                    break
                fresh -= 1
                f1 = fresh_oracle(c1)
                if f1:
                    best = (c1, f1)
                    break
            found.append(best)
            if len(found) >= 4:
                break
            continue
        if state_suspect:
            continue
        rep = rep_of(c)
        sig0 = (c[0], c[1] if c[0] in ("poles", "grid") else None, rep["dt"] if rep else None)
        if c[0] == "grid":     # one witness per (function, kind of arrangement)
            sig0 += (c[4]["kind"] if c[4]["kind"].startswith(("full", "scalar")) else "broadcast",)
        if sig0 in seen and rep:
            continue
        fails = oracle(c)
        if fails:
            sig = sig0 if (rep or c[0] == "grid") else sig0 + (fails[0][:25],)
            if sig in seen:
                continue
            seen.add(sig)
            c1 = shrink(c)
            found.append((c1, oracle(c1) or fails))
            if len(found) >= 4:
                break
    return found


def shrink(c):
    if c[0] == "grid":
        # the smallest arrangement of the same kind that still fails: the first 4 (then 6, 8) points as a 2 x k grid
        _, fn, axes, pts, arr = c
        if arr["kind"].startswith("full"):
            for k in (2, 3, 4):
                if 2 * k <= len(pts):
                    c1 = ("grid", fn, None, pts[:2 * k], {"kind": arr["kind"], "shape": [2, k]})
                    if oracle(c1):
                        return c1
        elif axes is not None and len(axes[2]) == 1:
            for a, b in ((2, 2), (2, 3), (3, 2)):
                if a <= len(axes[0]) and b <= len(axes[1]):
                    ax2 = (axes[0][:a], axes[1][:b], axes[2])
                    c1 = ("grid", fn, ax2, [(x, y, z) for x in ax2[0] for y in ax2[1] for z in ax2[2]], arr)
                    if oracle(c1):
                        return c1
        return c
    if c[0] == "poles":
        for g in range(len(c[3])):
            if popts(c).get("hkl_as") == "alias_row" and g > 0:
                break   # the direction is a view of the first orientation
            c1 = ("poles", c[1], c[2], c[3][g:g + 1].copy()) + ((popts(c),) if popts(c) else ())
            if oracle(c1):
                return c1
    if c[0] == "density" and len(c[6]) > 4:
        for n in (1, 2, 4, 16):
            c1 = c[:6] + (c[6][:n].copy(), c[7])
            if oracle(c1):
                return c1
    return c


# open findings of the unchanged tree (known_findings.json): legal inputs for which point_density returns NaN everywhere although
# C20 says the estimates are finite.  The Coq statements carry the two guards (scale > 0, raw grid mean <> 0) explicitly; the
# property text does not, so the witnesses are reported as KNOWN-FINDING while they reproduce.
KEY_NAN_NONAXIAL = "C20:point_density:nonaxial-kamb-radius-nan"
KEY_NAN_SCHMIDT = "C20:point_density:schmidt-coarse-grid-nan"


def _finding_status(key):
    for f in common.load_known_findings():
        if f.get("key") == key:
            return str(f.get("status", ""))
    return None


def known_density_findings(chk):
    """evaluate the witnesses of the two recorded findings on the implementation; KNOWN-FINDING while they reproduce and are
    listed as open (a `fixed:` entry suppresses nothing: a reproducing witness is then a violation)"""
    common.use_repo_source()
    import pydrex.stats as stats
    rng = np.random.default_rng(20)
    v = rng.normal(size=(50, 3))
    v /= np.linalg.norm(v, axis=1)[:, None]
    d = np.tile([[0.2, 0.3, 0.9327379053088815]], (3, 1))
    wit = [(KEY_NAN_NONAXIAL, "point_density(50 unit vectors, gridsteps=11, kernel='kamb_count', axial=False) is NaN at every grid point "
                              "(n <= sigma^2: the Kamb radius 1 - 2 sigma^2/(n + sigma^2) is <= 0 and the counting unit is the square root of a "
                              "non-positive number; also linear_inverse_kamb / square_inverse_kamb)",
            lambda: stats.point_density(*v.T, gridsteps=11, kernel="kamb_count", axial=False)),
           (KEY_NAN_SCHMIDT, "point_density(3 x [0.2, 0.3, 0.9327379053088815], gridsteps=11, kernel='schmidt_count') is NaN at every grid point "
                             "(no counter lies within the 1 % cap of a datum: every raw total is 0 and the normalisation is 0/0)",
            lambda: stats.point_density(*d.T, gridsteps=11, kernel="schmidt_count"))]
    for key, text, thunk in wit:
        try:
            with warnings.catch_warnings():
                warnings.simplefilter("ignore")
                t = np.asarray(thunk()[2], dtype=float)
            repro = bool(np.all(np.isnan(t)))
        except Exception:  # noqa: BLE001
            repro = False
        chk.cov.setdefault("known_finding_witnesses", {})[key] = "reproduces" if repro else "does not reproduce"
        if not repro:
            continue
        st = _finding_status(key)
        if st == "open":
            chk.known_finding(f"{key}: {text}")
        else:
            chk.replay({"kind": "property-violation", "call": "pydrex.stats.point_density", "finding": key, "observed": [text],
                        "required": "C20: density estimates are finite", "input": {"witness": key}})


def run(chk):
    ok, br = proofs.prove(chk, FILES, PROP, groups=(GROUP,), gen_modules=("geometry", "density"))
    chk.cov["trusted_base"] = common.TRUSTED_COMMON + [
        "GeoProxy in translator/specs_geometry.py: symbolic meaning of np.atleast_1d/.astype(float), array arctan2/logical_and, "
        "np.tensordot((N,3,3),(3,),axes=(2,0)), scipy.linalg.norm(axis=1) and of the numpy.ma idiom of lambert_equal_area "
        "(masked_where / domained true_divide and sqrt / fill_value / filled) -- checked against the implementation by this differential run",
        "hand-written Model_density.v (point_density, five kernels, poles_all over the generated one-orientation poles); tie T at grid sizes 2, 3 with 1, 2 data vectors "
        "(gen/Gen_density.v regenerated from pydrex.stats.point_density and its kernels on every run, proved equal to the model: C20_generated_density_is_model, C20_generated_poles_batch_is_map) "
        "+ tie H = this differential run for all sizes",
        "DensityProxy in translator/specs_density.py (subclass of GeoProxy): np.mgrid[a:b:g*1j] = i*((b-a)/(g-1)) + a; np.arcsin = pi/2 - arccos; np.dot((n,3),(3,)) left to right; array <op> scalar = a mask, mask.astype(float) = "
        "per-element 0/1 expression, a[mask] = one fork per element, a[mask] = scalar per-element expression; ndarray.sum = left fold from 0, .mean = sum / length, both NumPy scalars whose division never raises; array /= scalar never "
        "raises; Python scalar divisions in the kernels fork on a zero denominator; _geo.to_cartesian / lambert_equal_area on arrays = one call of the generated scalar definition per element; arithmetic is kept literal "
        "(no 0+x, 1*x, x/1 simplification) so that generated text and model have the same shape",
        "np.arcsin modelled as pi/2 - arccos; np.sum/np.mean modelled as left-to-right sums; array division by zero is an error in the model and nan in NumPy",
        "hand-written Model_poles_axes.v (str.lower on ASCII, set('xyz') - set(s) with set.pop() as the oracle parameter `pick`, the two dictionary "
        "look-ups, columns by index over the generated k_poles_xy); tie H = this differential run over all 24 spellings, illegal strings and input "
        "representations; tie T for the 24 spellings = the 24 generated traces proved equal (C20_poles_generated_spellings)",
        "non-ASCII reference-axes strings (str.lower is Unicode-aware) and inputs of the wrong container/shape/dtype have no model: outcome recorded "
        "(poles_malformed_outcomes), only 'returns finite non-unit vectors' is reported",
    ]
    chk.cov["rule"] = (
        "cases = to_spherical at the origin, on the axes (1e-8..1e8), octant boundaries, signed zeros, + random directions x 10^U(-8,8); "
        "to_cartesian at random angles/radii; lambert_equal_area at both poles, the equator, a ladder of points around the 1e-16 cut-off, "
        "non-unit vectors (|z| > 1) and random unit vectors; poles for six reference-axes strings x 10 hkl x 1..1000 random orientations "
        "(+ non-orthonormal and singular matrices); point_density for five kernels x axial/non-axial x random/girdle/cluster data sets of 1..500 "
        "vectors x grid sizes 5..101 x sigma x scalar weights, each with a permuted and (axial) sign-flipped copy. "
        "INPUT SHAPES (after seeded change C20e): the same K points (product grids of 2x2 .. 4x3 and 2x3x2 .. 2x2x3 [thorough up to 16x16, 3x4x5], float and small-integer coordinates; unit vectors for lambert) "
        "given to to_spherical / to_cartesian / lambert_equal_area as K scalar calls, 1-D, column (K,1), row (1,K), 2-D grids of every factorisation, 3-D grids, Fortran-ordered and transposed copies, and (conversions) as arguments of "
        "DIFFERENT shapes broadcast against each other: (a,1,1)/(1,b,1)/(1,1,c), column x row + Python or 0-d scalar, np.meshgrid xy / ij, np.mgrid index grids; outputs are read back point by point and compared with the "
        "model's single-point entry, histogram shape:<fn>:<arrangement>. "
        "CALL SEQUENCES in one process (after seeded change C20f; own random stream, run last; histograms session:pattern / after / fn / gridsteps_as / kernel_as / bufs): 2..4 calls of point_density (five kernels, axial and "
        "non-axial, gridsteps 4..15 given as int / NumPy integers, kernel name as literal / equal string built at run time) and of the three conversions on arrays, where between the calls the caller modifies the arrays "
        "the previous call RETURNED in place (rescale to another net radius / mirror, shift, overwrite with nan or 0, swap X and Y, reverse, transpose, re-shape; all of them or one) or overwrites its own argument buffers with new data: "
        "the same call again, another data set / kernel / weight at the same gridsteps, grid sizes interleaved g1 g2 g1, buffers re-used, conversion / density pipelines; every step is compared with the model of that step's "
        "arguments alone, arguments are digested around every call and around the caller's modification (argguard.guarded), results of different steps must not share storage, repeat sequences also go through argguard.fresh_result_probe. "
        "poles option space (own random stream, shuffled call order): all 24 case spellings of the six strings x random hkl x 1..17 orientations x "
        "hkl given as float/int list, tuple, int/float32/strided/read-only array or a view into the orientation stack x orientations given as "
        "C/Fortran/float32/int/strided/reversed/transposed/sub-block/read-only arrays x ref_axes positional/keyword/default; default hkl; illegal "
        "strings (repeated letters, wrong length, other letters, whitespace; fixed list + random strings over 'xyzXYZ w'); empty stack; zero and "
        "signed-zero hkl; magnitudes 1e-150..1e200; calls preceded by 1..3 other calls; every such call is made twice (the first result is "
        "overwritten in between), inputs/default arguments are compared before and after, and each row of a batch (n <= 17) is compared with the "
        "one-orientation call; a separate malformed stream (wrong container/shape/dtype, nan/inf, non-str and non-ASCII ref_axes) is recorded. "
        "distinct = distinct encoded input; non-trivial = some output is non-zero")
    bad = []
    if br.drivers.get(GROUP, 1) is None:
        cases = gen_cases(chk, chk.tier)
        bad = compare(chk, cases)
        chk.cov["traces_validated_against_impl"] = len(cases)
        for name in run_malformed(chk):
            bad.append((("malformed", name), f"poles({name}) returns finite vectors that are not unit vectors"))
    chk.cov["disagreements"] = len(bad)
    known_density_findings(chk)
    if ok and not bad:
        return
    found = search(chk, extra=[c for c, _ in bad])
    if found:
        for c, fails in found:
            chk.replay({"kind": "property-violation", "input": encode(c), "observed": fails,
                        "required": "C20 (see properties.jsonl)", "broken": chk.cov.get("broken_obligations", []),
                        "disagreements": [m for _, m in bad[:3]]})
    else:
        chk.replay({"kind": "unproved", "broken": chk.cov.get("broken_obligations", []),
                    "disagreements": [{"input": sample_of(c, ("OK", []), ("OK", [])), "detail": m} for c, m in bad[:3]],
                    "note": "proof obligation or correspondence no longer checks; no failing input found by the search"},
                   no_input=True)


def replay(d):
    common.use_repo_source()
    if d.get("kind") != "property-violation":
        print("replay file names a broken obligation; re-run the check itself")
        return 1
    if d.get("finding"):          # witness of a recorded finding (reported as a violation when it is not listed as open)
        class _C:                   # minimal stand-in for the check object
            cov, known, reps = {}, [], []
            def known_finding(self, t): self.known.append(t)
            def replay(self, p, **k): self.reps.append(p)
        c = _C()
        known_density_findings(c)
        hit = [t for t in c.known if d["finding"] in t] + [p for p in c.reps if p.get("finding") == d["finding"]]
        for h in hit:
            print("still fails:", h if isinstance(h, str) else h["observed"][0])
        return 1 if hit else 0
    fails = oracle(decode(d["input"]))
    for f in fails:
        print("still fails:", f)
    return 1 if fails else 0
