"""C20 -- coordinate conversions and pole-figure primitives are geometrically correct."""
from __future__ import annotations

import math
import warnings

import numpy as np

import common
import proofs
from common import hx, unhx

GROUP = "geometry"
FILES = ["gen/Gen_geometry.v", "Model_density.v", "Proofs_geometry.v", "Proofs_density.v",
         "Entry_geometry.v", "Extract_geometry.v"]
PROP = "Properties/C20.v"
AXES = ("xy", "xz", "yx", "yz", "zx", "zy")
KERNELS = ("kamb_count", "schmidt_count", "exponential_kamb", "linear_inverse_kamb", "square_inverse_kamb")
HKLS = ([1, 0, 0], [0, 1, 0], [0, 0, 1], [1, 1, 0], [1, 1, 1], [0, 1, 1], [1, 0, 1], [2, 1, 0], [-1, 1, 0], [1, -2, 3])


# --------------------------------------------------------------------------
# case generation (every random choice comes from chk.seed)
# --------------------------------------------------------------------------
def unit_vectors(rng, n):
    v = rng.normal(size=(n, 3))
    return v / np.linalg.norm(v, axis=1)[:, None]


def rotations(rng, n):
    from scipy.spatial.transform import Rotation
    return Rotation.random(n, random_state=int(rng.integers(0, 2**31))).as_matrix()


def gen_points(rng, tier):
    """points of R^3 for to_spherical (and its images for to_cartesian)"""
    pts = [(0.0, 0.0, 0.0)]
    for s in (1.0, -1.0):
        for m in (1.0, 1e-8, 1e8, 3.5):
            pts += [(s * m, 0.0, 0.0), (0.0, s * m, 0.0), (0.0, 0.0, s * m)]
    for a in (-1.0, 1.0):  # octant boundaries and diagonals
        for b in (-1.0, 1.0):
            pts += [(a, b, 0.0), (a, 0.0, b), (0.0, a, b), (a, b, 1.0), (a, b, -1.0)]
    pts += [(-1.0, -0.0, 0.0), (-1.0, 0.0, 0.0), (-1.0, 1e-300, 0.0), (-1.0, -1e-300, 0.0), (1.0, 1.0, 1.0)]
    n = 250 if tier == "quick" else 5000
    mags = 10.0 ** rng.uniform(-8, 8, size=n)
    for v, m in zip(unit_vectors(rng, n), mags):
        pts.append(tuple(float(x) for x in v * m))
    return [("to_spherical", p) for p in pts]


def gen_angles(rng, tier):
    out = [(0.0, 0.0, 1.0), (0.0, math.pi, 1.0), (math.pi / 2, math.pi / 2, 1.0), (-math.pi, math.pi / 2, 2.0),
           (0.3, 0.4, 1.0), (0.3, 0.4, 2.0)]
    n = 150 if tier == "quick" else 3000
    for _ in range(n):
        out.append((float(rng.uniform(-2 * math.pi, 2 * math.pi)), float(rng.uniform(0, math.pi)),
                    float(10.0 ** rng.uniform(-6, 6))))
    return [("to_cartesian", a) for a in out]


def gen_lambert(rng, tier):
    pts = [(0.0, 0.0, 1.0), (0.0, 0.0, -1.0), (1.0, 0.0, 0.0), (0.0, 1.0, 0.0), (-1.0, 0.0, 0.0), (0.0, -1.0, 0.0),
           (0.6, 0.0, 0.8), (0.6, 0.0, -0.8), (0.0, 0.6, 0.8)]
    # around the cut-off |x|,|y| < 1e-16 of the source
    for e in (0.0, 5e-17, 9.999999999999999e-17, 1e-16, 1.0000000000000001e-16, 2e-16, 1e-12, 1e-9):
        for (x, y) in ((e, 0.0), (0.0, e), (e, e), (-e, e), (e, 5e-17)):
            z = math.sqrt(max(0.0, 1.0 - x * x - y * y))
            pts += [(x, y, z), (x, y, -z)]
    # the equator and its neighbourhood, non-unit vectors (|z| > 1 is masked by numpy.ma.sqrt)
    for k in range(16):
        a = 2 * math.pi * k / 16
        pts.append((math.cos(a), math.sin(a), 0.0))
    pts += [(0.1, 0.1, 2.0), (0.0, 0.0, 2.0), (0.6, 0.8, 1.0000000000000002), (3.0, 4.0, 0.5)]
    n = 250 if tier == "quick" else 5000
    pts += [tuple(float(x) for x in v) for v in unit_vectors(rng, n)]
    return [("lambert", p) for p in pts]


def gen_poles(rng, tier):
    cases = []
    sizes = (1, 2, 3, 17, 1000) if tier == "quick" else (1, 2, 3, 17, 100, 1000, 1000, 5000)
    for ax in AXES:
        for hkl in HKLS:
            n = int(sizes[int(rng.integers(0, len(sizes)))]) if hkl != [1, 0, 0] else 3
            cases.append(("poles", ax, np.asarray(hkl, dtype=float), rotations(rng, n)))
    for ax in AXES:  # non-orthonormal matrices: the theorem needs no orthogonality
        cases.append(("poles", ax, rng.normal(size=3), rng.normal(size=(5, 3, 3))))
    # axis-aligned orientation with the direction along each axis (which output is +-1?)
    for ax in AXES:
        cases.append(("poles", ax, np.array([0.0, 0.0, 1.0]), np.eye(3)[None]))
    # a singular matrix annihilating hkl: zero direction -> 0/0
    cases.append(("poles", "xz", np.array([1.0, 0.0, 0.0]), np.array([np.eye(3), np.diag([0.0, 1.0, 1.0])])))
    return cases


def gen_density(rng, tier):
    cases = []

    def add(n, g, k, axial, sigma=10.0, w=1.0, kind="random", base=None):
        if base is None:
            if kind == "girdle":
                a = rng.uniform(0, 2 * math.pi, n)
                d = np.stack([np.cos(a), np.sin(a), 0.05 * rng.normal(size=n)], axis=1)
                d /= np.linalg.norm(d, axis=1)[:, None]
            elif kind == "cluster":
                d = np.array([0.2, 0.3, 1.0]) + 0.1 * rng.normal(size=(n, 3))
                d /= np.linalg.norm(d, axis=1)[:, None]
            else:
                d = unit_vectors(rng, n)
        else:
            d = base
        cases.append(("density", k, bool(axial), int(g), float(sigma), float(w), d, kind))
        return d

    for k in range(5):
        for axial in (True, False):
            n = int(rng.integers(101, 400)) if not axial else int(rng.integers(1, 400))
            g = int(rng.choice([5, 8, 11, 21, 30]))
            d = add(n, g, k, axial, kind=str(rng.choice(["random", "girdle", "cluster"])))
            perm = rng.permutation(n)
            add(n, g, k, axial, kind="permuted", base=d[perm])
            if axial:
                signs = rng.choice([-1.0, 1.0], size=n)
                add(n, g, k, axial, kind="sign-flipped", base=d * signs[:, None])
    for k in range(5):  # scalar weights, sigma, small and large data sets
        add(1, 11, k, True, kind="single")
        add(2, 7, k, True, sigma=3.0, w=2.5)
        add(500, 15, k, True, sigma=float(rng.uniform(3, 20)), w=float(rng.uniform(0.1, 10)))
        add(40, 9, k, False)  # non-axial, n <= sigma^2: the Kamb-radius kernels are NaN everywhere
    add(150, 101, 3, True)     # default grid size, default kernel
    if tier != "quick":
        for _ in range(60):
            add(int(rng.integers(1, 500)), int(rng.integers(5, 102)), int(rng.integers(0, 5)),
                bool(rng.integers(0, 2)), sigma=float(rng.uniform(2, 25)), w=float(10 ** rng.uniform(-2, 2)),
                kind=str(rng.choice(["random", "girdle", "cluster"])))
    return cases


def gen_cases(chk, tier):
    rng = np.random.default_rng(chk.seed)
    return gen_points(rng, tier) + gen_angles(rng, tier) + gen_lambert(rng, tier) + gen_poles(rng, tier) + gen_density(rng, tier)


# --------------------------------------------------------------------------
# implementation / model calls
# --------------------------------------------------------------------------
def impl(c):
    """Public API on one case -> ('OK', flat list of floats) | ('ERR', code, message)"""
    import pydrex.geometry as geo
    import pydrex.stats as stats
    try:
        with warnings.catch_warnings():
            warnings.simplefilter("ignore")
            if c[0] == "to_spherical":
                r, p, t = geo.to_spherical(*c[1])
                return ("OK", [float(r[0]), float(p[0]), float(t[0])])
            if c[0] == "to_cartesian":
                x, y, z = geo.to_cartesian(*c[1])
                return ("OK", [float(x[0]), float(y[0]), float(z[0])])
            if c[0] == "lambert":
                X, Y = geo.lambert_equal_area(*c[1])
                return ("OK", [float(X[0]), float(Y[0])])
            if c[0] == "poles":
                x, y, z = geo.poles(c[3].copy(), ref_axes=c[1], hkl=c[2])
                return ("OK", [float(v) for v in np.stack([x, y, z], axis=1).reshape(-1)])
            if c[0] == "density":
                _, k, axial, g, sigma, w, d, _ = c
                kw = {} if k == 1 else {"σ": sigma}
                X, Y, t = stats.point_density(d[:, 0], d[:, 1], d[:, 2], gridsteps=g, weights=w,
                                              kernel=KERNELS[k], axial=axial, **kw)
                return ("OK", [float(v) for v in np.concatenate([X.ravel(), Y.ravel(), t.ravel()])])
    except Exception as e:  # noqa: BLE001
        return ("ERR", common.exc_code(e), str(e)[:200])
    raise ValueError(c[0])


def model_lines(c):
    if c[0] in ("to_spherical", "to_cartesian", "lambert"):
        return [common.model_line(c[0], [], c[1])]
    if c[0] == "poles":
        return [common.model_line("poles", [AXES.index(c[1]), len(c[3])], list(c[3].reshape(-1)) + list(c[2]))]
    _, k, axial, g, sigma, w, d, _ = c
    xs = [sigma, w] + list(d.reshape(-1))
    return [common.model_line("density", [k, int(axial), g, len(d)], xs),
            common.model_line("raw_totals", [k, int(axial), g, len(d)], xs)]


def encode(c):
    if c[0] in ("to_spherical", "to_cartesian", "lambert"):
        return {"fn": c[0], "args": [hx(x) for x in c[1]]}
    if c[0] == "poles":
        return {"fn": "poles", "ref_axes": c[1], "hkl": [hx(x) for x in c[2]], "n": len(c[3]),
                "orientations": [hx(x) for x in c[3].reshape(-1)]}
    _, k, axial, g, sigma, w, d, kind = c
    return {"fn": "point_density", "kernel": KERNELS[k], "axial": axial, "gridsteps": g, "sigma": hx(sigma),
            "weights": hx(w), "n": len(d), "data": [hx(x) for x in d.reshape(-1)], "kind": kind}


def decode(d):
    if d["fn"] in ("to_spherical", "to_cartesian", "lambert"):
        return (d["fn"], tuple(unhx(x) for x in d["args"]))
    if d["fn"] == "poles":
        return ("poles", d["ref_axes"], np.array([unhx(x) for x in d["hkl"]]),
                np.array([unhx(x) for x in d["orientations"]]).reshape(d["n"], 3, 3))
    return ("density", KERNELS.index(d["kernel"]), d["axial"], d["gridsteps"], unhx(d["sigma"]), unhx(d["weights"]),
            np.array([unhx(x) for x in d["data"]]).reshape(d["n"], 3), d.get("kind", ""))


def sample_of(c, r, m):
    e = encode(c)
    for k in ("orientations", "data"):
        if k in e:
            e[k] = e[k][:9] + (["..."] if len(e[k]) > 9 else [])
    fin = lambda v: v if math.isfinite(v) else repr(v)  # noqa: E731  (keep the evidence strict JSON)
    e["impl"] = r[0] if r[0] == "ERR" else [fin(v) for v in r[1][:3]]
    e["model"] = m[0] if m[0] == "ERR" else [fin(v) for v in m[1][:3]]
    return e


def near_threshold(c):
    """a (counter, datum) pair sits within rounding of a counting threshold: the two sides may
    legitimately count it differently (np.dot vs sequential products)"""
    _, k, axial, g, sigma, w, d, _ = c
    import pydrex.geometry as geo
    if k not in (0, 1):
        return False
    n = float(len(d))
    if k == 1:
        thr = 0.99
    else:
        r = sigma**2 / (n + sigma**2)
        thr = 1 - r if axial else 1 - 2 * r
    rho, h = np.mgrid[-np.pi:np.pi:g * 1j, -1:1:g * 1j]
    x, y, z = geo.to_cartesian(np.pi / 2 - rho.ravel(), np.pi / 2 - np.arcsin(h.ravel()))
    P = np.column_stack([x, y, z]) @ d.T
    if axial:
        P = np.abs(P)
    return bool(np.min(np.abs(P - thr)) < 1e-11)


def compare(chk, cases):
    """Differential run: public functions vs extracted model.  Returns disagreements."""
    lines, idx = [], []
    for c in cases:
        ls = model_lines(c)
        idx.append((len(lines), len(ls)))
        lines += ls
    mres = common.run_model(lines, group=GROUP)
    bad = []
    hist = chk.cov.setdefault("histogram", {})
    guard = chk.cov.setdefault("density_guard", {"cases": 0, "raw_mean_over_mean_abs_min": None, "below_1e-6": 0,
                                                 "nonfinite_both_sides": 0, "near_threshold_excused": 0})
    for c, (i0, k) in zip(cases, idx):
        m = mres[i0]
        r = impl(c)
        key = c[0] if c[0] != "density" else f"density:{KERNELS[c[1]]}:{'axial' if c[2] else 'nonaxial'}"
        if c[0] == "poles":
            key = f"poles:{c[1]}"
        hist[key] = hist.get(key, 0) + 1
        flat = r[1] if r[0] == "OK" else []
        trivial = r[0] == "OK" and not any(flat)
        chk.note_case(repr(encode(c)), nontrivial=not trivial, sample=None)
        if len(chk.cov["samples"]) < 6 and hist[key] == 1 and c[0] in ("to_spherical", "lambert", "poles", "density"):
            chk.cov["samples"].append(sample_of(c, r, m))
        # the model raises where NumPy array arithmetic yields nan (0/0): map one onto the other
        if m[0] == "ERR":
            ok = (r[0] == "ERR" and r[1] == m[1]) or (m[1] == "DivZero" and r[0] == "OK" and any(math.isnan(v) for v in flat))
            hist["model_err:" + m[1]] = hist.get("model_err:" + m[1], 0) + 1
            if not ok:
                bad.append((c, f"model raises {m[1]}, implementation: {r[:2] if r[0] == 'ERR' else flat[:6]}"))
            continue
        if r[0] == "ERR":
            bad.append((c, f"implementation raises {r[1]}: {r[2]}; model returns values"))
            continue
        rtol = 1e-12
        if c[0] == "density":
            rtol = 1e-10
            raw = mres[i0 + 1][1]
            guard["cases"] += 1
            fin = [v for v in raw if math.isfinite(v)]
            if len(fin) != len(raw) or not fin:
                if all(math.isnan(v) or math.isinf(v) for v in flat[2 * c[3] ** 2:]) or not all(map(math.isfinite, m[1])):
                    guard["nonfinite_both_sides"] += 1
            else:
                ma = sum(abs(v) for v in fin) / len(fin)
                ratio = abs(sum(fin) / len(fin)) / ma if ma > 0 else 0.0
                if guard["raw_mean_over_mean_abs_min"] is None or ratio < guard["raw_mean_over_mean_abs_min"]:
                    guard["raw_mean_over_mean_abs_min"] = ratio
                if ratio < 1e-6:
                    guard["below_1e-6"] += 1
                    continue  # the normalisation divides by (almost) zero: not comparable
        okc, j = common.vec_close(flat, m[1], rtol=rtol)
        if not okc:
            if c[0] == "density" and near_threshold(c):
                guard["near_threshold_excused"] += 1
                continue
            a = flat[j] if 0 <= j < len(flat) else None
            b = m[1][j] if 0 <= j < len(m[1]) else None
            bad.append((c, f"{c[0]} output {j}: implementation {a!r} vs model {b!r}"))
    return bad


# --------------------------------------------------------------------------
# the property oracle: a direct reading of C20 on the public API (search only)
# --------------------------------------------------------------------------
def oracle(c):
    import pydrex.geometry as geo
    import pydrex.stats as stats
    fails = []
    with warnings.catch_warnings():
        warnings.simplefilter("ignore")
        try:
            if c[0] == "to_spherical":
                p = np.array(c[1], dtype=float)
                if not np.any(p):
                    return []
                r, ph, th = (float(v[0]) for v in geo.to_spherical(*p))
                n = float(np.linalg.norm(p))
                back = np.array([float(v[0]) for v in geo.to_cartesian(ph, th, r)])
                if not np.all(np.isfinite([r, ph, th])):
                    fails.append(f"to_spherical{tuple(p)} is not finite: {(r, ph, th)}")
                elif np.abs(back - p).max() > 1e-9 * n:
                    fails.append(f"to_cartesian(to_spherical(p)) = {back} != p = {p}")
                else:
                    if abs(r - n) > 1e-12 * n:
                        fails.append(f"r = {r} is not |p| = {n}")
                    if not (0 <= th <= math.pi) or abs(math.cos(th) - p[2] / n) > 1e-9:
                        fails.append(f"theta = {th} is not the colatitude acos(z/r) = {math.acos(max(-1, min(1, p[2] / n)))}")
                    s = math.hypot(p[0], p[1])
                    if s > 1e-9 * n and (abs(s * math.cos(ph) - p[0]) > 1e-9 * n or abs(s * math.sin(ph) - p[1]) > 1e-9 * n):
                        fails.append(f"phi = {ph} is not the longitude of ({p[0]}, {p[1]})")
            elif c[0] == "to_cartesian":
                ph, th, r = c[1]
                x, y, z = (float(v[0]) for v in geo.to_cartesian(ph, th, r))
                e = np.array([r * math.sin(th) * math.cos(ph), r * math.sin(th) * math.sin(ph), r * math.cos(th)])
                if np.abs(np.array([x, y, z]) - e).max() > 1e-12 * abs(r):
                    fails.append(f"to_cartesian({ph}, {th}, {r}) = {(x, y, z)}, expected {tuple(e)}")
            elif c[0] == "lambert":
                x, y, z = c[1]
                if abs(x * x + y * y + z * z - 1) > 1e-12:
                    return []
                X, Y = (float(v[0]) for v in geo.lambert_equal_area(x, y, z))
                if not (math.isfinite(X) and math.isfinite(Y)):
                    fails.append(f"lambert_equal_area{c[1]} is not finite")
                else:
                    if X * X + Y * Y > 1 + 1e-12:
                        fails.append(f"image of {c[1]} lies outside the unit disk")
                    if abs(X * X + Y * Y - (1 - abs(z))) > 1e-9:
                        fails.append(f"squared radius {X * X + Y * Y} != 1 - |z| = {1 - abs(z)} at {c[1]}")
                    if abs(X * y - Y * x) > 1e-9 or X * x + Y * y < -1e-12:
                        fails.append(f"azimuth changed at {c[1]}: image {(X, Y)}")
            elif c[0] == "poles":
                _, ax, hkl, A = c
                x, y, z = geo.poles(A.copy(), ref_axes=ax, hkl=hkl)
                d = np.einsum("nij,i->nj", A, hkl)
                nd = np.linalg.norm(d, axis=1)
                okrows = nd > 1e-12 * max(1.0, float(np.abs(A).max()) * float(np.abs(hkl).max()))
                u = d[okrows] / nd[okrows][:, None]
                lm = {"x": 0, "y": 1, "z": 2}
                up = 3 - lm[ax[0]] - lm[ax[1]]
                got = np.stack([x, y, z], axis=1)[okrows]
                want = np.stack([u[:, lm[ax[0]]], u[:, lm[ax[1]]], u[:, up]], axis=1)
                if got.size and not np.all(np.isfinite(got)):
                    fails.append("poles are not finite")
                elif got.size and np.abs(np.linalg.norm(got, axis=1) - 1).max() > 1e-9:
                    fails.append("poles are not unit vectors")
                elif got.size and np.abs(got - want).max() > 1e-9:
                    g = int(np.abs(got - want).max(axis=1).argmax())
                    fails.append(f"pole of orientation {g} is {got[g]}, the requested direction in the '{ax}' frame is {want[g]}")
            elif c[0] == "density":
                _, k, axial, g, sigma, w, d, _ = c
                n = len(d)
                if not axial and k in (0, 3, 4) and n <= sigma**2:
                    return []  # outside the stated guard (scale = sqrt of a non-positive number)
                kw = {} if k == 1 else {"σ": sigma}

                def run(dd):
                    return stats.point_density(dd[:, 0], dd[:, 1], dd[:, 2], gridsteps=g, weights=w,
                                               kernel=KERNELS[k], axial=axial, **kw)
                X, Y, t = run(d)
                if np.all(np.isnan(t)):
                    return []  # raw grid mean 0: the stated guard
                if not np.all(np.isfinite(t)):
                    fails.append("density estimates are not finite")
                else:
                    if t.min() < 0:
                        fails.append("negative density estimate")
                    if t.mean() < 1 - 1e-9:
                        fails.append(f"grid mean {t.mean()} < 1")
                    if t.min() > 0 and abs(t.mean() - 1) > 1e-9:
                        fails.append(f"grid mean {t.mean()} != 1 although nothing was clipped")
                    if (X**2 + Y**2).max() > 1 + 1e-12 or not np.all(np.isfinite(X)) or not np.all(np.isfinite(Y)):
                        fails.append("grid points outside the unit disk")
                    rng = np.random.default_rng(n * 7919 + g)
                    _, _, t2 = run(d[rng.permutation(n)])
                    scale = max(1.0, float(np.abs(t).max()))
                    if np.abs(t2 - t).max() > 1e-8 * scale and not near_threshold(c):
                        fails.append("density depends on the order of the data")
                    if axial:
                        _, _, t3 = run(d * rng.choice([-1.0, 1.0], size=n)[:, None])
                        if np.abs(t3 - t).max() > 1e-8 * scale and not near_threshold(c):
                            fails.append("axial density depends on the sign of the data")
        except Exception as e:  # noqa: BLE001
            fails.append(f"{c[0]} raised {type(e).__name__}: {e}")
    return fails


def search(chk, extra=()):
    found, seen = [], set()
    pool = list(extra) + gen_cases(chk, "quick")
    for c in pool:
        fails = oracle(c)
        if fails:
            sig = (c[0], c[1] if c[0] == "poles" else None, fails[0][:25])
            if sig in seen:
                continue
            seen.add(sig)
            found.append((shrink(c), fails))
            if len(found) >= 3:
                break
    return found


def shrink(c):
    if c[0] == "poles":
        for g in range(len(c[3])):
            c1 = ("poles", c[1], c[2], c[3][g:g + 1].copy())
            if oracle(c1):
                return c1
    if c[0] == "density" and len(c[6]) > 4:
        for n in (1, 2, 4, 16):
            c1 = c[:6] + (c[6][:n].copy(), c[7])
            if oracle(c1):
                return c1
    return c


def run(chk):
    ok, br = proofs.prove(chk, FILES, PROP, groups=(GROUP,), gen_modules=("geometry",))
    chk.cov["trusted_base"] = common.TRUSTED_COMMON + [
        "GeoProxy in translator/specs_geometry.py: symbolic meaning of np.atleast_1d/.astype(float), array arctan2/logical_and, "
        "np.tensordot((N,3,3),(3,),axes=(2,0)), scipy.linalg.norm(axis=1) and of the numpy.ma idiom of lambert_equal_area "
        "(masked_where / domained true_divide and sqrt / fill_value / filled) -- checked against the implementation by this differential run",
        "hand-written Model_density.v (point_density, five kernels, poles_all over the generated one-orientation poles); tie H = this differential run",
        "np.arcsin modelled as pi/2 - arccos; np.sum/np.mean modelled as left-to-right sums; array division by zero is an error in the model and nan in NumPy",
    ]
    chk.cov["rule"] = (
        "cases = to_spherical at the origin, on the axes (1e-8..1e8), octant boundaries, signed zeros, + random directions x 10^U(-8,8); "
        "to_cartesian at random angles/radii; lambert_equal_area at both poles, the equator, a ladder of points around the 1e-16 cut-off, "
        "non-unit vectors (|z| > 1) and random unit vectors; poles for six reference-axes strings x 10 hkl x 1..1000 random orientations "
        "(+ non-orthonormal and singular matrices); point_density for five kernels x axial/non-axial x random/girdle/cluster data sets of 1..500 "
        "vectors x grid sizes 5..101 x sigma x scalar weights, each with a permuted and (axial) sign-flipped copy. "
        "distinct = distinct encoded input; non-trivial = some output is non-zero")
    bad = []
    if br.drivers.get(GROUP, 1) is None:
        cases = gen_cases(chk, chk.tier)
        bad = compare(chk, cases)
        chk.cov["traces_validated_against_impl"] = len(cases)
    chk.cov["disagreements"] = len(bad)
    if ok and not bad:
        return
    found = search(chk, extra=[c for c, _ in bad])
    if found:
        for c, fails in found:
            chk.replay({"kind": "property-violation", "input": encode(c), "observed": fails,
                        "required": "C20 (see properties.jsonl)", "broken": chk.cov.get("broken_obligations", []),
                        "disagreements": [m for _, m in bad[:3]]})
    else:
        chk.replay({"kind": "unproved", "broken": chk.cov.get("broken_obligations", []),
                    "disagreements": [{"input": sample_of(c, ("OK", []), ("OK", [])), "detail": m} for c, m in bad[:3]],
                    "note": "proof obligation or correspondence no longer checks; no failing input found by the search"},
                   no_input=True)


def replay(d):
    common.use_repo_source()
    if d.get("kind") != "property-violation":
        print("replay file names a broken obligation; re-run the check itself")
        return 1
    fails = oracle(decode(d["input"]))
    for f in fails:
        print("still fails:", f)
    return 1 if fails else 0
