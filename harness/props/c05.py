"""C05 -- texture depends on the strain path, not on the strain rate."""
from __future__ import annotations

import numpy as np

import common
import proofs
import minerals_trace as MT
from props import c01

FILES = ["Model_core.v", "Model_minerals.v", "Proofs_core.v", "Proofs_minerals.v", "Proofs_flow.v", "Proofs_path.v", "Proofs_rhs.v",
         "Entry_core.v", "Extract_core.v"]
FILES += [f for f in MT.GLUE_TIE_FILES if f not in FILES]   # tie T of the glue model
PROP = "Properties/C05.v"
KS = [1e-16, 1e-15, 1e-12, 1e-8, 1e-4, 1.0, 10.0, 1e3]
TOL = 1e-3      # alarm threshold = solver tolerance: LSODA runs with rtol 1e-6 and atol 1e-4 per component, and two
                # runs whose step sequences differ by rounding (k t products) may differ by a few 1e-4 (seen: 1.9e-4 at
                # k = 1e-16 in a thorough run); dropping a scaling changes results by O(1) or by a factor k


def compare(h1, hk):
    """max relative difference of stored textures and returned F between two histories"""
    m1, mk = h1["mineral"], hk["mineral"]
    if len(m1.orientations) != len(mk.orientations):
        return np.inf, "different number of snapshots"
    d = 0.0
    for a, b in zip(m1.orientations, mk.orientations):
        d = max(d, float(np.abs(np.asarray(a) - np.asarray(b)).max()))
    for a, b in zip(m1.fractions, mk.fractions):
        d = max(d, float(np.abs(np.asarray(a) - np.asarray(b)).max() / max(1e-300, np.abs(np.asarray(a)).max())))
    for a, b in zip(h1["F_hist"], hk["F_hist"]):
        d = max(d, float(np.abs(a - b).max() / np.abs(a).max()))
    return d, None


def coincidence_breaks(T, k, nupd):
    """Does rounding of the scaled partition (t = j fl(T / k), midpoints; mapped back by fl(t k) / T) move one of the three
    sample points of some update off the exact zeros w = 0, 1/2, 1 of the zone profile of MT.make_coincident?  Then the
    velocity gradients sampled at start / midpoint / end coincide exactly at rate 1 but not at rate k."""
    dt, t = T / k, 0.0
    for _ in range(nupd):
        for tt in (t, (t + (t + dt)) / 2, t + dt):
            u = (tt * k) / T
            if MT._zone(u - np.floor(u)) != 0.0:
                return True
        t += dt
    return False


def coincident_plan(rng, tier):
    """(scenario, rates): every coincident-sample flow family at rate 1 and at three other rates; for the families whose
    coincidence is exact only where the partition maps back exactly (pulse, zones) rates at which it does NOT come first"""
    plan = []
    for sc in MT.coincident_scenarios(rng, tier, regimes=(4, 6, 4, 0), nmax=8):
        ks = [k for k in KS if k != 1.0]
        ks = [ks[j] for j in rng.permutation(len(ks))]
        if sc["lkind"] in ("pulse", "zones"):
            ks.sort(key=lambda k: not coincidence_breaks(sc["period"], k, sc["nupd"]))
        plan.append((sc, ks[:3]))
    return plan


# --------------------------------------------------------------------------
# representations of the velocity gradient x triaxial flows x power-of-two rates
# --------------------------------------------------------------------------
# The property quantifies over ALL velocity gradients: also over what the caller's callable hands back as an array -- binary32
# (single-precision model output), integers (a synthetic flow typed as [[0, 2, 0], ...]), Fortran order, read-only, a view of a
# table -- and over flows that are genuinely three-dimensional (det D != 0).  A pair "history x k, times / k" is only a pair if
# both members see THE SAME NUMBERS: the entries are small dyadic rationals (multiples of 1/8, integers for the integer
# dtypes) and k is a POWER OF TWO, so k L and T / k are exact in binary32 and binary64 and rounding to binary32 commutes with
# the scaling (smallest entry 2^-3 * 2^-53 = 2^-56 >> binary32's smallest normal 2^-126).  The exponents stay inside the
# quantified range [1e-16, 1e3]: 2^-53 = 1.1e-16 ... 2^9 = 512.  In binary32 a product of two entries of D underflows for
# |D| < 2^-63 (never here) but a product of THREE (det D, any cubic invariant) is subnormal below |D| ~ 2^-42 = 2.3e-13 1/s and
# exactly 0 below ~ 2^-50: the geological part of the range, where a dimensional quantity evaluated in the dtype of the
# caller's array silently loses it (seeded change C05g); plane flows (det D = 0) cannot see that.
REP_PREFIX = "Lrep"
REP_DTYPES = ("float32", "float64", "int64", "int32", "int8")
REP_LAYOUTS = ("copy", "shared", "fortran", "readonly", "view")
REP_TRIAXIAL = ("axial_ext", "axial_comp", "triaxial", "general3d", "compacting", "triaxial_time")     # det D != 0
REP_PLANE = ("simple", "pure")                                                                         # det D == 0 (controls)
REP_FLOWS = REP_TRIAXIAL + REP_PLANE
REP_EXP_GEOLOGICAL = (-53, -52, -51, -50)       # 1.1e-16 .. 8.9e-16: |D|^3 is exactly 0 in binary32
REP_EXP_SUBNORMAL = (-48, -46, -44, -43)        # 3.6e-15 .. 1.1e-13: |D|^3 is subnormal in binary32
REP_EXP_OTHER = (-40, -33, -27, -20, -13, -7, -3, -1, 1, 3, 6, 9)
REP_PERIODS = (0.125, 0.25)     # x at most 2 updates x |D| <= 3: total strain <= 1.5, typically 0.3.  The binary32 strain-rate scale is
#                                 homogeneous only to binary32 rounding (see rep_tolerance); at these strains the members of 1000 steady
#                                 binary32 pairs differed by <= 1.1e-6, at strains up to 4.5 one pair in 800 reached 1.1e-4 (an LSODA
#                                 step-selection flip), a seeded loss of det D gives 1e-2 .. 0.4


def _spin(rng, q, amp):
    w = rng.integers(-amp, amp + 1, size=3) / q
    return np.array([[0.0, -w[2], w[1]], [w[2], 0.0, -w[0]], [-w[1], w[0], 0.0]])


def dyadic_gradient(rng, flow, integer=False):
    """A velocity gradient whose entries are multiples of 1/8 (integers when `integer`) of magnitude <= 3; largest principal
    strain rate between ~0.5 and ~3.  Triaxial kinds are resampled until |det D| is clearly non-zero."""
    q = 1 if integer else 8
    for _ in range(200):
        L = np.zeros((3, 3))
        p = rng.permutation(3)
        if flow in ("axial_ext", "axial_comp"):         # one axis lengthens (shortens), the other two equally: D = a diag(2, -1, -1)
            a = (1 if integer else int(rng.integers(3, 13))) / q * (1 if flow == "axial_ext" else -1)
            L[p[0], p[0]], L[p[1], p[1]], L[p[2], p[2]] = 2 * a, -a, -a
            if rng.random() < 0.5:
                L += 2 * _spin(rng, q, 1 if integer else 6)     # rigid rotation on top: D unchanged (even entries: (L + L^T) / 2 stays on the grid)
        elif flow in ("triaxial", "triaxial_time"):      # three different principal strain rates, trace-free, plus vorticity
            a, b = (int(v) / q for v in rng.choice(np.arange(1, 2 * q + 1), size=2, replace=False))
            sgn = 1 if rng.random() < 0.5 else -1
            L[p[0], p[0]], L[p[1], p[1]], L[p[2], p[2]] = sgn * a, sgn * b, -sgn * (a + b)
            L += 2 * _spin(rng, q, 1 if integer else 6)
        elif flow in ("general3d", "compacting"):        # every entry non-zero in general; trace-free / net compaction
            L = rng.integers(-2 * q, 2 * q + 1, size=(3, 3)) / q
            if flow == "general3d":
                L[2, 2] = -(L[0, 0] + L[1, 1])
            else:
                for i in range(3):
                    L[i, i] = -abs(L[i, i])
        elif flow == "simple":                            # plane flows: one principal strain rate is exactly 0
            L[p[0], p[1]] = (2 if integer else int(rng.integers(4, 17))) / q
        elif flow == "pure":
            a = (1 if integer else int(rng.integers(3, 13))) / q
            L[p[0], p[0]], L[p[1], p[1]] = a, -a
        else:
            raise ValueError(flow)
        D = (L + L.T) / 2
        s = float(np.abs(np.linalg.eigvalsh(D)).max())
        if not 0.45 <= s <= 3.0 or np.abs(L).max() > 3.0:
            continue
        if flow in REP_TRIAXIAL and (abs(np.linalg.det(D)) < 0.02 * s ** 3 or (flow == "compacting" and np.trace(L) > -0.25)):
            continue
        return L
    raise RuntimeError(f"no {flow} gradient found")


def _represent(A, dtype):
    """A (binary64 values) in the dtype of the representation; integer dtypes fall back to binary64 where k L is not
    integral / out of range (the rate-1 member of such a pair is the integer array).  Never changes a value."""
    dt = np.dtype(dtype)
    # EXCLUDED INPUT CLASS (behaviour of the unchanged code, reported as a finding): an integer array whose entries reach HALF
    # the range of its dtype.  update_orientations forms (L + L^T) / 2 in the dtype of the caller's array, so for an int8 array
    # with an entry >= 64 (e.g. L = 64 diag(1, -1, 0) as int8: 64 + 64 wraps to -128) the strain rate changes sign and the
    # pair (int8 diag(1, -1, 0) at rate 1, int8 64 diag(1, -1, 0) at rate 64) differs by O(1) (measured 1.005).  Such members
    # are handed over as binary64 instead; integer members keep 2 |k L| <= the largest value of the dtype.
    if dt.kind == "i" and not (np.all(A == np.round(A)) and 2 * np.abs(A).max() <= np.iinfo(dt).max):
        dt = np.dtype("float64")
    B = A.astype(dt)
    if not np.array_equal(B.astype(np.float64), A):
        raise ValueError(f"representation as {dt} changes the velocity gradient: the two members of the pair would differ")
    return B


def _layout(B, layout):
    if layout in ("copy", "shared"):
        return np.ascontiguousarray(B)
    if layout == "fortran":
        return np.asfortranarray(B)
    if layout == "readonly":
        B = B.copy()
        B.setflags(write=False)
        return B
    if layout == "view":        # every second entry of one slab of a table the caller keeps
        table = np.zeros((4, 6, 6), dtype=B.dtype)
        table[2, ::2, ::2] = B
        return table[2, ::2, ::2]
    raise ValueError(layout)


def make_represented(rng, kind, scale=1.0, period=None):
    """(get_L, description) for lkind 'Lrep:<flow>:<dtype>:<layout>'.  scale must be a power of two."""
    _, flow, dtype, layout = kind.split(":")
    m, e = np.frexp(scale)
    if m != 0.5 or not -53 <= e - 1 <= 9:
        raise ValueError(f"rate {scale!r} is not a power of two inside [2^-53, 2^9]")
    integer = np.dtype(dtype).kind == "i"
    L0 = dyadic_gradient(rng, flow, integer)
    desc = dict(kind=kind, mutated=False, detD=float(np.linalg.det((L0 + L0.T) / 2)))
    if flow == "triaxial_time":     # smooth variation within every update; rounding to the dtype commutes with the scaling by 2^e
        if integer:
            raise ValueError("a smoothly varying velocity gradient has no integer representation")
        L1 = dyadic_gradient(rng, "general3d")
        T = float(period)

        def get_varying(t, x):
            c = np.cos(2 * np.pi * ((t * scale) / T)) ** 2
            B = _represent(((L0 + 0.5 * L1 * c) * scale).astype(dtype).astype(np.float64), dtype)
            return _layout(B, "fortran" if layout == "fortran" else "readonly" if layout == "readonly" else "copy")
        return get_varying, desc
    A = L0 * scale
    buf = _layout(_represent(A, dtype), layout)
    desc["given_dtype"] = str(buf.dtype)

    def get_represented(t, x):
        if not np.array_equal(np.asarray(buf, dtype=np.float64), A):
            desc["mutated"] = True      # the library wrote into the caller's array (run_history reports it)
        return buf.copy(order="K") if layout == "copy" else buf
    return get_represented, desc


def rep_tolerance(flow, dtype):
    """Alarm threshold of a representation pair: TOL; None (measured and reported, not judged) for a binary32 array that VARIES
    WITHIN an update.  LAPACK's single-precision symmetric eigensolver (ssterf) rescales a matrix of norm < sqrt(safmin) / eps^2
    = 3e-5 by a factor that is not a power of two, so the binary32 strain-rate scale is homogeneous only to binary32 rounding
    (6e-8), not exactly as in binary64.  For steady flows the two members then differ by <= 1.1e-6 (1000 pairs at the strains
    of REP_PERIODS), but with a velocity gradient that varies within the update (an array re-rounded to binary32 at every
    evaluation) LSODA amplifies the 6e-8 noise to its own tolerance and beyond (measured over 300 pairs: 5% above 1e-4, maximum
    3.2e-3 at 2^-27 and 2.6e-3 at 2^-53; 107 against 110 steps; identical step sequences at 2^-1 and 2^3 where ssterf does not
    rescale) -- on both sides of TOL, so an alarm there would say nothing about the scalings.  These pairs run in the thorough tier only; the time-varying flow is judged in its binary64 presentations."""
    return None if (dtype == "float32" and flow == "triaxial_time") else TOL


class represented_flows:
    """`with represented_flows():` makes the scenario builder of the core group (minerals_trace.build -> make_L) know the
    'Lrep:...' flow kinds of this file; everything else is passed through.  (The shared helper is not edited.)"""

    def __enter__(self):
        self._orig = orig = MT.make_L

        def make_L(rng, kind, scale=1.0, period=None):
            if isinstance(kind, str) and kind.startswith(REP_PREFIX + ":"):
                return make_represented(rng, kind, scale, period)
            return orig(rng, kind, scale=scale, period=period)
        MT.make_L = make_L
        return self

    def __exit__(self, *a):
        MT.make_L = self._orig


def representation_plan(rng, tier):
    """[(scenario, [exponents])].  quick: every flow once as binary32 (layouts in turn) + three integer dtypes + binary64 in
    Fortran order on triaxial flows; thorough: every flow x every dtype x every layout.  Every scenario is run at one rate
    of the geological end (|D|^3 = 0 in binary32), one where |D|^3 is subnormal in binary32 and at others across the range."""
    combos = []
    if tier == "quick":
        off = int(rng.integers(len(REP_LAYOUTS)))
        for i, flow in enumerate(REP_FLOWS):
            combos.append((flow, "float32" if rep_tolerance(flow, "float32") else "float64", REP_LAYOUTS[(i + off) % len(REP_LAYOUTS)]))
        tri = [f for f in REP_TRIAXIAL if f != "triaxial_time"]
        for i, dt in enumerate(("int64", "int32", "int8")):
            combos.append((tri[int(rng.integers(len(tri)))], dt, REP_LAYOUTS[(i + off + 1) % len(REP_LAYOUTS)]))
        combos.append((REP_TRIAXIAL[int(rng.integers(len(REP_TRIAXIAL)))], "float64", "fortran"))
    else:
        for flow in REP_FLOWS:
            for dt in REP_DTYPES:
                if flow == "triaxial_time" and np.dtype(dt).kind == "i":
                    continue
                for lay in REP_LAYOUTS:
                    combos.append((flow, dt, lay))
    plan = []
    for j, (flow, dt, lay) in enumerate(combos):
        sc = MT.scenario(rng, regime=int((4, 6, 4, 6, 4, 0)[j % 6]), n=int(rng.integers(3, 13)),
                         lkind=f"{REP_PREFIX}:{flow}:{dt}:{lay}", nupd=int(rng.integers(1, 3)),
                         tkind=("random", "clustered", "nonuniform")[j % 3])
        sc["period"] = float(REP_PERIODS[int(rng.integers(len(REP_PERIODS)))])
        sc["params"]["gbm_mobility"] = float(rng.uniform(20, 200))      # the volume block must move too
        n_other = 1 if tier == "quick" else 4
        es = [int(rng.choice(REP_EXP_GEOLOGICAL)), int(rng.choice(REP_EXP_SUBNORMAL))] \
            + [int(e) for e in rng.choice(REP_EXP_OTHER, size=n_other, replace=False)]
        plan.append((sc, es))
    return plan


KEY_INT8_WRAP = "C05:update_orientations:int8-strain-rate-wraps"


def known_int8_finding(chk):
    """open finding (known_findings.json): a velocity gradient handed over as an int8 array whose entries reach 64 -- the strain rate
    `(L + L.T) / 2` is formed in the caller's dtype, 64 + 64 wraps to -128 and the strain rate changes sign, so the history at rate 64
    (time compressed by 1/64) does not store the texture of the history at rate 1.  Witness evaluated on every run; KNOWN-FINDING while it
    reproduces and is listed as open, a violation otherwise."""
    import warnings
    common.use_repo_source()
    import pydrex
    from pydrex import minerals

    def history(k):
        m = minerals.Mineral(phase=pydrex.MineralPhase.olivine, fabric=pydrex.MineralFabric.olivine_A,
                             regime=pydrex.DeformationRegime.matrix_dislocation, n_grains=16, seed=3)
        L = (k * np.diag([1, -1, 0])).astype(np.int8)
        F = m.update_orientations(pydrex.DefaultParams().as_dict(), np.eye(3), lambda t, x: L,
                                  pathline=(0.0, 0.25 / k, lambda t: np.zeros(3)))
        return np.asarray(m.orientations[-1], dtype=float), np.asarray(F, dtype=float)
    try:
        with warnings.catch_warnings():
            warnings.simplefilter("ignore")
            (a, _), (b, _), (c, _) = history(1), history(64), history(32)
        d64, d32 = float(np.abs(a - b).max()), float(np.abs(a - c).max())
    except Exception as e:  # noqa: BLE001
        chk.cov.setdefault("known_finding_witnesses", {})[KEY_INT8_WRAP] = f"witness raised {type(e).__name__}"
        return
    repro = d64 > 1e-3 and d32 <= 1e-6
    chk.cov.setdefault("known_finding_witnesses", {})[KEY_INT8_WRAP] = {"reproduces": repro, "difference_at_rate_64": d64, "difference_at_rate_32": d32}
    if not repro:
        return
    status = next((str(f.get("status", "")) for f in common.load_known_findings() if f.get("key") == KEY_INT8_WRAP), None)
    text = (f"{KEY_INT8_WRAP}: int8 velocity gradient diag(64, -64, 0) over [0, 0.25/64] stores a texture that differs by {d64:.3g} from "
            f"int8 diag(1, -1, 0) over [0, 0.25] (rate 32: {d32:.1g}): (L + L.T)/2 is formed in int8 and 64 + 64 wraps to -128")
    if status == "open":
        chk.known_finding(text)
    else:
        chk.replay({"kind": "property-violation", "call": "Mineral.update_orientations (paired histories)", "finding": KEY_INT8_WRAP,
                    "observed": [text], "required": "C05"})


def run(chk):
    ok, br = proofs.prove(chk, FILES, PROP, groups=("core",), gen_modules=MT.GLUE_TIE_GEN)
    known_int8_finding(chk)
    chk.cov["trusted_base"] = common.TRUSTED_COMMON + [MT.GLUE_TIE_TRUSTED,
        "hand-written Model_minerals.rhs (the integrand), tied by trace validation at every tested rate",
        "oracle: the strain-rate scale is the is_eigmax of D (unique, positively homogeneous -- proved); residual-checked against a closed form",
        "NOT proved: that LSODA, given a k-scaled vector field and 1/k-scaled interval and first step, takes the same step sequence (a property of the Fortran code); measured here by paired runs",
    ]
    chk.cov["rule"] = ("paired histories: the same scenario at rate 1 and at rate k in {1e-16,1e-15,1e-12,1e-8,1e-4,10,1e3} (velocity gradient x k, times / k, "
                       "pathline x(k t)); flows incl. time- and position-dependent; regimes 4, 6 and the null regimes; stored textures and returned F compared "
                       "(alarm at the solver tolerance 1e-6, maximum reported); caller-owned velocity-gradient storage (same array object / view of a table / read-only / Fortran-ordered, scale != 1); enstatite in both dislocation regimes at k = 1e-16, 2^-50, 1e-15 (absolute slip threshold 1e-15); flows whose samples at start / midpoint / end of every update coincide exactly at rate 1 "
                       "(cosine periods, pulses, shear zones along the pathline, closed pathlines) at three more rates, preferring rates whose rounded partition breaks "
                       "the coincidence; representations of the array the velocity-gradient callable returns (binary32 / int64 / int32 / int8 / binary64; fresh copy, same object, "
                       "Fortran order, read-only, view of a table) x triaxial flows with det D != 0 (axial extension / compression, three distinct principal rates, general "
                       "trace-free, compacting, varying in time) and plane controls, entries dyadic and rates powers of two 2^-53 .. 2^9 so that both members see the same "
                       "numbers in every dtype, always one rate where |D|^3 is 0 and one where it is subnormal in binary32 (binary32 members judged by the property oracle "
                       "only); every update also trace-validated against the model; non-trivial = texture changed")
    bad, mon = [], []
    rng = np.random.default_rng(chk.seed)
    if br.drivers.get("core", 1) is None:
        worst = 0.0
        hist = chk.cov.setdefault("k_histogram", {})
        with MT.Recorder() as rec:
            N = 5 if chk.tier == "quick" else 100
            for i in range(N):
                # the first scenarios always have a velocity gradient that varies WITHIN an update
                forced = {0: "time", 1: "position"}.get(i)
                sc = MT.scenario(rng, regime=int((4, 4, 6, 4, 0)[i % 5]), n=int(rng.integers(2, 14)), lkind=forced)
                h1 = c01.run_history(rec, dict(sc, rate=1.0))
                c01.validate_traces(chk, h1, bad)
                if h1["fails"]:
                    mon += [(sc, 1.0, m) for _, m in h1["fails"]]
                    continue
                ks = KS if chk.tier == "thorough" else [KS[j] for j in rng.choice(len(KS), size=5, replace=False)]
                if forced and 1e-12 not in ks:
                    ks = list(ks) + [1e-12]
                for k in ks:
                    if k == 1.0:
                        continue
                    hk = c01.run_history(rec, dict(sc, rate=float(k)))
                    c01.validate_traces(chk, hk, bad)
                    hist[str(k)] = hist.get(str(k), 0) + 1
                    if hk["fails"]:
                        mon += [(sc, k, m) for _, m in hk["fails"]]
                        continue
                    d, msg = compare(h1, hk)
                    worst = max(worst, d)
                    if msg or d > TOL:
                        mon.append((sc, k, msg or f"textures / deformation gradient at rate k = {k:g} differ from rate 1 by {d:.3e} (> {TOL:g})"))
            # the velocity gradient handed back as caller-owned storage (the same array object, a view of a table, read-only,
            # Fortran-ordered) with a strain-rate scale != 1 at every rate: nothing may be written into it (own PRNG stream)
            rngs = np.random.default_rng([chk.seed, 0xC05E])
            sh = chk.cov.setdefault("caller_owned_L_pairs", {})
            for j, lk in enumerate(["shared"] + MT.L_PRESENTATIONS if chk.tier != "quick" else ["shared", MT.L_PRESENTATIONS[int(rngs.integers(3))]]):
                sc = MT.scenario(rngs, regime=int((4, 6)[j % 2]), n=int(rngs.integers(3, 10)), lkind=lk, nupd=int(rngs.integers(1, 3)))
                h1 = c01.run_history(rec, dict(sc, rate=1.0))
                c01.validate_traces(chk, h1, bad)
                if h1["fails"]:
                    mon += [(sc, 1.0, m) for _, m in h1["fails"]]
                    continue
                for k in (KS[j % 3], KS[-1 - (j % 2)]):
                    hk = c01.run_history(rec, dict(sc, rate=float(k)))
                    c01.validate_traces(chk, hk, bad)
                    hist[str(k)] = hist.get(str(k), 0) + 1
                    sh[lk] = sh.get(lk, 0) + 1
                    if hk["fails"]:
                        mon += [(sc, k, m) for _, m in hk["fails"]]
                        continue
                    d, msg = compare(h1, hk)
                    worst = max(worst, d)
                    if msg or d > TOL:
                        mon.append((sc, k, msg or f"textures / deformation gradient at rate k = {k:g} differ from rate 1 by {d:.3e} (> {TOL:g})"))
            # enstatite at geological rates: its single slip system is switched by an ABSOLUTE threshold (|I| > 1e-15) written for the
            # dimensionless strain rate; any dimensional quantity leaking into the kernel shows at k |D| <= 1e-15 and nowhere else
            # (both dislocation regimes; k = 1e-16, 2^-50 ~ 8.9e-16 and 1e-15; own PRNG stream)
            rnge = np.random.default_rng([chk.seed, 0xC05D])
            eh = chk.cov.setdefault("enstatite_geological_rate_pairs", {})
            for j in range(2 if chk.tier == "quick" else 12):
                sc = MT.scenario(rnge, regime=int((4, 6)[j % 2]), pair=(1, 5), n=int(rnge.integers(3, 12)),
                                 lkind=("simple", "general", "pure", "time", "axisym", "position")[j % 6], nupd=int(rnge.integers(1, 3)),
                                 tkind=("random", "clustered")[j % 2], strain=float(rnge.uniform(0.3, 0.6)))
                h1 = c01.run_history(rec, dict(sc, rate=1.0))
                c01.validate_traces(chk, h1, bad)
                if h1["fails"]:
                    mon += [(sc, 1.0, m) for _, m in h1["fails"]]
                    continue
                for k in (1e-16, 2.0 ** -50, 1e-15):
                    hk = c01.run_history(rec, dict(sc, rate=float(k)))
                    c01.validate_traces(chk, hk, bad)
                    hist[str(k)] = hist.get(str(k), 0) + 1
                    eh[str(k)] = eh.get(str(k), 0) + 1
                    if hk["fails"]:
                        mon += [(sc, k, m) for _, m in hk["fails"]]
                        continue
                    d, msg = compare(h1, hk)
                    worst = max(worst, d)
                    if msg or d > TOL:
                        mon.append((sc, k, msg or f"textures / deformation gradient at rate k = {k:g} differ from rate 1 by {d:.3e} (> {TOL:g})"))
            # flows whose samples at the start, midpoint and end of every update coincide exactly (at rate 1) and that vary in between
            cf = chk.cov.setdefault("coincident_flow_families", {})
            for sc, ks in coincident_plan(np.random.default_rng([chk.seed, 0xC06D]), chk.tier):
                h1 = c01.run_history(rec, dict(sc, rate=1.0))
                c01.validate_traces(chk, h1, bad)
                if h1["fails"]:
                    mon += [(sc, 1.0, m) for _, m in h1["fails"]]
                    continue
                for k in ks:
                    hk = c01.run_history(rec, dict(sc, rate=float(k)))
                    c01.validate_traces(chk, hk, bad)
                    hist[str(k)] = hist.get(str(k), 0) + 1
                    key = sc["lkind"] + (":coincidence broken by rounding at rate k" if sc["lkind"] in ("pulse", "zones")
                                         and coincidence_breaks(sc["period"], k, sc["nupd"]) else "")
                    cf[key] = cf.get(key, 0) + 1
                    if hk["fails"]:
                        mon += [(sc, k, m) for _, m in hk["fails"]]
                        continue
                    d, msg = compare(h1, hk)
                    worst = max(worst, d)
                    if msg or d > TOL:
                        mon.append((sc, k, msg or f"textures / deformation gradient at rate k = {k:g} differ from rate 1 by {d:.3e} (> {TOL:g})"))
            # representations of the array the velocity-gradient callable returns (binary32 / integer / binary64; fresh copy, same
            # object, Fortran order, read-only, view of a table) x triaxial and plane flows, at power-of-two rates 2^-53 .. 2^9 (exact
            # pairs in every dtype); own PRNG stream.  Members given as binary64 / integers are trace-validated against the model;
            # binary32 members are judged by the property oracle only (the extracted model computes in binary64)
            rp = chk.cov.setdefault("L_representation_pairs", {})
            rf = chk.cov.setdefault("L_representation_flow_pairs", {})
            rk = chk.cov.setdefault("L_representation_rate_histogram", {})
            rz = chk.cov.setdefault("L_representation_binary32_cube_underflow_pairs", {"triaxial (det D != 0)": 0, "plane (det D == 0)": 0})
            with represented_flows():
                for sc, es in representation_plan(np.random.default_rng([chk.seed, 0xC05F32]), chk.tier):
                    _, flow, dt, lay = sc["lkind"].split(":")
                    h1 = c01.run_history(rec, dict(sc, rate=1.0))
                    if dt != "float32":
                        c01.validate_traces(chk, h1, bad)
                    if h1["fails"]:
                        mon += [(sc, 1.0, m) for _, m in h1["fails"]]
                        continue
                    for e in es:
                        k = 2.0 ** e
                        hk = c01.run_history(rec, dict(sc, rate=k))
                        if dt != "float32":
                            c01.validate_traces(chk, hk, bad)
                        hist[f"2^{e}"] = hist.get(f"2^{e}", 0) + 1
                        rk[f"2^{e}"] = rk.get(f"2^{e}", 0) + 1
                        key = f"{dt}:{lay}" + ("" if dt == hk["desc"].get("given_dtype", dt) else f" (rate-k member as {hk['desc']['given_dtype']})")
                        rp[key] = rp.get(key, 0) + 1
                        rf[flow] = rf.get(flow, 0) + 1
                        if dt == "float32" and e <= -43:
                            rz["triaxial (det D != 0)" if flow in REP_TRIAXIAL else "plane (det D == 0)"] += 1
                        if hk["fails"]:
                            mon += [(sc, k, m) for _, m in hk["fails"]]
                            continue
                        d, msg = compare(h1, hk)
                        tol = rep_tolerance(flow, dt)
                        if tol is None:     # binary32 array varying within the update: measured, not judged (see rep_tolerance)
                            chk.cov["L_representation_binary32_time_varying_measured_max"] = max(
                                chk.cov.get("L_representation_binary32_time_varying_measured_max", 0.0), d)
                            if not msg:
                                continue
                        worst = max(worst, d)
                        chk.cov["L_representation_max_rate_dependence"] = max(chk.cov.get("L_representation_max_rate_dependence", 0.0), d)
                        if msg or d > tol:
                            mon.append((sc, k, msg or f"textures / deformation gradient at rate k = 2^{e} differ from rate 1 by {d:.3e} (> {tol:g}); "
                                                       f"velocity gradient given as {dt} ({lay}), flow {flow}, det D = {h1['desc']['detD']:g} at rate 1"))
            # block-boundary grain counts: one paired run each (k = 1e-8), trace-validated
            for sc in MT.block_scenarios(np.random.default_rng([chk.seed, 0xB10C]), chk.tier, regimes=(4, 6),
                                         sizes=(64, 128, 129, 1024) if chk.tier == "quick" else None):
                h1 = c01.run_history(rec, dict(sc, rate=1.0))
                c01.validate_traces(chk, h1, bad)
                hk = c01.run_history(rec, dict(sc, rate=1e-8))
                c01.validate_traces(chk, hk, bad)
                hist["1e-08"] = hist.get("1e-08", 0) + 1
                if h1["fails"] or hk["fails"]:
                    mon += [(sc, 1.0, m) for _, m in h1["fails"]] + [(sc, 1e-8, m) for _, m in hk["fails"]]
                    continue
                d, msg = compare(h1, hk)
                worst = max(worst, d)
                if msg or d > TOL:
                    mon.append((sc, 1e-8, msg or f"textures / deformation gradient at rate k = 1e-08 differ from rate 1 by {d:.3e} (> {TOL:g})"))
        chk.cov["max_rate_dependence"] = worst
        chk.cov["traces_validated_against_impl"] = chk.cov["evaluations"]
    chk.cov["disagreements"] = len(bad)
    chk.cov["monitor_failures"] = len(mon)
    if ok and not bad and not mon:
        return
    if mon:
        sc, k, msg = mon[0]
        chk.replay({"kind": "property-violation", "scenario": c01.encode_sc(sc), "k": k, "observed": msg, "required": "C05",
                    "broken": chk.cov.get("broken_obligations", []), "disagreements": [m for _, m in bad[:3]]})
    else:
        chk.replay({"kind": "unproved", "broken": chk.cov.get("broken_obligations", []),
                    "disagreements": [m for _, m in bad[:3]],
                    "note": "proof obligation or correspondence no longer checks; no failing input found"}, no_input=True)


def replay(d):
    common.use_repo_source()
    if d.get("kind") != "property-violation":
        print("replay file names a broken obligation; re-run the check itself")
        return 1
    sc = d["scenario"]
    sc["pair"] = tuple(sc["pair"])
    with MT.Recorder() as rec, represented_flows():
        h1 = c01.run_history(rec, dict(sc, rate=1.0))
        hk = c01.run_history(rec, dict(sc, rate=float(d["k"])))
    dd, msg = compare(h1, hk)
    print("difference", dd, msg)
    tol = TOL
    if str(sc.get("lkind", "")).startswith(REP_PREFIX + ":"):
        tol = rep_tolerance(*sc["lkind"].split(":")[1:3]) or np.inf
    return 1 if (msg or dd > tol or h1["fails"] or hk["fails"]) else 0
