"""C05 -- texture depends on the strain path, not on the strain rate."""
from __future__ import annotations

import numpy as np

import common
import proofs
import minerals_trace as MT
from props import c01

FILES = ["Model_core.v", "Model_minerals.v", "Proofs_core.v", "Proofs_minerals.v", "Proofs_flow.v", "Proofs_path.v", "Proofs_rhs.v",
         "Entry_core.v", "Extract_core.v"]
FILES += [f for f in MT.GLUE_TIE_FILES if f not in FILES]   # tie T of the glue model
PROP = "Properties/C05.v"
KS = [1e-16, 1e-15, 1e-12, 1e-8, 1e-4, 1.0, 10.0, 1e3]
TOL = 1e-3      # alarm threshold = solver tolerance: LSODA runs with rtol 1e-6 and atol 1e-4 per component, and two
                # runs whose step sequences differ by rounding (k t products) may differ by a few 1e-4 (seen: 1.9e-4 at
                # k = 1e-16 in a thorough run); dropping a scaling changes results by O(1) or by a factor k


def compare(h1, hk):
    """max relative difference of stored textures and returned F between two histories"""
    m1, mk = h1["mineral"], hk["mineral"]
    if len(m1.orientations) != len(mk.orientations):
        return np.inf, "different number of snapshots"
    d = 0.0
    for a, b in zip(m1.orientations, mk.orientations):
        d = max(d, float(np.abs(np.asarray(a) - np.asarray(b)).max()))
    for a, b in zip(m1.fractions, mk.fractions):
        d = max(d, float(np.abs(np.asarray(a) - np.asarray(b)).max() / max(1e-300, np.abs(np.asarray(a)).max())))
    for a, b in zip(h1["F_hist"], hk["F_hist"]):
        d = max(d, float(np.abs(a - b).max() / np.abs(a).max()))
    return d, None


def coincidence_breaks(T, k, nupd):
    """Does rounding of the scaled partition (t = j fl(T / k), midpoints; mapped back by fl(t k) / T) move one of the three
    sample points of some update off the exact zeros w = 0, 1/2, 1 of the zone profile of MT.make_coincident?  Then the
    velocity gradients sampled at start / midpoint / end coincide exactly at rate 1 but not at rate k."""
    dt, t = T / k, 0.0
    for _ in range(nupd):
        for tt in (t, (t + (t + dt)) / 2, t + dt):
            u = (tt * k) / T
            if MT._zone(u - np.floor(u)) != 0.0:
                return True
        t += dt
    return False


def coincident_plan(rng, tier):
    """(scenario, rates): every coincident-sample flow family at rate 1 and at three other rates; for the families whose
    coincidence is exact only where the partition maps back exactly (pulse, zones) rates at which it does NOT come first"""
    plan = []
    for sc in MT.coincident_scenarios(rng, tier, regimes=(4, 6, 4, 0), nmax=8):
        ks = [k for k in KS if k != 1.0]
        ks = [ks[j] for j in rng.permutation(len(ks))]
        if sc["lkind"] in ("pulse", "zones"):
            ks.sort(key=lambda k: not coincidence_breaks(sc["period"], k, sc["nupd"]))
        plan.append((sc, ks[:3]))
    return plan


def run(chk):
    ok, br = proofs.prove(chk, FILES, PROP, groups=("core",), gen_modules=MT.GLUE_TIE_GEN)
    chk.cov["trusted_base"] = common.TRUSTED_COMMON + [MT.GLUE_TIE_TRUSTED,
        "hand-written Model_minerals.rhs (the integrand), tied by trace validation at every tested rate",
        "oracle: the strain-rate scale is the is_eigmax of D (unique, positively homogeneous -- proved); residual-checked against a closed form",
        "NOT proved: that LSODA, given a k-scaled vector field and 1/k-scaled interval and first step, takes the same step sequence (a property of the Fortran code); measured here by paired runs",
    ]
    chk.cov["rule"] = ("paired histories: the same scenario at rate 1 and at rate k in {1e-16,1e-15,1e-12,1e-8,1e-4,10,1e3} (velocity gradient x k, times / k, "
                       "pathline x(k t)); flows incl. time- and position-dependent; regimes 4, 6 and the null regimes; stored textures and returned F compared "
                       "(alarm at the solver tolerance 1e-6, maximum reported); caller-owned velocity-gradient storage (same array object / view of a table / read-only / Fortran-ordered, scale != 1); enstatite in both dislocation regimes at k = 1e-16, 2^-50, 1e-15 (absolute slip threshold 1e-15); flows whose samples at start / midpoint / end of every update coincide exactly at rate 1 "
                       "(cosine periods, pulses, shear zones along the pathline, closed pathlines) at three more rates, preferring rates whose rounded partition breaks "
                       "the coincidence; every update also trace-validated against the model; non-trivial = texture changed")
    bad, mon = [], []
    rng = np.random.default_rng(chk.seed)
    if br.drivers.get("core", 1) is None:
        worst = 0.0
        hist = chk.cov.setdefault("k_histogram", {})
        with MT.Recorder() as rec:
            N = 5 if chk.tier == "quick" else 100
            for i in range(N):
                # the first scenarios always have a velocity gradient that varies WITHIN an update
                forced = {0: "time", 1: "position"}.get(i)
                sc = MT.scenario(rng, regime=int((4, 4, 6, 4, 0)[i % 5]), n=int(rng.integers(2, 14)), lkind=forced)
                h1 = c01.run_history(rec, dict(sc, rate=1.0))
                c01.validate_traces(chk, h1, bad)
                if h1["fails"]:
                    mon += [(sc, 1.0, m) for _, m in h1["fails"]]
                    continue
                ks = KS if chk.tier == "thorough" else [KS[j] for j in rng.choice(len(KS), size=5, replace=False)]
                if forced and 1e-12 not in ks:
                    ks = list(ks) + [1e-12]
                for k in ks:
                    if k == 1.0:
                        continue
                    hk = c01.run_history(rec, dict(sc, rate=float(k)))
                    c01.validate_traces(chk, hk, bad)
                    hist[str(k)] = hist.get(str(k), 0) + 1
                    if hk["fails"]:
                        mon += [(sc, k, m) for _, m in hk["fails"]]
                        continue
                    d, msg = compare(h1, hk)
                    worst = max(worst, d)
                    if msg or d > TOL:
                        mon.append((sc, k, msg or f"textures / deformation gradient at rate k = {k:g} differ from rate 1 by {d:.3e} (> {TOL:g})"))
            # the velocity gradient handed back as caller-owned storage (the same array object, a view of a table, read-only,
            # Fortran-ordered) with a strain-rate scale != 1 at every rate: nothing may be written into it (own PRNG stream)
            rngs = np.random.default_rng([chk.seed, 0xC05E])
            sh = chk.cov.setdefault("caller_owned_L_pairs", {})
            for j, lk in enumerate(["shared"] + MT.L_PRESENTATIONS if chk.tier != "quick" else ["shared", MT.L_PRESENTATIONS[int(rngs.integers(3))]]):
                sc = MT.scenario(rngs, regime=int((4, 6)[j % 2]), n=int(rngs.integers(3, 10)), lkind=lk, nupd=int(rngs.integers(1, 3)))
                h1 = c01.run_history(rec, dict(sc, rate=1.0))
                c01.validate_traces(chk, h1, bad)
                if h1["fails"]:
                    mon += [(sc, 1.0, m) for _, m in h1["fails"]]
                    continue
                for k in (KS[j % 3], KS[-1 - (j % 2)]):
                    hk = c01.run_history(rec, dict(sc, rate=float(k)))
                    c01.validate_traces(chk, hk, bad)
                    hist[str(k)] = hist.get(str(k), 0) + 1
                    sh[lk] = sh.get(lk, 0) + 1
                    if hk["fails"]:
                        mon += [(sc, k, m) for _, m in hk["fails"]]
                        continue
                    d, msg = compare(h1, hk)
                    worst = max(worst, d)
                    if msg or d > TOL:
                        mon.append((sc, k, msg or f"textures / deformation gradient at rate k = {k:g} differ from rate 1 by {d:.3e} (> {TOL:g})"))
            # enstatite at geological rates: its single slip system is switched by an ABSOLUTE threshold (|I| > 1e-15) written for the
            # dimensionless strain rate; any dimensional quantity leaking into the kernel shows at k |D| <= 1e-15 and nowhere else
            # (both dislocation regimes; k = 1e-16, 2^-50 ~ 8.9e-16 and 1e-15; own PRNG stream)
            rnge = np.random.default_rng([chk.seed, 0xC05D])
            eh = chk.cov.setdefault("enstatite_geological_rate_pairs", {})
            for j in range(2 if chk.tier == "quick" else 12):
                sc = MT.scenario(rnge, regime=int((4, 6)[j % 2]), pair=(1, 5), n=int(rnge.integers(3, 12)),
                                 lkind=("simple", "general", "pure", "time", "axisym", "position")[j % 6], nupd=int(rnge.integers(1, 3)),
                                 tkind=("random", "clustered")[j % 2], strain=float(rnge.uniform(0.3, 0.6)))
                h1 = c01.run_history(rec, dict(sc, rate=1.0))
                c01.validate_traces(chk, h1, bad)
                if h1["fails"]:
                    mon += [(sc, 1.0, m) for _, m in h1["fails"]]
                    continue
                for k in (1e-16, 2.0 ** -50, 1e-15):
                    hk = c01.run_history(rec, dict(sc, rate=float(k)))
                    c01.validate_traces(chk, hk, bad)
                    hist[str(k)] = hist.get(str(k), 0) + 1
                    eh[str(k)] = eh.get(str(k), 0) + 1
                    if hk["fails"]:
                        mon += [(sc, k, m) for _, m in hk["fails"]]
                        continue
                    d, msg = compare(h1, hk)
                    worst = max(worst, d)
                    if msg or d > TOL:
                        mon.append((sc, k, msg or f"textures / deformation gradient at rate k = {k:g} differ from rate 1 by {d:.3e} (> {TOL:g})"))
            # flows whose samples at the start, midpoint and end of every update coincide exactly (at rate 1) and that vary in between
            cf = chk.cov.setdefault("coincident_flow_families", {})
            for sc, ks in coincident_plan(np.random.default_rng([chk.seed, 0xC06D]), chk.tier):
                h1 = c01.run_history(rec, dict(sc, rate=1.0))
                c01.validate_traces(chk, h1, bad)
                if h1["fails"]:
                    mon += [(sc, 1.0, m) for _, m in h1["fails"]]
                    continue
                for k in ks:
                    hk = c01.run_history(rec, dict(sc, rate=float(k)))
                    c01.validate_traces(chk, hk, bad)
                    hist[str(k)] = hist.get(str(k), 0) + 1
                    key = sc["lkind"] + (":coincidence broken by rounding at rate k" if sc["lkind"] in ("pulse", "zones")
                                         and coincidence_breaks(sc["period"], k, sc["nupd"]) else "")
                    cf[key] = cf.get(key, 0) + 1
                    if hk["fails"]:
                        mon += [(sc, k, m) for _, m in hk["fails"]]
                        continue
                    d, msg = compare(h1, hk)
                    worst = max(worst, d)
                    if msg or d > TOL:
                        mon.append((sc, k, msg or f"textures / deformation gradient at rate k = {k:g} differ from rate 1 by {d:.3e} (> {TOL:g})"))
            # block-boundary grain counts: one paired run each (k = 1e-8), trace-validated
            for sc in MT.block_scenarios(np.random.default_rng([chk.seed, 0xB10C]), chk.tier, regimes=(4, 6),
                                         sizes=(64, 128, 129, 1024) if chk.tier == "quick" else None):
                h1 = c01.run_history(rec, dict(sc, rate=1.0))
                c01.validate_traces(chk, h1, bad)
                hk = c01.run_history(rec, dict(sc, rate=1e-8))
                c01.validate_traces(chk, hk, bad)
                hist["1e-08"] = hist.get("1e-08", 0) + 1
                if h1["fails"] or hk["fails"]:
                    mon += [(sc, 1.0, m) for _, m in h1["fails"]] + [(sc, 1e-8, m) for _, m in hk["fails"]]
                    continue
                d, msg = compare(h1, hk)
                worst = max(worst, d)
                if msg or d > TOL:
                    mon.append((sc, 1e-8, msg or f"textures / deformation gradient at rate k = 1e-08 differ from rate 1 by {d:.3e} (> {TOL:g})"))
        chk.cov["max_rate_dependence"] = worst
        chk.cov["traces_validated_against_impl"] = chk.cov["evaluations"]
    chk.cov["disagreements"] = len(bad)
    chk.cov["monitor_failures"] = len(mon)
    if ok and not bad and not mon:
        return
    if mon:
        sc, k, msg = mon[0]
        chk.replay({"kind": "property-violation", "scenario": c01.encode_sc(sc), "k": k, "observed": msg, "required": "C05",
                    "broken": chk.cov.get("broken_obligations", []), "disagreements": [m for _, m in bad[:3]]})
    else:
        chk.replay({"kind": "unproved", "broken": chk.cov.get("broken_obligations", []),
                    "disagreements": [m for _, m in bad[:3]],
                    "note": "proof obligation or correspondence no longer checks; no failing input found"}, no_input=True)


def replay(d):
    common.use_repo_source()
    if d.get("kind") != "property-violation":
        print("replay file names a broken obligation; re-run the check itself")
        return 1
    sc = d["scenario"]
    sc["pair"] = tuple(sc["pair"])
    with MT.Recorder() as rec:
        h1 = c01.run_history(rec, dict(sc, rate=1.0))
        hk = c01.run_history(rec, dict(sc, rate=float(d["k"])))
    dd, msg = compare(h1, hk)
    print("difference", dd, msg)
    return 1 if (msg or dd > TOL or h1["fails"] or hk["fails"]) else 0
