"""C17 -- mineral persistence round trip is exact for any history and any postfix set.

Tie H: the hand-written archive model (coq/Model_npz.v, extracted as group `npz`) is run
on the same operation sequences as pydrex.Mineral.save / load / from_file on real files
under build/tmp-<pid>/ and must predict, for every operation, the file written and its zip
member names, the error raised, or the mineral returned (array elements are opaque codes
in the model and are mapped back to the bytes of the arrays that were saved).  The two
oracle hypotheses of the theorems (NPY round trip, zip = append-only association list with
last-entry-wins) are checked on the files of every case.  The stored arrays are presented in every NumPy memory layout
(family `layout`: C / Fortran order, transposed, strided, reversed, offset, read-only, unaligned, broadcast views; see
`present`), every save runs under argguard.guarded and the loads of that family under argguard.fresh_result_probe.
Family `object` (OBJECT HISTORIES, see `History` / `object_cases`): the operations of a history act on NAMED, LIVE Mineral objects
(`new`, `save`, `load` INTO the object, `from_file` bound to a name, `edit` = what a caller does to the stored history between
two saves); the model sees a save of such an object as the save of the state the object is in at that moment."""
from __future__ import annotations

import hashlib
import io
import itertools
import os
import shutil
import warnings
import zipfile

import numpy as np

import argguard
import common
import proofs

FILES = ["Model_npz.v", "Proofs_npz.v", "Proofs_npz_sizes.v", "gen/Gen_tables_npz.v", "Inst_npz.v", "Entry_npz.v", "Extract_npz.v"]
PROP = "Properties/C17.v"
GROUP = "npz"

ERR = {"ValueError": 1, "IndexError": 4, "TypeError": 5, "KeyError": 6,
       "OverflowError": 7, "FileNotFoundError": 7}
ERRNAME = {0: "DivZero", 1: "ValueError", 2: "AssertionError", 3: "NonFinite", 4: "IndexError",
           5: "TypeError", 6: "KeyError", 7: "OtherError(OverflowError/FileNotFoundError)"}

SPECIALS = np.array([
    0x7FF8000000000000, 0x7FF8000000000001, 0xFFF8000000000000, 0x7FF0000000000001,
    0x7FFFFFFFFFFFFFFF, 0xFFF4000000DEAD00, 0x8000000000000000, 0x0000000000000000,
    0x0000000000000001, 0x000FFFFFFFFFFFFF, 0x800FFFFFFFFFFFFF, 0x8000000000000001,
    0x7FF0000000000000, 0xFFF0000000000000, 0x7FEFFFFFFFFFFFFF, 0x0010000000000000,
    0x3FF0000000000000, 0xBFF0000000000000], dtype=np.uint64)

POSTFIX_POOL = ["", "_", "a", "a_", "_a", "a_b", "a__b", "x", "x.npy", ".npy", "npy", "meta",
                "fractions", "orientations", "meta_a", "1", "0_1", "run 7", "A", "a.npz", "x.npy.npy",
                "_.npy", "p-q", "p+q", "(1)", "tip,top", "x_", "__", "é".encode("latin-1").decode("latin-1")]


def quiet():
    import logging
    import pydrex.logger as L
    L.CONSOLE_LOGGER.setLevel(logging.CRITICAL)


# --------------------------------------------------------------------------
# minerals
# --------------------------------------------------------------------------
def payload(rng, shape):
    n = int(np.prod(shape)) if len(shape) else 1
    bits = rng.integers(0, 2 ** 64, size=n, dtype=np.uint64)
    mask = rng.random(n) < 0.45
    bits[mask] = rng.choice(SPECIALS, int(mask.sum()))
    return bits.view(np.float64).reshape(shape)


def mk(rng, n=None, k=None, phase=None, fabric=None, regime=None):
    n = int(rng.integers(1, 9)) if n is None else n
    k = int(rng.integers(1, 5)) if k is None else k
    return {"phase": int(rng.integers(0, 2)) if phase is None else phase,
            "fabric": int(rng.integers(0, 6)) if fabric is None else fabric,
            "regime": int(rng.integers(0, 8)) if regime is None else regime,
            "n_grains": n,
            "fractions": [payload(rng, (n,)) for _ in range(k)],
            "orientations": [payload(rng, (n, 3, 3)) for _ in range(k)]}


# --------------------------------------------------------------------------
# memory layout ("presentation") of the stored arrays.  The property quantifies over float64 CONTENTS; the same contents
# can be handed to Mineral (orientations_init / fractions_init, or snapshots appended by a driver) in any NumPy memory
# layout: C order, Fortran order (np.asfortranarray, Fortran D-Rex `acs` reshaped with order="F"), a transposed (3, 3, n)
# block, a slice of a larger buffer (every second grain, an (n, 3, 4) block cut to (n, 3, 3), an offset window), a reversed
# view, a broadcast (one orientation for all grains), read-only or unaligned storage.  What is restored must not depend on it.
# --------------------------------------------------------------------------
LAYOUTS = ["C", "F", "T", "perm", "stride_first", "stride_last", "reversed", "offset", "readonly", "unaligned", "broadcast"]
FILLER = np.array([0x7FF8DEADBEEF0000], dtype=np.uint64).view(np.float64)[0]      # what lies between the elements of a view


def present(a, layout):
    """an array with the dtype, shape and (logical) contents of `a` in the named memory layout; `broadcast` keeps only the
    first entry along axis 0 (a stride-0 view cannot hold anything else)"""
    a = np.array(a, dtype=np.float64, order="C")
    s = a.shape
    if layout == "C" or a.ndim == 0:
        return a
    if layout == "F":                                   # owned, column-major
        return np.asfortranarray(a)
    if layout == "T":                                   # view of a C-ordered block with the axes reversed
        return np.ascontiguousarray(a.T).T
    if layout == "perm":                                # first two axes swapped in memory: neither C nor F
        if a.ndim < 2:
            return present(a, "stride_first")
        ax = (1, 0) + tuple(range(2, a.ndim))
        return np.ascontiguousarray(a.transpose(ax)).transpose(ax)
    if layout == "stride_first":                        # every second entry along axis 0 of a larger buffer
        big = np.full((2 * s[0],) + s[1:], FILLER)
        big[::2] = a
        return big[::2]
    if layout == "stride_last":                         # every second entry along the last axis
        big = np.full(s[:-1] + (2 * s[-1],), FILLER)
        big[..., ::2] = a
        return big[..., ::2]
    if layout == "reversed":                            # negative stride
        return np.ascontiguousarray(a[::-1])[::-1]
    if layout == "offset":                              # C-ordered window inside a larger buffer
        big = np.full((s[0] + 2,) + s[1:], FILLER)
        big[1:s[0] + 1] = a
        return big[1:s[0] + 1]
    if layout == "readonly":
        a.flags.writeable = False
        return a
    if layout == "unaligned":                           # float64 storage at an odd address
        buf = np.zeros(a.nbytes + 16, dtype=np.uint8)
        for off in range(1, 9):
            v = buf[off:off + a.nbytes].view(np.float64).reshape(s)
            if not v.flags.aligned or a.size == 0:
                break
        v[...] = a
        return v
    if layout == "broadcast":                           # stride 0 along axis 0
        return np.broadcast_to(a[0].copy(), s) if s[0] >= 1 else a
    raise ValueError(layout)


def describe(a):
    """the memory layout of `a` as data (for replay files): strides in bytes, flags"""
    return {"strides": [int(x) for x in a.strides], "writeable": bool(a.flags.writeable), "aligned": bool(a.flags.aligned),
            "owndata": bool(a.flags.owndata)}


def rebuild(logical, desc):
    """inverse of (contents, describe): the contents `logical` in an array with the recorded strides and flags"""
    a = np.array(logical, dtype=np.float64, order="C")
    if not desc or a.ndim == 0 or a.size == 0:
        return a
    st, s = tuple(desc["strides"]), a.shape
    lo = sum(min(0, t * (n - 1)) for t, n in zip(st, s))
    hi = sum(max(0, t * (n - 1)) for t, n in zip(st, s)) + 8
    if desc.get("owndata") and desc.get("aligned", True) and st == a.strides:
        out = a
    elif desc.get("owndata") and desc.get("aligned", True) and st == np.asfortranarray(a).strides:
        out = np.asfortranarray(a)
    else:
        buf = np.zeros(hi - lo + 16, dtype=np.uint8)
        buf[:(hi - lo + 16) // 8 * 8].view(np.float64)[:] = FILLER
        out = None
        for off in range(0, 9):
            out = np.ndarray(s, dtype=np.float64, buffer=buf, offset=off - lo, strides=st)
            if bool(out.flags.aligned) == bool(desc.get("aligned", True)):
                break
        out[...] = a                                    # stride-0 axes: the contents are constant along them
    out.flags.writeable = bool(desc.get("writeable", True))
    return out


def layout_class(a):
    """coarse class of the memory layout of an array (histogram key)"""
    if a.ndim == 0 or a.size == 0:
        return "trivial"
    if not a.flags.aligned:
        c = "unaligned"
    elif any(t == 0 and n > 1 for t, n in zip(a.strides, a.shape)):
        c = "zero-stride"
    elif any(t < 0 and n > 1 for t, n in zip(a.strides, a.shape)):
        c = "negative-stride"
    elif a.flags.c_contiguous:
        c = "C+F" if a.flags.f_contiguous else "C"
    else:
        c = "F" if a.flags.f_contiguous else "strided"
    return c + ("" if a.flags.writeable else "/readonly")


def relayout(M, field, idx, layout):
    M[field][idx] = present(M[field][idx], layout)


def relayout_where(M, fields, where, layout):
    for field in fields:
        k = len(M[field])
        for idx in ({"first": [0], "last": [k - 1], "all": range(k)}[where] if k else []):
            relayout(M, field, idx, layout)
    return M


def freeze(M):
    """the state of M now (arrays copied): what a later load has to restore"""
    return {k: M[k] for k in ("phase", "fabric", "regime", "n_grains")} | {
        nm: [np.array(a, dtype=np.asarray(a).dtype, order="C") for a in M[nm]] for nm in ("fractions", "orientations")}


def build(pyd, M):
    """a pydrex.Mineral in the state M describes (consistent or not)"""
    n = M["n_grains"]
    def en(cls, v):
        try:
            return cls(v)
        except ValueError:
            return v
    if M.get("route") == "init" and M["fractions"] and M["orientations"]:
        # the public route: first snapshot through fractions_init / orientations_init, later ones appended (as a driver does)
        m = pyd.Mineral(phase=en(pyd.MineralPhase, M["phase"]), fabric=en(pyd.MineralFabric, M["fabric"]),
                        regime=en(pyd.DeformationRegime, M["regime"]), n_grains=n,
                        fractions_init=M["fractions"][0], orientations_init=M["orientations"][0])
        m.fractions.extend(M["fractions"][1:])
        m.orientations.extend(M["orientations"][1:])
        return m
    m = pyd.Mineral(phase=en(pyd.MineralPhase, M["phase"]), fabric=en(pyd.MineralFabric, M["fabric"]),
                    regime=en(pyd.DeformationRegime, M["regime"]), n_grains=n,
                    fractions_init=np.full(max(n, 1), 1.0), orientations_init=np.zeros((max(n, 1), 3, 3)))
    m.fractions = [a for a in M["fractions"]]
    m.orientations = [a for a in M["orientations"]]
    return m


def target(pyd, n):
    return pyd.Mineral(n_grains=n, fractions_init=np.full(n, 1.0 / n),
                       orientations_init=np.tile(np.eye(3), (n, 1, 1)))


def same_bits(a, b):
    a, b = np.asarray(a), np.asarray(b)
    return a.dtype == b.dtype and a.shape == b.shape and a.tobytes() == b.tobytes()


# --------------------------------------------------------------------------
# object histories.  The property says "saving A mineral": the mineral is an OBJECT with a life before the save.  It may have
# been saved before (same file / other file / other postfix), loaded into from an archive, had snapshots replaced, edited in
# place, appended, dropped, its lists reassigned, been copied or pickled.  Whatever happened, `save` has to write the snapshots
# the object holds WHEN IT IS CALLED.  In the operations below "obj" names a live object of the history:
#   {"op": "new", "obj": X, "mineral": M}                       X = Mineral in state M
#   {"op": "save", "obj": X, file, postfix, "mineral": P}       X.save(...);  P = the state X is predicted to be in (model input)
#   {"op": "load", "obj": X, file, postfix, "target_n": n}      X.load(...)   (the object is the target)
#   {"op": "from_file", "obj": X, file, postfix}                X = Mineral.from_file(...)
#   {"op": "edit", "obj": X, "kind": ...}                       the caller's change of the stored history (apply_edit)
# `new` and `edit` are not operations of the archive model; VISIBLE = what the model is run on.
# --------------------------------------------------------------------------
VISIBLE = ("save", "load", "from_file")


def visible(sc):
    return [o for o in sc["ops"] if o["op"] in VISIBLE]


def own(a):
    """a private copy of an array with the same contents AND memory layout"""
    a = np.asarray(a)
    return rebuild(a, describe(a)) if a.dtype == np.float64 else np.array(a)


def clone_M(M):
    return {k: v for k, v in M.items() if k not in ("fractions", "orientations")} | {
        nm: [own(a) for a in M[nm]] for nm in ("fractions", "orientations")}


def live_state(m):
    """the state a live Mineral is in now (arrays copied)"""
    return {"phase": int(m.phase), "fabric": int(m.fabric), "regime": int(m.regime), "n_grains": int(m.n_grains),
            "fractions": [np.array(a, order="C") for a in m.fractions], "orientations": [np.array(a, order="C") for a in m.orientations]}


def _enum(pyd, field, v):
    try:
        return {"phase": pyd.MineralPhase, "fabric": pyd.MineralFabric, "regime": pyd.DeformationRegime}[field](v)
    except ValueError:
        return v


def apply_edit(x, e, pyd=None):
    """what the caller does between two saves, on a live Mineral (pyd given) or on the predicted state (a dict); returns the
    object to go on with (`clone` replaces it)"""
    if isinstance(x, dict):
        get, put = x.__getitem__, x.__setitem__
    else:
        get, put = (lambda k: getattr(x, k)), (lambda k, v: setattr(x, k, v))
    kind = e["kind"]
    if kind == "none":
        pass
    elif kind == "set":                                 # m.fractions[i] = a
        for it in e["items"]:
            get(it["field"])[it["index"]] = own(it["value"])
    elif kind == "inplace":                             # m.fractions[i][...] = a   /   m.orientations[i][g] = a[g]
        for it in e["items"]:
            lst, v = get(it["field"]), own(it["value"])
            a = lst[it["index"]]
            if not (isinstance(a, np.ndarray) and a.flags.writeable and a.shape == v.shape):
                lst[it["index"]] = v                    # read-only storage: the caller can only replace it
            elif it.get("grain") is None:
                a[...] = v
            else:
                a[it["grain"]] = v[it["grain"]]
    elif kind == "lists":                               # m.fractions = [...]; m.orientations = [...]
        for nm in ("fractions", "orientations"):
            if nm in e:
                put(nm, [own(a) for a in e[nm]])
        if e.get("n_grains") is not None:
            put("n_grains", e["n_grains"])
    elif kind == "append":                              # what update_orientations does with its result
        for nm in ("fractions", "orientations"):
            get(nm).extend(own(a) for a in e.get(nm, []))
    elif kind == "truncate":
        for nm in ("fractions", "orientations"):
            del get(nm)[len(get(nm)) - e["count"]:]
    elif kind == "meta":
        for nm in ("phase", "fabric", "regime"):
            if nm in e:
                put(nm, e[nm] if pyd is None else _enum(pyd, nm, e[nm]))
    elif kind == "clone":                               # the object goes through copy.deepcopy / pickle
        if pyd is not None:
            import copy
            import pickle
            x = copy.deepcopy(x) if e.get("via") == "deepcopy" else pickle.loads(pickle.dumps(x))
    else:
        raise ValueError(kind)
    return x


class History:
    """builds an object history and keeps, next to it, the state every object and every archive entry is REQUIRED to be in by
    the property (load restores what was saved, an edit does what it says): the input of the model"""

    def __init__(self, rng):
        self.rng, self.ops, self.objs, self.files = rng, [], {}, {}

    def new(self, name, M):
        self.ops.append({"op": "new", "obj": name, "mineral": M})
        self.objs[name] = freeze(M)

    def save(self, name, file, pf):
        M = freeze(self.objs[name])
        self.ops.append(dict(S(file, pf, M), obj=name))
        if is_valid(M):
            if pf is None:
                for key in [q for q in self.files if q[0] == file]:
                    del self.files[key]
            self.files[(file, pf)] = M

    def load(self, name, file, pf, label="load"):
        self.ops.append(dict(L(file, pf, self.objs[name]["n_grains"]), obj=name, label=label))
        self.objs[name] = freeze(self.files[(file, pf)])

    def from_file(self, name, file, pf):
        self.ops.append(dict(F(file, pf), obj=name))
        self.objs[name] = freeze(self.files[(file, pf)])

    def edit(self, name, label, **e):
        e = dict(e, op="edit", obj=name, label=label)
        self.ops.append(e)
        self.objs[name] = apply_edit(self.objs[name], e)

    def check(self, file, pf):
        """read an entry back through both loaders"""
        n = self.files[(file, pf)]["n_grains"] if (file, pf) in self.files else 3
        self.ops += [F(file, pf), L(file, pf, other_n(self.rng, n))]

    def check_all(self):
        for file, pf in list(self.files):
            self.check(file, pf)


EDIT_LABELS = ["none", "load_same_count", "load_more", "load_fewer", "load_other_grain_count", "load_postfix_entry",
               "load_own_earlier_save", "set_fraction", "set_orientation", "set_every_snapshot", "set_with_layout",
               "inplace_fraction", "inplace_orientation_one_grain", "inplace_every_snapshot", "lists_same_count", "lists_longer",
               "lists_shorter", "lists_other_grain_count", "append", "append_and_set_earlier", "truncate", "truncate_then_append",
               "meta", "deepcopy_then_set", "pickle_then_inplace", "from_file_then_set", "corrupt_then_repaired"]


def do_edit(h, X, label):
    """one change (named by `label`) of the history stored on object X; returns the name of the object to go on with"""
    rng, st = h.rng, h.objs[X]
    n, k = st["n_grains"], len(st["fractions"])
    i = int(rng.integers(0, k))

    def donor(kk, nn, pf):
        D, file = f"D{len(h.objs)}", f"d{len(h.ops)}.npz"
        h.new(D, mk(rng, n=nn, k=kk))
        h.save(D, file, pf)
        return file, pf

    def item(field, idx, grain=None, layout=None):
        v = payload(rng, (n,) if field == "fractions" else (n, 3, 3))
        return {"field": field, "index": idx, "grain": grain, "value": present(v, layout) if layout else v}

    def snaps(kk, nn=n):
        return {"fractions": [payload(rng, (nn,)) for _ in range(kk)], "orientations": [payload(rng, (nn, 3, 3)) for _ in range(kk)]}

    if label == "none":
        h.edit(X, label, kind="none")
    elif label == "load_same_count":
        h.load(X, *donor(k, n, None), label=label)
    elif label == "load_more":
        h.load(X, *donor(k + int(rng.integers(1, 4)), n, None), label=label)
    elif label == "load_fewer":
        h.load(X, *donor(max(1, k - 1), n, None), label=label)
    elif label == "load_other_grain_count":
        h.load(X, *donor(k, other_n(rng, n), None), label=label)
    elif label == "load_postfix_entry":
        h.load(X, *donor(k, n, distinct_postfixes(rng, 1)[0]), label=label)
    elif label == "load_own_earlier_save":                  # edit, then back to what the object wrote itself
        mine = [q for q, M in h.files.items()]
        h.edit(X, "set_every_snapshot", kind="set", items=[item(f, j) for f in ("fractions", "orientations") for j in range(k)])
        if mine:
            h.load(X, *mine[int(rng.integers(0, len(mine)))], label=label)
    elif label == "set_fraction":
        h.edit(X, label, kind="set", items=[item("fractions", i)])
    elif label == "set_orientation":
        h.edit(X, label, kind="set", items=[item("orientations", i)])
    elif label == "set_every_snapshot":
        h.edit(X, label, kind="set", items=[item(f, j) for f in ("fractions", "orientations") for j in range(k)])
    elif label == "set_with_layout":
        h.edit(X, label, kind="set", items=[item(f, i, layout=LAYOUTS[int(rng.integers(0, len(LAYOUTS)))])
                                            for f in ("fractions", "orientations")])
    elif label == "inplace_fraction":
        h.edit(X, label, kind="inplace", items=[item("fractions", i)])
    elif label == "inplace_orientation_one_grain":
        h.edit(X, label, kind="inplace", items=[item("orientations", i, grain=int(rng.integers(0, n)))])
    elif label == "inplace_every_snapshot":
        h.edit(X, label, kind="inplace", items=[item(f, j) for f in ("fractions", "orientations") for j in range(k)])
    elif label == "lists_same_count":
        h.edit(X, label, kind="lists", **snaps(k))
    elif label == "lists_longer":
        h.edit(X, label, kind="lists", **snaps(k + int(rng.integers(1, 4))))
    elif label == "lists_shorter":
        h.edit(X, label, kind="lists", **snaps(max(1, k - 1)))
    elif label == "lists_other_grain_count":
        nn = other_n(rng, n)
        h.edit(X, label, kind="lists", n_grains=nn, **snaps(k, nn))
    elif label == "append":
        h.edit(X, label, kind="append", **snaps(int(rng.integers(1, 4))))
    elif label == "append_and_set_earlier":
        h.edit(X, "append", kind="append", **snaps(int(rng.integers(1, 3))))
        h.edit(X, label, kind="set", items=[item("fractions", i), item("orientations", int(rng.integers(0, k)))])
    elif label == "truncate":
        if k == 1:
            h.edit(X, "append", kind="append", **snaps(1))
        h.edit(X, label, kind="truncate", count=1)
    elif label == "truncate_then_append":               # same number of snapshots, another last one
        c = int(rng.integers(1, k)) if k > 1 else 0
        if c:
            h.edit(X, "truncate", kind="truncate", count=c)
        h.edit(X, label, kind="append", **snaps(max(c, 1)))
    elif label == "meta":
        h.edit(X, label, kind="meta", phase=1 - st["phase"], fabric=(st["fabric"] + 1) % 6, regime=(st["regime"] + 3) % 8)
    elif label == "deepcopy_then_set":
        h.edit(X, "clone_deepcopy", kind="clone", via="deepcopy")
        h.edit(X, label, kind="set", items=[item("fractions", i), item("orientations", i)])
    elif label == "pickle_then_inplace":
        h.edit(X, "clone_pickle", kind="clone", via="pickle")
        h.edit(X, label, kind="inplace", items=[item("fractions", i), item("orientations", i)])
    elif label == "from_file_then_set":                 # go on with the object a loader made of an entry written earlier
        mine = list(h.files)
        if mine:
            X = X + "'"
            h.from_file(X, *mine[int(rng.integers(0, len(mine)))])
            k = len(h.objs[X]["fractions"])
            n = h.objs[X]["n_grains"]
            i = int(rng.integers(0, k))
        h.edit(X, label, kind="set", items=[item("fractions", i), item("orientations", i)])
    elif label == "corrupt_then_repaired":              # a save that must be refused in between
        extra = snaps(1)
        h.edit(X, "append_fractions_only", kind="append", fractions=extra["fractions"])
        h.save(X, "h.npz", "refused")
        h.edit(X, label, kind="append", orientations=extra["orientations"])
    else:
        raise ValueError(label)
    return X


RESAVE = [("whole", "same file", "whole"), ("whole", "same file", "postfix"), ("postfix", "same file", "postfix"),
          ("postfix", "same file", "same postfix"), ("postfix", "other file", "whole"), ("whole", "other file", "postfix")]


def object_cases(rng, quick, family="object"):
    """9. OBJECT HISTORIES: one Mineral object saved, then its stored history replaced / edited / grown / shrunk (every label of
    EDIT_LABELS), then saved again (same file / other file, whole file / postfix / the same postfix), every entry that has to
    exist read back through both loaders after each save; then saved a third time with nothing in between.  Random longer
    histories of 1..3 objects."""
    sc = []
    for li, label in enumerate(EDIT_LABELS):
        for ri, (first, where, second) in enumerate(RESAVE):
            if quick and (li + ri) % 2 and label not in ("none", "load_same_count", "load_more", "set_fraction", "inplace_fraction",
                                                          "lists_same_count"):
                continue
            h = History(rng)
            pf1, pf2, pf3 = distinct_postfixes(rng, 3)
            M = mk(rng, n=int(rng.integers(1, 9)), k=int(rng.integers(1, 6)))
            M["route"] = "init" if (li + ri) % 2 else "assign"
            h.new("X", M)
            f1 = "h.npz"
            p1 = None if first == "whole" else pf1
            h.save("X", f1, p1)
            h.check(f1, p1)
            X = do_edit(h, "X", label)
            f2 = f1 if where == "same file" else "h2.npz"
            p2 = None if second == "whole" else (p1 if second == "same postfix" else pf2)
            h.save(X, f2, p2)
            h.check_all()
            h.edit(X, "none", kind="none")              # and once more, untouched: the two archives must hold the same
            h.save(X, f2, pf3)
            h.check(f2, p2)
            h.check(f2, pf3)
            sc.append({"family": family, "history": label, "ops": h.ops})
    for i in range(24 if quick else 250):
        h = History(rng)
        names = ["X", "Y", "Z"][:1 + i % 3]
        pool = distinct_postfixes(rng, 3)
        for nm in names:
            h.new(nm, mk(rng))
        for step in range(int(rng.integers(3, 9))):
            j = int(rng.integers(0, len(names)))
            if step and rng.random() < 0.75:
                lab = EDIT_LABELS[int(rng.integers(0, len(EDIT_LABELS)))]
                if lab != "corrupt_then_repaired":
                    names[j] = do_edit(h, names[j], lab)
            h.save(names[j], ["h.npz", "h2.npz"][int(rng.integers(0, 2))], None if rng.random() < 0.3 else pool[int(rng.integers(0, 3))])
            if rng.random() < 0.5:
                h.check_all()
        h.check_all()
        sc.append({"family": family, "history": "random", "ops": h.ops})
    return sc


# --------------------------------------------------------------------------
# scenarios
# --------------------------------------------------------------------------
def S(file, pf, M):
    return {"op": "save", "file": file, "postfix": pf, "mineral": M}


def L(file, pf, tn):
    return {"op": "load", "file": file, "postfix": pf, "target_n": int(tn)}


def F(file, pf):
    return {"op": "from_file", "file": file, "postfix": pf}


def other_n(rng, n):
    t = int(rng.integers(1, 12))
    return t if t != n else n + 1


def rand_postfix(rng):
    alphabet = "abcxyz_.019 -AZnpy"
    return "".join(alphabet[int(i)] for i in rng.integers(0, len(alphabet), size=int(rng.integers(0, 9))))


def distinct_postfixes(rng, k):
    out = []
    while len(out) < k:
        p = POSTFIX_POOL[int(rng.integers(0, len(POSTFIX_POOL)))] if rng.random() < 0.6 else rand_postfix(rng)
        if p not in out:
            out.append(p)
    return out


def corrupt_kinds():
    return ["counts_more_fractions", "counts_more_orientations", "first_fraction_size", "first_orientation_size",
            "both_first_sizes_equal_but_not_n", "ragged_fraction", "ragged_orientation", "ragged_orientation_trailing",
            "no_snapshots", "zero_dim_first", "phase_overflow", "regime_negative", "overflow_and_ragged",
            "all_orientations_other_size", "all_fractions_other_size",
            # every shape fault per snapshot index, single / several / with COMPENSATING totals (added after seeded change C17e:
            # the explicit test looks at snapshot 0 only; the later snapshots are rejected by np.stack alone)
            "last_fraction_size", "last_orientation_size", "middle_fraction_size", "middle_orientation_size",
            "two_fractions_same_direction", "compensating_fractions", "compensating_orientations", "compensating_both",
            "compensating_both_opposite", "compensating_three_snapshots", "compensating_fractions_last_two",
            "orientation_block_flat", "orientation_block_2d", "orientation_block_n_by_9", "fraction_column_vector",
            "orientation_trailing_transposed_total_kept"]


def corrupt(rng, kind):
    n, k = int(rng.integers(2, 7)), int(rng.integers(2, 5))
    if kind.startswith(("compensating", "middle_", "two_fractions")) or kind in ("last_fraction_size", "last_orientation_size"):
        k = int(rng.integers(4 if kind == "compensating_three_snapshots" else 3, 7))
    M = mk(rng, n, k)
    j = int(rng.integers(1, k))
    if k >= 3:
        a, b = sorted(int(x) for x in rng.choice(np.arange(1, k), size=2, replace=False))     # two later snapshots
    if kind == "last_fraction_size":
        M["fractions"][k - 1] = payload(rng, (n + 1,))
    elif kind == "last_orientation_size":
        M["orientations"][k - 1] = payload(rng, (n - 1, 3, 3))
    elif kind == "middle_fraction_size":
        M["fractions"][int(rng.integers(1, k - 1))] = payload(rng, (n - 1,))
    elif kind == "middle_orientation_size":
        M["orientations"][int(rng.integers(1, k - 1))] = payload(rng, (n + 1, 3, 3))
    elif kind == "two_fractions_same_direction":
        M["fractions"][a], M["fractions"][b] = payload(rng, (n + 1,)), payload(rng, (n + 1,))
    elif kind == "compensating_fractions":          # total number of elements = k * n
        M["fractions"][a], M["fractions"][b] = payload(rng, (n - 1,)), payload(rng, (n + 1,))
    elif kind == "compensating_orientations":
        M["orientations"][a], M["orientations"][b] = payload(rng, (n + 1, 3, 3)), payload(rng, (n - 1, 3, 3))
    elif kind == "compensating_both":
        M["fractions"][a], M["fractions"][b] = payload(rng, (n - 1,)), payload(rng, (n + 1,))
        M["orientations"][a], M["orientations"][b] = payload(rng, (n - 1, 3, 3)), payload(rng, (n + 1, 3, 3))
    elif kind == "compensating_both_opposite":
        M["fractions"][a], M["fractions"][b] = payload(rng, (n - 1,)), payload(rng, (n + 1,))
        M["orientations"][a], M["orientations"][b] = payload(rng, (n + 1, 3, 3)), payload(rng, (n - 1, 3, 3))
    elif kind == "compensating_three_snapshots":
        M["fractions"][1], M["fractions"][2], M["fractions"][3] = payload(rng, (n + 2,)), payload(rng, (n - 1,)), payload(rng, (n - 1,))
        M["orientations"][1], M["orientations"][2], M["orientations"][3] = (payload(rng, (n + 2, 3, 3)), payload(rng, (n - 1, 3, 3)),
                                                                            payload(rng, (n - 1, 3, 3)))
    elif kind == "compensating_fractions_last_two":
        M["fractions"][k - 2], M["fractions"][k - 1] = payload(rng, (n + 1,)), payload(rng, (n - 1,))
    elif kind == "orientation_block_flat":
        M["orientations"][j] = payload(rng, (n * 9,))
    elif kind == "orientation_block_2d":
        M["orientations"][j] = payload(rng, (n * 3, 3))
    elif kind == "orientation_block_n_by_9":
        M["orientations"][j] = payload(rng, (n, 9))
    elif kind == "fraction_column_vector":
        M["fractions"][j] = payload(rng, (n, 1))
    elif kind == "orientation_trailing_transposed_total_kept":
        M["orientations"][j] = payload(rng, (n, 1, 9))
    if kind == "counts_more_fractions":
        M["fractions"].append(payload(rng, (n,)))
    elif kind == "counts_more_orientations":
        M["orientations"].append(payload(rng, (n, 3, 3)))
    elif kind == "first_fraction_size":
        M["fractions"][0] = payload(rng, (n + 1,))
    elif kind == "first_orientation_size":
        M["orientations"][0] = payload(rng, (n - 1, 3, 3))
    elif kind == "both_first_sizes_equal_but_not_n":
        M["n_grains"] = n + 2
    elif kind == "ragged_fraction":
        M["fractions"][j] = payload(rng, (n + 1,))
    elif kind == "ragged_orientation":
        M["orientations"][j] = payload(rng, (n + 2, 3, 3))
    elif kind == "ragged_orientation_trailing":
        M["orientations"][j] = payload(rng, (n, 3, 2))
    elif kind == "no_snapshots":
        M["fractions"], M["orientations"] = [], []
    elif kind == "zero_dim_first":
        M["fractions"][0] = payload(rng, ())
    elif kind == "phase_overflow":
        M["phase"] = 300
    elif kind == "regime_negative":
        M["regime"] = -1
    elif kind == "all_orientations_other_size":
        M["orientations"] = [payload(rng, (n + 1, 3, 3)) for _ in range(k)]
    elif kind == "all_fractions_other_size":
        M["fractions"] = [payload(rng, (n - 1,)) for _ in range(k)]
    elif kind == "overflow_and_ragged":
        M["fabric"] = 256
        M["fractions"][j] = payload(rng, (n + 1,))
    return M


def gen_cases(chk, tier):
    rng = np.random.default_rng(chk.seed)
    quick = tier == "quick"
    sc = []
    # 1. every phase x fabric x regime, whole file / postfix alternately
    for i, (p, f, r) in enumerate(itertools.product(range(2), range(6), range(8))):
        M = mk(rng, phase=p, fabric=f, regime=r)
        pf = None if i % 2 == 0 else distinct_postfixes(rng, 1)[0]
        sc.append({"family": "enum", "ops": [S("m.npz", pf, M), F("m.npz", pf), L("m.npz", pf, other_n(rng, M["n_grains"])),
                                            L("m.npz", pf, M["n_grains"])]})
    # 2. 1..8 minerals under distinct postfixes, random save order, loads in several orders, both loaders
    for i in range(48 if quick else 400):
        k = 1 + i % 8
        pfs = distinct_postfixes(rng, k)
        Ms = [mk(rng, n=int(rng.integers(1, 51)) if i % 6 == 0 else None, k=int(rng.integers(1, 21)) if i % 6 == 0 else None)
              for _ in range(k)]
        ops = []
        whole = rng.random() < 0.5
        if whole:
            M0 = mk(rng)
            ops.append(S("a.npz", None, M0))
        order = rng.permutation(k)
        ops += [S("a.npz", pfs[j], Ms[j]) for j in order]
        for j in rng.permutation(k):
            ops.append(F("a.npz", pfs[j]))
        for j in rng.permutation(k):
            ops.append(L("a.npz", pfs[j], other_n(rng, Ms[j]["n_grains"]) if rng.random() < 0.7 else Ms[j]["n_grains"]))
        for j in reversed(order):
            ops.append(F("a.npz", pfs[j]))
        ops.append(F("a.npz", None))
        ops.append(L("a.npz", None, 3))
        unsaved = rand_postfix(rng) + "~"
        ops.append(F("a.npz", unsaved))
        sc.append({"family": "distinct", "ops": ops})
    # 3. repeated postfixes, whole-file saves in between (savez replaces the archive)
    for i in range(16 if quick else 150):
        pool = distinct_postfixes(rng, 3)
        ops, used = [], set()
        for _ in range(int(rng.integers(3, 10))):
            if rng.random() < 0.2:
                ops.append(S("r.npz", None, mk(rng)))
            else:
                p = pool[int(rng.integers(0, 3))]
                used.add(p)
                ops.append(S("r.npz", p, mk(rng)))
            if rng.random() < 0.3:
                ops.append(F("r.npz", pool[int(rng.integers(0, 3))]))
        for p in pool:
            ops += [F("r.npz", p), L("r.npz", p, int(rng.integers(1, 9)))]
        ops += [F("r.npz", None), L("r.npz", None, 2)]
        sc.append({"family": "repeat", "ops": ops})
    # 4. corrupt state: must raise and leave every file as it was
    for kind in corrupt_kinds():
        for pf in (None, "c"):
            for existing in (False, True):
                ops = []
                M0, M1 = mk(rng), mk(rng)
                if existing:
                    ops += [S("c.npz", None, M0), S("c.npz", "keep", M1)]
                ops.append(S("c.npz", pf, corrupt(rng, kind)))
                ops += [F("c.npz", None), F("c.npz", "keep"), L("c.npz", pf, 4)]
                sc.append({"family": "corrupt:" + kind, "ops": ops})
    # 5. file names
    for name in ["m.npy", "m.npz.bak", "m", "npz", ".npz", "m.NPZ", "m.npz ", "m.np", "mnpz", "m.npz.npz", "x.npzz", "a.b.npz"]:
        M = mk(rng)
        for pf in (None, "s"):
            sc.append({"family": "suffix", "ops": [S(name, pf, M), F(name, pf), L(name, pf, 2), F(name + ".npz", pf),
                                                  L(name + ".npz", pf, 2), F("absent.npz", pf), L("absent.txt", pf, 1)]})
    # 6. NpzFile strips ".npy" from member names
    M1, M2 = mk(rng), mk(rng)
    sc.append({"family": "alias", "ops": [S("z.npz", "x.npy", M1), F("z.npz", "x"), L("z.npz", "x", 1), S("z.npz", "x", M2),
                                         F("z.npz", "x"), F("z.npz", "x.npy"), F("z.npz", "x.npy.npy")]})
    sc.append({"family": "alias", "ops": [S("z.npz", None, M1), S("z.npz", ".npy", M2), S("z.npz", "", M2), F("z.npz", None),
                                         F("z.npz", ""), F("z.npz", ".npy"), F("z.npz", "_")]})
    # 7. the largest sizes of the quantifier: 8 minerals, 50 grains, 20 snapshots
    for i in range(1 if quick else 6):
        pfs = distinct_postfixes(rng, 8)
        Ms = [mk(rng, n=50, k=20) for _ in range(8)]
        ops = [S("big.npz", pfs[j], Ms[j]) for j in rng.permutation(8)]
        ops += [F("big.npz", pfs[j]) for j in rng.permutation(8)] + [L("big.npz", pfs[j], 7) for j in rng.permutation(8)]
        sc.append({"family": "large", "ops": ops})
    sc += layout_cases(rng, quick)
    sc += object_cases(rng, quick)
    return sc


LAYOUT_FIELDS = {"fractions": ("fractions",), "orientations": ("orientations",), "both": ("fractions", "orientations")}
SHAPE_FAULTS = ["ragged_fraction", "ragged_orientation", "last_orientation_size", "compensating_both", "first_orientation_size",
                "counts_more_orientations", "orientation_block_n_by_9", "all_fractions_other_size"]


def layout_cases(rng, quick, file="l.npz", family="layout"):
    """8. memory layout of every stored array: each layout x (first / last / every snapshot) x (fractions / orientations / both)
    x (whole file / postfix), the first snapshot alternately through the constructor (`*_init`) or assigned; archives of
    1..8 minerals in which every array has a layout of its own; corrupt states in every layout.  `probe`: the caller
    overwrites what a loader returned before loading again (argguard.fresh_result_probe)."""
    sc, i = [], 0
    for name in LAYOUTS:
        for where in ("first", "last", "all"):
            for fld in ("fractions", "orientations", "both"):
                for pf in (None, distinct_postfixes(rng, 1)[0]):
                    i += 1
                    M = relayout_where(mk(rng, n=int(rng.integers(2, 9)), k=int(rng.integers(2, 5))), LAYOUT_FIELDS[fld], where, name)
                    M["route"] = "init" if i % 2 else "assign"
                    sc.append({"family": family, "probe": True, "layout": name,
                               "ops": [S(file, pf, M), F(file, pf), L(file, pf, other_n(rng, M["n_grains"]))]})
    for i in range(16 if quick else 120):
        k = 1 + i % 8
        pfs = distinct_postfixes(rng, k)
        Ms = []
        for _ in range(k):
            M = mk(rng)
            for fld in ("fractions", "orientations"):
                for idx in range(len(M[fld])):
                    if rng.random() < 0.7:
                        relayout(M, fld, idx, LAYOUTS[int(rng.integers(0, len(LAYOUTS)))])
            M["route"] = "init" if rng.random() < 0.5 else "assign"
            Ms.append(M)
        ops = [S(file, None, relayout_where(mk(rng), ("fractions", "orientations"), "all", LAYOUTS[i % len(LAYOUTS)]))] if i % 2 else []
        ops += [S(file, pfs[j], Ms[j]) for j in rng.permutation(k)]
        for j in rng.permutation(k):
            ops += [F(file, pfs[j]), L(file, pfs[j], other_n(rng, Ms[j]["n_grains"]))]
        ops += [F(file, None)]
        sc.append({"family": family, "probe": i % 4 == 0, "layout": "mixed", "ops": ops})
    for i, name in enumerate(LAYOUTS):
        for pf in (None, "c"):
            M = relayout_where(corrupt(rng, SHAPE_FAULTS[(i + (pf is None)) % len(SHAPE_FAULTS)]), ("fractions", "orientations"), "all", name)
            sc.append({"family": family, "layout": name + "+corrupt",
                       "ops": [S(file, None, mk(rng)), S(file, "keep", mk(rng)), S(file, pf, M), F(file, None), F(file, "keep")]})
    return sc


# --------------------------------------------------------------------------
# model side
# --------------------------------------------------------------------------
def enc_str(s):
    b = s.encode("latin-1")
    return [len(b)] + list(b)


def enc_pf(p):
    return [-1] if p is None else enc_str(p)


def encode(sc):
    """tokens for Entry_npz.run_npz and the table aid -> saved array"""
    arrays, toks = [], [1, len(visible(sc))]          # sets_n = 1: the code as it is
    for o in visible(sc):
        if o["op"] == "save":
            M = o["mineral"]
            toks += [0] + enc_str(o["file"]) + enc_pf(o["postfix"])
            toks += [M["phase"], M["fabric"], M["regime"], M["n_grains"]]
            for lst in (M["fractions"], M["orientations"]):
                toks.append(len(lst))
                for a in lst:
                    assert a.size < 65536
                    toks += [len(arrays), a.ndim] + list(a.shape) + [a.size]
                    arrays.append(a)
        elif o["op"] == "load":
            toks += [1] + enc_str(o["file"]) + enc_pf(o["postfix"]) + [o["target_n"]]
        else:
            toks += [2] + enc_str(o["file"]) + enc_pf(o["postfix"])
    return toks, arrays


class Reader:
    def __init__(self, vals):
        self.v, self.i = [int(x) for x in vals], 0

    def next(self):
        self.i += 1
        return self.v[self.i - 1]

    def string(self):
        n = self.next()
        s = bytes(self.v[self.i:self.i + n]).decode("latin-1")
        self.i += n
        return s

    def arr(self, arrays):
        rank = self.next()
        shape = tuple(self.next() for _ in range(rank))
        n = self.next()
        codes = np.array(self.v[self.i:self.i + n], dtype=np.int64)
        self.i += n
        out = np.empty(n, dtype=np.uint64)
        aid, idx = codes >> 16, codes & 0xFFFF
        for a in np.unique(aid):
            sel = aid == a
            out[sel] = np.ascontiguousarray(arrays[int(a)]).reshape(-1).view(np.uint64)[idx[sel]]
        return shape, out.tobytes()


def decode(sc, vals, arrays):
    rd, res = Reader(vals), []
    for o in visible(sc):
        if rd.next() == 1:
            res.append(("ERR", rd.next()))
            continue
        if o["op"] == "save":
            tgt = rd.string()
            res.append(("OK", tgt, [rd.string() for _ in range(rd.next())]))
        else:
            p, f, r, n = rd.next(), rd.next(), rd.next(), rd.next()
            fr = [rd.arr(arrays) for _ in range(rd.next())]
            orr = [rd.arr(arrays) for _ in range(rd.next())]
            res.append(("OK", p, f, r, n, fr, orr))
    assert rd.i == len(rd.v), "model output not consumed"
    return res


# --------------------------------------------------------------------------
# implementation side
# --------------------------------------------------------------------------
def dir_state(d):
    st = {}
    for root, _, files in os.walk(d):
        for fn in files:
            p = os.path.join(root, fn)
            st[os.path.relpath(p, d)] = hashlib.sha1(open(p, "rb").read()).hexdigest()
    return st


STAMP = 10 ** 9          # mtime (ns) given to every file before a save: a file with another mtime afterwards was written


def stamp(d):
    for root, _, files in os.walk(d):
        for fn in files:
            os.utime(os.path.join(root, fn), ns=(STAMP, STAMP))


def rewritten(d):
    """files written since `stamp` (also when the bytes written are the bytes that were there: an object saved twice)"""
    return [os.path.relpath(os.path.join(root, fn), d) for root, _, files in os.walk(d) for fn in files
            if os.stat(os.path.join(root, fn)).st_mtime_ns != STAMP]


def infos(path):
    with zipfile.ZipFile(path) as z:
        return [(i.filename, i.CRC, i.file_size) for i in z.infolist()]


def exc(e):
    return ("ERR", ERR.get(type(e).__name__, -1), type(e).__name__)


def run_impl(pyd, sc, d):
    """Execute the operations on real files in directory d.  Returns the per-op results and
    a list of oracle-hypothesis / no-write failures."""
    res, resid, objs = [], [], {}
    os.makedirs(d, exist_ok=True)
    for o in sc["ops"]:
        if o["op"] == "new":                            # object histories: a live object of this history
            objs[o["obj"]] = build(pyd, clone_M(o["mineral"]))
            continue
        if o["op"] == "edit":
            objs[o["obj"]] = apply_edit(objs[o["obj"]], o, pyd)
            continue
        path = os.path.join(d, o["file"])
        before = dir_state(d)
        if o["op"] == "save":
            M = o["mineral"]
            old_infos = infos(path) if (o["postfix"] is not None and os.path.exists(path)) else []
            stamp(d)
            try:
                if "obj" in o:
                    m = objs[o["obj"]]
                    M = live_state(m)                   # what the object holds now is what has to be written
                else:
                    m = build(pyd, M)
                with warnings.catch_warnings():
                    warnings.simplefilter("ignore")
                    # the model's save is a pure function of the mineral: the stored snapshots are the same after the call
                    _, faults = argguard.guarded(lambda mm, p, q: mm.save(p, postfix=q), (m, path, o["postfix"]))
                resid += [f"save modified the mineral it was given: {t}" for t in faults]
            except Exception as e:  # noqa: BLE001
                resid += [f"save (raising {type(e).__name__}) modified the mineral it was given: {t}"
                          for t in getattr(e, "argguard_faults", [])]
                after = dir_state(d)
                if after != before:
                    resid.append(f"save raised {type(e).__name__} but the directory changed: {sorted(set(after.items()) ^ set(before.items()))[:3]}")
                res.append(exc(e) + (after == before,))
                continue
            after = dir_state(d)
            changed = sorted(set(k for k in after if before.get(k) != after[k]) | set(rewritten(d))) + sorted(k for k in before if k not in after)
            names = None
            if len(changed) == 1:
                tp = os.path.join(d, changed[0])
                with zipfile.ZipFile(tp) as z:
                    names = z.namelist()
                    il = z.infolist()
                    # zip oracle: last entry wins
                    for nm in set(names):
                        last = [i for i in il if i.filename == nm][-1]
                        if z.read(nm) != z.open(last).read():
                            resid.append(f"zip: reading member {nm!r} by name does not return its last entry")
                    new = [(i.filename, i.CRC, i.file_size) for i in il]
                    if o["postfix"] is None:
                        if len(new) != 3:
                            resid.append(f"savez: archive has {len(new)} members after a whole-file save")
                    elif new[:len(old_infos)] != old_infos or len(new) != len(old_infos) + 3:
                        resid.append("zip append: earlier members were not preserved as a prefix")
                    # NPY oracle: unnpy (npy a) = a for the three payloads just written
                    try:
                        want = [np.array([M["phase"], M["fabric"], M["regime"]], dtype=np.uint8),
                                np.stack(M["fractions"]), np.stack(M["orientations"])]
                        for info, w in zip(il[-3:], want):
                            raw = z.open(info).read()
                            got = np.load(io.BytesIO(raw), allow_pickle=False)
                            if not (raw[:6] == b"\x93NUMPY" and same_bits(got, w)):
                                resid.append(f"npy round trip of member {info.filename!r} is not bit-exact")
                    except Exception as e:  # noqa: BLE001
                        resid.append(f"npy oracle check failed: {type(e).__name__}: {e}")
            res.append(("OK", changed, names))
        else:
            try:
                if o["op"] == "load":
                    m = objs[o["obj"]] if "obj" in o else target(pyd, o["target_n"])
                    m.load(path, postfix=o["postfix"])
                else:
                    m = pyd.Mineral.from_file(path, postfix=o["postfix"])
                    if "obj" in o:
                        objs[o["obj"]] = m
                # (copies when the object lives on: it may be edited in place later in the history)
                res.append(("OK", int(m.phase), int(m.fabric), int(m.regime), int(m.n_grains),
                            [np.array(a) if "obj" in o else np.asarray(a) for a in m.fractions],
                            [np.array(a) if "obj" in o else np.asarray(a) for a in m.orientations],
                            type(m.phase).__name__))
                if sc.get("probe") and "obj" not in o:
                    # what a loader returns belongs to the caller: overwritten in place, then loaded again
                    if o["op"] == "load":
                        def again(p, q, tn=o["target_n"]):
                            t = target(pyd, tn)
                            t.load(p, postfix=q)
                            return [t.fractions, t.orientations]
                    else:
                        def again(p, q):
                            t = pyd.Mineral.from_file(p, postfix=q)
                            return [t.fractions, t.orientations]
                    try:
                        resid += [f"{o['op']}(postfix={o['postfix']!r}): {t}"
                                  for t in argguard.fresh_result_probe(again, lambda p=path, q=o["postfix"]: ((p, q), {}),
                                                                       scribble=lambda a: a.fill(-7.0))]
                    except Exception as e2:  # noqa: BLE001
                        resid.append(f"{o['op']}(postfix={o['postfix']!r}) succeeded once and raised {type(e2).__name__} when repeated")
            except Exception as e:  # noqa: BLE001
                res.append(exc(e))
            if dir_state(d) != before:
                resid.append(f"{o['op']} changed the directory")
    return res, resid


def arrays_match(impl_list, model_list):
    if len(impl_list) != len(model_list):
        return f"{len(impl_list)} snapshots vs model {len(model_list)}"
    for i, (a, (shape, raw)) in enumerate(zip(impl_list, model_list)):
        if a.dtype != np.float64:
            return f"snapshot {i}: dtype {a.dtype}"
        if a.shape != shape:
            return f"snapshot {i}: shape {a.shape} vs model {shape}"
        if np.ascontiguousarray(a).tobytes() != raw:
            return f"snapshot {i}: bytes differ from the saved array"
    return None


def compare_one(sc, ires, mres):
    """first disagreement between implementation and model on one scenario, or None"""
    for k, (o, a, b) in enumerate(zip(visible(sc), ires, mres)):
        tag = f"op {k} {o['op']}({o['file']!r}, postfix={o['postfix']!r})" + (f" of object {o['obj']}" if "obj" in o else "")
        if a[0] == "ERR" or b[0] == "ERR":
            if not (a[0] == "ERR" and b[0] == "ERR" and a[1] == b[1]):
                ia = f"raises {a[2]}" if a[0] == "ERR" else "succeeds"
                ib = f"Err {ERRNAME.get(b[1], b[1])}" if b[0] == "ERR" else "Ok"
                return f"{tag}: implementation {ia}, model {ib}"
            continue
        if o["op"] == "save":
            if a[1] != [b[1]]:
                return f"{tag}: files written {a[1]}, model {[b[1]]}"
            if a[2] != b[2]:
                return f"{tag}: zip members {a[2]}, model {b[2]}"
        else:
            if a[1:5] != b[1:5]:
                return f"{tag}: (phase, fabric, regime, n_grains) = {a[1:5]}, model {b[1:5]}"
            for nm, x, y in (("fractions", a[5], b[5]), ("orientations", a[6], b[6])):
                msg = arrays_match(x, y)
                if msg:
                    return f"{tag}: {nm}: {msg}"
    return None


# --------------------------------------------------------------------------
# property oracle (direct reading of C17 on the public API) -- used only to find a
# failing input after a proof or the correspondence broke
# --------------------------------------------------------------------------
def is_corrupt(M):
    """the corrupt states the property names"""
    fr, orr, n = M["fractions"], M["orientations"], M["n_grains"]
    if not all(0 <= M[k] < 256 for k in ("phase", "fabric", "regime")):
        return False                    # not a state the property talks about
    if len(fr) != len(orr):
        return True
    if not fr:
        return False
    if any(a.ndim < 1 for a in fr + orr):
        return False
    return any(a.shape[0] != n for a in fr + orr)


def is_valid(M):
    fr, orr, n = M["fractions"], M["orientations"], M["n_grains"]
    return (len(fr) == len(orr) >= 1 and all(a.shape == (n,) for a in fr) and all(a.shape == (n, 3, 3) for a in orr)
            and all(0 <= M[k] < 256 for k in ("phase", "fabric", "regime")))


def oracle(pyd, sc, d):
    fails, expect, objs = [], {}, {}
    os.makedirs(d, exist_ok=True)
    for k, o in enumerate(sc["ops"]):
        if o["op"] in ("new", "edit") or "obj" in o:
            # object histories.  The requirement is read off the LIVE object: what it holds when save is called is what both
            # loaders have to return.  (A history that cannot be carried out -- an operation of it was removed while
            # shrinking -- proves nothing: it ends here.)
            try:
                if o["op"] == "new":
                    objs[o["obj"]] = build(pyd, clone_M(o["mineral"]))
                    continue
                if o["obj"] not in objs and o["op"] != "from_file":
                    return fails
                if o["op"] == "edit":
                    objs[o["obj"]] = apply_edit(objs[o["obj"]], o, pyd)
                    continue
            except Exception:  # noqa: BLE001
                return fails
        path = os.path.join(d, o["file"])
        tag = f"op {k} {o['op']}({o['file']!r}, postfix={o['postfix']!r})" + (f" of object {o['obj']}" if "obj" in o else "")
        if o["op"] == "save":
            if "obj" in o:
                mobj = objs[o["obj"]]
                try:
                    M = saved = live_state(mobj)  # a copy of the snapshots the object holds just before this save
                except Exception:  # noqa: BLE001
                    return fails
            else:
                M = o["mineral"]
                saved = freeze(M)                 # the stored snapshots as they are when save is called
                mobj = None
            before = dir_state(d)
            try:
                with warnings.catch_warnings():
                    warnings.simplefilter("ignore")
                    (mobj if mobj is not None else build(pyd, M)).save(path, postfix=o["postfix"])
                err = None
            except Exception as e:  # noqa: BLE001
                err = e
            if is_corrupt(M):
                if not isinstance(err, ValueError):
                    fails.append(f"{tag}: corrupt state was not rejected with ValueError ({type(err).__name__ if err else 'no exception'})")
                if dir_state(d) != before:
                    fails.append(f"{tag}: corrupt state was written to disk")
            elif is_valid(M):
                if err is not None:
                    fails.append(f"{tag}: consistent mineral could not be saved: {type(err).__name__}: {err}")
                elif o["file"].endswith(".npz"):
                    if o["postfix"] is None:      # numpy.savez replaces the file: no claim about older postfixes
                        for key in [q for q in expect if q[0] == o["file"]]:
                            del expect[key]
                    expect[(o["file"], o["postfix"])] = saved
            continue
        try:
            if o["op"] == "load":
                m = objs[o["obj"]] if "obj" in o else target(pyd, o["target_n"])
                m.load(path, postfix=o["postfix"])
            else:
                m = pyd.Mineral.from_file(path, postfix=o["postfix"])
                if "obj" in o:
                    objs[o["obj"]] = m
            err = None
        except Exception as e:  # noqa: BLE001
            err = e
        if not o["file"].endswith(".npz"):
            if not isinstance(err, ValueError):
                fails.append(f"{tag}: non-NPZ file name was not rejected with ValueError")
            continue
        M = expect.get((o["file"], o["postfix"]))
        if M is None:
            continue
        if err is not None:
            fails.append(f"{tag}: saved mineral cannot be loaded: {type(err).__name__}: {err}")
            continue
        got = (int(m.phase), int(m.fabric), int(m.regime), int(m.n_grains))
        want = (M["phase"], M["fabric"], M["regime"], M["n_grains"])
        if got != want:
            fails.append(f"{tag}: (phase, fabric, regime, n_grains) restored as {got}, saved {want}")
        for nm, x, y in (("fractions", m.fractions, M["fractions"]), ("orientations", m.orientations, M["orientations"])):
            if len(x) != len(y) or not all(same_bits(a, b) for a, b in zip(x, y)):
                fails.append(f"{tag}: {nm} are not restored bit-for-bit")
        for a in ([] if "obj" in o else list(m.fractions) + list(m.orientations)):      # the caller owns what was returned: every later load
            if isinstance(a, np.ndarray) and a.flags.writeable and a.dtype.kind == "f":     # must restore the saved values all the same
                a[...] = -7.0
    return fails


def oracle_sweep(chk):
    rng = np.random.default_rng(chk.seed + 17)
    sc = []
    fixed = ["", ".npy", "_", "a", "a_b", "x.npy", "x", "meta", "_a"]
    for i in range(40):
        k = 1 + i % 8
        pfs = (fixed[:k] if i < 8 else distinct_postfixes(rng, k))
        Ms = [mk(rng, phase=int(rng.integers(0, 2)), fabric=int(rng.integers(0, 6))) for _ in range(k)]
        M0 = mk(rng)
        ops = [S("o.npz", None, M0)] + [S("o.npz", pfs[j], Ms[j]) for j in rng.permutation(k)]
        ops += [F("o.npz", None), L("o.npz", None, other_n(rng, M0["n_grains"]))]
        for j in rng.permutation(k):
            ops += [F("o.npz", pfs[j]), L("o.npz", pfs[j], other_n(rng, Ms[j]["n_grains"]))]
        sc.append({"family": "oracle", "ops": ops})
    for kind in [k for k in corrupt_kinds() if k not in ('no_snapshots', 'zero_dim_first', 'phase_overflow', 'regime_negative', 'overflow_and_ragged')]:
        for pf in (None, "c"):
            sc.append({"family": "oracle", "ops": [S("o.npz", None, mk(rng)), S("o.npz", pf, corrupt(rng, kind)), F("o.npz", None)]})
            sc.append({"family": "oracle", "ops": [S("n.npz", pf, corrupt(rng, kind))]})
    for name in ("m.npy", "m", "m.npz.bak"):
        sc.append({"family": "oracle", "ops": [S(name, "p", mk(rng)), F(name, "p"), L(name, "p", 2), F(name, None)]})
    sc += layout_cases(rng, True, file="o.npz", family="oracle")
    sc += object_cases(rng, True, family="oracle")
    return sc


def shrink(pyd, sc, base):
    ops = list(sc["ops"])
    n = 0
    for i in reversed(range(len(ops))):
        trial = ops[:i] + ops[i + 1:]
        n += 1
        d = os.path.join(base, f"shrink{n}")
        if trial and oracle(pyd, {"ops": trial}, d):
            ops = trial
        shutil.rmtree(d, ignore_errors=True)
    return {"family": sc.get("family", ""), "ops": ops}


def search(chk, pyd, base, extra=()):
    found = []
    seen = set()
    for i, sc in enumerate(list(extra) + oracle_sweep(chk)):
        d = os.path.join(base, f"or{i}")
        fails = oracle(pyd, sc, d)
        shutil.rmtree(d, ignore_errors=True)
        if fails:
            sig = fails[0].split(":", 1)[1][:40]
            if sig in seen:
                continue
            seen.add(sig)
            small = shrink(pyd, sc, base)
            d = os.path.join(base, f"or{i}s")
            f2 = oracle(pyd, small, d)
            shutil.rmtree(d, ignore_errors=True)
            found.append((small, f2 or fails))
            if len(found) >= 3:
                break
    return found


# --------------------------------------------------------------------------
# JSON encoding of scenarios (replay files)
# --------------------------------------------------------------------------
def enc_arr(a):
    return {"shape": list(a.shape), "float64_hex": np.ascontiguousarray(a).tobytes().hex(), "layout": describe(a)}


def dec_arr(a):
    return rebuild(np.frombuffer(bytes.fromhex(a["float64_hex"]), dtype=np.float64).reshape(a["shape"]).copy(), a.get("layout"))


def enc_M(M):
    return {k: M[k] for k in ("phase", "fabric", "regime", "n_grains")} | {
        nm: [enc_arr(a) for a in M[nm]] for nm in ("fractions", "orientations")} | {"route": M.get("route", "assign")}


def dec_M(d):
    return {k: d[k] for k in ("phase", "fabric", "regime", "n_grains")} | {
        nm: [dec_arr(a) for a in d[nm]] for nm in ("fractions", "orientations")} | {"route": d.get("route", "assign")}


def _code_op(o, arr, mineral):
    """one operation to / from JSON.  The save of a live object carries no state of its own (the predicted state is an input of
    the model only; the oracle reads the object)."""
    o = dict(o)
    if "mineral" in o:
        if o["op"] == "save" and "obj" in o:
            del o["mineral"]
        else:
            o["mineral"] = mineral(o["mineral"])
    if o["op"] == "edit":
        if "items" in o:
            o["items"] = [dict(it, value=arr(it["value"])) for it in o["items"]]
        for nm in ("fractions", "orientations"):
            if nm in o:
                o[nm] = [arr(a) for a in o[nm]]
    return o


def enc_sc(sc):
    return {"family": sc.get("family", ""), "ops": [_code_op(o, enc_arr, enc_M) for o in sc["ops"]]}


def dec_sc(d):
    return {"family": d.get("family", ""), "ops": [_code_op(o, dec_arr, dec_M) for o in d["ops"]]}


def brief(sc):
    out = []
    for o in sc["ops"]:
        who = f"{o['obj']}." if "obj" in o else ""
        if o["op"] == "new":
            M = o["mineral"]
            out.append(f"{o['obj']} = Mineral(n={M['n_grains']},snapshots={len(M['fractions'])}/{len(M['orientations'])})")
        elif o["op"] == "edit":
            what = {"set": lambda: " ".join(f"{it['field']}[{it['index']}]=..." for it in o["items"][:4]),
                    "inplace": lambda: " ".join(f"{it['field']}[{it['index']}]" + ("[...]" if it.get("grain") is None else f"[{it['grain']}]")
                                                + "=..." for it in o["items"][:4]),
                    "lists": lambda: f"fractions=[{len(o.get('fractions', []))} arrays] orientations=[{len(o.get('orientations', []))} arrays]"
                                     + (f" n_grains={o['n_grains']}" if o.get("n_grains") is not None else ""),
                    "append": lambda: f"{len(o.get('fractions', []))} fractions, {len(o.get('orientations', []))} orientations",
                    "truncate": lambda: f"last {o['count']}", "clone": lambda: o.get("via", "pickle"),
                    "meta": lambda: ",".join(f"{nm}={o[nm]}" for nm in ("phase", "fabric", "regime") if nm in o)}.get(o["kind"], lambda: "")()
            out.append(f"{who}edit:{o['kind']}({what})")
        elif o["op"] == "save" and "mineral" not in o:
            out.append(f"{who}save({o['file']!r},{o['postfix']!r})")
        elif o["op"] == "save":
            M = o["mineral"]
            lay = [f"{nm}[{i}]:{layout_class(a)}" for nm in ("fractions", "orientations") for i, a in enumerate(M[nm])
                   if layout_class(a) not in ("C", "C+F", "trivial")]
            out.append(f"{who}save({o['file']!r},{o['postfix']!r},n={M['n_grains']},snapshots={len(M['fractions'])}/{len(M['orientations'])}"
                       + (",layouts=" + " ".join(lay[:6]) if lay else "") + ")")
        elif o["op"] == "load":
            out.append(f"{who}load({o['file']!r},{o['postfix']!r}" + ("" if who else f",into n={o['target_n']}") + ")")
        else:
            out.append((f"{o['obj']} = " if who else "") + f"from_file({o['file']!r},{o['postfix']!r})")
    return out


def object_histograms(sc, hist):
    """family `object`: per pair of consecutive saves of ONE object, what the caller did to it in between (labels of the
    edits / loads), where the second save went, how the number of snapshots changed"""
    def bump(name, key):
        hist[name][key] = hist[name].get(key, 0) + 1
    bump("object_history", sc["history"])
    last, since, count = {}, {}, {}
    for o in sc["ops"]:
        x = o.get("obj")
        if x is None:
            continue
        if o["op"] == "from_file" and x.rstrip("'") in last:         # the object goes on as what a loader made of it
            last[x], since[x], count[x] = last[x.rstrip("'")], since.get(x.rstrip("'"), []) + ["from_file"], count.get(x.rstrip("'"), 0)
        elif o["op"] in ("edit", "load") and o.get("label") not in (None, "none"):
            since.setdefault(x, []).append(o["label"])
        elif o["op"] == "save":
            k = len(o["mineral"]["fractions"])
            count[x] = count.get(x, 0) + 1
            if x in last:
                f0, p0, k0 = last[x]
                for lab in (since.get(x) or ["nothing"]):
                    bump("object_resave_change_between", lab)
                bump("object_resave_target", ("same file" if f0 == o["file"] else "other file") + ": "
                     + ("whole" if p0 is None else "postfix") + " -> "
                     + ("whole" if o["postfix"] is None else "same postfix" if o["postfix"] == p0 and f0 == o["file"] else "postfix"))
                bump("object_resave_snapshot_count", "same" if k == k0 else "grown" if k > k0 else "shrunk")
            if is_valid(o["mineral"]):
                last[x], since[x] = (o["file"], o["postfix"], k), []
    for x, c in count.items():
        bump("object_saves_per_object", str(c))


# --------------------------------------------------------------------------
def run(chk):
    ok, br = proofs.prove(chk, FILES, PROP, groups=(GROUP,), gen_modules=("npz",))
    import pydrex as pyd
    quiet()
    chk.cov["trusted_base"] = [common.TRUSTED_COMMON[0], common.TRUSTED_COMMON[2]] + [
        "hand-written Model_npz.v (file system / zip archive as association lists, Mineral.save/load/from_file in source order); tied to the source by this differential run only (tie H)",
        "ORACLE numpy.save/numpy.load of one array: hypothesis unnpy (npy a) = a, checked bit-for-bit (dtype, shape, tobytes) on every member written in every case",
        "ORACLE zip container (zipfile mode 'a', numpy.savez, NpzFile name lookup): hypothesis 'append-only association list, last entry wins, savez replaces the file' checked on every file of every case (member list, prefix preservation by CRC, read-by-name = last entry)",
        "element codes: the model is parametric in the array element type; the harness maps the codes the model returns back to the bytes of the arrays it saved",
        "hand-written ocaml/dispatch_npz.ml (int tokens <-> Z, results printed as exact hex floats < 2^53)",
    ]
    chk.cov["rule"] = ("case = one operation history on real files in a fresh directory: (1) every phase x fabric x regime, whole file / postfix; "
                       "(2) 1..8 minerals (1..50 grains, 1..20 snapshots, float64 payloads drawn from random bit patterns with 45% NaN-payload/signalling NaN/+-0/"
                       "denormal/+-inf/extreme values) under pairwise distinct postfixes (adversarial pool: '', '_', '.npy', 'x.npy', 'meta', 'a_b', ... and random "
                       "strings), optional whole-file save first, random save order, then from_file and load (into objects of another grain count) in three different "
                       "orders, plus whole-file loads and a never-saved postfix; (3) repeated postfixes with whole-file saves in between; (4) 15 kinds of corrupt state x "
                       "whole/postfix x fresh/existing file; (5) 12 file names without/with the .npz suffix through save and both loaders; (6) '.npy' aliasing; (7) 8 minerals "
                       "of 50 grains x 20 snapshots; (8) MEMORY LAYOUT of every stored array (the contents are what the property quantifies over, the "
                       "layout is how the caller happens to hold them): C, Fortran order (owned / transposed view), first two axes swapped, every second entry "
                       "along the first / the last axis of a larger buffer, reversed (negative stride), offset window, read-only, unaligned, broadcast "
                       "(stride 0) x first / last / every snapshot x fractions / orientations / both x whole file / postfix, the first snapshot alternately "
                       "through fractions_init / orientations_init or assigned, followed by from_file and load; archives of 1..8 minerals with an "
                       "independent layout per array; 8 shape faults in every layout (must raise without writing). Every save runs under "
                       "argguard.guarded (the mineral's snapshots are unchanged by the call), the loads of family 8 under argguard.fresh_result_probe (result "
                       "overwritten by the caller, loaded again: same values); (9) OBJECT HISTORIES: the operations act on named LIVE Mineral objects -- "
                       "one object saved, then its stored history changed by the caller (27 labelled changes: nothing; load INTO the object of an archive with "
                       "the same / a larger / a smaller number of snapshots, another grain count, a postfix entry, its own earlier save; fractions[i] = / "
                       "orientations[i] = one / every snapshot, also in another memory layout; in-place edit of a stored array, of one grain, of every snapshot; "
                       "both lists reassigned with the same / more / fewer snapshots / another grain count; snapshots appended, appended + an earlier one "
                       "replaced, dropped, dropped + appended; metadata changed; the object deep-copied / pickled, then edited; the object a loader made of an "
                       "earlier entry edited; made corrupt (refused save) and repaired) x second save to the same / another file, whole file / postfix / the "
                       "same postfix, then saved a third time untouched; every entry that must exist read back through both loaders after each save; random "
                       "histories of 1..3 objects x 3..8 saves. The model is given, for the save of an object, the state the property requires the object to be "
                       "in (loads restore what was saved, edits do what they say). The model must predict every outcome exactly (file written, zip member list, exception class, returned mineral "
                       "bit-for-bit). distinct = distinct token encoding of the history incl. array ids and shapes + payload hash; non-trivial = at least one load returned "
                       "arrays or at least one operation raised")
    hist = chk.cov.setdefault("histogram", {"family": {}, "errors_impl": {}, "minerals_per_archive": {}, "n_grains": {}, "snapshots": {},
                                            "meta_type_after_load": {}, "layout_requested": {}, "layout_of_saved_arrays": {},
                                            "layout_of_first_orientation_snapshot": {}, "layout_save_path": {}, "construction_route": {},
                                            "result_probes": {}, "object_history": {}, "object_resave_change_between": {},
                                            "object_resave_target": {}, "object_resave_snapshot_count": {},
                                            "object_saves_per_object": {}})
    base = os.path.join(common.BUILD, f"tmp-{os.getpid()}")
    shutil.rmtree(base, ignore_errors=True)
    os.makedirs(base)
    bad = []
    try:
        if br.drivers.get(GROUP, 1) is None:
            cases = gen_cases(chk, chk.tier)
            enc = [encode(sc) for sc in cases]
            mres = common.run_model(["npz " + " ".join(str(t) for t in toks) for toks, _ in enc], group=GROUP)
            n_ops = n_resid = 0
            for i, (sc, (toks, arrays), mr) in enumerate(zip(cases, enc, mres)):
                d = os.path.join(base, f"c{i}")
                ires, resid = run_impl(pyd, sc, d)
                shutil.rmtree(d, ignore_errors=True)
                n_ops += len(sc["ops"])
                fam = sc["family"].split(":")[0]
                hist["family"][fam] = hist["family"].get(fam, 0) + 1
                saves = [o for o in sc["ops"] if o["op"] == "save"]
                hist["minerals_per_archive"][str(len(saves))] = hist["minerals_per_archive"].get(str(len(saves)), 0) + 1
                for o in saves:
                    nb = str(min(50, (o["mineral"]["n_grains"] + 9) // 10 * 10))
                    hist["n_grains"]["<=" + nb] = hist["n_grains"].get("<=" + nb, 0) + 1
                    sb = str(min(20, (len(o["mineral"]["fractions"]) + 4) // 5 * 5))
                    hist["snapshots"]["<=" + sb] = hist["snapshots"].get("<=" + sb, 0) + 1
                    classes = [nm + ":" + layout_class(a) for nm in ("fractions", "orientations") for a in o["mineral"][nm]]
                    for c in classes:
                        hist["layout_of_saved_arrays"][c] = hist["layout_of_saved_arrays"].get(c, 0) + 1
                    if o["mineral"]["orientations"]:
                        c = layout_class(o["mineral"]["orientations"][0])
                        hist["layout_of_first_orientation_snapshot"][c] = hist["layout_of_first_orientation_snapshot"].get(c, 0) + 1
                    if any(c.split(":")[1] not in ("C", "C+F", "trivial") for c in classes):
                        c = "whole file" if o["postfix"] is None else "postfix"
                        hist["layout_save_path"][c] = hist["layout_save_path"].get(c, 0) + 1
                    c = o["mineral"].get("route", "assign")
                    hist["construction_route"][c] = hist["construction_route"].get(c, 0) + 1
                if "history" in sc:
                    object_histograms(sc, hist)
                if "layout" in sc:
                    hist["layout_requested"][sc["layout"]] = hist["layout_requested"].get(sc["layout"], 0) + 1
                if sc.get("probe"):
                    c = sum(1 for o, r in zip(visible(sc), ires) if o["op"] != "save" and r[0] == "OK")
                    hist["result_probes"]["loads repeated after the caller overwrote the result"] = hist["result_probes"].get(
                        "loads repeated after the caller overwrote the result", 0) + c
                for r in ires:
                    if r[0] == "ERR":
                        hist["errors_impl"][r[2]] = hist["errors_impl"].get(r[2], 0) + 1
                    elif len(r) == 8:
                        hist["meta_type_after_load"][r[7]] = hist["meta_type_after_load"].get(r[7], 0) + 1
                if mr[0] != "OK":
                    msg = f"model run failed: {mr}"
                else:
                    msg = compare_one(sc, ires, decode(sc, mr[1], arrays))
                nontrivial = any(r[0] == "ERR" or (len(r) == 8 and r[5]) for r in ires)
                key = hashlib.sha1((repr(toks) + "".join(hashlib.sha1(np.ascontiguousarray(a).tobytes()).hexdigest() + repr(describe(a))
                                                         for a in arrays)).encode()).hexdigest()
                chk.note_case(key, nontrivial=nontrivial,
                              sample={"family": sc["family"], "ops": brief(sc)[:12],
                                      "outcomes": [(r[0] if r[0] == "OK" else r[2]) for r in ires][:12]})
                if msg:
                    bad.append((sc, "correspondence: " + msg))
                for rmsg in resid:
                    n_resid += 1
                    bad.append((sc, "oracle hypothesis / no-write check: " + rmsg))
            chk.cov["traces_validated_against_impl"] = len(cases)
            chk.cov["operations"] = n_ops
            chk.cov["oracle_hypothesis_failures"] = n_resid
        chk.cov["disagreements"] = len(bad)
        if ok and not bad:
            return
        found = search(chk, pyd, base, extra=sorted({id(sc): sc for sc, _ in bad}.values(), key=lambda sc: len(sc["ops"]))[:10])
        if found:
            for sc, fails in found:
                chk.replay({"kind": "property-violation", "call": "pydrex.Mineral.save / load / from_file on a fresh directory",
                            "input": enc_sc(sc), "operations": brief(sc), "observed": fails,
                            "required": "C17 (see properties.jsonl)",
                            "broken": chk.cov.get("broken_obligations", []), "disagreements": [m for _, m in bad[:3]]})
        else:
            chk.replay({"kind": "unproved", "broken": chk.cov.get("broken_obligations", []),
                        "disagreements": [{"operations": brief(sc), "detail": m, "input": enc_sc(sc)} for sc, m in bad[:3]],
                        "note": "proof obligation or correspondence no longer checks; no failing input found by the search"},
                       no_input=True)
    finally:
        shutil.rmtree(base, ignore_errors=True)


def replay(d):
    common.use_repo_source()
    import pydrex as pyd
    quiet()
    if d.get("kind") != "property-violation":
        print("replay file names a broken obligation; re-run the check itself")
        return 1
    base = os.path.join(common.BUILD, f"tmp-{os.getpid()}")
    try:
        fails = oracle(pyd, dec_sc(d["input"]), os.path.join(base, "replay"))
    finally:
        shutil.rmtree(base, ignore_errors=True)
    for f in fails:
        print("still fails:", f)
    return 1 if fails else 0
