"""C08 -- multiphase: each phase evolves independently with its own volume factor."""
from __future__ import annotations

import itertools
import time

import numpy as np

import common
import proofs
import minerals_trace as MT
from props import c01

FILES = ["Model_core.v", "Model_minerals.v", "Proofs_core.v", "Proofs_minerals.v", "Proofs_rhs.v", "Proofs_multiphase.v",
         "Entry_core.v", "Extract_core.v"]
FILES += [f for f in MT.GLUE_TIE_FILES if f not in FILES]   # tie T of the glue model
PROP = "Properties/C08.v"
TOL = 1e-3   # solver tolerance (atol 1e-4 per component): alarm threshold for comparisons that are not required to be bitwise

# flow families with a non-zero strain rate from t = 0 on (the fraction can only matter where the texture evolves)
STRAINING = ["simple", "pure", "axisym", "general", "trace", "time", "position", "shared"]
TEX = ["random", "clustered", "nonuniform"]   # not "single": identical grains have equal strain energies, so boundary migration (the only
                                              # place the fraction enters) is idle and the fraction cannot show
ACCEPTED_REGIMES = (4, 6, 0, 7, 1)          # the regimes core.derivatives accepts
PHI_GRID = [0.1, 0.3, 0.5, 0.7, 0.9]
PHI_BOUNDARY = [0.0, 1.0]
# next to the boundary: negative zero, smallest subnormal, smallest normal, one ulp, 1 - ulp/2 (complement = 1.0 - phi)
PHI_NEAR = [-0.0, 5e-324, 2.2250738585072014e-308, 2.220446049250313e-16, 1.0 - 2.0 ** -53]
# unusual-but-legal spellings of the two option values; the last two make numba compile one more specialisation
# of core.derivatives each (measured: ~1.6 s per process each); they apply to fractions exactly representable that way
VARIANTS_QUICK = ("list", "ndarray", "int-ordinals", "float32", "pyint")
VARIANTS_THOROUGH = VARIANTS_QUICK
C01_ONLY = ("orthonormality error", "left-handed")   # C01's open finding (matrix_diffusion drift) is not C08's subject


def tex_diff(ma, mb):
    d = 0.0
    if len(ma.orientations) != len(mb.orientations):
        return np.inf
    for a, b in zip(ma.orientations, mb.orientations):
        d = max(d, float(np.abs(np.asarray(a) - np.asarray(b)).max()))
    for a, b in zip(ma.fractions, mb.fractions):
        d = max(d, float(np.abs(np.asarray(a) - np.asarray(b)).max()))
    return d


def tex_identical(ma, mb):
    return (len(ma.orientations) == len(mb.orientations)
            and all(np.asarray(a).tobytes() == np.asarray(b).tobytes() for a, b in zip(ma.orientations, mb.orientations))
            and all(np.asarray(a).tobytes() == np.asarray(b).tobytes() for a, b in zip(ma.fractions, mb.fractions)))


# --------------------------------------------------------------------------
# helpers shared by run() and replay()
# --------------------------------------------------------------------------
def own_other(sc):
    import pydrex
    OL, EN = pydrex.MineralPhase.olivine, pydrex.MineralPhase.enstatite
    return (OL, EN) if sc["pair"][0] == 0 else (EN, OL)


def fails_of(h):
    """runtime-monitor failures of a history; in matrix_diffusion C01's open finding (orthonormality drift) is dropped"""
    sc = h["sc"]
    diffusion = sc["regime"] == 1 or bool(sc.get("regime_switch") and 1 in sc["regime_switch"][:2])
    return [m for _, m in h["fails"] if not (diffusion and m.startswith(C01_ONLY))]


def errored(h):
    return any(u["trace"].error is not None for u in h["updates"])


def snap_bytes(m):
    return [(np.asarray(o).tobytes(), np.asarray(f).tobytes()) for o, f in zip(m.orientations, m.fractions)]


def fingerprint(params):
    return {k: (type(v).__name__, repr(v)) for k, v in params.items()}


def drive(rec, m, params, get_L, get_x, sc, dt, F=None, t=0.0, nupd=None):
    """update an EXISTING mineral nupd times (same time grid as c01.run_history); returns (F, t, error)"""
    F = np.eye(3) if F is None else F
    for _ in range(sc["nupd"] if nupd is None else nupd):
        kw = {}
        if sc.get("regime_switch"):
            kw["get_regime"] = (lambda tt, xx, sc=sc: MT.regime_at(sc, tt))
        tr, Fn = rec.update(m, params, F, get_L, (t, t + dt, get_x), **kw)
        if tr.error is not None:
            return F, t, tr.error
        F = Fn
        t += dt
    return F, t, None


def option_variant(name, ass, frs):
    """the same assemblage / fractions in another legal spelling (None: not exactly representable that way)"""
    if name == "list":
        return list(ass), list(frs)
    if name == "ndarray":
        return tuple(ass), np.array(frs, dtype=np.float64)
    if name == "int-ordinals":
        return tuple(int(p) for p in ass), tuple(frs)
    if name == "float32":
        if any(float(np.float32(x)) != x for x in frs):
            return None
        return tuple(ass), tuple(np.float32(x) for x in frs)
    if name == "pyint":
        if any(x not in (0.0, 1.0) for x in frs):
            return None
        return tuple(ass), tuple(int(x) for x in frs)
    raise ValueError(name)


def paired_probe(rec, sc, phi, chk=None, bad=None, variants=()):
    """Clauses of C08 for ONE scenario and ONE own fraction phi (complement 1.0 - phi):
    (a) both list orders, (b) vs the single-phase mineral with M* x phi, (c) the other phase's entry,
    (d) identically built twins, (f) other spellings of the option values.  Returns (messages, difference of (b))."""
    msgs = []
    own, other = own_other(sc)
    comp = 1.0 - phi
    # (a) in assemblage, both list orders
    hA = c01.run_history(rec, sc, (own, other), (phi, comp))
    hB = c01.run_history(rec, sc, (other, own), (comp, phi))
    if chk is not None:
        c01.validate_traces(chk, hA, bad)
        c01.validate_traces(chk, hB, bad)
    msgs += fails_of(hA) + fails_of(hB)
    if not tex_identical(hA["mineral"], hB["mineral"]):
        msgs.append("simultaneously permuting the phase list and the fraction list changed the result")
    # (b) alone with M* x phi
    sc1 = dict(sc, params=dict(sc["params"], gbm_mobility=sc["params"]["gbm_mobility"] * phi))
    h1 = c01.run_history(rec, sc1, (own,), (1.0,))
    if chk is not None:
        c01.validate_traces(chk, h1, bad)
    d = tex_diff(hA["mineral"], h1["mineral"])
    if d > TOL:
        msgs.append(f"mineral in assemblage differs from the single-phase mineral with mobility M* x phi by {d:.3e}")
    if len(hA["F_hist"]) == len(h1["F_hist"]):
        dF = max(float(np.abs(a - b).max() / max(1.0, np.abs(b).max())) for a, b in zip(hA["F_hist"], h1["F_hist"]))
        if not dF <= TOL:
            msgs.append(f"deformation gradient returned in the assemblage differs from the single-phase one by {dF:.3e} (relative)")
    else:
        msgs.append("the run in the assemblage and the single-phase run completed a different number of updates")
    # (c) the other phase's fraction list entry must not matter beyond its own: wrong-fraction probe
    hC = c01.run_history(rec, sc, (own, other), (phi, 0.123456))
    if not tex_identical(hA["mineral"], hC["mineral"]):
        msgs.append("the other phase's volume fraction influenced this mineral")
    # (d) identically built minerals: bit-identical
    hD = c01.run_history(rec, sc, (own, other), (phi, comp))
    if not tex_identical(hA["mineral"], hD["mineral"]):
        msgs.append("two minerals built and driven identically differ")
    # (f) other legal spellings of phase_assemblage / phase_fractions: bit-identical
    if variants and not errored(hA):
        for name in variants:
            v = option_variant(name, (own, other), (phi, comp))
            if v is None:
                continue
            m, params, get_L, get_x, _ = MT.build(sc, (own, other), (phi, comp))
            params["phase_assemblage"], params["phase_fractions"] = v
            Fv, _, err = drive(rec, m, params, get_L, get_x, sc, hA["dt"])
            if chk is not None:
                chk.cov["option_variants"][name] = chk.cov["option_variants"].get(name, 0) + 1
            if err is not None:
                msgs.append(f"option values spelled as [{name}]: update raised {type(err).__name__}: {err}")
            elif not tex_identical(m, hA["mineral"]) or Fv.tobytes() != hA["F_hist"][-1].tobytes():
                msgs.append(f"option values spelled as [{name}] (same phases, same fractions) changed the result")
    return msgs, d


def alias_probe(rec, sc, phi):
    """Hidden state / aliasing: two minerals built from the SAME initial array objects, one params dict and one
    starting F shared by every call, the returned F modified in place by the caller, updates of decoy minerals
    (same phase with other fractions and mobility, other phase) interleaved -- some of them through the SAME params dict,
    edited for the decoy and set back -- all bit-identical to an undisturbed run."""
    import pydrex
    msgs = []
    own, other = own_other(sc)
    comp = 1.0 - phi
    ass, frs = (own, other), (phi, comp)
    href = c01.run_history(rec, sc, ass, frs)
    if errored(href):
        return fails_of(href)
    dt = href["dt"]
    O, f = MT.init_texture(np.random.default_rng(sc["seed"]), sc["n"], sc["tkind"])
    O0, f0 = O.copy(), f.copy()

    def mk():
        return pydrex.Mineral(phase=sc["pair"][0], fabric=sc["pair"][1], regime=sc["regime"], n_grains=sc["n"],
                              fractions_init=f, orientations_init=O)
    A, B = mk(), mk()
    _, params, get_L, get_x, _ = MT.build(sc, ass, frs)
    pkeep = fingerprint(params)
    dec = {k: v for k, v in sc.items() if k != "regime_switch"}

    def decoy_on_shared_dict(seed_off, dass, dfrs):
        """the caller's ONE params dict, edited for another mineral's update and set back afterwards"""
        dsc = dict(dec, seed=sc["seed"] + seed_off)
        D, _, dL, dx, _ = MT.build(dsc, dass, dfrs)
        saved = {k: params[k] for k in ("phase_assemblage", "phase_fractions", "gbm_mobility")}
        params.update(phase_assemblage=tuple(dass), phase_fractions=tuple(dfrs), gbm_mobility=saved["gbm_mobility"] + 25.0)
        drive(rec, D, params, dL, dx, dsc, dt, nupd=1)
        params.update(saved)

    decoy_on_shared_dict(3, (other, own), (0.375, 0.625))          # same phase, another fraction, BEFORE this mineral's first update
    F0 = np.eye(3)
    Fa, ta, err = drive(rec, A, params, get_L, get_x, sc, dt, F=F0, nupd=1)
    if err is not None:
        return [f"aliased twin: update raised {type(err).__name__}: {err}"]
    if O.tobytes() != O0.tobytes() or f.tobytes() != f0.tobytes():
        msgs.append("the update modified the caller's initial texture arrays in place")
    if len(B.orientations) != 1 or snap_bytes(B) != [(O0.tobytes(), f0.tobytes())]:
        msgs.append("updating one mineral changed another mineral built from the same initial arrays")
    if F0.tobytes() != np.eye(3).tobytes():
        msgs.append("the update modified the caller's deformation gradient in place")
    if fingerprint(params) != pkeep:
        msgs.append("the update modified the caller's params dict")
    keepA = snap_bytes(A)
    Fa_keep = Fa.copy()
    Fa *= 3.0                       # the caller reuses the returned array
    Fa[0, 0] = np.nan
    if snap_bytes(A) != keepA:
        msgs.append("modifying the returned deformation gradient changed the mineral's stored texture")
    # decoys with their own params dicts: same phase / other fractions, mobility, regime; and the other phase
    decoy_on_shared_dict(7, (own, other), (0.875, 0.125))
    for dsc, dass, dfrs in (
            (dict(dec, seed=sc["seed"] + 5, regime=(4 if sc["regime"] == 6 else 6),
                  params=dict(sc["params"], gbm_mobility=sc["params"]["gbm_mobility"] + 50.0)), (other, own), (0.25, 0.75)),
            (dict(dec, seed=sc["seed"] + 9, regime=4, pair=((1, 5) if sc["pair"][0] == 0 else (0, 0))), ass, (0.6, 0.4))):
        D, dparams, dL, dx, _ = MT.build(dsc, dass, dfrs)
        drive(rec, D, dparams, dL, dx, dsc, dt, nupd=1)
    Fa2, _, err = drive(rec, A, params, get_L, get_x, sc, dt, F=Fa_keep, t=ta, nupd=sc["nupd"] - 1)
    Fb, _, errb = drive(rec, B, params, get_L, get_x, sc, dt, F=F0)
    if err is not None or errb is not None:
        e = err if err is not None else errb
        msgs.append(f"aliased twin: update raised {type(e).__name__}: {e}")
        return msgs
    Fref = href["F_hist"][-1]
    if not tex_identical(A, href["mineral"]) or Fa2.tobytes() != Fref.tobytes():
        msgs.append("updates of other minerals (other fractions / mobility / phase, own or reused-and-restored params dict) before / between this mineral's updates changed its result")
    if not tex_identical(B, href["mineral"]) or Fb.tobytes() != Fref.tobytes():
        msgs.append("a mineral built from the same initial arrays as an already updated one differs from an independently built one")
    if fingerprint(params) != pkeep:
        msgs.append("the update modified the caller's params dict")
    return msgs


def bulk_probe(sco, phi):
    """(e) bulk update: order of the minerals, interleaving, batch vs single calls, common starting F."""
    import pydrex
    OL, EN = pydrex.MineralPhase.olivine, pydrex.MineralPhase.enstatite
    msgs = []
    sce = dict(sco, pair=(1, 5), seed=sco["seed"] + 17)
    sce["flow_seed"] = sco["seed"] + 1
    ass, frs = (OL, EN), (phi, 1 - phi)

    def fresh():
        mo, params, get_L, get_x, _ = MT.build(sco, ass, frs)
        me, _, _, _, _ = MT.build(sce, ass, frs)
        return mo, me, params, get_L, get_x

    eye = np.eye(3)
    mo1, me1, params, get_L, get_x = fresh()
    pkeep = fingerprint(params)
    F1a = pydrex.update_all([mo1, me1], params, eye, get_L, (0.0, 0.25, get_x))
    F1a_keep = F1a.copy()
    F1 = pydrex.update_all([mo1, me1], params, F1a, get_L, (0.25, 0.5, get_x))
    if eye.tobytes() != np.eye(3).tobytes() or F1a.tobytes() != F1a_keep.tobytes():
        msgs.append("update_all modified the caller's deformation gradient in place")
    if fingerprint(params) != pkeep:
        msgs.append("update_all modified the caller's params dict")
    mo2, me2, params, get_L, get_x = fresh()
    F2a = pydrex.update_all([me2, mo2], params, np.eye(3), get_L, (0.0, 0.25, get_x))
    F2 = pydrex.update_all([me2, mo2], params, F2a, get_L, (0.25, 0.5, get_x))
    mo3, me3, params, get_L, get_x = fresh()     # fully separated: all olivine updates first
    Fa = mo3.update_orientations(params, np.eye(3), get_L, (0.0, 0.25, get_x))
    Fa2 = mo3.update_orientations(params, Fa, get_L, (0.25, 0.5, get_x))
    Fb = me3.update_orientations(params, np.eye(3), get_L, (0.0, 0.25, get_x))
    Fb2 = me3.update_orientations(params, Fb, get_L, (0.25, 0.5, get_x))
    # F fed to the second call differs by rounding between orders (last mineral's F), so compare
    # first-interval snapshots bitwise and the rest at solver tolerance
    for a, b, nm in ((mo1, mo2, "olivine"), (me1, me2, "enstatite"), (mo1, mo3, "olivine"), (me1, me3, "enstatite")):
        if np.asarray(a.orientations[1]).tobytes() != np.asarray(b.orientations[1]).tobytes():
            msgs.append(f"{nm}: reordering / interleaving the minerals changed the first update bitwise")
        if tex_diff(a, b) > TOL:
            msgs.append(f"{nm}: reordering / interleaving the minerals changed the textures by {tex_diff(a, b):.3e}")
    # batch vs single calls: update_all returns the LAST mineral's F, every mineral starts from the common F
    if F1a_keep.tobytes() != np.asarray(Fb).tobytes() or np.asarray(F2a).tobytes() != np.asarray(Fa).tobytes():
        msgs.append("update_all did not return the deformation gradient of its last mineral updated from the common starting F")
    for Fx, nm in ((F1, "[olivine, enstatite]"), (F2, "[enstatite, olivine]")):
        for Fy in (Fa2, Fb2):
            if not float(np.abs(np.asarray(Fx) - np.asarray(Fy)).max()) <= TOL * max(1.0, float(np.abs(Fy).max())):
                msgs.append(f"update_all over {nm}: returned deformation gradient differs from the separately updated minerals'")
    # separately updated minerals that are fed the bulk run's F are bitwise comparable over the whole history
    mo4, me4, params, get_L, get_x = fresh()
    G = pydrex.update_all([mo4], params, np.eye(3), get_L, (0.0, 0.25, get_x))         # batch of one
    if G.tobytes() != np.asarray(Fa).tobytes() or snap_bytes(mo4) != snap_bytes(mo3)[:2]:
        msgs.append("update_all over a single mineral differs from that mineral's update_orientations")
    mo4.update_orientations(params, F1a_keep, get_L, (0.25, 0.5, get_x))
    me4.update_orientations(params, np.eye(3), get_L, (0.0, 0.25, get_x))
    me4.update_orientations(params, F1a_keep, get_L, (0.25, 0.5, get_x))
    if not tex_identical(mo4, mo1) or not tex_identical(me4, me1):
        msgs.append("minerals updated in one update_all call differ bitwise from the same minerals updated by separate calls from the same F")
    return msgs


def same_phase_bulk_probe(sco, phi):
    """update_all over a list that holds SEVERAL minerals of the same phase (two olivine populations of different fabric and
    texture + enstatite; identical twins): every mineral of the list must come out bit-identical to the same mineral updated alone
    by update_orientations from the common starting F (minerals share no hidden state; the bulk update 'loops over minerals')."""
    import pydrex
    OL, EN = pydrex.MineralPhase.olivine, pydrex.MineralPhase.enstatite
    msgs = []
    ass, frs = (OL, EN), (phi, 1 - phi)
    sc_b = dict(sco, pair=(0, (sco["pair"][1] + 1 + sco["seed"] % 4) % 5), seed=sco["seed"] + 29, flow_seed=sco["seed"] + 1)   # another olivine fabric / texture
    sc_e = dict(sco, pair=(1, 5), seed=sco["seed"] + 17, flow_seed=sco["seed"] + 1)
    sc_t = dict(sco, flow_seed=sco["seed"] + 1)                                                                                # the first one's twin
    scs = [dict(sco, flow_seed=sco["seed"] + 1), sc_b, sc_e, sc_t]

    def fresh():
        built = [MT.build(x, ass, frs) for x in scs]
        return [b[0] for b in built], built[0][1], built[0][2], built[0][3]

    for order in ((0, 1, 2, 3), (2, 3, 1, 0)):
        ms, params, get_L, get_x = fresh()
        F0 = np.eye(3) + 0.1 * np.arange(9.0).reshape(3, 3) / 9
        Fb = pydrex.update_all([ms[i] for i in order], params, F0.copy(), get_L, (0.0, 0.25, get_x))
        Fb2 = pydrex.update_all([ms[i] for i in order], params, Fb, get_L, (0.25, 0.5, get_x))
        ref, _, _, _ = fresh()
        Flast = None
        for i in order:
            Fa = ref[i].update_orientations(params, F0.copy(), get_L, (0.0, 0.25, get_x))
            Flast = ref[i].update_orientations(params, Fb, get_L, (0.25, 0.5, get_x))
        names = ("olivine #1", "olivine #2 (other fabric)", "enstatite", "olivine #1's twin")
        for i in order:
            if len(ms[i].orientations) != 3:
                msgs.append(f"update_all over {[names[j] for j in order]}: {names[i]} has {len(ms[i].orientations) - 1} new snapshots after two bulk updates, not 2")
            elif not tex_identical(ms[i], ref[i]):
                msgs.append(f"update_all over {[names[j] for j in order]}: {names[i]} differs from the same mineral updated alone from the common F "
                            f"by {tex_diff(ms[i], ref[i]):.3e}")
        if np.asarray(Fb2).tobytes() != np.asarray(Flast).tobytes():
            msgs.append("update_all over several minerals of one phase did not return the deformation gradient of its last mineral")
        if not tex_identical(ms[0], ms[3]):
            msgs.append("identical twins handed to one update_all call came out different")
    return msgs


DEGENERATE = ("fractions-long", "duplicate-phase", "phase-missing", "fractions-short")


def degenerate_probe(rec, sc, phi, kind, chk=None, bad=None):
    """Malformed / degenerate option values.  Extra trailing fractions and a repeated phase (first occurrence wins,
    as in the model's index_of) must not change the result; an update that fails because the own phase is missing /
    has no fraction must raise, leave the stored history alone and not poison later updates."""
    msgs = []
    own, other = own_other(sc)
    comp = 1.0 - phi
    href = c01.run_history(rec, sc, (own, other), (phi, comp))
    if errored(href):
        return fails_of(href)
    if kind == "fractions-long":
        h = c01.run_history(rec, sc, (own, other), (phi, comp, 0.5))
        msgs += fails_of(h)
        if not tex_identical(h["mineral"], href["mineral"]):
            msgs.append("a surplus trailing entry of phase_fractions influenced this mineral")
    elif kind == "duplicate-phase":
        for ass, frs in (((own, own, other), (phi, 0.9, comp)), ((other, own, own), (comp, phi, 0.9))):
            h = c01.run_history(rec, sc, ass, frs)
            if chk is not None:
                c01.validate_traces(chk, h, bad)
            msgs += fails_of(h)
            if not tex_identical(h["mineral"], href["mineral"]):
                msgs.append("with a phase listed twice the fraction of its first occurrence was not the one used")
    else:
        ass, frs = ((other,), (1.0,)) if kind == "phase-missing" else ((other, own), (1.0,))
        m, params, get_L, get_x, _ = MT.build(sc, ass, frs)
        keep = snap_bytes(m)
        F0 = np.eye(3)
        _, _, err = drive(rec, m, params, get_L, get_x, sc, href["dt"], F=F0, nupd=1)
        if err is None:
            msgs.append(f"[{kind}] the update did not raise although this mineral's phase has no volume fraction")
        if snap_bytes(m) != keep:
            msgs.append(f"[{kind}] the failed update changed the stored history")
        if F0.tobytes() != np.eye(3).tobytes():
            msgs.append(f"[{kind}] the failed update modified the caller's deformation gradient")
        if kind == "phase-missing" and chk is not None and rec.traces and rec.traces[-1].y_start is not None:
            y0 = rec.traces[-1].y_start
            L, s, Sd = MT.oracle_values(get_L, get_x, 0.0, y0)
            r = common.run_model([MT.rhs_line(sc, params, L, s, Sd, y0, t=0.0)], "core")[0]
            chk.note_case(("degenerate", kind, sc["seed"]), nontrivial=True)
            if r[0] != "ERR":
                bad.append((sc, f"own phase missing from the assemblage: the implementation raised, the model returned {r[0]}"))
        # the same mineral object, now with well-formed options, must behave like a fresh one
        params["phase_assemblage"], params["phase_fractions"] = (own, other), (phi, comp)
        F, _, err2 = drive(rec, m, params, get_L, get_x, sc, href["dt"], F=F0)
        if err2 is not None:
            msgs.append(f"[{kind}] after a failed update a well-formed update raised {type(err2).__name__}: {err2}")
        elif not tex_identical(m, href["mineral"]) or F.tobytes() != href["F_hist"][-1].tobytes():
            msgs.append(f"[{kind}] a failed update left state behind: later well-formed updates differ from a fresh mineral's")
    return msgs


# --------------------------------------------------------------------------
# interleaved histories of INDEPENDENT minerals that share their evaluation points (round 7)
# --------------------------------------------------------------------------
# The decoys of alias_probe / the minerals of bulk_probe either follow their own pathline (MT.build: x(t) = v t with v drawn per
# flow seed) or share ONE velocity-gradient callable (update_all), and consecutive calls of different minerals never start where
# the previous call ended.  State kept by the library between calls and keyed on WHERE / WHEN the right-hand side was evaluated
# (not on which mineral / callable / params asked) is invisible to them: it needs several minerals -- or one mineral whose callable
# is replaced -- evaluated at EXACTLY the same (t, x) with different velocity gradients there.  This family: J minerals (same or
# different phase, own fabric / regime / params / fraction / assemblage order / texture / flow family and rate) on ONE pathline
# (stationary point, the origin, one position array object handed out on every call, a common moving pathline; control: distinct
# positions) stepped over ONE time grid (exact binary steps; starting at 0, at a negative time, at a positive one), the call
# sequences merged in several orders.  Oracle = the property text: every mineral of every merged order is bit-identical (all stored
# snapshots, every returned F) to the identically built mineral updated alone, the caller's arguments are untouched.
POINT_FAMILIES = ("stationary", "origin", "shared-array", "shared-pathline", "distinct")
COINCIDENT_POINTS = POINT_FAMILIES[:4]
SCHEDULES = ("round-robin", "reverse-round-robin", "random-merge", "spaced")     # + "alone": the reference
T_STARTS = ("zero", "negative", "positive")
IL_RATES = (1.0, -1.5, 0.5, 3.0, -4.0, 2.0)      # strain-rate scales of the minerals' flows (negative: the reversed flow)
IL_FLOWS = ["simple", "pure", "axisym", "general", "trace", "time", "position", "shared"]


def _il_flow(sc):
    """the velocity-gradient callable MT.build gives this scenario (same PRNG stream)"""
    return MT.make_L(np.random.default_rng(sc.get("flow_seed", sc["seed"] + 1)), sc["lkind"], scale=sc.get("rate", 1.0))[0]


def _il_alt_flow(a):
    return MT.make_L(np.random.default_rng(a["flow_seed"]), a["lkind"], scale=a["rate"])[0]


def _il_position(case):
    """j -> get_position callable of mineral j (the SAME points for every mineral unless the family is the control)"""
    x0, v = np.array(case["x0"], dtype=float), np.array(case["v"], dtype=float)
    fam = case["points"]
    if fam == "shared-array":
        buf = x0.copy()
        return (lambda j: (lambda t: buf)), buf
    if fam == "shared-pathline":
        return (lambda j: (lambda t: x0 + v * t)), None
    if fam == "distinct":
        return (lambda j: (lambda t, j=j: x0 + float(j) * v)), None
    return (lambda j: (lambda t: x0.copy())), None          # stationary / origin


def interleave_case(rng, points, J, K, t_start, replaced=(), same_phase=None):
    """One history family (JSON-able): J minerals x K steps on shared evaluation points.  `replaced`: indices of the minerals
    whose velocity-gradient callable is REPLACED by another one on every odd step."""
    minerals, scales = [], []
    first_phase = int(rng.integers(2))
    for j in range(J):
        ph = first_phase if (j == 0 or same_phase) else ((1 - first_phase) if same_phase is False and j == 1 else int(rng.integers(2)))
        pair = (0, int(rng.integers(0, 5))) if ph == 0 else (1, 5)
        sc = MT.scenario(rng, regime=int((4, 6)[int(rng.integers(2))]), pair=pair, n=int(rng.integers(3, 10)), nupd=K,
                         lkind=IL_FLOWS[int(rng.integers(len(IL_FLOWS)))], tkind=TEX[int(rng.integers(len(TEX)))])
        sc["rate"] = float(IL_RATES[(j + int(rng.integers(len(IL_RATES)))) % len(IL_RATES)])
        mn = dict(sc=sc, phi=float((PHI_GRID + [float(rng.uniform(0, 1))])[int(rng.integers(6))]), own_first=bool(rng.integers(2)))
        if j in replaced:
            mn["alt"] = dict(lkind=IL_FLOWS[int(rng.integers(5))], flow_seed=int(rng.integers(0, 2**31 - 1)),
                             rate=float(-sc["rate"] * (1.5, 0.5, 2.0)[int(rng.integers(3))]))
        minerals.append(mn)
    x0 = np.zeros(3) if points == "origin" else rng.normal(size=3)
    v = rng.normal(size=3)
    case = dict(points=points, x0=[float(c) for c in x0], v=[float(c) for c in v], nsteps=int(K), t_start_kind=t_start,
                minerals=minerals, schedule_seed=int(rng.integers(0, 2**31 - 1)), strain=float(rng.uniform(0.4, 0.8)))
    # one time grid for all: the fastest flow accumulates `strain`; dt is a power of two so that every t_start + k dt is exact
    pos, _ = _il_position(case)
    smax = 0.0
    for j, mn in enumerate(minerals):
        for get_L in [_il_flow(mn["sc"])] + ([_il_alt_flow(mn["alt"])] if mn.get("alt") else []):
            L = np.asarray(get_L(0.0, pos(j)(0.0)), dtype=float)
            smax = max(smax, float(np.abs(np.linalg.eigvalsh((L + L.T) / 2)).max()))
    dt = 2.0 ** np.floor(np.log2(case["strain"] / (K * smax))) if smax > 0 else 0.125
    case["dt"] = float(dt)
    case["t_start"] = float({"zero": 0.0, "negative": -K * dt, "positive": 5 * dt}[t_start])
    return case


def il_decode(case):
    """a case that went through JSON (replay file): tuples back"""
    for mn in case["minerals"]:
        mn["sc"]["pair"] = tuple(mn["sc"]["pair"])
    return case


def il_schedule(case, name):
    """process order of the update calls: (j, k) = step k of mineral j; "spacer" = an unrelated mineral elsewhere"""
    J, K = len(case["minerals"]), case["nsteps"]
    alone = [(j, k) for j in range(J) for k in range(K)]
    if name == "alone":
        return alone
    if name == "round-robin":            # A[t0,t1], B[t0,t1], A[t1,t2], B[t1,t2], ...
        return [(j, k) for k in range(K) for j in range(J)]
    if name == "reverse-round-robin":
        return [(j, k) for k in range(K) for j in reversed(range(J))]
    if name == "random-merge":           # a random merge that keeps every mineral's own order
        done = [0] * J
        out = []
        for j in np.random.default_rng(case["schedule_seed"]).permutation(np.repeat(np.arange(J), K)):
            out.append((int(j), done[int(j)]))
            done[int(j)] += 1
        return out
    if name == "spaced":                 # every mineral alone, an unrelated update (other place, other time) between any two calls
        out = []
        for it in alone:
            out += [it, "spacer"]
        return out
    raise ValueError(name)


def il_run(case, name, stats=None):
    """build every mineral of the case afresh and make the calls in the order of schedule `name`"""
    import argguard as AG
    built = []
    for mn in case["minerals"]:
        sc = mn["sc"]
        own, other = own_other(sc)
        phi = mn["phi"]
        ass, frs = ((own, other), (phi, 1.0 - phi)) if mn["own_first"] else ((other, own), (1.0 - phi, phi))
        m, params, get_L, _, _ = MT.build(sc, ass, frs)
        built.append((m, params, [get_L] + ([_il_alt_flow(mn["alt"])] if mn.get("alt") else [])))
    pos, buf = _il_position(case)
    buf_keep = None if buf is None else buf.copy()
    K = case["nsteps"]
    times = [case["t_start"] + k * case["dt"] for k in range(K + 1)]
    F = [np.eye(3) for _ in built]
    out = dict(minerals=[b[0] for b in built], F_hist=[[] for _ in built], faults=[], error=None)
    spacer = None
    last = None          # where the previous call of the process ended: (t, position bytes, velocity gradient there)
    for it in il_schedule(case, name):
        if it == "spacer":
            if spacer is None:
                ssc = dict(case["minerals"][0]["sc"], n=3, seed=case["schedule_seed"], lkind="general", rate=1.0)
                spacer = MT.build(ssc)
            sm, sparams, sL, sx, _ = spacer
            try:
                sm.update_orientations(sparams, np.eye(3), sL, (times[0] - 2.75 * case["dt"], times[0] - 2.5 * case["dt"],
                                                               lambda t: np.array([7.5, -3.25, 1.125])))
            except Exception as e:  # noqa: BLE001
                out["error"] = f"[{name}] spacer update raised {type(e).__name__}: {e}"
                return out
            last = None
            continue
        j, k = it
        m, params, Ls = built[j]
        get_L, get_x = Ls[k % len(Ls)], pos(j)
        if stats is not None:
            xs = np.asarray(get_x(times[k]), dtype=float)
            here = (times[k], xs.tobytes(), np.asarray(get_L(times[k], xs), dtype=float).tobytes())
            if last is not None and last[:2] == here[:2] and last[2] != here[2]:
                # the situation the family is about: this call starts exactly where the previous call of the process ended,
                # with another velocity gradient there
                stats["calls starting where the previous call ended, other gradient"] = \
                    stats.get("calls starting where the previous call ended, other gradient", 0) + 1
            stats["update calls"] = stats.get("update calls", 0) + 1
        try:
            Fn, faults = AG.guarded(m.update_orientations, (params, F[j], get_L, (times[k], times[k + 1], get_x)))
        except Exception as e:  # noqa: BLE001
            out["error"] = f"[{name}] mineral #{j}, step {k}: update raised {type(e).__name__}: {e}"
            return out
        out["faults"] += [f"[{name}] mineral #{j}, step {k}: argument of update_orientations " + f for f in faults]
        if stats is not None:
            xe = np.asarray(get_x(times[k + 1]), dtype=float)
            last = (times[k + 1], xe.tobytes(), np.asarray(get_L(times[k + 1], xe), dtype=float).tobytes())
        F[j] = Fn
        out["F_hist"][j].append(np.array(Fn, dtype=float).tobytes())
    if buf is not None and buf.tobytes() != buf_keep.tobytes():
        out["faults"].append(f"[{name}] the position array handed out by the caller's pathline callable was modified in place")
    return out


def interleave_probe(case, schedules=SCHEDULES, stats=None):
    """C08's interleaving / no-hidden-state / identical-twins clauses on one case; returns (messages, every texture evolved?)"""
    msgs = []
    ref = il_run(case, "alone", stats)
    if ref["error"]:
        return [ref["error"]], False
    msgs += ref["faults"]
    evolved = all(len(m.orientations) == case["nsteps"] + 1
                  and np.asarray(m.orientations[-1]).tobytes() != np.asarray(m.orientations[0]).tobytes() for m in ref["minerals"])
    names = ("olivine", "enstatite")
    for name in schedules:
        run_ = il_run(case, name, stats)
        if run_["error"]:
            msgs.append(run_["error"])
            continue
        msgs += run_["faults"]
        for j, (ma, mb) in enumerate(zip(ref["minerals"], run_["minerals"])):
            sa, sb = snap_bytes(ma), snap_bytes(mb)
            who = (f"mineral #{j} ({names[case['minerals'][j]['sc']['pair'][0]]}, regime {case['minerals'][j]['sc']['regime']}"
                   + (", velocity-gradient callable replaced between steps" if case["minerals"][j].get("alt") else "") + ")")
            what = (f"of {len(case['minerals'])} minerals on the same evaluation points ({case['points']}, one time grid) with different "
                    f"velocity gradients, calls merged as [{name}]")
            if sa != sb:
                k = next((i for i, (a, b) in enumerate(zip(sa, sb)) if a != b), min(len(sa), len(sb)))
                msgs.append(f"{who} {what}: textures differ from the identically built mineral updated alone from snapshot {k} on "
                            f"(max difference {tex_diff(ma, mb):.3e}): interleaving updates of other minerals changed the outcome")
            elif ref["F_hist"][j] != run_["F_hist"][j]:
                msgs.append(f"{who} {what}: a returned deformation gradient differs from the identically built mineral updated alone")
    return msgs, evolved


def interleave_plan(rng, tier, only_coincident=False):
    """(case, schedules) of the tier.  Per repetition one case per point family + one single mineral with a replaced callable,
    phases / time origins / replaced callables rotated by the seed and the repetition; every schedule.  Quick: 3 repetitions
    (18 cases, ~600 update calls of 3-9 grains, ~2 s), thorough: 24."""
    plan = []
    reps = 3 if tier == "quick" else 24
    fams = list(COINCIDENT_POINTS if only_coincident else POINT_FAMILIES)
    for r in range(reps):
        o = int(rng.integers(6))
        for i, fam in enumerate(fams):
            J = 2 + (i + o) % 2
            K = 2 + (i + o + r) % 2 if tier == "quick" else int(rng.integers(2, 5))
            replaced = ((i + o) % J,) if (i + o + r) % 3 == 0 else ()
            case = interleave_case(rng, fam, J, K, T_STARTS[(i + o + r) % 3], replaced=replaced,
                                   same_phase=(None, True, False)[(i + o) % 3])
            plan.append((case, SCHEDULES))
        # ONE mineral whose velocity-gradient callable is replaced between consecutive steps: alone vs separated by unrelated updates
        case = interleave_case(rng, fams[(o + r) % 4], 1, 3, T_STARTS[(o + r + 1) % 3], replaced=(0,))
        plan.append((case, ("spaced",)))
    return plan


def boundary_cells(rng, tier):
    """structured sweep: every accepted regime x both phases x fractions exactly 0 and exactly 1 (+ one grid value in
    the cells the random stream never visits: olivine / frictional_yielding, enstatite / matrix_dislocation, the null
    regimes and matrix_diffusion), straining flows; one cell per regime has the regime supplied by a get_regime callable"""
    cells = []
    reps = 1 if tier == "quick" else 4
    for _ in range(reps):
        for regime in ACCEPTED_REGIMES:
            for ph in (0, 1):
                phis = list(PHI_BOUNDARY) + [float(PHI_GRID[rng.integers(5)])]
                if tier == "quick" and regime in (0, 7):
                    phis = [PHI_BOUNDARY[(ph + regime) % 2]]          # null regimes: nothing evolves, one cell each
                for phi in phis:
                    pair = (0, int(rng.integers(0, 5))) if ph == 0 else (1, 5)
                    sc = MT.scenario(rng, regime=regime, pair=pair, n=int(rng.integers(3, 10)), nupd=2,
                                     lkind=STRAINING[rng.integers(len(STRAINING))], tkind=TEX[rng.integers(len(TEX))])
                    cells.append((sc, phi, "boundary" if phi in PHI_BOUNDARY else "grid"))
    # the regime comes from a get_regime callable (overrides the constructed one / switches along the history)
    for (built, r1, r2), phi in zip(((7, 4, 4), (4, 6, 4), (4, 4, 6), (0, 6, 6)), (0.0, 0.0, 1.0, 1.0)):
        for ph in ((0, 1) if tier == "thorough" else (int(rng.integers(2)),)):
            pair = (0, int(rng.integers(0, 5))) if ph == 0 else (1, 5)
            sc = MT.scenario(rng, regime=built, pair=pair, n=int(rng.integers(3, 8)), nupd=2,
                             lkind=("simple", "general")[int(rng.integers(2))], tkind=TEX[rng.integers(len(TEX))])
            sc["regime_switch"] = [r1, r2, 0.0 if r1 == r2 else float(rng.uniform(0.05, 0.3))]
            cells.append((sc, phi, "boundary"))
    # get_regime moves a mineral whose STORED regime has no boundary migration (matrix_diffusion, min / max viscosity) into
    # dislocation creep: from the first evaluation on, part-way through an update, and at the start of the second update (the
    # regime the previous call left on the object); interior fractions -- anything resolved once per call from the stored
    # regime (seeded change C08d: fraction looked up only when self.regime is a migration regime) shows here and nowhere else
    for j, (built, r1, r2, mode) in enumerate(((1, 4, 4, "override"), (0, 6, 6, "override"), (7, 7, 4, "inside"),
                                               (1, 1, 6, "inside"), (4, 0, 4, "second_update"), (6, 1, 6, "second_update"))):
        for ph in ((0, 1) if tier == "thorough" else ((j + int(rng.integers(2))) % 2,)):
            pair = (0, int(rng.integers(0, 5))) if ph == 0 else (1, 5)
            # responsive textures: many comparable grains, strong mobility, little sliding, enough strain, a clear fraction
            sc = MT.scenario(rng, regime=built, pair=pair, n=int(rng.integers(6, 13)), nupd=2,
                             lkind=("simple", "general", "pure")[int(rng.integers(3))], tkind=("random", "clustered")[int(rng.integers(2))],
                             strain=float(rng.uniform(0.5, 0.8)))
            sc["params"]["gbm_mobility"] = float(rng.uniform(100, 200))
            sc["params"]["gbs_threshold"] = float(rng.uniform(0.0, 0.2))
            sc["regime_switch"] = [r1, r2, 0.0]
            if mode == "inside":
                sc["regime_switch_update"] = float(rng.uniform(0.1, 0.4))     # c01.run_history: switch time = this x dt
            if mode == "second_update":
                sc["regime_switch_update"] = 1
            cells.append((sc, float((0.1, 0.3, 0.5)[int(rng.integers(3))]), "grid"))
    return cells


def run(chk):
    ok, br = proofs.prove(chk, FILES, PROP, groups=("core",), gen_modules=MT.GLUE_TIE_GEN)
    import pydrex
    OL, EN = pydrex.MineralPhase.olivine, pydrex.MineralPhase.enstatite
    chk.cov["trusted_base"] = common.TRUSTED_COMMON + [MT.GLUE_TIE_TRUSTED,
        "hand-written Model_minerals.lookup_fraction / rhs, tied by trace validation in multiphase assemblages of both orders",
        "NOT expressible in the model: hidden runtime state (LSODA's Fortran work arrays, numba caches, module globals): interleaving / reordering / bit-identity are runtime-checked on paired runs",
    ]
    chk.cov["rule"] = ("paired runs: a mineral in assemblages (ol,en) / (en,ol) with fractions (phi, 1-phi), phi on a grid, vs the same mineral alone with M* x phi "
                       "(texture difference must stay below the solver tolerance; the vector fields are proved equal); simultaneous permutation of phase and fraction "
                       "lists, reordered mineral lists in update_all, interleaved update sequences and identically built minerals must give bit-identical results; "
                       "every update trace-validated; non-trivial = texture changed.  "
                       "Boundary sweep: every accepted regime {4,6,0,7,1} x {olivine, enstatite} x phi exactly 0 and exactly 1 (+ a grid value), both list orders, "
                       "straining flows, incl. regimes supplied by a get_regime callable; near-boundary fractions (-0.0, subnormal, one ulp, 1 - ulp/2); "
                       "option values spelled as lists / ndarray / int ordinals / float32 / Python int (where exactly representable) must be bit-identical; "
                       "update_all over several minerals of the SAME phase (two olivine populations + enstatite + a twin, two list orders: each bit-identical to the mineral updated alone); "
                       "aliasing stream (two minerals from the same initial arrays, shared params dict and starting F, returned F modified in place, decoy minerals "
                       "with other fractions interleaved); batch vs single calls of update_all; degenerate stream (surplus fractions, duplicated phase, own phase "
                       "missing, too few fractions: must raise without touching the history or poisoning later updates); "
                       "interleave stream: 1-3 independent minerals (same / different phase, own params, flow family and rate, callable replaced "
                       "between steps) on ONE pathline (stationary, origin, one position array object, common moving pathline; control: distinct "
                       "positions) and ONE exact time grid (start 0 / negative / positive), call sequences merged round-robin / reversed / "
                       "randomly / separated by unrelated updates: every mineral bit-identical (snapshots, returned F) to its identically "
                       "built twin updated alone; module-state digest (harness/purity.py) around the stream, a change extends the search")
    bad, mon = [], []          # mon: (probe kind, scenario, phi, message, extra replay fields)
    rng = np.random.default_rng(chk.seed)
    rng2 = np.random.default_rng([chk.seed, 0xC08])      # the families added later: independent stream, same seed
    hist = chk.cov.setdefault("phi_family_histogram", {})
    cells_h = chk.cov.setdefault("boundary_cells(regime/phase/phi)", {})
    chk.cov["option_variants"] = {}
    probes_h = chk.cov.setdefault("probe_histogram", {})

    def count(h, k):
        h[k] = h.get(k, 0) + 1

    if br.drivers.get("core", 1) is None:
        worst = 0.0
        variants = VARIANTS_QUICK if chk.tier == "quick" else VARIANTS_THOROUGH
        with MT.Recorder() as rec:
            N = 5 if chk.tier == "quick" else 60
            for i in range(N):
                pair = (0, int(rng.integers(0, 5))) if i % 2 == 0 else (1, 5)
                sc = MT.scenario(rng, regime=int((4, 6)[i % 2]), pair=pair, n=int(rng.integers(3, 12)), nupd=2)
                phi = float([0.1, 0.3, 0.5, 0.7, 0.9][rng.integers(5)])
                msgs, d = paired_probe(rec, sc, phi, chk, bad)
                worst = max(worst, d)
                mon += [("paired", sc, phi, m, {}) for m in msgs]
                count(hist, "grid")
                count(probes_h, "paired")
            # boundary of the simplex, every accepted regime, both phases (both list orders inside the probe)
            for sc, phi, fam in boundary_cells(rng2, chk.tier):
                msgs, d = paired_probe(rec, sc, phi, chk, bad, variants=variants)
                worst = max(worst, d)
                mon += [("paired", sc, phi, m, {"variants": list(variants)}) for m in msgs]
                count(hist, fam if fam == "grid" else f"boundary-{phi:g}")
                reg = sc["regime"] if not sc.get("regime_switch") else "get_regime:%d->%d" % tuple(sc["regime_switch"][:2])
                count(cells_h, f"{reg}/{('olivine', 'enstatite')[sc['pair'][0]]}/{phi:g}")
                count(probes_h, "paired")
            # next to the boundary + uniform draws from the closed interval
            near = list(PHI_NEAR) if chk.tier == "thorough" else [PHI_NEAR[j] for j in rng2.permutation(len(PHI_NEAR))[:3]]
            unif = [float(rng2.uniform(0, 1)) for _ in range(2 if chk.tier == "quick" else 40)]
            for j, phi in enumerate(near + unif):
                pair = (0, int(rng2.integers(0, 5))) if j % 2 == 0 else (1, 5)
                sc = MT.scenario(rng2, regime=int((4, 6)[(j // 2) % 2]), pair=pair, n=int(rng2.integers(3, 10)), nupd=2,
                                 lkind=STRAINING[rng2.integers(len(STRAINING))], tkind=TEX[rng2.integers(len(TEX))])
                msgs, d = paired_probe(rec, sc, phi, chk, bad, variants=("list",))
                worst = max(worst, d)
                mon += [("paired", sc, phi, m, {"variants": ["list"]}) for m in msgs]
                count(hist, "near-boundary" if j < len(near) else "uniform[0,1)")
                count(probes_h, "paired")
            # hidden state / aliasing stream
            for j in range(4 if chk.tier == "quick" else 40):
                pair = (0, int(rng2.integers(0, 5))) if j % 2 == 0 else (1, 5)
                sc = MT.scenario(rng2, regime=int((4, 6, 4, 1)[j % 4]), pair=pair, n=int(rng2.integers(3, 10)), nupd=2,
                                 lkind=STRAINING[rng2.integers(len(STRAINING))], tkind=TEX[rng2.integers(len(TEX))])
                phi = float((0.0, 1.0, PHI_GRID[rng2.integers(5)], rng2.uniform(0, 1))[(j // 2) % 4])
                mon += [("alias", sc, phi, m, {}) for m in alias_probe(rec, sc, phi)]
                count(probes_h, "alias")
                chk.note_case(("alias", sc["seed"]), nontrivial=True)
            # degenerate / malformed stream
            for j, kind in enumerate(DEGENERATE * (1 if chk.tier == "quick" else 8)):
                pair = (0, int(rng2.integers(0, 5))) if (j + j // 4) % 2 == 0 else (1, 5)
                sc = MT.scenario(rng2, regime=int((4, 6)[(j // 2) % 2]), pair=pair, n=int(rng2.integers(3, 8)), nupd=2,
                                 lkind=STRAINING[rng2.integers(len(STRAINING))], tkind=TEX[rng2.integers(len(TEX))])
                phi = float((0.0, PHI_GRID[rng2.integers(5)], 1.0)[j % 3])
                mon += [("degenerate", sc, phi, m, {"degenerate_kind": kind}) for m in degenerate_probe(rec, sc, phi, kind, chk, bad)]
                count(probes_h, "degenerate:" + kind)
            # (e) bulk update: order of minerals, interleaving, batch vs single (fractions incl. the boundary)
            nb = 3 if chk.tier == "quick" else 30
            for i in range(nb + (2 if chk.tier == "quick" else 12)):
                if i < nb:
                    sco = MT.scenario(rng, regime=4, pair=(0, int(rng.integers(0, 5))), n=6, nupd=1)
                    phi = float(rng.uniform(0.2, 0.8))
                else:                                    # exactly 0 (olivine absent) / exactly 1 (enstatite absent)
                    sco = MT.scenario(rng2, regime=int((4, 6)[(i // 2) % 2]), pair=(0, int(rng2.integers(0, 5))), n=6, nupd=1,
                                      lkind=STRAINING[rng2.integers(len(STRAINING))], tkind=TEX[rng2.integers(len(TEX))])
                    phi = float(i % 2)
                chk.note_case(("bulk", sco["seed"]), nontrivial=True,
                              sample={"kind": "bulk/interleaving", "phi": phi, "olivine_fabric": sco["pair"][1]})
                mon += [("bulk", sco, phi, m, {}) for m in bulk_probe(sco, phi)]
                count(probes_h, "bulk")
                if i % 2 == 0 or chk.tier != "quick":      # several minerals of the SAME phase in one update_all call
                    mon += [("same_phase_bulk", sco, phi, m, {}) for m in same_phase_bulk_probe(sco, phi)]
                    count(probes_h, "same_phase_bulk")
                count(hist, "bulk:" + ("interior" if 0 < phi < 1 else f"boundary-{phi:g}"))
            # interleaved histories of independent minerals on shared evaluation points (own stream; the draws above are unchanged)
            import purity
            rng3 = np.random.default_rng([chk.seed, 0xC08F])
            il_h = chk.cov.setdefault("interleave_histogram", {})
            il_stats = chk.cov.setdefault("interleave_calls", {})
            state = purity.ModuleStateGuard("C08")       # module-level state of pydrex.minerals / pydrex.core around this stream
            state.start()
            il_t0 = time.time()

            def run_interleave(plan, tag):
                found = 0
                for case, sch in plan:
                    msgs, evolved = interleave_probe(case, sch, il_stats)
                    mn0 = case["minerals"][0]
                    mon.extend(("interleave", mn0["sc"], mn0["phi"], m, {"interleave_case": c01.encode_sc(case), "schedules": list(sch)})
                               for m in msgs)
                    found += len(msgs)
                    count(probes_h, "interleave" + tag)
                    count(il_h, "points:" + case["points"])
                    count(il_h, f"minerals:{len(case['minerals'])}")
                    count(il_h, f"steps:{case['nsteps']}")
                    count(il_h, "t_start:" + case["t_start_kind"])
                    phs = sorted({mn["sc"]["pair"][0] for mn in case["minerals"]})
                    count(il_h, "phases:" + ("single mineral" if len(case["minerals"]) == 1 else
                                             "both" if len(phs) == 2 else ("olivine only", "enstatite only")[phs[0]]))
                    if any(mn.get("alt") for mn in case["minerals"]):
                        count(il_h, "callable replaced between steps")
                    for name in sch:
                        count(il_h, "schedule:" + name)
                        chk.note_case(("interleave", case["schedule_seed"], name), nontrivial=evolved,
                                      sample={"kind": "interleave", "points": case["points"], "schedule": name, "dt": case["dt"],
                                              "t_start": case["t_start"], "minerals": [[mn["sc"]["pair"][0], mn["sc"]["regime"],
                                                                                         mn["sc"]["lkind"], mn["sc"]["rate"]]
                                                                                        for mn in case["minerals"]]})
                return found

            nfound = run_interleave(interleave_plan(rng3, chk.tier), "")
            changes = state.changes()
            chk.cov["interleave_module_state_changes"] = [c["object"] for c in changes]
            if changes and not nfound:
                # the anchored modules kept something between calls (harness/purity.py) and the plan above found no history on
                # which it matters: search on -- only coincident evaluation points, every schedule, fresh draws
                for _ in range(3):
                    if run_interleave(interleave_plan(rng3, chk.tier, only_coincident=True), ":after-module-state-change"):
                        break
            chk.cov["interleave_wall_s"] = round(time.time() - il_t0, 2)
        chk.cov["max_multiphase_vs_single_difference"] = worst
        chk.cov["traces_validated_against_impl"] = chk.cov["evaluations"]
    chk.cov["disagreements"] = len(bad)
    chk.cov["monitor_failures"] = len(mon)
    if ok and not bad and not mon:
        return
    if mon:
        seen = set()
        for probe, sc, phi, msg, extra in mon:
            if probe in seen:
                continue
            seen.add(probe)
            chk.replay(dict({"kind": "property-violation", "probe": probe, "scenario": c01.encode_sc(sc), "phase_fraction": phi,
                             "observed": msg,
                             "all_observed": [m for p, s, f, m, _ in mon if p == probe and s is sc and f == phi][:8],
                             "required": "C08",
                             "broken": chk.cov.get("broken_obligations", []), "disagreements": [m for _, m in bad[:3]]}, **extra))
            if len(seen) >= 3:
                break
    else:
        chk.replay({"kind": "unproved", "broken": chk.cov.get("broken_obligations", []),
                    "disagreements": [m for _, m in bad[:3]],
                    "note": "proof obligation or correspondence no longer checks; no failing input found"}, no_input=True)


def replay(d):
    common.use_repo_source()
    if d.get("kind") != "property-violation":
        print("replay file names a broken obligation / correspondence; re-run ./check C08")
        return 1
    sc = d["scenario"]
    sc["pair"] = tuple(sc["pair"])
    phi = float(d["phase_fraction"])
    probe = d.get("probe", "paired")
    with MT.Recorder() as rec:
        if probe == "paired":
            msgs, _ = paired_probe(rec, sc, phi, variants=tuple(d.get("variants", ())))
        elif probe == "alias":
            msgs = alias_probe(rec, sc, phi)
        elif probe == "degenerate":
            msgs = degenerate_probe(rec, sc, phi, d["degenerate_kind"])
        elif probe == "bulk":
            msgs = bulk_probe(sc, phi)
        elif probe == "same_phase_bulk":
            msgs = same_phase_bulk_probe(sc, phi)
        elif probe == "interleave":
            case = il_decode(d["interleave_case"])
            msgs, _ = interleave_probe(case, tuple(d.get("schedules", SCHEDULES)))
            print(f"C08 replay: {len(case['minerals'])} minerals x {case['nsteps']} steps on shared evaluation points ({case['points']}), "
                  f"t_start={case['t_start']!r} dt={case['dt']!r}, merged as {d.get('schedules')}")
        else:
            print("unknown probe", probe)
            return 1
    print(f"C08 replay: probe={probe} phase={('olivine', 'enstatite')[sc['pair'][0]]} fabric={sc['pair'][1]} regime={sc['regime']} "
          f"own phase fraction={phi!r} flow={sc['lkind']} grains={sc['n']}")
    for m in msgs:
        print("still fails:", m)
    if not msgs:
        print("holds on this input")
    return 1 if msgs else 0
