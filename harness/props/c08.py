"""C08 -- multiphase: each phase evolves independently with its own volume factor."""
from __future__ import annotations

import itertools

import numpy as np

import common
import proofs
import minerals_trace as MT
from props import c01

FILES = ["Model_core.v", "Model_minerals.v", "Proofs_core.v", "Proofs_minerals.v", "Proofs_rhs.v",
         "Entry_core.v", "Extract_core.v"]
PROP = "Properties/C08.v"
TOL = 1e-3   # solver tolerance (atol 1e-4 per component): alarm threshold for comparisons that are not required to be bitwise


def tex_diff(ma, mb):
    d = 0.0
    if len(ma.orientations) != len(mb.orientations):
        return np.inf
    for a, b in zip(ma.orientations, mb.orientations):
        d = max(d, float(np.abs(np.asarray(a) - np.asarray(b)).max()))
    for a, b in zip(ma.fractions, mb.fractions):
        d = max(d, float(np.abs(np.asarray(a) - np.asarray(b)).max()))
    return d


def tex_identical(ma, mb):
    return (len(ma.orientations) == len(mb.orientations)
            and all(np.asarray(a).tobytes() == np.asarray(b).tobytes() for a, b in zip(ma.orientations, mb.orientations))
            and all(np.asarray(a).tobytes() == np.asarray(b).tobytes() for a, b in zip(ma.fractions, mb.fractions)))


def run(chk):
    ok, br = proofs.prove(chk, FILES, PROP, groups=("core",), gen_modules=())
    import pydrex
    OL, EN = pydrex.MineralPhase.olivine, pydrex.MineralPhase.enstatite
    chk.cov["trusted_base"] = common.TRUSTED_COMMON + [
        "hand-written Model_minerals.lookup_fraction / rhs, tied by trace validation in multiphase assemblages of both orders",
        "NOT expressible in the model: hidden runtime state (LSODA's Fortran work arrays, numba caches, module globals): interleaving / reordering / bit-identity are runtime-checked on paired runs",
    ]
    chk.cov["rule"] = ("paired runs: a mineral in assemblages (ol,en) / (en,ol) with fractions (phi, 1-phi), phi on a grid, vs the same mineral alone with M* x phi "
                       "(texture difference must stay below the solver tolerance; the vector fields are proved equal); simultaneous permutation of phase and fraction "
                       "lists, reordered mineral lists in update_all, interleaved update sequences and identically built minerals must give bit-identical results; "
                       "every update trace-validated; non-trivial = texture changed")
    bad, mon = [], []
    rng = np.random.default_rng(chk.seed)
    if br.drivers.get("core", 1) is None:
        worst = 0.0
        with MT.Recorder() as rec:
            N = 5 if chk.tier == "quick" else 60
            for i in range(N):
                pair = (0, int(rng.integers(0, 5))) if i % 2 == 0 else (1, 5)
                sc = MT.scenario(rng, regime=int((4, 6)[i % 2]), pair=pair, n=int(rng.integers(3, 12)), nupd=2)
                phi = float([0.1, 0.3, 0.5, 0.7, 0.9][rng.integers(5)])
                own, other = (OL, EN) if pair[0] == 0 else (EN, OL)
                # (a) in assemblage, both list orders
                hA = c01.run_history(rec, sc, (own, other), (phi, 1 - phi))
                hB = c01.run_history(rec, sc, (other, own), (1 - phi, phi))
                c01.validate_traces(chk, hA, bad)
                c01.validate_traces(chk, hB, bad)
                mon += [(sc, phi, m) for _, m in hA["fails"] + hB["fails"]]
                if not tex_identical(hA["mineral"], hB["mineral"]):
                    mon.append((sc, phi, "simultaneously permuting the phase list and the fraction list changed the result"))
                # (b) alone with M* x phi
                sc1 = dict(sc, params=dict(sc["params"], gbm_mobility=sc["params"]["gbm_mobility"] * phi))
                h1 = c01.run_history(rec, sc1, (own,), (1.0,))
                c01.validate_traces(chk, h1, bad)
                d = tex_diff(hA["mineral"], h1["mineral"])
                worst = max(worst, d)
                if d > TOL:
                    mon.append((sc, phi, f"mineral in assemblage differs from the single-phase mineral with mobility M* x phi by {d:.3e}"))
                # (c) the other phase's fraction list entry must not matter beyond its own: wrong-fraction probe
                hC = c01.run_history(rec, sc, (own, other), (phi, 0.123456))
                if not tex_identical(hA["mineral"], hC["mineral"]):
                    mon.append((sc, phi, "the other phase's volume fraction influenced this mineral"))
                # (d) identically built minerals: bit-identical
                hD = c01.run_history(rec, sc, (own, other), (phi, 1 - phi))
                if not tex_identical(hA["mineral"], hD["mineral"]):
                    mon.append((sc, phi, "two minerals built and driven identically differ"))
            # (e) bulk update: order of minerals, interleaving
            for i in range(3 if chk.tier == "quick" else 30):
                sco = MT.scenario(rng, regime=4, pair=(0, int(rng.integers(0, 5))), n=6, nupd=1)
                sce = dict(sco, pair=(1, 5), seed=sco["seed"] + 17)
                sce["flow_seed"] = sco["seed"] + 1
                phi = float(rng.uniform(0.2, 0.8))
                ass, frs = (OL, EN), (phi, 1 - phi)

                def fresh():
                    mo, params, get_L, get_x, _ = MT.build(sco, ass, frs)
                    me, _, _, _, _ = MT.build(sce, ass, frs)
                    return mo, me, params, get_L, get_x

                mo1, me1, params, get_L, get_x = fresh()
                F1 = pydrex.update_all([mo1, me1], params, np.eye(3), get_L, (0.0, 0.25, get_x))
                F1 = pydrex.update_all([mo1, me1], params, F1, get_L, (0.25, 0.5, get_x))
                mo2, me2, params, get_L, get_x = fresh()
                F2 = pydrex.update_all([me2, mo2], params, np.eye(3), get_L, (0.0, 0.25, get_x))
                F2 = pydrex.update_all([me2, mo2], params, F2, get_L, (0.25, 0.5, get_x))
                mo3, me3, params, get_L, get_x = fresh()     # fully separated: all olivine updates first
                Fa = mo3.update_orientations(params, np.eye(3), get_L, (0.0, 0.25, get_x))
                Fa2 = mo3.update_orientations(params, Fa, get_L, (0.25, 0.5, get_x))
                Fb = me3.update_orientations(params, np.eye(3), get_L, (0.0, 0.25, get_x))
                me3.update_orientations(params, Fb, get_L, (0.25, 0.5, get_x))
                chk.note_case(("bulk", sco["seed"]), nontrivial=True,
                              sample={"kind": "bulk/interleaving", "phi": phi, "olivine_fabric": sco["pair"][1]})
                # F fed to the second call differs by rounding between orders (last mineral's F), so compare
                # first-interval snapshots bitwise and the rest at solver tolerance
                for a, b, nm in ((mo1, mo2, "olivine"), (me1, me2, "enstatite"), (mo1, mo3, "olivine"), (me1, me3, "enstatite")):
                    if np.asarray(a.orientations[1]).tobytes() != np.asarray(b.orientations[1]).tobytes():
                        mon.append((sco, phi, f"{nm}: reordering / interleaving the minerals changed the first update bitwise"))
                    if tex_diff(a, b) > TOL:
                        mon.append((sco, phi, f"{nm}: reordering / interleaving the minerals changed the textures by {tex_diff(a, b):.3e}"))
        chk.cov["max_multiphase_vs_single_difference"] = worst
        chk.cov["traces_validated_against_impl"] = chk.cov["evaluations"]
    chk.cov["disagreements"] = len(bad)
    chk.cov["monitor_failures"] = len(mon)
    if ok and not bad and not mon:
        return
    if mon:
        sc, phi, msg = mon[0]
        chk.replay({"kind": "property-violation", "scenario": c01.encode_sc(sc), "phase_fraction": phi, "observed": msg,
                    "all_observed": [m for _, _, m in mon[:6]], "required": "C08",
                    "broken": chk.cov.get("broken_obligations", []), "disagreements": [m for _, m in bad[:3]]})
    else:
        chk.replay({"kind": "unproved", "broken": chk.cov.get("broken_obligations", []),
                    "disagreements": [m for _, m in bad[:3]],
                    "note": "proof obligation or correspondence no longer checks; no failing input found"}, no_input=True)


def replay(d):
    print("re-run ./check C08 (the violation is identified by the scenario in the replay file)")
    return 1
