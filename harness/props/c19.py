"""C19 -- parameter records and configuration files mean what they declare.

Proof side : Properties/C19.v (tables regenerated from the source + hand model).
Correspondence (tie H): generated TOML files through pydrex.io.parse_config vs
`vm_compute` of Model_config.parse_config on the tree produced by tomllib, compared as
canonical JSON; exception types against the model's error enum.
"""
from __future__ import annotations

import ast
import contextlib
import dataclasses
import inspect
import itertools
import json
import math
import os
import pathlib
import re
import shutil
import textwrap
import tomllib

import numpy as np

import common
import proofs
from common import BUILD, COQ, VERIF
from props import c19_session

FILES = ["gen/Gen_tables_params.v", "Model_config.v", "Proofs_config.v", "Model_pyconfig.v", "gen/Gen_io_config.v", "Inst_config.v",
         "Model_config_session.v", "Proofs_config_session.v"]
PROP = "Properties/C19.v"

# findings of the current tree that this check knows how to recognise (one witness each).
# status comes from known_findings.json when the key is listed there, else "open".
FLAGS = ["v_getattr", "v_int_phase", "v_builtin_input", "v_nan_ok", "v_out_paths"]
FINDING = {
    "v_getattr": ("C19:parse_config:phase-getattr",
                  "phase names are resolved with getattr(MineralPhase, s): phase_assemblage = [\"mro\"] (any of ~130 "
                  "attribute names of the enum class) parses and yields a non-MineralPhase 'phase' instead of ConfigError"),
    "v_int_phase": ("C19:parse_config:int-phase-ValueError",
                    "phase_assemblage = [5] raises ValueError (handler catches IndexError), not ConfigError"),
    "v_builtin_input": ("C19:parse_config:non-numeric-timestep-TypeError",
                        "input.timestep = \"a\" (or strain_final) raises TypeError: the error message subscripts the builtin `input`"),
    "v_nan_ok": ("C19:parse_config:nan-fractions-accepted",
                 "phase_fractions = [nan] passes the sum-to-one test (abs(nan - 1) > 1e-16 is False)"),
    "v_out_paths": ("C19:parse_config:output-paths-dropped",
                    "[output] paths is always replaced by None: `\"paths\" in _input` is true in every input mode"),
}

SAFE = re.compile(r"^[A-Za-z0-9_ ./%+:-]*$")


# ------------------------------------------------------------------ TOML writer / Coq terms
def toml_value(v):
    if isinstance(v, bool):
        return "true" if v else "false"
    if isinstance(v, int):
        return str(v)
    if isinstance(v, float):
        if math.isnan(v):
            return "nan"
        if math.isinf(v):
            return "inf" if v > 0 else "-inf"
        r = repr(v)
        return r if ("." in r or "e" in r or "n" in r) else r + ".0"
    if isinstance(v, str):
        return '"' + v.replace("\\", "\\\\").replace('"', '\\"') + '"'
    if isinstance(v, (list, tuple)):
        return "[" + ", ".join(toml_value(x) for x in v) + "]"
    raise TypeError(v)


def toml_text(doc):
    out = []
    for k, v in doc.items():
        if not isinstance(v, dict):
            out.append(f"{k} = {toml_value(v)}")
    for k, v in doc.items():
        if isinstance(v, dict):
            out.append(f"[{k}]")
            for kk, vv in v.items():
                out.append(f"{kk} = {toml_value(vv)}")
    return "\n".join(out) + "\n"


class Interner:
    """every distinct string of a case file is defined once (parsing string literals dominates coqc's time)"""

    def __init__(self):
        self.ids = {}

    def s(self, x):
        if not SAFE.match(x):
            raise ValueError(f"string outside the safe alphabet of the case files: {x!r}")
        if x not in self.ids:
            self.ids[x] = f"s{len(self.ids)}_"
        return self.ids[x]

    def defs(self):
        return "".join(f'Definition {n} : string := "{x}".\n' for x, n in self.ids.items())


def coq_float(x):
    if math.isnan(x):
        return "nan"
    if math.isinf(x):
        return "infinity" if x > 0 else "neg_infinity"
    h = float(x).hex()
    return f"({h})" if h.startswith("-") else h


def coq_term(v, I):
    if isinstance(v, bool):
        return f"VBool {'true' if v else 'false'}"
    if isinstance(v, int):
        return f"VInt ({v})"
    if isinstance(v, float):
        return f"VFloat {coq_float(v)}"
    if isinstance(v, str):
        return f"VStr {I.s(v)}"
    if isinstance(v, list):
        return "VList [" + "; ".join(coq_term(x, I) for x in v) + "]"
    if isinstance(v, dict):
        return "VTable " + coq_table(v, I)
    raise TypeError(f"TOML value not modelled: {v!r}")


def coq_table(d, I):
    return "[" + "; ".join(f"({I.s(k)}, {coq_term(x, I)})" for k, x in d.items()) + "]"


ERR_TERM = {"ConfigError": "ConfigError", "TypeError": "TypeErr", "ValueError": "ValueErr", "KeyError": "KeyErr",
            "AttributeError": "AttributeErr"}


def canon_term(j, I):
    """normal form (canon_impl / norm_model) -> Coq `value` term"""
    t = j[0]
    if t == "i":
        return f"VInt ({int(j[1])})"
    if t == "f":
        return f"VFloat {coq_float(common.unhx(j[1]))}"
    if t == "s":
        return f"VStr {I.s(j[1])}"
    if t == "b":
        return f"VBool {'true' if j[1] else 'false'}"
    if t == "n":
        return "VNone"
    if t == "l":
        return "VList [" + "; ".join(canon_term(x, I) for x in j[1]) + "]"
    if t == "t":
        return "VTuple [" + "; ".join(canon_term(x, I) for x in j[1]) + "]"
    if t == "d":
        return "VTable [" + "; ".join(f"({I.s(k)}, {canon_term(x, I)})" for k, x in j[1]) + "]"
    if t == "e":
        return f"VEnum {I.s(j[1])} {I.s(j[2])} ({int(j[3])})"
    if t == "j":
        return f"VJunk {I.s(j[1])}"
    if t == "o":
        return f"VOpaque {I.s(j[1])} [" + "; ".join(canon_term(x, I) for x in j[2]) + "]"
    raise ValueError(f"result of the implementation has no counterpart in the model: {j!r}")


def expected_term(r, I):
    if r[0] == "err":
        if r[1] not in ERR_TERM:
            raise ValueError(f"exception type outside the model's enum: {r[1]}")
        return f"(CErr {ERR_TERM[r[1]]})"
    if len(r) != 5:
        raise ValueError(f"unexpected top-level keys: {r[5:]}")
    tabs = " ".join("[" + "; ".join(f"({I.s(k)}, {canon_term(x, I)})" for k, x in t[1]) + "]" for t in r[2:5])
    return f"(COk (mkConfig ({canon_term(r[1], I)}) {tabs}))"


# ------------------------------------------------------------------ canonical forms
def canon_float(x):
    return ["f", common.hx(float(x))]


def norm_model(j):
    """model JSON (show) -> normal form shared with canon_impl"""
    t = j[0]
    if t == "f":
        if j[1] == "zero":
            return canon_float(-0.0 if j[2] else 0.0)
        if j[1] == "inf":
            return canon_float(-math.inf if j[2] else math.inf)
        if j[1] == "nan":
            return canon_float(math.nan)
        x = math.ldexp(int(j[3]), int(j[4]))
        return canon_float(-x if j[2] else x)
    if t in ("l", "t"):
        return [t, [norm_model(x) for x in j[1]]]
    if t == "d":
        return ["d", sorted([[k, norm_model(x)] for k, x in j[1]], key=lambda kv: kv[0])]
    if t == "o":
        return ["o", j[1], [norm_model(x) for x in j[2]]]
    if t == "i":
        return ["i", str(int(j[1]))]
    return j


class Impl:
    """runs pydrex.io.parse_config with recording wrappers around the external routines"""

    def __init__(self):
        import meshio
        import pydrex.core as core
        import pydrex.exceptions as exc
        import pydrex.io as pio
        import pydrex.logger as plog
        import pydrex.velocity as vel
        self.core, self.pio, self.exc, self.vel, self.meshio = core, pio, exc, vel, meshio
        plog.CONSOLE_LOGGER.setLevel("CRITICAL")
        self.rec = []
        self.factories = [n for n, f in inspect.getmembers(vel, inspect.isfunction)
                          if f.__module__ == vel.__name__ and not n.startswith("_")]

    def _wrap(self, tag, real):
        def w(*a, **k):
            obj = real(*a, **k)
            self.rec.append((tag, a, obj))
            return obj
        return w

    @contextlib.contextmanager
    def patched(self):
        saved = [(self.meshio, "read", self.meshio.read), (self.pio, "read_scsv", self.pio.read_scsv),
                 (np, "load", np.load)] + [(self.vel, n, getattr(self.vel, n)) for n in self.factories]
        try:
            self.meshio.read = self._wrap("meshio.read", saved[0][2])
            self.pio.read_scsv = self._wrap("read_scsv", saved[1][2])
            np.load = self._wrap("np.load", saved[2][2])
            for n in self.factories:
                setattr(self.vel, n, self._wrap("velocity." + n, getattr(self.vel, n)))
            yield
        finally:
            for o, n, v in saved:
                setattr(o, n, v)

    def canon(self, v, base, names=()):
        core = self.core
        for tag, args, obj in self.rec:
            if obj is v:
                return ["o", tag, [self.canon(a, base) for a in args]]
        if isinstance(v, core.MineralPhase):
            return ["e", "MineralPhase", v.name, str(int(v))]
        if isinstance(v, core.MineralFabric):
            return ["e", "MineralFabric", v.name, str(int(v))]
        if names:   # a position that should hold a phase
            for n in names:
                try:
                    j = getattr(core.MineralPhase, n)
                except (AttributeError, TypeError):
                    continue
                if j is v or (type(j) is type(v) and j == v):
                    return ["j", n]
        if isinstance(v, bool):
            return ["b", 1 if v else 0]
        if isinstance(v, (int, np.integer)):
            return ["i", str(int(v))]
        if isinstance(v, (float, np.floating)):
            return canon_float(v)
        if isinstance(v, str):
            return ["s", v]
        if v is None:
            return ["n"]
        if isinstance(v, pathlib.PurePath):
            if v == pathlib.Path.cwd().resolve():
                return ["o", "cwd", []]
            try:
                return ["o", "path", [["s", str(v.relative_to(base))]]]
            except ValueError:
                return ["o", "path", [["s", str(v)]]]
        if isinstance(v, list):
            return ["l", [self.canon(x, base, names) for x in v]]
        if isinstance(v, tuple):
            return ["t", [self.canon(x, base, names) for x in v]]
        if isinstance(v, dict):
            return ["d", sorted([[k, self.canon(x, base)] for k, x in v.items()], key=lambda kv: kv[0])]
        return ["unknown", type(v).__name__]

    def run(self, path, tree, reset=True):
        """-> canonical result of parse_config(path); `tree` = tomllib view of the same file
        (reset=False: keep the record of loaded objects, for call histories whose earlier results stay alive)"""
        if reset:
            self.rec = []
        base = pathlib.Path(path).resolve().parent
        names = set()
        for tab, key in (("parameters", "phase_assemblage"), ("output", "raw_output"), ("output", "diagnostics")):
            t = tree.get(tab)
            if isinstance(t, dict) and isinstance(t.get(key), list):
                names |= {x for x in t[key] if isinstance(x, str)}
        names = sorted(names)
        import warnings
        try:
            with self.patched(), warnings.catch_warnings():
                warnings.simplefilter("ignore")      # numpy: invalid value in reduce (inf - inf probes)
                cfg = self.pio.parse_config(path)
        except BaseException as e:  # noqa: BLE001
            for cls, nm in ((self.exc.ConfigError, "ConfigError"), (TypeError, "TypeError"), (ValueError, "ValueError"),
                            (KeyError, "KeyError"), (AttributeError, "AttributeError")):
                if isinstance(e, cls):
                    return ["err", nm], None
            return ["err", type(e).__name__], None
        name = cfg.get("name")
        if "name" not in tree and isinstance(name, str) and re.fullmatch(r"pydrex\.\d+", name):
            cname = ["o", "random_name", []]
        else:
            cname = self.canon(name, base)

        def tab(d, phase_keys):
            if not isinstance(d, dict) or not all(isinstance(k, str) for k in d):
                return ["d", [["<not-a-table>", ["unknown", type(d).__name__]]]]
            return ["d", sorted([[k, self.canon(x, base, names if k in phase_keys else ())] for k, x in d.items()],
                                key=lambda kv: kv[0])]
        res = ["ok", cname, tab(cfg.get("parameters"), ("phase_assemblage",)), tab(cfg.get("input"), ()),
               tab(cfg.get("output"), ("raw_output", "diagnostics"))]
        extra = sorted(set(cfg) - {"name", "parameters", "input", "output"})
        if extra:
            res.append(["extra-keys", extra])
        return res, cfg


# ------------------------------------------------------------------ model runner (coqc / vm_compute)
def variant_term(V):
    return "(mkV " + " ".join("true" if V[f] else "false" for f in FLAGS) + ")"


HEADER = ("From Coq Require Import Floats ZArith String List.\n"
          "From PV.gen Require Import Gen_tables_params.\nFrom PV Require Import Model_config.\n"
          "Import ListNotations.\nOpen Scope string_scope.\nOpen Scope float_scope.\n")


def _coqc_cases(name, body):
    d = os.path.join(BUILD, "cases")
    os.makedirs(d, exist_ok=True)
    path = os.path.join(d, name + ".v")
    with open(path, "w") as f:
        f.write(body)
    rc, txt = common.sh(f"timeout 900 coqc -Q {COQ} PV {path}", cwd=d, timeout=1000)
    for ext in (".v", ".vo", ".vok", ".vos", ".glob"):
        with contextlib.suppress(OSError):
            os.remove(os.path.join(d, name + ext))
    with contextlib.suppress(OSError):
        os.remove(os.path.join(d, "." + name + ".aux"))
    if rc != 0:
        raise RuntimeError("model case file failed in coqc: " + txt[-1500:])
    return txt


def run_model(trees, V, tag="C19show"):
    """trees: list of tomllib dicts -> the model's results in normal form (printing is slow: diagnostics only)"""
    out = []
    for k in range(0, len(trees), 400):
        chunk = trees[k:k + 400]
        I = Interner()
        evals = [f"Eval vm_compute in (show_result (parse_config V {coq_table(t, I)})).\n" for t in chunk]
        txt = _coqc_cases(f"{tag}_{os.getpid()}_{k // 400}", HEADER + I.defs() + f"Definition V := {variant_term(V)}.\n" + "".join(evals))
        strs = re.findall(r'=\s*"((?:[^"]|"")*)"\s*:\s*string', txt)
        if len(strs) != len(chunk):
            raise RuntimeError(f"coqc printed {len(strs)} results for {len(chunk)} cases")
        for s in strs:
            j = json.loads(s.replace('""', '"'))
            out.append((["ok"] + [norm_model(x) for x in j[1:]]) if j[0] == "ok" else j)
    return out


def run_model_compare(trees, results, V, tag="C19"):
    """vm_compute of `result_eqb (parse_config V tree) expected` for every case -> list of bool
    (one `= true|false : bool` per line; <= 400 cases per generated file)"""
    out = []
    for k in range(0, len(trees), 400):
        I = Interner()
        evals = []
        for t, r in zip(trees[k:k + 400], results[k:k + 400]):
            try:
                e = expected_term(r, I)
            except ValueError:
                e = "(CErr Unmodelled)"      # never equal
            evals.append(f"Eval vm_compute in (result_eqb (parse_config V {coq_table(t, I)}) {e}).\n")
        txt = _coqc_cases(f"{tag}_{os.getpid()}_{k // 400}", HEADER + I.defs() + f"Definition V := {variant_term(V)}.\n" + "".join(evals))
        bs = re.findall(r"=\s*(true|false)\s*:\s*bool", txt)
        if len(bs) != len(evals):
            raise RuntimeError(f"coqc printed {len(bs)} results for {len(evals)} cases")
        out += [b == "true" for b in bs]
    return out


# ------------------------------------------------------------------ stub files of the three input modes
class Workdir:
    def __init__(self):
        self.dir = os.path.join(BUILD, f"tmp-{os.getpid()}")

    def __enter__(self):
        import meshio
        shutil.rmtree(self.dir, ignore_errors=True)
        os.makedirs(self.dir)
        pts = np.array([[0.0, 0.0, 0.0], [1.0, 0.0, 0.0], [0.0, 1.0, 0.0]])
        meshio.Mesh(pts, [("triangle", np.array([[0, 1, 2]]))]).write(os.path.join(self.dir, "mesh.vtu"))
        scsv = open(os.path.join(common.REPO, "src", "pydrex", "data", "specs", "start.scsv")).read()
        for n in ("start.scsv", "final.scsv"):
            open(os.path.join(self.dir, n), "w").write(scsv)
        for n in ("path001.npz", "path002.npz"):
            np.savez(os.path.join(self.dir, n), t=np.zeros(2), X_1=np.zeros(2))
        self.n = 0
        return self

    def write(self, text):
        self.n += 1
        p = os.path.join(self.dir, f"case{self.n:05d}.toml")
        open(p, "w").write(text)
        return p

    def __exit__(self, *a):
        shutil.rmtree(self.dir, ignore_errors=True)


# ------------------------------------------------------------------ case generation
PARAM_FULL = {
    "phase_assemblage": ["olivine", "enstatite"], "phase_fractions": [0.7, 0.3],
    "stress_exponent": 1.25, "deformation_exponent": 3.0, "gbm_mobility": 10, "gbs_threshold": 0.25,
    "nucleation_efficiency": 4.0, "number_of_grains": 1000, "initial_olivine_fabric": "B",
    "disl_Peierls_stress": 3.0, "disl_prefactors": [2e-16, 3e-17], "diff_prefactors": [2e-10, 3e-10],
    "disl_lowtemp_switch": 0.5, "disl_activation_energy": 400.0, "disl_activation_volume": 10.0,
    "diff_activation_energies": [400.0, 300.0], "diff_activation_volumes": [3.0, 5.0],
    "disl_coefficients": [1.0, 2.0, 3.0, 4.0, 5.0, 6.0, 7.0],
}
OUTPUT_FULL = {"directory": "out", "raw_output": ["olivine"], "diagnostics": ["enstatite", "olivine"],
               "anisotropy": ["Voigt"], "paths": ["pathline001.scsv"], "log_level": "DEBUG"}
MODES = {
    "none": {"timestep": 1e9},
    "mesh": {"mesh": "mesh.vtu", "locations_final": "final.scsv", "timestep": 1e10},
    "calc": {"velocity_gradient": ["simple_shear_2d", "Y", "X", 5e-6], "locations_initial": "start.scsv", "timestep": 1e9},
    "paths": {"paths": ["path001.npz", "path002.npz"]},
}
# the optional keys (table, key); phase_assemblage / phase_fractions are coupled (see docs)
OPT_PARAMS = [("parameters", k) for k in PARAM_FULL]
OPT_OUTPUT = [("output", k) for k in OUTPUT_FULL]
OPT_INPUT = [("input", "strain_final")]
OPT_TOP = [("", "name"), ("", "output"), ("", "parameters")]


def full_doc(mode="none"):
    i = dict(MODES[mode])
    i["strain_final"] = 2.5
    if mode == "paths":
        i["timestep"] = 1e9
    return {"name": "pydrex-case", "input": i, "output": dict(OUTPUT_FULL), "parameters": dict(PARAM_FULL)}


def omit(doc, keys):
    d = {k: (dict(v) if isinstance(v, dict) else v) for k, v in doc.items()}
    ks = set(keys)
    # the coupled pair is only ever dropped together
    if ("parameters", "phase_assemblage") in ks or ("parameters", "phase_fractions") in ks:
        ks |= {("parameters", "phase_assemblage"), ("parameters", "phase_fractions")}
    dropped_phases = ("parameters", "phase_assemblage") in ks or ("", "parameters") in ks
    for t, k in ks:
        if t == "":
            d.pop(k, None)
        elif t in d:
            d[t].pop(k, None)
    if dropped_phases and "output" in d:
        # default assemblage is (olivine,): keep the supplied output phase lists inside it
        for k in ("raw_output", "diagnostics"):
            if k in d["output"]:
                d["output"][k] = ["olivine"]
    return d, sorted(ks)


def gen_cases(chk, tier):
    """-> list of dict(kind, doc, expect, omitted, detail); expect in valid|invalid|typeerr|finding:<flag>|mode-keyerror"""
    rng = np.random.default_rng(chk.seed)
    cases = []

    def add(kind, doc, expect="valid", omitted=(), detail=""):
        cases.append({"kind": kind, "doc": doc, "expect": expect, "omitted": list(omitted), "detail": detail})

    allopt = OPT_PARAMS + OPT_OUTPUT + OPT_INPUT + OPT_TOP
    # A. nothing omitted / every single omission / all omitted, in every input mode
    for mode in MODES:
        add("full:" + mode, full_doc(mode))
        d, ks = omit(full_doc(mode), allopt)
        add("all-omitted:" + mode, d, omitted=ks)
    for mode in ("none", "calc"):
        for key in allopt:
            d, ks = omit(full_doc(mode), [key])
            add("single-omission", d, omitted=ks, detail=f"{mode}:{key[0]}.{key[1]}")
    d, ks = omit(full_doc("paths"), [("input", "timestep")])
    add("single-omission", d, omitted=ks, detail="paths:input.timestep")
    # B. pairwise omissions
    pairs = list(itertools.combinations(allopt, 2))
    if tier == "quick":
        pairs = [pairs[i] for i in rng.choice(len(pairs), size=70, replace=False)]
    for a, b in pairs:
        d, ks = omit(full_doc("none"), [a, b])
        add("pairwise-omission", d, omitted=ks)
    # C. random subsets
    for _ in range(80 if tier == "quick" else 1500):
        mode = str(rng.choice(list(MODES)))
        keep = rng.random(len(allopt)) < rng.random()
        d, ks = omit(full_doc(mode), [k for k, kp in zip(allopt, keep) if not kp])
        add("random-subset", d, omitted=ks, detail=mode)
    # D. phase lists / fractions / fabric letters
    phase_spell = {"olivine": ["olivine", 0, False], "enstatite": ["enstatite", 1, True]}
    for n in range(0, 5):
        for combo in itertools.product(["olivine", "enstatite"], repeat=n):
            if n >= 3 and rng.random() < (0.5 if tier == "quick" else 0.0):
                continue
            pa = [phase_spell[p][int(rng.integers(0, 3)) if rng.random() < 0.3 else 0] for p in combo]
            fr = split_one(rng, n)
            doc = full_doc("none")
            doc["parameters"]["phase_assemblage"] = pa
            doc["parameters"]["phase_fractions"] = fr
            doc["output"]["raw_output"] = sorted(set(combo))[:1]
            doc["output"]["diagnostics"] = sorted(set(combo))
            add("phase-list", doc, expect="valid" if n > 0 and fsum_is_one(fr) else "invalid", detail=f"n={n}")
    for letter in ["A", "B", "C", "D", "E"]:
        doc = full_doc("none")
        doc["parameters"]["initial_olivine_fabric"] = letter
        add("fabric-letter", doc, detail=letter)
    for letter in ["F", "a", "AB", "", "olivine_A", "A ", "enstatite_AB", 1, 0.5, True, ["A"]]:
        doc = full_doc("none")
        doc["parameters"]["initial_olivine_fabric"] = letter
        add("fault:fabric", doc, expect="invalid", detail=repr(letter))
    # E. sums
    sums = [[0.1] * 10, [0.7, 0.3], [0.6, 0.4], [1 / 3] * 3, [0.1] * 9 + [0.1000000000000001], [1], [1, 0], [2, -1],
            [True], [True, False], [0.5, True, -0.5], [1.0000000000000002], [0.9999999999999999], [0.25] * 4,
            [1e-17, 1.0], [1.0, 1e-17, 1e-17], [0.1] * 7 + [0.3], [1 / 7] * 7, [1 / 9] * 9, [0.0] * 129 + [1.0],
            [1 / 130] * 130, [1 / 200] * 200, [0.3, 0.3, 0.4], [0.2, 0.3, 0.5], [0.15, 0.35, 0.5], [1e300, 1.0, -1e300],
            [math.inf], [-math.inf], [0.5, 0.5000000000000001], [0.5, 0.49999999999999994], [1.5, -0.5], [0.995, 0.0], [0.99, 0.0]]
    for _ in range(40 if tier == "quick" else 600):
        sums.append(split_one(rng, int(rng.integers(2, 21))))
    for fr in sums:
        doc = full_doc("none")
        doc["parameters"]["phase_fractions"] = fr
        doc["parameters"]["phase_assemblage"] = [["olivine", "enstatite"][i % 2] for i in range(len(fr))]
        ok = fsum_is_one(fr)
        doc["output"]["raw_output"] = ["olivine"]
        doc["output"]["diagnostics"] = ["olivine", "enstatite"][:max(1, min(2, len(fr)))]
        add("sum", doc, expect="valid" if ok else "invalid", detail=f"n={len(fr)} sum_ok={ok}")
    # F. input modes with every combination of the mode keys
    mk = {"mesh": "mesh.vtu", "velocity_gradient": ["simple_shear_2d", "Y", "X", 5e-6], "paths": ["path001.npz"],
          "locations_initial": "start.scsv", "locations_final": "final.scsv"}
    for bits in itertools.product([0, 1], repeat=5):
        doc = full_doc("none")
        for b, (k, v) in zip(bits, mk.items()):
            if b:
                doc["input"][k] = v
        has = dict(zip(mk, bits))
        if has["mesh"]:
            exp = "valid" if has["locations_final"] else "mode-keyerror"
        elif has["velocity_gradient"]:
            exp = "valid" if has["locations_initial"] else "mode-keyerror"
        else:
            exp = "valid"
        add("input-mode", doc, expect=exp, detail="".join(map(str, bits)))
    for fn, args in (("cell_2d", ["X", "Z", 1.0]), ("corner_2d", ["X", "Z", 1.0]), ("simple_shear_2d", ["X", "Z", 2e-5])):
        doc = full_doc("calc")
        doc["input"]["velocity_gradient"] = [fn] + args
        add("input-mode", doc, detail=fn)
    # G. single faults
    def fault(name, mut, mode="none"):
        doc = full_doc(mode)
        mut(doc)
        add("fault:" + name, doc, expect="invalid")
    fault("sum", lambda d: d["parameters"].update(phase_fractions=[0.7, 0.2]))
    fault("sum", lambda d: d["parameters"].update(phase_fractions=[0.7, 0.31]))
    fault("sum", lambda d: d["parameters"].update(phase_fractions=[0.7, 0.3000000000000002]))
    fault("sum", lambda d: d["parameters"].update(phase_fractions=[]))
    fault("length", lambda d: d["parameters"].update(phase_fractions=[1.0]))
    fault("length", lambda d: d["parameters"].update(phase_fractions=[0.5, 0.25, 0.25]))
    fault("length", lambda d: d["parameters"].update(phase_assemblage=["olivine"]))
    fault("length", lambda d: d["parameters"].pop("phase_fractions"))
    fault("phase-name", lambda d: d["parameters"].update(phase_assemblage=["olivine", "quartz"]))
    fault("phase-name", lambda d: d["parameters"].update(phase_assemblage=["Olivine", "enstatite"]))
    fault("phase-name", lambda d: d["parameters"].update(phase_assemblage=["olivine", ""]))
    fault("phase-name", lambda d: d["parameters"].update(phase_assemblage=["olivine", "name"]))
    fault("phase-name", lambda d: d["parameters"].update(phase_assemblage=["olivine", 0.5]))
    fault("phase-name", lambda d: d["parameters"].update(phase_assemblage=["olivine", ["enstatite"]]))
    fault("coefficients", lambda d: d["parameters"].update(disl_coefficients=[1.0] * 6))
    fault("coefficients", lambda d: d["parameters"].update(disl_coefficients=[1.0] * 8))
    fault("coefficients", lambda d: d["parameters"].update(disl_coefficients=[]))
    fault("no-input", lambda d: d.pop("input"))
    fault("no-timestep", lambda d: d["input"].pop("timestep"))
    fault("no-timestep", lambda d: d["input"].pop("timestep"), mode="calc")
    fault("no-timestep", lambda d: d["input"].pop("timestep"), mode="mesh")
    fault("output-phase", lambda d: d["output"].update(raw_output=["quartz"]))
    fault("output-phase", lambda d: d["output"].update(diagnostics=["olivine", "garnet"]))
    fault("output-phase", lambda d: d["output"].update(raw_output="olivine"))
    fault("output-not-simulated", lambda d: (d["parameters"].update(phase_assemblage=["olivine"], phase_fractions=[1.0]),
                                              d["output"].update(raw_output=["olivine"], diagnostics=["enstatite"])))
    fault("output-not-simulated", lambda d: (d["parameters"].update(phase_assemblage=["enstatite"], phase_fractions=[1.0]),
                                              d["output"].update(raw_output=["olivine"], diagnostics=["enstatite"])))

    # the witnesses of the recorded findings (expected outcome depends on the inferred variant)
    def finding(flag, mut, expect_fixed="invalid"):
        doc = full_doc("none")
        mut(doc)
        cases.append({"kind": "finding:" + flag, "doc": doc, "expect": expect_fixed, "omitted": [], "detail": "", "flag": flag})
    finding("v_int_phase", lambda d: d["parameters"].update(phase_assemblage=["olivine", 5]))
    finding("v_int_phase", lambda d: d["parameters"].update(phase_assemblage=[-1, "olivine"]))
    finding("v_builtin_input", lambda d: d["input"].update(timestep="1e9"))
    finding("v_builtin_input", lambda d: d["input"].update(strain_final="10"))
    finding("v_builtin_input", lambda d: d["input"].update(timestep=[1.0]))
    finding("v_nan_ok", lambda d: d["parameters"].update(phase_fractions=[math.nan, 0.3]))
    finding("v_nan_ok", lambda d: d["parameters"].update(phase_fractions=[math.inf, -math.inf]))
    junk = junk_names()
    pick = junk if tier != "quick" else [junk[i] for i in rng.choice(len(junk), size=min(25, len(junk)), replace=False)]
    for n in sorted(set(list(pick) + ["__doc__", "mro", "real"])):
        if SAFE.match(n):
            finding("v_getattr", lambda d, n=n: (d["parameters"].update(phase_assemblage=["olivine", n]),
                                                  d["output"].pop("raw_output"), d["output"].update(diagnostics=["olivine"])))
    for n in ("__doc__", "mro"):
        finding("v_getattr", lambda d, n=n: d["output"].update(raw_output=[n]))
        finding("v_getattr", lambda d, n=n: (d["parameters"].update(phase_assemblage=[n, "olivine"]),
                                              d["output"].update(raw_output=[n], diagnostics=["olivine", n])))
    for mode in MODES:      # supplied [output] paths; 'valid' either way, the value differs by variant
        doc = full_doc(mode)
        cases.append({"kind": "finding:v_out_paths", "doc": doc, "expect": "valid", "omitted": [], "detail": mode, "flag": "v_out_paths"})
    # H. type confusions that the model covers (outside the statement of C19; measured only)
    def conf(name, mut):
        doc = full_doc("none")
        mut(doc)
        add("type-confusion:" + name, doc, expect="unclaimed")
    conf("fractions-scalar", lambda d: d["parameters"].update(phase_fractions=1.0))
    conf("fractions-scalar", lambda d: d["parameters"].update(phase_fractions=0.5))
    conf("assemblage-string", lambda d: d["parameters"].update(phase_assemblage="ab"))
    conf("assemblage-scalar", lambda d: d["parameters"].update(phase_assemblage=0))
    conf("coefficients-scalar", lambda d: d["parameters"].update(disl_coefficients=7))
    conf("coefficients-string", lambda d: d["parameters"].update(disl_coefficients="abcdefg"))
    conf("parameters-scalar", lambda d: d.update(parameters=3))
    conf("raw-output-bool", lambda d: d["output"].update(raw_output=True))
    conf("raw-output-int-element", lambda d: d["output"].update(raw_output=[0]))
    conf("raw-output-mixed", lambda d: d["output"].update(raw_output=["quartz", 0]))
    conf("raw-output-mixed", lambda d: d["output"].update(raw_output=[0, "quartz"]))
    conf("timestep-bool", lambda d: d["input"].update(timestep=True))
    conf("unknown-key", lambda d: d["parameters"].update(foo=3))
    conf("stress-exponent-string", lambda d: d["parameters"].update(stress_exponent="x"))
    conf("anisotropy-bool", lambda d: d["output"].update(anisotropy=True))
    return cases


def split_one(rng, n):
    if n == 0:
        return []
    if n == 1:
        return [1.0]
    kind = rng.integers(0, 3)
    if kind == 0:
        cuts = np.sort(rng.random(n - 1))
        xs = np.diff(np.concatenate([[0.0], cuts, [1.0]]))
    elif kind == 1:
        xs = np.round(rng.dirichlet(np.ones(n)), 2)
        xs[-1] = round(1.0 - float(xs[:-1].sum()), 2)
    else:
        xs = np.full(n, 1.0 / n)
    return [float(x) for x in xs]


def fsum_is_one(fr):
    """the documented test, in the documented arithmetic (binary64, numpy's summation)"""
    if not fr:
        return False
    d = abs(float(np.sum(fr)) - 1.0)
    return d <= 1e-16


def junk_names():
    from pydrex.core import MineralPhase as P
    cand = set(dir(P)) | set(dir(type(P)))
    for c in list(P.__mro__) + list(type(P).__mro__):
        cand |= set(vars(c))
    out = []
    for n in sorted(cand):
        try:
            v = getattr(P, n)
        except AttributeError:
            continue
        if not isinstance(v, P) and n != "__weakrefoffset__":
            out.append(n)
    return out


# ------------------------------------------------------------------ property oracle (public API only)
DOC_OUTPUT_DEFAULTS = {"anisotropy": ["Voigt", "hexaxis", "moduli", "%decomp"], "paths": None, "log_level": "WARNING"}


def oracle_config(impl, path, case):
    """direct reading of C19 for one configuration file -> list of failures"""
    core, exc = impl.core, impl.exc
    tree = tomllib.load(open(path, "rb"))
    expect = case["expect"]
    fails = []
    import warnings
    try:
        with impl.patched(), warnings.catch_warnings():
            warnings.simplefilter("ignore")
            cfg = impl.pio.parse_config(path)
    except exc.ConfigError:
        if expect in ("valid",):
            return ["a configuration with the required inputs and valid values raised ConfigError"]
        return []
    except BaseException as e:  # noqa: BLE001
        if expect == "valid":
            return [f"a configuration with the required inputs and valid values raised {type(e).__name__}: {e}"]
        if expect == "invalid":
            return [f"an invalid configuration raised {type(e).__name__} instead of ConfigError: {e}"]
        return []
    if expect == "invalid":
        fails.append("an invalid configuration was accepted")
    p, o, i = cfg.get("parameters", {}), cfg.get("output"), cfg.get("input", {})
    if o is None:
        return fails + ["parsed configuration has no 'output' table"]
    pa, fr = p.get("phase_assemblage"), p.get("phase_fractions")
    try:
        if len(pa) != len(fr):
            fails.append(f"phase_assemblage and phase_fractions differ in length: {len(pa)} vs {len(fr)}")
        s = float(np.sum(fr))
        if not abs(s - 1.0) <= 1e-16:
            fails.append(f"parsed phase_fractions sum to {s!r}, not 1")
    except TypeError as e:
        fails.append(f"phase lists are not sequences of numbers: {e}")
    if not (isinstance(pa, tuple) and all(isinstance(x, core.MineralPhase) for x in pa)):
        fails.append(f"phase_assemblage is not a tuple of MineralPhase: {pa!r}"[:200])
    if not isinstance(p.get("initial_olivine_fabric"), core.MineralFabric):
        fails.append("initial_olivine_fabric is not a MineralFabric")
    for lvl in ("raw_output", "diagnostics"):
        if lvl not in o:
            fails.append(f"output.{lvl} missing")
        elif not all(isinstance(x, core.MineralPhase) and x in pa for x in o[lvl]):
            fails.append(f"output.{lvl} is not a list of simulated MineralPhase members")
    if expect != "valid":
        return fails
    # omitted optional keys take their documented defaults
    dflt = core.DefaultParams()
    tp = tree.get("parameters", {})
    for k in dataclasses.asdict(dflt):
        if k not in tp:
            if k not in p:
                fails.append(f"omitted parameters.{k} is absent from the result")
            elif p[k] != getattr(dflt, k) or type(p[k]) is not type(getattr(dflt, k)):
                fails.append(f"omitted parameters.{k} = {p[k]!r}, documented default {getattr(dflt, k)!r}")
    to = tree.get("output", {})
    for k, v in DOC_OUTPUT_DEFAULTS.items():
        if k not in to and not (k in o and o[k] == v):
            fails.append(f"omitted output.{k} = {o.get(k, '<absent>')!r}, documented default {v!r}")
    for lvl in ("raw_output", "diagnostics"):
        if lvl not in to and lvl in o and list(o[lvl]) != list(pa):
            fails.append(f"omitted output.{lvl} = {o[lvl]!r}, documented default: all simulated phases")
    if "directory" not in to and o.get("directory") != pathlib.Path.cwd().resolve():
        fails.append("omitted output.directory is not the working directory")
    ti = tree.get("input", {})
    if "strain_final" not in ti and not (i.get("strain_final") == math.inf):
        fails.append(f"omitted input.strain_final = {i.get('strain_final')!r}, documented: no limit (inf)")
    if "name" not in tree and not isinstance(cfg.get("name"), str):
        fails.append("omitted name did not get a default")
    return fails


def oracle_presets():
    """direct reading of the first sentence of C19 -> list of (class, field, message)"""
    fails = []
    try:
        import pydrex.core as core
        import pydrex.mock as mock
        d = core.DefaultParams()
    except Exception as e:  # noqa: BLE001
        return [("DefaultParams", None, f"pydrex.core / pydrex.mock cannot be imported or DefaultParams() raises: {type(e).__name__}: {e}")]
    try:
        if not isinstance(hash(d), int):
            fails.append(("DefaultParams", None, "hash() is not an int"))
    except TypeError as e:
        fails.append(("DefaultParams", None, f"not hashable: {e}"))
    for f in dataclasses.fields(d):
        try:
            setattr(d, f.name, getattr(d, f.name))
            fails.append(("DefaultParams", f.name, "assignment to the field did not raise FrozenInstanceError"))
        except dataclasses.FrozenInstanceError:
            pass
    try:
        if core.DefaultParams(**d.as_dict()) != d:
            fails.append(("DefaultParams", None, "DefaultParams(**as_dict()) != DefaultParams()"))
    except Exception as e:  # noqa: BLE001
        fails.append(("DefaultParams", None, f"round trip raised {type(e).__name__}: {e}"))
    fields = {f.name for f in dataclasses.fields(core.DefaultParams)}
    for name, cls in inspect.getmembers(mock, inspect.isclass):
        if not (issubclass(cls, core.DefaultParams) and cls is not core.DefaultParams):
            continue
        node = ast.parse(textwrap.dedent(inspect.getsource(cls))).body[0]
        try:
            inst = cls()
            asd = inst.as_dict()
        except Exception as e:  # noqa: BLE001
            fails.append((name, None, f"cannot instantiate: {type(e).__name__}: {e}"))
            continue
        for st in node.body:
            tgt = st.target if isinstance(st, ast.AnnAssign) else (st.targets[0] if isinstance(st, ast.Assign) else None)
            if not isinstance(tgt, ast.Name) or tgt.id not in fields or getattr(st, "value", None) is None:
                continue
            declared = eval(compile(ast.Expression(st.value), "<preset>", "eval"), vars(mock))  # noqa: S307
            got, viad = getattr(inst, tgt.id), asd.get(tgt.id)
            if got != declared or type(got) is not type(declared):
                fails.append((name, tgt.id, f"declares {declared!r} but the instance attribute is {got!r}"))
            elif viad != declared:
                fails.append((name, tgt.id, f"declares {declared!r} but as_dict() gives {viad!r}"))
    return fails


# ------------------------------------------------------------------ run
def infer_variant(impl, wd):
    """one witness per recorded finding: which behaviour does the implementation show?"""
    def outcome(doc):
        p = wd.write(toml_text(doc))
        return impl.run(p, tomllib.load(open(p, "rb")))
    V, odd = {}, []
    base = {"input": {"timestep": 1.0}}

    def err_flag(flag, doc, defect):
        r, _ = outcome(doc)
        if r == ["err", defect]:
            V[flag] = True
        elif r == ["err", "ConfigError"]:
            V[flag] = False
        else:
            V[flag] = False
            odd.append((flag, doc, r if r[0] == "err" else "parsed"))
    r, cfg = outcome({**base, "parameters": {"phase_assemblage": ["mro"]}})
    if r[0] == "ok":
        V["v_getattr"] = True
    elif r == ["err", "ConfigError"]:
        V["v_getattr"] = False
    else:
        V["v_getattr"] = False
        odd.append(("v_getattr", "phase_assemblage=['mro']", r))
    err_flag("v_int_phase", {**base, "parameters": {"phase_assemblage": [5]}}, "ValueError")
    err_flag("v_builtin_input", {"input": {"timestep": "a"}}, "TypeError")
    r, cfg = outcome({**base, "parameters": {"phase_fractions": [math.nan]}})
    V["v_nan_ok"] = r[0] == "ok"
    if r[0] != "ok" and r != ["err", "ConfigError"]:
        odd.append(("v_nan_ok", "phase_fractions=[nan]", r))
    r, cfg = outcome({**base, "output": {"paths": ["p.scsv"]}})
    if r[0] == "ok" and cfg["output"].get("paths") is None:
        V["v_out_paths"] = True
    elif r[0] == "ok" and cfg["output"].get("paths") == ["p.scsv"]:
        V["v_out_paths"] = False
    else:
        V["v_out_paths"] = False
        odd.append(("v_out_paths", "[output] paths=['p.scsv']", r if r[0] == "err" else cfg["output"].get("paths")))
    return V, odd


def finding_status():
    st = {}
    for f in common.load_known_findings():
        st[f.get("key")] = f.get("status", "open")
    return st


def first_diff(a, b, path=""):
    if type(a) is not type(b):
        return f"{path}: {a!r} vs {b!r}"[:300]
    if isinstance(a, list):
        if len(a) != len(b):
            return f"{path}: lengths {len(a)} vs {len(b)}: {a!r} vs {b!r}"[:400]
        for k, (x, y) in enumerate(zip(a, b)):
            d = first_diff(x, y, f"{path}/{x[0] if isinstance(x, list) and x and isinstance(x[0], str) and len(x) == 2 and path.endswith('d/1') else k}")
            if d:
                return d
        return None
    return None if a == b else f"{path}: {a!r} vs {b!r}"[:300]


def tables_current():
    """is coq/gen/Gen_tables_params.v (and the compiled model) the one generated from common.REPO ?"""
    import hashlib
    gen = os.path.join(COQ, "gen", "Gen_tables_params.v")
    try:
        head = open(gen).read(1200)
        for m in ("core", "mock", "io"):
            src = os.path.join(common.REPO, "src", "pydrex", m + ".py")
            if hashlib.sha256(open(src, "rb").read()).hexdigest() not in head:
                return False
        vo = os.path.join(COQ, "Model_config.vo")
        gvo = os.path.join(COQ, "gen", "Gen_tables_params.vo")
        return (os.path.getmtime(gvo) >= os.path.getmtime(gen) and os.path.getmtime(vo) >= os.path.getmtime(gvo))
    except OSError:
        return False


def correspondence(chk, impl, wd, cases, V):
    trees, paths, results = [], [], []
    for c in cases:
        text = toml_text(c["doc"])
        c["toml"] = text
        p = wd.write(text)
        paths.append(p)
        trees.append(tomllib.load(open(p, "rb")))
        c["impl"], _ = impl.run(p, trees[-1])
        results.append(c["impl"])
    # the generated tables are shared by every process building in /verif/coq: evaluate the
    # model under the build lock, and only against tables generated from *our* source root
    agree = None
    for _ in range(4):
        with common.Lock():
            if tables_current():
                agree = run_model_compare(trees, results, V)
                break
        common.build()
    if agree is None:
        raise RuntimeError("coq/gen/Gen_tables_params.v keeps being regenerated from another source root")
    bad = []
    hist = chk.cov.setdefault("histogram", {})
    outc = chk.cov.setdefault("outcomes", {})
    nom = chk.cov.setdefault("omitted_keys_per_case", {})
    for c, r, okc in zip(cases, results, agree):
        kind = c["kind"].split(":")[0] if c["kind"].startswith(("full", "all-omitted")) else c["kind"]
        hist[kind] = hist.get(kind, 0) + 1
        key = "ok" if r[0] == "ok" else r[1]
        outc[key] = outc.get(key, 0) + 1
        if c["omitted"]:
            nom[str(len(c["omitted"]))] = nom.get(str(len(c["omitted"])), 0) + 1
        chk.note_case(c["toml"], nontrivial=kind != "full",
                      sample={"kind": c["kind"], "detail": c["detail"], "omitted": [".".join(k) for k in c["omitted"]][:8],
                              "toml": c["toml"][:400], "implementation": r if r[0] == "err" else "ok", "model_agrees": okc}
                      if chk.cov["evaluations"] % 67 == 3 else None)
        if not okc:
            bad.append((c, "implementation and model disagree"))
    if bad:   # diagnostics: print the model's result for the first disagreeing cases
        sub = bad[:20]
        idx = {id(c): k for k, c in enumerate(cases)}
        try:
            with common.Lock():
                ms = run_model([trees[idx[id(c)]] for c, _ in sub], V)
        except RuntimeError as e:
            ms = [["err", f"(model output unavailable: {e})"[:200]]] * len(sub)
        for k, ((c, _), m) in enumerate(zip(sub, ms)):
            c["model"] = m
            r = c["impl"]
            if m == ["err", "Unmodelled"]:
                msg = f"the model does not cover this input; implementation: {r if r[0] == 'err' else 'parsed'}"
            else:
                msg = "implementation vs model: " + (first_diff(r, m) or "?")
            bad[k] = (c, msg)
    return bad


def search(chk, impl, wd, cases, V, status):
    """failing-input search with the property oracle (presets first, then configurations)"""
    found = []
    for cls, field, msg in oracle_presets():
        found.append({"kind": "property-violation", "call": f"pydrex.mock.{cls}" if cls != "DefaultParams" else "pydrex.core.DefaultParams",
                      "input": {"class": cls, "field": field}, "observed": [msg]})
        if len(found) >= 3:
            return found
    seen = set()
    for c in cases:
        if c["expect"] not in ("valid", "invalid"):
            continue
        flag = c.get("flag")
        if flag and V.get(flag) and not status.get(FINDING[flag][0], "open").startswith("fixed"):
            continue        # witness of a recorded, still open finding
        p = wd.write(c.get("toml") or toml_text(c["doc"]))
        fails = oracle_config(impl, p, c)
        if fails:
            sig = fails[0][:60]
            if sig in seen:
                continue
            seen.add(sig)
            found.append({"kind": "property-violation", "call": "pydrex.io.parse_config",
                          "input": {"toml": c.get("toml") or toml_text(c["doc"]), "expect": c["expect"],
                                    "case_kind": c["kind"], "omitted": [".".join(k) for k in c["omitted"]]},
                          "observed": fails})
            if len(found) >= 3:
                break
    return found


def run(chk):
    ok, br = proofs.prove(chk, FILES, PROP, groups=(), gen_modules=("params", "ioconfig"))
    chk.cov["trusted_base"] = [
        common.TRUSTED_COMMON[0],
        "table generator /verif/translator/specs_params.py (evaluates DefaultParams and every pydrex.mock preset: class-body AST, "
        "class __dict__, fresh instance, as_dict(), cls(**as_dict()), hash, setattr; reads the tolerance literal and the .get() "
        "defaults from the AST of pydrex.io) -- runs on every build, fails closed",
        "hand-written Model_config.parse_config, tied by this run's correspondence on the tree produced by tomllib.load (TOML "
        "reader = oracle; datetimes, nested tables and integers beyond 2^53 in phase_fractions are outside the modelled domain)",
        "Coq primitive binary64 floats (PrimFloat, evaluated by vm_compute) as the model of the implementation's float64; "
        "numpy's pairwise summation order is modelled by np_sum and measured here on lists of 0..200 fractions",
        "file loaders (meshio.read, read_scsv, np.load), resolve_path, the velocity-gradient factories and the random default "
        "name are opaque tokens; the harness records their calls and compares tag + arguments",
        "completeness of the generated list of attribute names that getattr(MineralPhase, s) resolves (only used by the "
        "defective variant v_getattr)",
    ]
    chk.cov["rule"] = (
        "cases = TOML files generated from one fully populated configuration per input mode (none/mesh/callable/pathlines): nothing "
        "omitted, every single optional key omitted (18 [parameters] keys with the coupled pair phase_assemblage/phase_fractions "
        "dropped together, 6 [output] keys, input.strain_final, name, the [output] and [parameters] tables), all omitted, seeded "
        "pairwise and random subsets; all phase lists of length 0..4 in name/int/bool spelling with seeded fractions; fabric letters "
        "A-E and invalid ones; fraction lists probing the float sum (0.1*10, 1+-ulp, nan, inf, ints, bools, n up to 200, seeded "
        "splits); all 32 combinations of the five input-mode keys with stub files; every single fault; the witnesses of recorded "
        "findings; type confusions covered by the model. distinct = distinct TOML text; non-trivial = anything but the four fully "
        "populated files")
    chk.assumptions.append(
        "the PrimFloat.* / PrimInt63.* entries above are Coq's kernel primitives (binary64 floats, 63-bit integers) as "
        "listed by Print Assumptions; the development declares no axiom")
    chk.assumptions.append(
        "binary64 statement: the sum invariant is |np.sum(fractions) - 1.0| <= 1e-16 evaluated in IEEE double arithmetic "
        "with numpy's pairwise summation order (the arithmetic of the implementation), not a statement over the reals")
    status = finding_status()
    impl = Impl()
    bad, cases, V = [], [], {f: False for f in FLAGS}
    with Workdir() as wd:
        V, odd = infer_variant(impl, wd)
        chk.cov["variant"] = V
        for flag, what, r in odd:
            bad.append(({"kind": "variant-witness", "toml": str(what), "expect": "invalid", "omitted": [], "detail": flag},
                        f"witness of {flag} shows neither the recorded nor the fixed behaviour: {r}"))
        cases = gen_cases(chk, chk.tier)
        if "Model_config.v" in br.built_vo:
            bad += correspondence(chk, impl, wd, cases, V)
            chk.cov["traces_validated_against_impl"] = len(cases)
        chk.cov["disagreements"] = len(bad)
        regress = []
        for flag in FLAGS:
            key, text = FINDING[flag]
            if V.get(flag):
                if status.get(key, "open").startswith("fixed"):
                    regress.append(flag)
                else:
                    chk.known_finding(f"{key} {text} [patch proposal: fixes/C19-config-errors.patch]")
        found = []
        if not ok or bad or regress:
            # one-call search first: nothing has edited a returned object yet, so what it finds holds in a fresh process
            found = search(chk, impl, wd, cases, V, status)
        # call histories on live objects (Model_config_session): results edited between the calls
        sbad, sessions = [], []
        if "Model_config_session.v" in br.built_vo and not any(V.values()):
            import time as _t
            t1 = _t.time()
            sbad, sessions = c19_session.correspondence(chk, impl, wd)
            chk.cov["seconds_call_histories"] = round(_t.time() - t1, 1)
            for h, msg in sbad:
                bad.append(({"kind": "call-history:" + h.get("name", "?"), "toml": "", "expect": "session", "omitted": [], "detail": ""}, msg))
        elif not found and "Model_config_session.v" not in br.built_vo:
            # no compiled model (a proof / the table generator broke): histories go straight to the property oracle
            found = c19_session.search_without_model(chk, wd)
        chk.cov["disagreements"] = len(bad)
        if ok and not bad and not regress:
            return
        if sessions and (sbad or not found):
            found = c19_session.search(chk, impl, wd, sbad, sessions) + found
            found = found[:4]
        for flag in regress:
            found.append({"kind": "property-violation", "call": "pydrex.io.parse_config",
                          "input": {"finding": FINDING[flag][0]}, "observed": [FINDING[flag][1] + " (recorded as fixed, reproduces again)"]})
    if found:
        for f in found:
            f["required"] = "C19 (see properties.jsonl)"
            f["broken"] = chk.cov.get("broken_obligations", [])
            f["disagreements"] = [m for _, m in bad[:3]]
            chk.replay(f)
    else:
        chk.replay({"kind": "unproved", "broken": chk.cov.get("broken_obligations", []),
                    "disagreements": [{"toml": c.get("toml", ""), "kind": c["kind"], "detail": m} for c, m in bad[:3]],
                    "note": "proof obligation or correspondence no longer checks; no failing input found by the search"},
                   no_input=True)


def replay(d):
    common.use_repo_source()
    if d.get("kind") != "property-violation":
        print("replay file names a broken obligation; re-run the check itself")
        return 1
    inp = d["input"]
    if "history" in inp:
        return c19_session.replay(d)
    if "class" in inp:
        fails = [f for f in oracle_presets() if f[0] == inp["class"] and (inp.get("field") is None or f[1] == inp["field"])]
        for f in fails:
            print("still fails:", f)
        return 1 if fails else 0
    impl = Impl()
    with Workdir() as wd:
        if "finding" in inp:
            V, _ = infer_variant(impl, wd)
            flag = [f for f in FLAGS if FINDING[f][0] == inp["finding"]][0]
            if V[flag]:
                print("still fails:", FINDING[flag][1])
            return 1 if V[flag] else 0
        p = wd.write(inp["toml"])
        fails = oracle_config(impl, p, {"expect": inp["expect"]})
    for f in fails:
        print("still fails:", f)
    return 1 if fails else 0
