"""C19 -- call histories on live objects (Model_config_session.v).

parse_config / DefaultParams().as_dict() / preset records are called several times in ONE process; what
they return is edited in place between the calls (every dict and list reachable from a returned
configuration, every dictionary obtained from a record).  Each history is executed on the live objects
and compared, output by output, with `run as_source init <history>` (vm_compute); the identities of all
containers of every new result are checked to be new (the model's `fresh_in`), and every parse / as_dict
is also compared with what a FRESH process returns for the same file / class.

The property oracle (`oracle_history`) is a direct reading of C19 on the public API over a history and is
used only to search for a failing history after a disagreement.
"""
from __future__ import annotations

import contextlib
import dataclasses
import inspect
import json
import os
import re
import subprocess
import sys
import tomllib

import numpy as np

import common
from common import COQ

HEADER = ("From Coq Require Import Floats ZArith String List.\n"
          "From PV.gen Require Import Gen_tables_params.\nFrom PV Require Import Model_config Model_config_session.\n"
          "Import ListNotations.\nOpen Scope string_scope.\nOpen Scope float_scope.\n")


def B():
    from props import c19
    return c19


# ------------------------------------------------------------------ classes (DefaultParams :: presets, in the order of the generated table)
def class_names():
    txt = open(os.path.join(COQ, "gen", "Gen_tables_params.v")).read()
    return re.findall(r'mk_pclass "([A-Za-z0-9_]+)"', txt)


def class_objects(names):
    import pydrex.core as core
    import pydrex.mock as mock
    out = []
    for n in names:
        out.append(core.DefaultParams if n == "DefaultParams" else getattr(mock, n))
    return out


# ------------------------------------------------------------------ values the caller stores
def hxf(x):
    return ["f", common.hx(float(x))]


SENTINELS = [["i", "500"], hxf(0.25), ["s", "edited"], ["n"], ["b", 1], ["t", [hxf(0.7), hxf(0.3)]],
             ["t", [["e", "MineralPhase", "olivine", "0"], ["e", "MineralPhase", "enstatite", "1"]]], ["i", "10"], ["i", "0"],
             ["s", ""], ["t", []]]


def from_canon(j):
    import pydrex.core as core
    t = j[0]
    if t == "i":
        return int(j[1])
    if t == "f":
        return common.unhx(j[1])
    if t == "s":
        return j[1]
    if t == "b":
        return bool(j[1])
    if t == "n":
        return None
    if t == "t":
        return tuple(from_canon(x) for x in j[1])
    if t == "e":
        return getattr(core, j[1])[j[2]]
    raise ValueError(j)


# ------------------------------------------------------------------ Coq terms
def mut_term(m, I):
    b = B()
    k = m[0]
    if k == "set":
        return f"(MSet {I.s(m[1])} ({b.canon_term(m[2], I)}))"
    if k == "del":
        return f"(MDel {I.s(m[1])})"
    if k == "clear":
        return "MClear"
    if k == "lset":
        return f"(MListSet {int(m[1])} ({b.canon_term(m[2], I)}))"
    if k == "append":
        return f"(MAppend ({b.canon_term(m[1], I)}))"
    raise ValueError(m)


def step_term(st, trees, I):
    b = B()
    op = st["op"]
    if op == "parse":
        return f"SParse {b.coq_table(trees[st['file']], I)}"
    if op == "asdict":
        return f"SAsDict {int(st['cls'])}"
    if op == "new":
        return f"SNew {int(st['cls'])}"
    if op == "asdict_of":
        return f"SAsDictOf {int(st['inst'])}"
    if op == "attrs":
        return f"SAttrs {int(st['inst'])}"
    if op == "read":
        return f"SRead {int(st['res'])}"
    if op == "mutate":
        return f"SMutate {int(st['res'])} [{'; '.join(I.s(p) for p in st['path'])}] {mut_term(st['mut'], I)}"
    raise ValueError(op)


def table_term(j, I):
    b = B()
    return "[" + "; ".join(f"({I.s(k)}, {b.canon_term(x, I)})" for k, x in j[1]) + "]"


def out_term(o, I):
    b = B()
    k = o[0]
    if k == "parse":
        try:
            e = b.expected_term(o[1], I)
        except ValueError:
            e = "(CErr Unmodelled)"
        return f"OParse {e} {int(o[2])}"
    if k == "asdict":
        return f"OAsDict {table_term(o[1], I)} {int(o[2])}"
    if k == "attrs":
        return f"OAttrs {table_term(o[1], I)}"
    if k == "read":
        try:
            return f"ORead ({b.canon_term(o[1], I)})"
        except ValueError:
            return 'ORead (VOpaque "outside-the-model" [])'
    raise ValueError(k)


# ------------------------------------------------------------------ executing a history on live objects
def containers(obj, opaque_ids, path=()):
    """every dict / list reachable through dict values and list items (not through tuples or loaded objects),
    as (path of keys / indices, object), parents before children"""
    out = []
    if id(obj) in opaque_ids:
        return out
    if isinstance(obj, dict):
        out.append((path, obj))
        for k in sorted(obj, key=str):
            out += containers(obj[k], opaque_ids, path + (k,))
    elif isinstance(obj, list):
        out.append((path, obj))
        for i, x in enumerate(obj):
            out += containers(x, opaque_ids, path + (i,))
    return out


class Session:
    """one history, one process; keeps every object alive so that identities are never recycled"""

    def __init__(self, impl, wd, files, classes, seed=0):
        b = B()
        self.impl, self.wd, self.classes = impl, wd, classes
        self.paths, self.trees, self.texts = {}, {}, {}
        for fid, doc in files.items():
            text = doc if isinstance(doc, str) else b.toml_text(doc)
            self.texts[fid] = text
            self.paths[fid] = wd.write(text)
            self.trees[fid] = tomllib.load(open(self.paths[fid], "rb"))
        self.base = os.path.dirname(os.path.abspath(next(iter(self.paths.values())))) if self.paths else wd.dir
        self.results, self.origin, self.instances, self.keep = [], [], [], []
        self.steps, self.outs, self.notes = [], [], []
        self.rng = np.random.default_rng(seed)
        impl.rec = []
        self.seen = {}
        import pydrex.core as core
        import pydrex.io as pio
        import pydrex.mock as mock
        for mod in (pio, core, mock):
            for name, v in list(vars(mod).items()):
                if isinstance(v, (dict, list)) and not name.startswith("__"):
                    for _, c in containers(v, set()):
                        self.seen[id(c)] = f"module-level {mod.__name__}.{name}"

    # -- canonical forms
    def opaque_ids(self):
        return {id(o) for _, _, o in self.impl.rec}

    def canon_obj(self, obj, fid=None):
        """current contents of a live result"""
        b = B()
        import pathlib
        base = pathlib.Path(self.base).resolve()
        if isinstance(obj, dict) and fid is not None:
            items = []
            for k, v in obj.items():
                if not isinstance(k, str):
                    return ["unknown", "non-string key"]
                if k == "name" and "name" not in self.trees[fid] and isinstance(v, str) and re.fullmatch(r"pydrex\.\d+", v):
                    items.append([k, ["o", "random_name", []]])
                else:
                    items.append([k, self.impl.canon(v, base)])
            return ["d", sorted(items, key=lambda kv: kv[0])]
        return self.impl.canon(obj, base)

    def note_fresh(self, obj, what):
        """the containers of a new result are new objects, pairwise distinct -> number of containers"""
        cs = containers(obj, self.opaque_ids())
        ids = [id(c) for _, c in cs]
        if len(set(ids)) != len(ids):
            self.notes.append(f"{what}: one container occurs twice inside the result")
        for p, c in cs:
            if id(c) in self.seen:
                self.notes.append(f"{what}: the container at {'/'.join(map(str, p)) or '<result>'} IS {self.seen[id(c)]}")
        for p, c in cs:
            self.seen.setdefault(id(c), f"part of result {len(self.results)} ({what}) at {'/'.join(map(str, p)) or '<result>'}")
            self.keep.append(c)
        return len(cs)

    # -- steps
    def run_step(self, st):
        op = st["op"]
        if op == "mutate_every":
            for c in self.expand_mutations(st["res"]):
                self.run_step(c)
            return
        self.steps.append(st)
        if op == "parse":
            fid = st["file"]
            res, cfg = self.impl.run(self.paths[fid], self.trees[fid], reset=False)
            n = self.note_fresh(cfg, f"parse_config({fid})") if cfg is not None else 0
            self.results.append(cfg)
            self.origin.append(fid)
            self.keep.append(cfg)
            self.outs.append(["parse", res, n])
        elif op in ("asdict", "asdict_of"):
            if op == "asdict":
                rec = self.classes[st["cls"]]()
                what = f"{self.classes[st['cls']].__name__}().as_dict()"
            else:
                rec = self.instances[st["inst"]]
                what = f"record {st['inst']} ({type(rec).__name__}).as_dict()"
            self.keep.append(rec)
            d = rec.as_dict()
            n = self.note_fresh(d, what)
            self.results.append(d)
            self.origin.append(None)
            self.outs.append(["asdict", self.canon_obj(d), n])
        elif op == "new":
            self.instances.append(self.classes[st["cls"]]())
        elif op == "attrs":
            rec = self.instances[st["inst"]]
            self.outs.append(["attrs", self.canon_obj({f.name: getattr(rec, f.name) for f in dataclasses.fields(rec)})])
        elif op == "read":
            r = st["res"]
            if r < len(self.results):
                self.outs.append(["read", self.canon_obj(self.results[r], self.origin[r])])
            else:
                self.outs.append(["read", ["n"]])
        elif op == "mutate":
            obj = self.results[st["res"]] if st["res"] < len(self.results) else None
            try:
                for k in st["path"]:
                    obj = obj[k]
                if not isinstance(obj, (dict, list)):
                    raise TypeError("not a container")
            except (KeyError, IndexError, TypeError):
                # the container the history wants to edit is not there (e.g. the parse that should have produced it
                # raised): the step is skipped here; the model skips it only if ITS result lacks the container too
                self.notes_skipped = getattr(self, "notes_skipped", 0) + 1
                return
            m = st["mut"]
            if m[0] == "set":
                obj[m[1]] = from_canon(m[2])
            elif m[0] == "del":
                obj.pop(m[1], None)
            elif m[0] == "clear":
                obj.clear()
            elif m[0] == "lset":
                obj[int(m[1])] = from_canon(m[2])
            elif m[0] == "append":
                obj.append(from_canon(m[1]))
            else:
                raise ValueError(m)
        else:
            raise ValueError(op)

    def expand_mutations(self, r):
        """one edit of every dict / list reachable from result r (deepest containers first, so that the paths stay valid)"""
        obj = self.results[r]
        if obj is None:
            return []
        out = []
        cs = containers(obj, self.opaque_ids())
        for path, c in reversed(cs):
            if any(not isinstance(k, str) for k in path):
                continue                      # a list inside a list: not addressed by key paths (not generated by the TOML files used)
            v = SENTINELS[int(self.rng.integers(len(SENTINELS)))]
            u = self.rng.random()
            if isinstance(c, dict):
                keys = sorted(k for k in c if isinstance(k, str))
                if keys and u < 0.55:
                    m = ["set", keys[int(self.rng.integers(len(keys)))], v]
                elif u < 0.7 or not keys:
                    m = ["set", "zz_added_by_caller", v]
                elif u < 0.92:
                    m = ["del", keys[int(self.rng.integers(len(keys)))]]
                else:
                    m = ["clear"]
            else:
                if c and u < 0.4:
                    m = ["lset", int(self.rng.integers(len(c))), v]
                elif u < 0.85:
                    m = ["append", v]
                else:
                    m = ["clear"]
            out.append({"op": "mutate", "res": r, "path": list(path), "mut": m})
        return out


def run_history(impl, wd, hist, classes):
    s = Session(impl, wd, hist["files"], classes, seed=hist.get("seed", 0))
    for st in hist["steps"]:
        s.run_step(st)
    return s


# ------------------------------------------------------------------ fresh-process reference
REF_SCRIPT = r"""
import json, sys, os, tomllib, dataclasses, pathlib
sys.path.insert(0, sys.argv[1])
import common
common.use_repo_source()
from props import c19, c19_session
req = json.load(open(sys.argv[2]))
impl = c19.Impl()
out = {"files": {}, "classes": []}
os.chdir(req["cwd"])
for fid, p in req["files"].items():
    tree = tomllib.load(open(p, "rb"))
    res, _ = impl.run(p, tree)
    out["files"][fid] = res
names = req["classes"]
base = pathlib.Path(req["cwd"])
for cls in c19_session.class_objects(names):
    rec = cls()
    d = rec.as_dict()
    out["classes"].append({"asdict": impl.canon(d, base), "attrs": impl.canon({f.name: getattr(rec, f.name) for f in dataclasses.fields(rec)}, base),
                           "roundtrip": bool(cls(**d) == rec)})
json.dump(out, open(sys.argv[3], "w"))
"""


def fresh_reference(wd, paths, names):
    """parse every file / build every class's dictionary in ONE new process (no edits, each file once)"""
    req = os.path.join(wd.dir, f"ref-req-{len(os.listdir(wd.dir))}.json")
    outp = req.replace("ref-req", "ref-out")
    json.dump({"files": paths, "classes": names, "cwd": os.getcwd()}, open(req, "w"))
    env = dict(os.environ, PYTHONPATH=os.path.join(common.REPO, "src"), PYTHONHASHSEED="0")
    harness_dir = os.path.dirname(os.path.dirname(os.path.abspath(__file__)))
    p = subprocess.run([common.PY, "-c", REF_SCRIPT, harness_dir, req, outp], env=env, capture_output=True, text=True, timeout=600)
    if p.returncode != 0:
        raise RuntimeError("fresh-process reference failed: " + (p.stderr or p.stdout)[-1500:])
    return json.load(open(outp))


# ------------------------------------------------------------------ histories
def session_files():
    b = B()
    files = {"min": {"input": {"timestep": 1.0}}}
    for mode in b.MODES:
        d = b.full_doc(mode)
        files["full-" + mode] = d
        nd = {k: v for k, v in b.full_doc(mode).items() if k != "parameters"}
        nd["output"] = {k: v for k, v in nd["output"].items() if k not in ("raw_output", "diagnostics")}
        files["noparams-" + mode] = nd
    files["emptyparams"] = {"name": "empty-params", "input": {"timestep": 1e9}, "parameters": {}, "output": {}}
    files["partial"] = {"name": "partial", "input": {"timestep": 1e9}, "parameters": {"initial_olivine_fabric": "B", "gbs_threshold": 0.25}}
    files["nooutput"] = {"name": "no-output", "input": dict(b.MODES["calc"]), "parameters": dict(b.PARAM_FULL)}
    files["invalid-length"] = {"name": "invalid", "input": {"timestep": 1e9}, "parameters": {"phase_assemblage": ["olivine", "enstatite"]}}
    files["invalid-sum"] = {"name": "invalid", "input": {"timestep": 1e9},
                            "parameters": {"phase_assemblage": ["olivine", "enstatite"], "phase_fractions": [0.7, 0.2]}}
    files["invalid-fabric"] = {"input": {"timestep": 1e9}, "parameters": {"initial_olivine_fabric": "F"}}
    return files


def P(f):
    return {"op": "parse", "file": f}


def R(r):
    return {"op": "read", "res": r}


def M(r, path, *m):
    return {"op": "mutate", "res": r, "path": list(path), "mut": list(m)}


def gen_histories(chk, tier, nclasses):
    rng = np.random.default_rng(chk.seed + 19)
    files = session_files()
    H = []

    def add(name, steps, fids=None):
        used = sorted({s["file"] for s in steps if s["op"] == "parse"})
        H.append({"name": name, "files": {f: files[f] for f in used}, "steps": steps, "seed": int(rng.integers(1 << 30))})

    ol_en = ["t", [["e", "MineralPhase", "olivine", "0"], ["e", "MineralPhase", "enstatite", "1"]]]
    # the trial-run idiom: parse a file that relies on the defaults, lower the resolution in what came back, parse again
    for a in ("min", "noparams-none", "noparams-calc", "emptyparams", "partial"):
        add("trial-run:" + a, [P(a), M(0, ["parameters"], "set", "number_of_grains", ["i", "500"]),
                               M(0, ["parameters"], "set", "gbm_mobility", ["i", "10"]),
                               M(0, ["parameters"], "set", "phase_assemblage", ol_en),
                               M(0, ["parameters"], "set", "phase_fractions", ["t", [hxf(0.7), hxf(0.3)]]),
                               R(0), P("partial"), P(a), P("invalid-length"), P("invalid-sum"), R(1), R(2), R(0)])
    # every reachable container of a result edited once, then the same and other files parsed
    order = ["min"] + ["noparams-" + m for m in B().MODES] + ["emptyparams", "partial", "nooutput"] + ["full-" + m for m in B().MODES]
    for k, a in enumerate(order):
        other = order[(k + 3) % len(order)]
        for rep in range(1 if tier == "quick" else 4):
            add("edit-everything:" + a, [P(a), {"op": "mutate_every", "res": 0}, R(0), P(a), R(1), P(other), R(2), R(0), R(1),
                                         {"op": "mutate_every", "res": 1}, P(a), R(3), R(1), P("invalid-fabric"), R(2)])
    # deleting / clearing what came back
    add("clear-results", [P("min"), M(0, ["parameters"], "clear"), M(0, ["output"], "clear"), M(0, ["input"], "del", "timestep"),
                          P("min"), R(0), R(1), M(1, [], "del", "parameters"), M(1, ["output", "anisotropy"], "clear"), P("min"), R(2), R(1),
                          M(2, ["output", "raw_output"], "append", ["s", "edited"]), M(2, ["output", "diagnostics"], "clear"), P("noparams-mesh"), R(3)])
    # parameter records: new and kept instances of every class
    for c in range(nclasses):
        add(f"record:{c}", [{"op": "new", "cls": c}, {"op": "asdict_of", "inst": 0}, {"op": "mutate_every", "res": 0},
                            M(0, [], "set", "gbm_mobility", ["i", "10"]), M(0, [], "del", "number_of_grains"),
                            M(0, [], "set", "phase_assemblage", ol_en), R(0),
                            {"op": "asdict_of", "inst": 0}, {"op": "attrs", "inst": 0}, R(1),
                            {"op": "asdict", "cls": c}, {"op": "new", "cls": c}, {"op": "asdict_of", "inst": 1}, {"op": "attrs", "inst": 1},
                            M(1, [], "clear"), {"op": "asdict_of", "inst": 0}, {"op": "asdict_of", "inst": 1}, R(1), R(4),
                            {"op": "asdict", "cls": (c + 1) % nclasses}])
    # records and parses interleaved (parse_config builds its defaults from DefaultParams().as_dict())
    add("record-then-parse", [{"op": "asdict", "cls": 0}, M(0, [], "set", "number_of_grains", ["i", "500"]), M(0, [], "del", "phase_fractions"),
                              P("min"), R(1), {"op": "new", "cls": 0}, {"op": "asdict_of", "inst": 0}, M(2, [], "clear"), P("partial"), R(3),
                              {"op": "asdict_of", "inst": 0}, {"op": "attrs", "inst": 0}, P("min")])
    # seeded random histories
    fids = [f for f in files]
    for k in range(12 if tier == "quick" else 150):
        steps, nres, ninst = [], 0, 0
        for _ in range(int(rng.integers(5, 13))):
            u = rng.random()
            if u < 0.3 or nres == 0:
                steps.append(P(fids[int(rng.integers(len(fids)))]))
                nres += 1
            elif u < 0.4:
                steps.append({"op": "asdict", "cls": int(rng.integers(nclasses))})
                nres += 1
            elif u < 0.5:
                steps.append({"op": "new", "cls": int(rng.integers(nclasses))})
                ninst += 1
            elif u < 0.6 and ninst:
                steps.append({"op": "asdict_of", "inst": int(rng.integers(ninst))})
                nres += 1
            elif u < 0.65 and ninst:
                steps.append({"op": "attrs", "inst": int(rng.integers(ninst))})
            elif u < 0.85:
                steps.append({"op": "mutate_every", "res": int(rng.integers(nres))})
            else:
                steps.append(R(int(rng.integers(nres))))
        steps += [R(r) for r in range(nres)]
        add(f"random:{k}", steps)
    return H


# ------------------------------------------------------------------ model evaluation
def run_model_histories(sessions, show=False):
    """-> per history the list of bool (model output i == implementation output i), or the model's outputs (show)"""
    b = B()
    out = []
    for k in range(0, len(sessions), 40):
        I = b.Interner()
        evals = []
        for s in sessions[k:k + 40]:
            h = "[" + ";\n   ".join(step_term(st, s.trees, I) for st in s.steps) + "]"
            if show:
                evals.append(f"Eval vm_compute in (show_souts (run as_source init {h})).\n")
            else:
                e = "[" + ";\n   ".join(out_term(o, I) for o in s.outs) + "]"
                evals.append(f"Eval vm_compute in (souts_eqb (run as_source init {h}) {e}).\n")
        txt = b._coqc_cases(f"C19sess{'show' if show else ''}_{os.getpid()}_{k // 40}", HEADER + I.defs() + "".join(evals))
        if show:
            strs = re.findall(r'=\s*"((?:[^"]|"")*)"\s*:\s*string', txt)
            if len(strs) != len(evals):
                raise RuntimeError(f"coqc printed {len(strs)} results for {len(evals)} histories")
            out += [json.loads(x.replace('""', '"')) for x in strs]
        else:
            ls = re.findall(r"=\s*\[([^\]]*)\]\s*:\s*list bool", txt, flags=re.S)
            if len(ls) != len(evals):
                raise RuntimeError(f"coqc printed {len(ls)} results for {len(evals)} histories:\n" + txt[-800:])
            out += [[x.strip() == "true" for x in l.split(";") if x.strip()] for l in ls]
    return out


# ------------------------------------------------------------------ the property, read on a history (failing-input search / replay)
def oracle_history(impl, wd, hist, names):
    """every parse must return what a fresh process returns for that file, every as_dict / attribute read what a
    fresh process returns for a new record of that class, and cls(**rec.as_dict()) == rec at the time of the call"""
    classes = class_objects(names)
    s = Session(impl, wd, hist["files"], classes, seed=hist.get("seed", 0))
    ref = fresh_reference(wd, s.paths, names)
    fails = []
    for st in hist["steps"]:
        n0 = len(s.outs)
        s.run_step(st)
        if len(s.outs) == n0:
            continue
        o, cst = s.outs[-1], s.steps[-1]
        where = f"step {len(s.steps)} of the history ({cst['op']})"
        if o[0] == "parse":
            want = ref["files"][cst["file"]]
            if o[1] != want:
                b = B()
                fails.append(f"{where}: parse_config of file '{cst['file']}' differs from the parse of the same file in a fresh process: "
                             + (b.first_diff(o[1], want) or f"{o[1][:2]} vs {want[:2]}"))
        elif o[0] == "asdict":
            c = cst["cls"] if cst["op"] == "asdict" else names.index(type(s.instances[cst["inst"]]).__name__)
            want = ref["classes"][c]["asdict"]
            if o[1] != want:
                b = B()
                fails.append(f"{where}: {names[c]} as_dict() differs from as_dict() of a new record in a fresh process: "
                             + (b.first_diff(o[1], want) or "?"))
            if cst["op"] == "asdict_of":
                rec = s.instances[cst["inst"]]
                try:
                    if type(rec)(**s.results[-1]) != rec:
                        fails.append(f"{where}: {names[c]}(**rec.as_dict()) != rec")
                except Exception as e:  # noqa: BLE001
                    fails.append(f"{where}: {names[c]}(**rec.as_dict()) raised {type(e).__name__}: {e}")
        elif o[0] == "attrs":
            c = names.index(type(s.instances[cst["inst"]]).__name__)
            if o[1] != ref["classes"][c]["attrs"]:
                fails.append(f"{where}: attributes of a kept {names[c]} record differ from those of a new record in a fresh process")
    return fails, s


ORACLE_SCRIPT = r"""
import json, sys
sys.path.insert(0, sys.argv[1])
import common
common.use_repo_source()
from props import c19, c19_session
h = json.load(open(sys.argv[2]))
impl = c19.Impl()
with c19.Workdir() as wd:
    try:
        fails, s = c19_session.oracle_history(impl, wd, h, h.get("class_names") or c19_session.class_names())
        out = {"fails": fails, "steps": s.steps, "texts": s.texts}
    except Exception as e:
        out = {"fails": [], "error": repr(e)}
json.dump(out, open(sys.argv[3], "w"))
"""


def oracle_fresh(wd, hist):
    """the property oracle on a history, executed in a NEW process (what a replay does): the process in which the
    check ran its histories may carry state left behind by earlier histories"""
    n = len(os.listdir(wd.dir))
    req, outp = os.path.join(wd.dir, f"orc-req-{n}.json"), os.path.join(wd.dir, f"orc-out-{n}.json")
    json.dump(hist, open(req, "w"))
    env = dict(os.environ, PYTHONPATH=os.path.join(common.REPO, "src"), PYTHONHASHSEED="0")
    harness_dir = os.path.dirname(os.path.dirname(os.path.abspath(__file__)))
    p = subprocess.run([common.PY, "-c", ORACLE_SCRIPT, harness_dir, req, outp], env=env, capture_output=True, text=True, timeout=600)
    if p.returncode != 0:
        return {"fails": [], "error": (p.stderr or p.stdout)[-500:]}
    return json.load(open(outp))


def shrink_history(wd, hist):
    """(in fresh processes) drop reads and everything after the first failing call; then try to drop single steps"""
    r = oracle_fresh(wd, hist)
    fails = r.get("fails") or []
    if not fails:
        return hist, fails
    k = int(re.match(r"step (\d+)", fails[0]).group(1))
    full = {"name": hist["name"], "files": r["texts"], "steps": r["steps"], "seed": hist.get("seed", 0)}
    if hist.get("class_names"):
        full["class_names"] = hist["class_names"]
    best = dict(full, steps=[st for st in r["steps"][:k] if st["op"] != "read"])
    bf = oracle_fresh(wd, best).get("fails") or []
    if not bf:
        return full, fails
    i, tries = 0, 0
    while i < len(best["steps"]) - 1 and len(best["steps"]) > 2 and tries < 14:
        tries += 1
        cand = dict(best, steps=best["steps"][:i] + best["steps"][i + 1:])
        cf = oracle_fresh(wd, cand).get("fails") or []
        if cf:
            best, bf = cand, cf
        else:
            i += 1
    used = {st["file"] for st in best["steps"] if st["op"] == "parse"}
    best["files"] = {f: t for f, t in best["files"].items() if f in used}
    return best, bf


# ------------------------------------------------------------------ correspondence
def correspondence(chk, impl, wd):
    """-> (bad, sessions): bad = list of (history, message)"""
    b = B()
    names = class_names()
    classes = class_objects(names)
    hists = gen_histories(chk, chk.tier, len(names))
    sessions, bad = [], []
    hist = chk.cov.setdefault("session_histogram", {})

    def count(name, key):
        h = hist.setdefault(name, {})
        h[str(key)] = h.get(str(key), 0) + 1

    for h in hists:
        s = run_history(impl, wd, h, classes)
        s.hist = h
        sessions.append(s)
        count("history_kind", h["name"].split(":")[0])
        count("steps_per_history", len(s.steps))
        for st in s.steps:
            count("op", st["op"] if st["op"] != "mutate" else "mutate:" + st["mut"][0])
            if st["op"] == "mutate":
                count("edited_container", "/".join(st["path"]) or "<result>")
        for o in s.outs:
            if o[0] == "parse":
                count("parse_outcome", "ok" if o[1][0] == "ok" else o[1][1])
                count("containers_per_parsed_config", o[2])
        for n in s.notes:
            bad.append((h, "aliasing: " + n))
    # every parse / as_dict against a fresh process
    allpaths, owner = {}, {}
    for k, s in enumerate(sessions):
        for fid, p in s.paths.items():
            allpaths[f"{k}:{fid}"] = p
    ref = fresh_reference(wd, allpaths, names)
    nref = 0
    for k, s in enumerate(sessions):
        calls = [st for st in s.steps if st["op"] in ("parse", "asdict", "asdict_of", "attrs")]
        for st, o in zip(calls, [o for o in s.outs if o[0] != "read"]):
            nref += 1
            if o[0] == "parse":
                want = ref["files"][f"{k}:{st['file']}"]
                if o[1] != want:
                    bad.append((s.hist, f"parse_config('{st['file']}') inside the history differs from a fresh process: " + (b.first_diff(o[1], want) or "?")))
            else:
                c = st["cls"] if st["op"] == "asdict" else names.index(type(s.instances[st["inst"]]).__name__)
                want = ref["classes"][c]["attrs" if o[0] == "attrs" else "asdict"]
                if o[1] != want:
                    bad.append((s.hist, f"{names[c]} {o[0]} inside the history differs from a new record in a fresh process: " + (b.first_diff(o[1], want) or "?")))
    for c, r in zip(names, ref["classes"]):
        if not r["roundtrip"]:
            bad.append(({"name": "fresh", "files": {}, "steps": []}, f"{c}(**as_dict()) != record in a fresh process"))
    chk.cov["session_calls_compared_with_fresh_process"] = nref
    # the model, under the build lock and against tables generated from our source root
    agree = None
    for _ in range(4):
        with common.Lock():
            if b.tables_current():
                agree = run_model_histories(sessions)
                break
        common.build()
    if agree is None:
        raise RuntimeError("coq/gen/Gen_tables_params.v keeps being regenerated from another source root")
    wrong = []
    for s, a in zip(sessions, agree):
        nontrivial = any(st["op"] == "mutate" for st in s.steps)
        chk.note_case(("session", s.hist["name"], json.dumps(s.steps, sort_keys=True)), nontrivial=nontrivial,
                      sample={"history": s.hist["name"], "steps": [st["op"] for st in s.steps][:30], "model_agrees": all(a) and len(a) == len(s.outs)}
                      if s.hist["name"].startswith(("trial-run:min", "record:1")) else None)
        if len(a) != len(s.outs) or not all(a):
            wrong.append(s)
    if wrong:
        try:
            with common.Lock():
                shown = run_model_histories(wrong[:6], show=True)
        except RuntimeError as e:
            shown = [[["unavailable", str(e)[:200]]]] * len(wrong[:6])
        for s, m in zip(wrong[:6], shown):
            a = agree[sessions.index(s)]
            i = next((k for k, x in enumerate(a) if not x), min(len(a), len(s.outs)) - 1)
            mo = m[i] if i < len(m) else "<no such output>"
            bad.append((s.hist, f"history '{s.hist['name']}': output {i} ({s.outs[i][0] if i < len(s.outs) else '?'}) -- implementation "
                                f"{json.dumps(s.outs[i])[:300] if i < len(s.outs) else '?'} vs model {json.dumps(mo)[:300]}"))
        for s in wrong[6:]:
            bad.append((s.hist, f"history '{s.hist['name']}': implementation and model disagree"))
    chk.cov["session_histories"] = len(sessions)
    chk.cov["session_outputs_compared"] = sum(len(s.outs) for s in sessions)
    return bad, sessions


def search(chk, impl, wd, bad, sessions):
    """failing histories for the replay files: the disagreeing ones first, then all"""
    names = class_names()
    found, seen = [], set()
    pool = [h for h, _ in bad if h.get("steps")] + [s.hist for s in sessions]
    done = set()
    for h in pool:
        if id(h) in done:
            continue
        done.add(id(h))
        try:
            small, fails = shrink_history(wd, h)
        except Exception:  # noqa: BLE001
            continue
        if not fails:
            continue
        sig = re.sub(r"step \d+", "step", fails[0])[:70]
        if sig in seen:
            continue
        seen.add(sig)
        found.append({"kind": "property-violation", "call": "call history on pydrex.io.parse_config / DefaultParams.as_dict / pydrex.mock presets",
                      "input": {"history": small["steps"], "files": small["files"], "seed": small.get("seed", 0), "name": small["name"]},
                      "observed": fails[:4]})
        if len(found) >= 3:
            break
    return found


def search_without_model(chk, wd, limit=3, budget_s=240):
    """no compiled model (a proof or the table generator broke): the generated histories go straight to the property
    oracle, each in a fresh process, within a time budget"""
    import time
    names = class_names() if os.path.exists(os.path.join(COQ, "gen", "Gen_tables_params.v")) else []
    if not names or names[0] != "DefaultParams":
        import pydrex.mock as mock
        import pydrex.core as core
        names = ["DefaultParams"] + sorted(n for n, c in inspect.getmembers(mock, inspect.isclass)
                                           if issubclass(c, core.DefaultParams) and c is not core.DefaultParams)
    t0, found, seen = time.time(), [], set()
    hists = gen_histories(chk, "quick", len(names))
    # one of each kind first
    seen_kind, keyed = {}, []
    for k, h in enumerate(hists):                      # one of each kind first
        kind = h["name"].split(":")[0]
        keyed.append((seen_kind.get(kind, 0), k, h))
        seen_kind[kind] = seen_kind.get(kind, 0) + 1
    hists = [h for _, _, h in sorted(keyed, key=lambda t: (t[0], t[1]))]
    for h in hists:
        if time.time() - t0 > budget_s or len(found) >= limit:
            break
        h = dict(h, class_names=names)
        try:
            small, fails = shrink_history(wd, h)
        except Exception:  # noqa: BLE001
            continue
        if not fails:
            continue
        sig = re.sub(r"step \d+", "step", fails[0])[:70]
        if sig in seen:
            continue
        seen.add(sig)
        found.append({"kind": "property-violation", "call": "call history on pydrex.io.parse_config / DefaultParams.as_dict / pydrex.mock presets",
                      "input": {"history": small["steps"], "files": small["files"], "seed": small.get("seed", 0), "name": small["name"],
                                "class_names": names},
                      "observed": fails[:4]})
    return found


def replay(d):
    b = B()
    impl = b.Impl()
    inp = d["input"]
    with b.Workdir() as wd:
        fails, _ = oracle_history(impl, wd, {"name": inp.get("name", "replay"), "files": inp["files"], "steps": inp["history"],
                                             "seed": inp.get("seed", 0)}, inp.get("class_names") or class_names())
    for f in fails:
        print("still fails:", f)
    return 1 if fails else 0
