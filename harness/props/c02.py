"""C02 -- solver rates equal the published D-Rex equations for every fabric and input."""
from __future__ import annotations

import math
import os
import pickle
import subprocess

import numpy as np

import common
import proofs
import gen_core as G
from props import c03

FILES = ["gen/Gen_core.v", "Model_core.v", "Spec_drex.v", "Proofs_core.v", "Proofs_total.v",
         "Proofs_spec.v", "Proofs_tie.v", "Inst_core.v", "Entry_core.v", "Extract_core.v"]
PROP = "Properties/C02.v"


# ---- independent Python reading of the published equations (failing-input search only) ----
def spec_python(c):
    tau = G.CRSS[(c["phase"], c["fabric"])]
    D, L, p, n, lam = c["D"], c["L"], c["p"], c["nexp"], c["lam"]
    sysl, sysn = [0, 0, 2, 2], [1, 2, 1, 0]
    Ads, Es = [], []
    for A in c["O"]:
        I = np.array([A[sysl[s]] @ D @ A[sysn[s]] for s in range(4)])
        q = np.array([abs(I[s] / tau[s]) for s in range(4)])
        if np.all(I == 0) or (c["phase"] == 0 and np.all(q == 0)):
            Ads.append(np.zeros((3, 3))); Es.append(0.0); continue
        beta = np.zeros(4)
        if c["phase"] == 0:
            order = sorted(range(4), key=lambda s: q[s])
            imax = order[3]
            beta[imax] = 1.0
            for s in order[1:3]:
                r = (I[s] / tau[s]) * (tau[imax] / I[imax])
                beta[s] = r * abs(r) ** (n - 1)
            active = order[1:]
        else:
            beta[3] = 1.0 if abs(I[3]) > 1e-15 else 0.0
            active = [1, 2, 3]
        Gt = 2 * sum(beta[s] * np.outer(A[sysl[s]], A[sysn[s]]) for s in range(4))
        Sg, Sl = (Gt + Gt.T) / 2, (L + L.T) / 2
        den = np.sum(Sg * Sg)
        g0 = 0.0 if abs(2 * den) < 1e-15 else np.sum(Sg * Sl) / den
        W = (L - L.T) / 2 - g0 * (Gt - Gt.T) / 2
        w = np.array([W[2, 1], W[0, 2], W[1, 0]])
        Ads.append(np.array([np.cross(w, A[i]) for i in range(3)]))
        E = 0.0
        for s in active:
            rho = (0.0 if math.isinf(tau[s]) else (1.0 / tau[s]) ** (n - p)) * abs(beta[s] * g0) ** (p / n)
            E += rho * math.exp(-lam * rho * rho)
        Es.append(E)
    Es = np.array(Es)
    damp = 1.0 if c["regime"] == 4 else 0.3
    fd = damp * c["phi"] * c["M"] * c["f"] * (np.sum(c["f"] * Es) - Es)
    return damp * np.array(Ads), fd


def oracle(core, c, r=None):
    r = r or c03.impl(core, c)
    if r[0] == "ERR":
        return [f"solver raised {r[1]}: {r[2]}"]
    if G.near_discontinuity(c) or c["regime"] not in (4, 6):
        return []
    Ad, fd = spec_python(c)
    sa = max(1.0, float(np.abs(Ad).max()))
    sf = max(1e-300, float(np.abs(fd).max()), 1e-9 * c["M"] * c["phi"])
    if c.get("relscale"):       # inputs of any magnitude: relative to the size of the published model's rates
        sa = max(float(np.abs(Ad).max()), 1e-300)
        sf = max(float(np.abs(fd).max()), 1e-300)
    fails = []
    if np.abs(r[1] - Ad).max() > 1e-8 * sa:
        g = int(np.unravel_index(np.abs(r[1] - Ad).argmax(), Ad.shape)[0])
        fails.append(f"orientation rate of grain {g} differs from the published model by {np.abs(r[1] - Ad).max():.3e}")
    if np.abs(r[2] - fd).max() > 1e-8 * sf:
        g = int(np.abs(r[2] - fd).argmax())
        fails.append(f"volume rate of grain {g} differs from the published model: {r[2][g]!r} vs {fd[g]!r}")
    return fails


def order_hist(chk, cases):
    h = chk.cov.setdefault("activity_order_histogram", {})
    for c in cases:
        if c["phase"] != 0 or c["ng"] > 64:
            continue
        act, _ = G.activities(c)
        for a in act:
            k = "".join(str(i) for i in np.argsort(a, kind="stable"))
            h[k] = h.get(k, 0) + 1


def interpreted(cases):
    d = os.path.join(common.BUILD, f"tmp-{os.getpid()}")
    os.makedirs(d, exist_ok=True)
    fi, fo = os.path.join(d, "in.pkl"), os.path.join(d, "out.pkl")
    pickle.dump(cases, open(fi, "wb"))
    env = dict(os.environ, NUMBA_DISABLE_JIT="1")
    p = subprocess.run([common.PY, os.path.join(common.VERIF, "harness", "interp_core.py"), fi, fo],
                       env=env, stdout=subprocess.PIPE, stderr=subprocess.STDOUT, text=True, timeout=3000)
    try:
        if p.returncode != 0:
            raise RuntimeError("interpreted run failed: " + p.stdout[-1500:])
        return pickle.load(open(fo, "rb"))
    finally:
        for f in (fi, fo):
            if os.path.exists(f):
                os.remove(f)
        os.rmdir(d)


def run(chk):
    ok, br = proofs.prove(chk, FILES, PROP, groups=("core",), gen_modules=("core",))
    import pydrex.core as core
    chk.cov["trusted_base"] = common.TRUSTED_COMMON + [
        "Spec_drex.v is this project's transcription of the published D-Rex equations (reproduced in DESIGN.md 5/C02); it is additionally run (extracted) against the implementation",
        "hand-written Model_core.derivs (grain loop) tied by instance lemmas C02_instance_n{1,2,3} and the differential run",
        "theorems need deformation_exponent <> 0; the real power function is modelled by Rpow (x^0 = 1, 0^y = 0 for y <> 0, else exp(y ln x))",
    ]
    chk.cov["rule"] = ("same generator as C03 (structured degenerate stream + seeded random over all valid phase/fabric pairs, both regimes, 5 flow families, "
                       "4 volume families, parameter ranges of the quantifier; deformation exponent on the grid {2, 2.5, ..., 5}; L of magnitude 1e-15 .. 1e12; ordinals spelled as "
                       "plain ints, enum members, numpy ints, mixed, positional / keyword arguments); each case is evaluated by the compiled implementation, the interpreted source "
                       "(NUMBA_DISABLE_JIT=1, cases with <= 64 grains), the extracted list model `derivs` and the extracted published model `spec_derivs`; "
                       "cases within 1e-9 relative of an activity tie that involves the LEAST active system (a discontinuity of the model) are excluded from value comparison and "
                       "counted in near_discontinuity; near ties among the most active systems (model continuous: generated family with opposite / equal invariant signs, gap 0..5e-10) "
                       "are compared at 1e-7 and counted in near_tie_compared; "
                       "distinct = byte-wise distinct inputs; non-trivial = not all returned rates are zero")
    bad = []
    if br.drivers.get("core", 1) is None:
        cases = c03.gen_cases(chk, chk.tier)
        order_hist(chk, cases)
        bad += c03.compare(chk, core, cases, "derivs")
        # the extracted published model is super-linear in the grain count (16000 grains: 13 s; 100000: > 1 h)
        spec_cases = [c for c in cases if c["ng"] <= 20000]
        if chk.tier == "quick":   # block-boundary sizes: the published model up to 5000 grains, and once at 2^14
            big = [c for c in spec_cases if c["ng"] > 5000]
            keep = [c for c in big if c["ng"] == 16384][:1]
            spec_cases = [c for c in spec_cases if c["ng"] <= 5000] + keep
        chk.cov["spec_model_max_grains"] = max(c["ng"] for c in spec_cases)
        bad += [(c, "published model: " + m) for c, m in c03.compare(chk, core, spec_cases, "spec_derivs")]
        small = [c for c in cases if c["ng"] <= 3]
        bad += c03.compare(chk, core, small, "kderivs")
        # the same values with the ordinals spelled as enum members / numpy ints / mixed, positional and keyword arguments
        pcases = [c for c in c03.presentation_cases(chk, chk.tier, spellings=None, layouts=(chk.tier != "quick"))
                  if c["regime"] in (4, 6)]          # C02 (and the published model) cover the dislocation-type regimes
        pcases += c03.dtype_cases(chk, chk.tier)     # the same values in integer / binary32 dtypes (seeded change C02f)
        bad += c03.compare(chk, core, pcases, "derivs")
        bad += [(c, "published model: " + m) for c, m in c03.compare(chk, core, pcases, "spec_derivs")]
        cases = cases + pcases          # ... and through the interpreted source below
        # compiled vs interpreted
        sub = [c for c in cases if c["ng"] <= 64]
        ires = interpreted(sub)
        nint = 0
        for c, ir in zip(sub, ires):
            r = c03.impl(core, c)
            nint += 1
            if r[0] != ir[0] or (r[0] == "ERR" and r[1] != ir[1]):
                # numba raises ZeroDivisionError where NumPy scalars give inf/nan with a warning
                if r[0] == "ERR" and r[1] == "DivZero" and ir[0] == "OK" and not np.all(np.isfinite(ir[1])):
                    continue
                bad.append((c, f"compiled {r[:2] if r[0]=='ERR' else 'OK'} vs interpreted {ir[:2] if ir[0]=='ERR' else 'OK'}"))
            elif r[0] == "OK" and not G.near_discontinuity(c):
                a = list(r[1].reshape(-1)) + list(r[2])
                b = list(ir[1].reshape(-1)) + list(ir[2])
                rt = 1e-9 if G.tie_class(c) == "none" else 1e-7
                lay = (c.get("present") or (None, None, None))[1] or ""
                if lay.endswith(("float32", "float16")):
                    # the INTERPRETED source (NumPy scalars) carries a binary32 argument through part of the arithmetic in binary32,
                    # the compiled code promotes it to binary64 at once: both are the model's value to the rounding of the presented
                    # dtype (false alarm of the first dtype family at VERIF_SEED=1, `f:float32`, relative difference 6e-8)
                    rt = 1e-5 if lay.endswith("float32") else 1e-2
                okc, idx = c03.block_close(a, b, 9 * c["ng"], rt) if c.get("relscale") else common.vec_close(a, b, rtol=rt)
                if not okc:
                    bad.append((c, f"compiled vs interpreted differ at component {idx}: {a[idx]!r} vs {b[idx]!r}"))
        chk.cov["compiled_vs_interpreted_cases"] = nint
        chk.cov["traces_validated_against_impl"] = len(cases) + len(spec_cases) + len(small) + nint
    chk.cov["disagreements"] = len(bad)
    if ok and not bad:
        return
    found = []
    seen = set()
    pool = [c for c, _ in bad] + [c for c in c03.gen_cases(chk, "quick") if c["ng"] <= 64] + c03.search_block_pool(chk, cap=1100)
    for c in pool:
        fails = oracle(core, c)
        if fails:
            sig = (c["phase"], c["fabric"], c["regime"], fails[0][:40])
            if sig in seen:
                continue
            seen.add(sig)
            # shrink to one grain where possible
            best = c
            for g in range(c["ng"]):
                c1 = dict(c, ng=1, O=c["O"][g:g + 1].copy(), f=np.ones(1))
                if any("orientation rate" in f for f in oracle(core, c1)):
                    best = c1
                    break
            found.append((best, oracle(core, best) or fails))
            if len(found) >= 3:
                break
    if found:
        for c, fails in found:
            chk.replay({"kind": "property-violation", "call": "pydrex.core.derivatives", "input": c03.encode(c),
                        "observed": fails, "required": "rates of the published D-Rex model (Spec_drex.v / DESIGN 5/C02)",
                        "broken": chk.cov.get("broken_obligations", []),
                        "disagreements": [m for _, m in bad[:3]]})
    else:
        chk.replay({"kind": "unproved", "broken": chk.cov.get("broken_obligations", []),
                    "disagreements": [{"input": c03.encode(c), "detail": m} for c, m in bad[:3]],
                    "note": "proof obligation or correspondence no longer checks; no failing input found by the search"},
                   no_input=True)


def replay(d):
    common.use_repo_source()
    import pydrex.core as core
    if d.get("kind") != "property-violation":
        print("replay file names a broken obligation; re-run the check itself")
        return 1
    fails = oracle(core, c03.decode(d["input"]))
    for f in fails:
        print("still fails:", f)
    return 1 if fails else 0
