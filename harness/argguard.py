"""Argument guard: the Coq models are PURE functions -- they return a value and leave their arguments alone.  The
implementation is only faithfully described by such a model if a call does not modify the objects it is handed
(`x - P(x)` is meaningless when `P` zeroes `x` in place) and if what it returns is not storage that a later call hands
out again (a cached array the caller may edit).  Neither is expressible in the pure model, so both are checked
dynamically on the calls a correspondence run makes:

  res, faults = guarded(fn, args, kwargs)        # faults: list of strings, empty when the call was pure
  r2 = fresh_result_probe(fn, make_args)         # call twice with equal arguments, scribble over the first result,
                                                 # the second result must be unaffected (returned storage is not shared)

`guarded` digests every ndarray reachable from the arguments (through lists / tuples / dicts, dataclass-like objects with
`__dict__`) before and after the call; a difference is reported with the position and the first changed element.  Objects
the CALLER declares as output parameters are excluded with `out=(index, ...)`."""
from __future__ import annotations

import numpy as np


def _walk(o, path, out, depth=0):
    if depth > 4:
        return
    if isinstance(o, np.ndarray):
        out.append((path, o))
    elif isinstance(o, (list, tuple)):
        for i, x in enumerate(o):
            _walk(x, f"{path}[{i}]", out, depth + 1)
    elif isinstance(o, dict):
        for k, x in o.items():
            _walk(x, f"{path}[{k!r}]", out, depth + 1)
    elif hasattr(o, "__dict__") and not callable(o) and not isinstance(o, type):
        for k, x in vars(o).items():
            _walk(x, f"{path}.{k}", out, depth + 1)


def snapshot(args, kwargs=None):
    """[(path, array object, copy of its contents)] for every ndarray reachable from the arguments"""
    found = []
    for i, a in enumerate(args):
        _walk(a, f"arg{i}", found)
    for k, a in (kwargs or {}).items():
        _walk(a, f"kw:{k}", found)
    snaps = []
    for path, arr in found:
        try:
            snaps.append((path, arr, arr.copy(), arr.dtype, arr.shape))
        except Exception:  # noqa: BLE001
            pass
    return snaps


def _same(a, b):
    if a.dtype != b.dtype or a.shape != b.shape:
        return False
    try:
        return a.tobytes() == b.tobytes()
    except Exception:  # noqa: BLE001
        return bool(np.array_equal(a, b, equal_nan=True))


def diff(snaps, skip=()):
    """descriptions of the arguments whose contents / dtype / shape changed since `snapshot`"""
    faults = []
    for path, arr, before, dt, sh in snaps:
        if any(path.startswith(s) for s in skip):
            continue
        if arr.dtype != dt or arr.shape != sh:
            faults.append(f"{path}: dtype/shape changed from {dt}{sh} to {arr.dtype}{arr.shape}")
        elif not _same(arr, before):
            try:
                idx = np.argwhere(~((arr == before) | ((arr != arr) & (before != before))))
                i0 = tuple(int(v) for v in idx[0]) if len(idx) else ()
                faults.append(f"{path}: modified in place by the call (first change at {i0}: {before[i0]!r} -> {arr[i0]!r}, "
                              f"{len(idx)} of {arr.size} entries)")
            except Exception:  # noqa: BLE001
                faults.append(f"{path}: modified in place by the call")
    return faults


def guarded(fn, args, kwargs=None, out=()):
    """call fn(*args, **kwargs); returns (result, faults).  Exceptions propagate (the arguments are still compared: the
    exception object gets the attribute `argguard_faults`)."""
    kwargs = kwargs or {}
    snaps = snapshot(args, kwargs)
    skip = tuple(f"arg{i}" for i in out)
    try:
        res = fn(*args, **kwargs)
    except Exception as e:  # noqa: BLE001
        try:
            e.argguard_faults = diff(snaps, skip)
        except Exception:  # noqa: BLE001
            pass
        raise
    return res, diff(snaps, skip)


def result_arrays(res):
    found = []
    _walk(res, "result", found)
    return found


def fresh_result_probe(fn, make_args, scribble=None):
    """Two calls with equal (freshly built) arguments; every array of the first result is overwritten before the second
    call.  Returns a list of faults: the second result must equal a pristine copy of the first (the function neither
    returns storage it keeps, nor depends on what the caller did to an earlier result)."""
    faults = []
    a1, k1 = make_args()
    r1 = fn(*a1, **k1)
    arrs = result_arrays(r1)
    pristine = [(p, a.copy()) for p, a in arrs]
    for p, a in arrs:
        if not a.flags.writeable:
            continue
        try:
            if scribble is not None:
                scribble(a)
            elif a.dtype.kind in "fc":
                a *= -90.0
                a += 7.0
            elif a.dtype.kind in "iu":
                a += 1
            elif a.dtype.kind == "b":
                np.logical_not(a, out=a)
        except Exception:  # noqa: BLE001
            pass
    a2, k2 = make_args()
    r2 = fn(*a2, **k2)
    arrs2 = result_arrays(r2)
    if len(arrs2) != len(pristine):
        faults.append(f"second call returned {len(arrs2)} arrays, the first {len(pristine)}")
        return faults
    for (p, before), (_, now) in zip(pristine, arrs2):
        if not _same(before, now):
            faults.append(f"{p}: a second call with equal arguments returns different contents after the caller modified "
                          f"the first result in place (returned storage is shared between calls)")
    return faults
