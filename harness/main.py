"""Entry point of every check:  main.py <ID> [--tier quick|thorough] [--replay file]"""
from __future__ import annotations

import argparse
import importlib
import json
import os
import sys
import traceback

sys.path.insert(0, os.path.dirname(os.path.abspath(__file__)))
import common  # noqa: E402
import purity  # noqa: E402


def main():
    ap = argparse.ArgumentParser()
    ap.add_argument("pid")
    ap.add_argument("--tier", default=os.environ.get("VERIF_TIER", "quick"))
    ap.add_argument("--replay", default=None)
    a = ap.parse_args()
    tier = a.tier if a.tier in ("quick", "thorough") else "quick"
    seed = int(os.environ.get("VERIF_SEED", "20260929"))
    common.use_repo_source()
    mod = importlib.import_module("props." + a.pid.lower())
    if a.replay:
        sys.exit(mod.replay(json.load(open(a.replay))))
    chk = common.Check(a.pid, tier, seed)
    guard = purity.ModuleStateGuard(a.pid)
    try:
        guard.start()
    except Exception:
        guard = None
    try:
        mod.run(chk)
    except Exception:
        # machinery failure: never silently pass
        traceback.print_exc()
        path = chk.replay({"kind": "machinery-error", "traceback": traceback.format_exc()}, no_input=True)
    if guard is not None:
        # the models are pure functions: state kept by the anchored modules between calls is not modelled
        try:
            ch = guard.changes()
        except Exception:
            ch = [{"object": "guard", "before": None, "after": traceback.format_exc()[-300:]}]
        chk.cov["module_state_guard"] = {"modules": guard.modules, "changes": ch,
                                         "enforced": os.environ.get("VERIF_PURITY_ENFORCE", "1") == "1"}
        if ch and chk.cov["module_state_guard"]["enforced"] and not chk.violations:
            chk.replay({"kind": "state-dependence",
                        "note": "module-level state of the anchored PyDRex modules changed during the run: results may depend on the call "
                                "history, which the (pure) models do not express; correspondence no longer shown; no failing history found",
                        "changes": ch}, no_input=True)
    sys.exit(chk.finish())


if __name__ == "__main__":
    main()
