"""Entry point of every check:  main.py <ID> [--tier quick|thorough] [--replay file]"""
from __future__ import annotations

import argparse
import importlib
import json
import os
import sys
import traceback

sys.path.insert(0, os.path.dirname(os.path.abspath(__file__)))
import common  # noqa: E402


def main():
    ap = argparse.ArgumentParser()
    ap.add_argument("pid")
    ap.add_argument("--tier", default=os.environ.get("VERIF_TIER", "quick"))
    ap.add_argument("--replay", default=None)
    a = ap.parse_args()
    tier = a.tier if a.tier in ("quick", "thorough") else "quick"
    seed = int(os.environ.get("VERIF_SEED", "20260929"))
    common.use_repo_source()
    mod = importlib.import_module("props." + a.pid.lower())
    if a.replay:
        sys.exit(mod.replay(json.load(open(a.replay))))
    chk = common.Check(a.pid, tier, seed)
    try:
        mod.run(chk)
    except Exception:
        # machinery failure: never silently pass
        traceback.print_exc()
        path = chk.replay({"kind": "machinery-error", "traceback": traceback.format_exc()}, no_input=True)
    sys.exit(chk.finish())


if __name__ == "__main__":
    main()
