"""Regenerate MANIFEST.json from the table below (kept valid at all times)."""
import json

BASELINE_CMD = "cd /repo && /venv/bin/python -m pytest -ra -q -p no:cacheprovider --timeout=900 --continue-on-collection-errors"

CLAIMED = {
    "C03": dict(
        text="Machine-checked proof (Coq 8.16, over R) of every clause of C03 for any number of grains, every phase/fabric, both dislocation-type regimes and every path of the solver kernel: orientation rate = A composed with a skew spin (Ad.A^T + A.Ad^T = 0), volume rates sum to zero, dead grains, linearity in M* and phi, growth criterion, and totality (no path raises). The per-grain kernel model is regenerated from /repo's source by a symbolic-execution translator on every run; the grain loop is a hand-written list model tied to the generated derivatives at n=1,2,3 by kernel-checked instance lemmas and to the compiled implementation by a differential run of the extracted model.",
        note="Trusted: Coq kernel; translator (proxy numpy, path enumeration); ExtrOcamlBasic extraction + hand-written OCaml float driver; real-vs-binary64 gap (theorems are over R; finiteness in floats is checked at run time only); standard-library axioms of Reals (sig_forall_dec, sig_not_dec, classic, functional_extensionality_dep). Totality is proved under deformation_exponent <> 0 (p/n is a scalar division).",
        design="5/C03", technique="Coq proof over R on a model regenerated from source by symbolic execution + instance lemmas + extracted-model differential run"),
}

ALL = [f"C{i:02d}" for i in range(1, 21)]


def main():
    checks = []
    for pid in ALL:
        if pid not in CLAIMED:
            continue
        c = CLAIMED[pid]
        checks.append({
            "property_id": pid,
            "quick_cmd": f"./check {pid} --tier quick",
            "thorough_cmd": f"./check {pid} --tier thorough",
            "evidence_file": f"/verif/evidence/{pid}.json",
            "replay_cmd_template": f"./check {pid} --replay {{path}}",
            "engine": "coq-proof",
            "level_claimed": {"category": "proof", "text": c["text"], "design_ref": c["design"]},
            "level_note": c["note"],
            "technique": c["technique"],
        })
    na = [{"property_id": p, "reason": "check not built yet in this round (the design in DESIGN.md section 5 applies; nothing about the property makes proof inapplicable)"}
          for p in ALL if p not in CLAIMED]
    m = {
        "version": 1,
        "setup_cmd": "./setup.sh",
        "hooks": {"guard": "PYDREX_VERIF", "enable": "no source hooks: all observation is done from outside the package (wrapping LSODA / eigh etc. inside the harness process)",
                  "baseline_off_cmd": BASELINE_CMD, "source_commits": [], "add_only": True},
        "engines": [{"name": "coq-proof", "path": "/verif/coq", "serves_properties": sorted(CLAIMED),
                     "kind_free_text": "Coq 8.16.1 development over models regenerated from /repo by /verif/translator (tie T) or hand-written and tied by extracted-model differential runs (tie H); harness in /verif/harness"}],
        "checks": checks,
        "notes": "fix: commits in /repo (unguarded, minimal): 6c1ddc0 (C03), e0a4441 (C02), 4a9d7f5 (C07), 9ca6973 (C07). See known_findings.json and DESIGN.md.",
        "not_applicable": na,
    }
    json.dump(m, open("/verif/MANIFEST.json", "w"), indent=1)


if __name__ == "__main__":
    main()
