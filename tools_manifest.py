"""Regenerate MANIFEST.json from the table below (kept valid at all times)."""
import json

BASELINE_CMD = "cd /repo && /venv/bin/python -m pytest -ra -q -p no:cacheprovider --timeout=900 --continue-on-collection-errors"

import glob
import os

CLAIMED = {}
for _p in sorted(glob.glob(os.path.join(os.path.dirname(os.path.abspath(__file__)), "manifest.d", "C*.json"))):
    _d = json.load(open(_p))
    CLAIMED[_d["property_id"]] = _d

ALL = [f"C{i:02d}" for i in range(1, 21)]


def main():
    checks = []
    for pid in ALL:
        if pid not in CLAIMED:
            continue
        c = CLAIMED[pid]
        checks.append({
            "property_id": pid,
            "quick_cmd": f"./check {pid} --tier quick",
            "thorough_cmd": f"./check {pid} --tier thorough",
            "evidence_file": f"/verif/evidence/{pid}.json",
            "replay_cmd_template": f"./check {pid} --replay {{path}}",
            "engine": "coq-proof",
            "level_claimed": {"category": "proof", "text": c["text"], "design_ref": c["design"]},
            "level_note": c["note"],
            "technique": c["technique"],
        })
    na = [{"property_id": p, "reason": "check not built yet in this round (the design in DESIGN.md section 5 applies; nothing about the property makes proof inapplicable)"}
          for p in ALL if p not in CLAIMED]
    groups = sorted({c.get("engine", "coq-proof") for c in CLAIMED.values()})
    m = {
        "version": 1,
        "setup_cmd": "./setup.sh",
        "hooks": {"guard": "PYDREX_VERIF", "enable": "no source hooks: all observation is done from outside the package (wrapping LSODA / eigh etc. inside the harness process)",
                  "baseline_off_cmd": BASELINE_CMD, "source_commits": [], "add_only": True},
        "engines": [{"name": "coq-proof", "path": "/verif/coq", "serves_properties": sorted(CLAIMED),
                     "kind_free_text": "Coq 8.16.1 development over models regenerated from /repo by /verif/translator (tie T) or hand-written and tied by extracted-model differential runs (tie H); harness in /verif/harness"}],
        "checks": checks,
        "notes": "fix: commits in /repo (unguarded, minimal; the pinned suite passes with all of them): 6c1ddc0 (C03), e0a4441 (C02), 4a9d7f5 + 9ca6973 (C07), 8c96a8d + 87eaf1b + 91e2b1c + faf2c78 + cc67421 + 61a7da2 + dbe5906 + 99c7597 (C19), 37f23bf (C15), 3892ce0 (C20), 2d3d738 (C10), 3f474d8 (C17), 2456cfe (C16). 58e7cfd + 342e95c (C11), b2b1af2 (C16). Open known findings: known_findings.json (new in rounds 7-8: C20 x2 NaN densities, C05 int8 strain rate). The module-state guard of harness/purity.py is enforced by default (VERIF_PURITY_ENFORCE=0 disables it). As-built record: DESIGN.md section 0; blind seeded changes and which check caught each: DESIGN.md 0.6 and seeded/.",
        "not_applicable": na,
    }
    json.dump(m, open("/verif/MANIFEST.json", "w"), indent=1)


if __name__ == "__main__":
    main()
