#!/bin/bash
# Build the whole framework once, offline: regenerate the Coq models from /repo's working
# tree, build every .vo (full build, no -vos), extract, compile the OCaml driver.
set -e
cd "$(dirname "$0")"
export PYTHONHASHSEED=0 PYTHONPATH=/repo/src
mkdir -p build evidence replays
/venv/bin/python - <<'PY'
import sys
sys.path.insert(0, "harness")
import common
br = common.build()
print("gen_error:", br.gen_error)
print("failed:", br.failed_vo)
print("driver_ok:", br.driver_ok, br.driver_error)
print("lint:", br.lint)
sys.exit(0 if (not br.gen_error and not br.failed_vo and br.driver_ok and not br.lint) else 1)
PY
