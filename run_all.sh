#!/bin/bash
# run every claimed check (quick tier by default) on the current tree; summary on stdout
cd "$(dirname "$0")"
tier=${1:-quick}
for id in C01 C02 C03 C04 C05 C06 C07 C08 C09 C10 C11 C12 C13 C14 C15 C16 C17 C18 C19 C20; do
  s=$(date +%s)
  ./check $id --tier $tier > build/run_$id.log 2>&1
  rc=$?
  e=$(date +%s)
  echo "$id exit=$rc wall=$((e-s))s known=$(grep -c '^KNOWN-FINDING' build/run_$id.log) viol=$(grep -c '^VIOLATION' build/run_$id.log)"
done
