(* driver.ml -- hand-written (trusted) glue: the OCaml binary64 instance of Num and a
   line-oriented case loop around the extracted entry points.
   input line :  <entry> <int>* | <hexfloat>*
   output line:  OK <hexfloat>*   |   ERR <name> *)
open Model

let rec pos_of_int n =
  if n = 1 then XH else if n land 1 = 0 then XO (pos_of_int (n lsr 1)) else XI (pos_of_int (n lsr 1))
let z_of_int n = if n = 0 then Z0 else if n > 0 then Zpos (pos_of_int n) else Zneg (pos_of_int (-n))
let nat_of_int n = let r = ref O in for _ = 1 to n do r := S !r done; !r
let rec float_of_pos = function
  | XH -> 1.0 | XO p -> 2.0 *. float_of_pos p | XI p -> 2.0 *. float_of_pos p +. 1.0
let float_of_z = function Z0 -> 0.0 | Zpos p -> float_of_pos p | Zneg p -> -. (float_of_pos p)

let f (x : Obj.t) : float = Obj.obj x
let r (x : float) : Obj.t = Obj.repr x
let u1 g = fun a -> r (g (f a))
let u2 g = fun a b -> r (g (f a) (f b))
let c2 g = fun a b -> g (f a) (f b)

let fnum : num = {
  nzero = r 0.0; none = r 1.0; npi = r (4.0 *. atan 1.0);
  nofZ = (fun z -> r (float_of_z z));
  nadd = u2 ( +. ); nsub = u2 ( -. ); nmul = u2 ( *. ); ndiv = u2 ( /. );
  nopp = u1 (fun x -> -. x); nabs = u1 Float.abs; nsqrt = u1 sqrt; nexp = u1 exp;
  ncos = u1 cos; nsin = u1 sin; nacos = u1 acos; natan = u1 atan;
  npow = u2 ( ** ); natan2 = u2 Float.atan2;
  nltb = c2 (fun a b -> a < b); nleb = c2 (fun a b -> a <= b); neqb = c2 (fun a b -> a = b) }

let err_name = function
  | DivZero -> "DivZero" | ValueError -> "ValueError" | AssertionError -> "AssertionError"
  | NonFinite -> "NonFinite" | IndexError -> "IndexError" | TypeError -> "TypeError"
  | KeyError -> "KeyError" | OtherError -> "OtherError"

let print_res = function
  | Err e -> print_string "ERR "; print_endline (err_name e)
  | Ok l ->
      let b = Buffer.create 4096 in
      Buffer.add_string b "OK";
      List.iter (fun x -> Buffer.add_char b ' '; Buffer.add_string b (Printf.sprintf "%h" (f x))) l;
      print_endline (Buffer.contents b)

let split_words s = List.filter (fun w -> w <> "") (String.split_on_char ' ' s)

let () =
  try
    while true do
      let line = input_line stdin in
      let ints, floats =
        match String.index_opt line '|' with
        | None -> split_words line, []
        | Some i ->
            split_words (String.sub line 0 i),
            split_words (String.sub line (i + 1) (String.length line - i - 1)) in
      match ints with
      | [] -> ()
      | entry :: is ->
          let is = List.map int_of_string is in
          let xs = List.map (fun w -> r (float_of_string w)) floats in
          let res = Dispatch.dispatch fnum z_of_int nat_of_int entry is xs in
          print_res res
    done
  with End_of_file -> ()
