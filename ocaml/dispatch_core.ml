(* dispatch.ml -- entry-point table (hand-written, trusted): name -> extracted function *)
open Model

let dispatch fnum z nat entry (is : int list) (xs : Obj.t list) : Obj.t list res =
  match entry, is with
  | "derivs", [regime; phase; fabric; n] -> run_derivs fnum (z regime) (z phase) (z fabric) (nat n) xs
  | "kderivs", [regime; phase; fabric; n] -> run_kderivs fnum (z regime) (z phase) (z fabric) (nat n) xs
  | "spec_derivs", [regime; phase; fabric; n] -> run_spec_derivs fnum (z regime) (z phase) (z fabric) (nat n) xs
  | "extract_vars", [n] -> run_extract_vars fnum (nat n) xs
  | "apply_gbs", [n] -> run_apply_gbs fnum (nat n) xs
  | "update", [n] -> run_update fnum (nat n) xs
  | "problem", [n] -> run_problem fnum (nat n) xs
  | "rhs", regime :: phase :: fabric :: n :: ass -> run_rhs fnum (z regime) (z phase) (z fabric) (nat n) (List.map z ass) xs
  | _ -> Err OtherError
