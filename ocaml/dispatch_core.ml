(* dispatch.ml -- entry-point table (hand-written, trusted): name -> extracted function *)
open Model

let dispatch fnum z nat entry (is : int list) (xs : Obj.t list) : Obj.t list res =
  match entry, is with
  | "derivs", [regime; phase; fabric; n] -> run_derivs fnum (z regime) (z phase) (z fabric) (nat n) xs
  | "kderivs", [regime; phase; fabric; n] -> run_kderivs fnum (z regime) (z phase) (z fabric) (nat n) xs
  | "spec_derivs", [regime; phase; fabric; n] -> run_spec_derivs fnum (z regime) (z phase) (z fabric) (nat n) xs
  | _ -> Err OtherError
