(* dispatch_tensors.ml -- entry-point table (hand-written, trusted): name -> extracted function *)
open Model

let dispatch fnum z nat entry (is : int list) (xs : Obj.t list) : Obj.t list res =
  match entry, is with
  | "invariants", [] -> run_invariants fnum xs
  | "decompose", [] -> run_decompose fnum xs
  | "mono", [] -> run_mono fnum xs
  | "ortho", [] -> run_ortho fnum xs
  | "tetr", [] -> run_tetr fnum xs
  | "hex", [] -> run_hex fnum xs
  | "upper3", [] -> run_upper3 fnum xs
  | "upper6", [] -> run_upper6 fnum xs
  | "vte", [] -> run_vte fnum xs
  | "etv", [] -> run_etv fnum xs
  | "m2v", [] -> run_m2v fnum xs
  | "v2m", [] -> run_v2m fnum xs
  | "rotate", [] -> run_rotate fnum xs
  | "polar_left", [] -> run_polar_left fnum xs
  | "polar_right", [] -> run_polar_right fnum xs
  | "decomp", [] -> run_decomp fnum xs
  | "decomp_series", [] -> run_decomp_series fnum xs
  | "voigt", is -> run_voigt fnum (List.map z is) xs
  | _ -> Err OtherError
