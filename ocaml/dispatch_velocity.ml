(* dispatch_velocity.ml -- entry-point table of the C18 group (hand-written, trusted) *)
open Model

let dispatch fnum z nat entry (is : int list) (xs : Obj.t list) : Obj.t list res =
  match entry, is with
  | "velocity", [flow; hl; vl] -> run_velocity fnum (z flow) (z hl) (z vl) xs
  | "gradient", [flow; hl; vl] -> run_gradient fnum (z flow) (z hl) (z vl) xs
  | "indices", [flow; hl; vl] -> run_indices fnum (z flow) (z hl) (z vl) xs
  | "strain_increment", [] -> run_strain_increment fnum xs
  | "is_inside", [n; n'] -> run_is_inside fnum (nat n) (nat n') xs
  | "ivp_func", [flow; hl; vl] -> run_ivp_func fnum (z flow) (z hl) (z vl) xs
  | "event", [flow; hl; vl; np; ncalls] -> run_event fnum (z flow) (z hl) (z vl) (nat np) (nat ncalls) xs
  | "timestamps", [mode; n] -> run_timestamps fnum (z mode) (nat n) xs
  | "gen_wrap", [which; flow; hl; vl] -> run_gen_wrap fnum (z which) (z flow) (z hl) (z vl) xs
  | "gen_is_inside", [] -> run_gen_is_inside fnum xs
  | "gen_ivp", [which; flow; hl; vl] -> run_gen_ivp fnum (z which) (z flow) (z hl) (z vl) xs
  | "gen_event", [flow; hl; vl; np; ncalls] -> run_gen_event fnum (z flow) (z hl) (z vl) (nat np) (nat ncalls) xs
  | "gen_request", [] -> run_gen_request fnum xs
  | "gen_timestamps", [mode; n] -> run_gen_timestamps fnum (z mode) (nat n) xs
  | _ -> Err OtherError
