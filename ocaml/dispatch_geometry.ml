(* dispatch_geometry.ml -- entry-point table of the C20 group (hand-written, trusted) *)
open Model

let dispatch fnum z nat entry (is : int list) (xs : Obj.t list) : Obj.t list res =
  match entry, is with
  | "to_cartesian", [] -> run_to_cartesian fnum xs
  | "to_spherical", [] -> run_to_spherical fnum xs
  | "lambert", [] -> run_lambert fnum xs
  | "poles", [ax; n] -> run_poles fnum (z ax) (nat n) xs
  | "poles_str", n :: pick :: cs -> run_poles_str fnum (nat n) (nat pick) (List.map z cs) xs
  | "axes_read", cs -> run_axes_read fnum (List.map z cs) xs
  | "density", [k; axial; g; n] -> run_density fnum (z k) (z axial) (nat g) (nat n) xs
  | "raw_totals", [k; axial; g; n] -> run_raw_totals fnum (z k) (z axial) (nat g) (nat n) xs
  | _ -> Err OtherError
