(* dispatch_npz.ml -- entry-point table of group `npz` (hand-written, trusted).
   The model works on integer tokens; results are returned to the generic driver as
   floats (all values are integers below 2^53, printed exactly as hex floats). *)
open Model

let rec float_of_pos = function
  | XH -> 1.0 | XO p -> 2.0 *. float_of_pos p | XI p -> 2.0 *. float_of_pos p +. 1.0
let float_of_z = function Z0 -> 0.0 | Zpos p -> float_of_pos p | Zneg p -> -. (float_of_pos p)

let dispatch fnum z nat entry (is : int list) (xs : Obj.t list) : Obj.t list res =
  match entry with
  | "npz" ->
      (match run_npz (List.map z is) with
       | Ok l -> Ok (List.map (fun v -> Obj.repr (float_of_z v)) l)
       | Err e -> Err e)
  | _ -> Err OtherError
