(* dispatch_resample.ml -- entry-point table of group `resample` (hand-written, trusted) *)
open Model

(* "resample32": the same extracted model, run with a Num dictionary whose addition rounds to
   binary32.  NumPy's ndarray.cumsum of a float32 array accumulates in binary32; every operand
   of the model's only addition (cumsum_from) is then a binary32 value, and for binary32
   operands the binary64 sum rounded once more to binary32 is the correctly rounded binary32
   sum (53 >= 2*24 + 2: double rounding is innocuous).  Comparisons stay binary64: searchsorted
   promotes the float32 table to the float64 variates exactly.  Int32.float_of_bits o
   Int32.bits_of_float is the IEEE round-to-nearest-even conversion binary64 -> binary32. *)
let round32 (x : Obj.t) : Obj.t =
  Obj.repr (Int32.float_of_bits (Int32.bits_of_float (Obj.obj x : float)))
let fnum32 (fnum : num) : num = { fnum with nadd = (fun a b -> round32 (fnum.nadd a b)) }

let dispatch fnum z nat entry (is : int list) (xs : Obj.t list) : Obj.t list res =
  match entry with
  | "resample" -> run_resample fnum (List.map z is) xs
  | "resample32" -> run_resample (fnum32 fnum) (List.map z is) xs
  | "session" -> run_session fnum (List.map z is) xs
  | _ -> Err OtherError
