(* dispatch_resample.ml -- entry-point table of group `resample` (hand-written, trusted) *)
open Model

let dispatch fnum z nat entry (is : int list) (xs : Obj.t list) : Obj.t list res =
  match entry with
  | "resample" -> run_resample fnum (List.map z is) xs
  | _ -> Err OtherError
