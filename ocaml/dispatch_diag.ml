(* dispatch_diag.ml -- entry-point table (hand-written, trusted): name -> extracted function *)
open Model

let dispatch fnum z nat entry (is : int list) (xs : Obj.t list) : Obj.t list res =
  match entry, is with
  | "scatter", [axis; n] -> run_scatter fnum (z axis) (nat n) xs
  | "pgr", [axis; n] -> run_pgr fnum (z axis) (nat n) xs
  | "coaxial", [a1; a2; n] -> run_coaxial fnum (z a1) (z a2) (nat n) xs
  | "bingham", [axis; n] -> run_bingham fnum (z axis) (nat n) xs
  | "lcg", [] -> run_lcg fnum xs
  | "fse", [] -> run_fse fnum xs
  | "fse_angle", [] -> run_fse_angle fnum xs
  | "session", memo :: n :: nb :: codes ->
      run_session fnum (memo <> 0) (nat n) (nat nb) (List.map nat codes) xs
  | _ -> Err OtherError
