(* dispatch_diag.ml -- entry-point table (hand-written, trusted): name -> extracted function *)
open Model

let dispatch fnum z nat entry (is : int list) (xs : Obj.t list) : Obj.t list res =
  match entry, is with
  | "scatter", [axis; n] -> run_scatter fnum (z axis) (nat n) xs
  | "pgr", [axis; n] -> run_pgr fnum (z axis) (nat n) xs
  | "coaxial", [a1; a2; n] -> run_coaxial fnum (z a1) (z a2) (nat n) xs
  | "bingham", [axis; n] -> run_bingham fnum (z axis) (nat n) xs
  | "lcg", [] -> run_lcg fnum xs
  | "fse", [] -> run_fse fnum xs
  | "fse_angle", [] -> run_fse_angle fnum xs
  | "session", memo :: n :: nb :: codes ->
      run_session fnum (memo <> 0) (nat n) (nat nb) (List.map nat codes) xs
  | "fse_session", memo :: nb :: codes ->
      run_fse_session fnum (memo <> 0) (nat nb) (List.map nat codes) xs
  | "smallest_angle", [] -> run_smallest_angle fnum xs
  | "gen_scatter", [axis; n] -> run_gen_scatter fnum (z axis) (nat n) xs
  | "gen_pgr", [axis; n] -> run_gen_pgr fnum (z axis) (nat n) xs
  | "gen_coaxial", [a1; a2; n] -> run_gen_coaxial fnum (z a1) (z a2) (nat n) xs
  | "gen_bingham", [axis; n] -> run_gen_bingham fnum (z axis) (nat n) xs
  | "gen_default", [which] -> run_gen_default fnum (nat which) xs
  | "gen_fse", [driver] -> run_gen_fse fnum (nat driver) xs
  | "gen_lcg", [] -> run_gen_lcg fnum xs
  | "gen_angle", [] -> run_gen_angle fnum xs
  | "gen_fse_angle", [] -> run_gen_fse_angle fnum xs
  | _ -> Err OtherError
