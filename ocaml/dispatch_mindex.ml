(* dispatch_mindex.ml -- entry-point table (hand-written, trusted): name -> extracted function *)
open Model

let dispatch fnum z nat entry (is : int list) (xs : Obj.t list) : Obj.t list res =
  match entry, is with
  | "qprod", [v] -> run_qprod fnum (z v) xs
  | "symops", [sys] -> run_symops fnum (z sys) xs
  | "misangle", [a; b] -> run_misangle fnum (nat a) (nat b) xs
  | "angles", [v; sys; n] -> run_angles fnum (z v) (z sys) (nat n) xs
  | "hist", [n] -> run_hist fnum (nat n) xs
  | "random", [sys] -> run_random fnum (z sys) xs
  | "theory", [sys] -> run_theory fnum (z sys) xs
  | "mindex_angles", [sys] -> run_mindex_angles fnum (z sys) xs
  | "mindex", [v; sys; n] -> run_mindex fnum (z v) (z sys) (nat n) xs
  | "mindex_full", [v; sys; n] -> run_mindex_full fnum (z v) (z sys) (nat n) xs
  | "matq", [] -> run_matq fnum xs
  | "gen_qprod", [] -> run_gen_qprod fnum xs
  | "gen_random", [sys] -> run_gen_random fnum (z sys) xs
  | "gen_index", [sys] -> run_gen_index fnum (z sys) xs
  | "gen_symops", [sys] -> run_gen_symops fnum (z sys) xs
  | _ -> Err OtherError
