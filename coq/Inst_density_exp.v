(* Inst_density_exp.v -- instance lemmas for the generated point_density, kernel exponential_kamb (see Inst_density.v) *)
From Coq Require Import Reals ZArith List Bool Lra Lia.
From PV Require Import Num NumR Model_density Inst_density.
From PV.gen Require Import Gen_geometry Gen_density.
Import ListNotations.
Open Scope R_scope.

Lemma point_density_inst_k2_a1_g2_n1 : density_stmt 2 true 2 1 (@k_point_density_k2_a1_g2_n1 NumR).
Proof. density_tac @k_point_density_k2_a1_g2_n1. Qed.
Lemma point_density_inst_k2_a1_g2_n2 : density_stmt 2 true 2 2 (@k_point_density_k2_a1_g2_n2 NumR).
Proof. density_tac @k_point_density_k2_a1_g2_n2. Qed.
Lemma point_density_inst_k2_a0_g2_n1 : density_stmt 2 false 2 1 (@k_point_density_k2_a0_g2_n1 NumR).
Proof. density_tac @k_point_density_k2_a0_g2_n1. Qed.
Lemma point_density_inst_k2_a0_g2_n2 : density_stmt 2 false 2 2 (@k_point_density_k2_a0_g2_n2 NumR).
Proof. density_tac @k_point_density_k2_a0_g2_n2. Qed.
Lemma point_density_inst_k2_a1_g3_n1 : density_stmt 2 true 3 1 (@k_point_density_k2_a1_g3_n1 NumR).
Proof. density_tac @k_point_density_k2_a1_g3_n1. Qed.
