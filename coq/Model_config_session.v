(* Model_config_session.v -- parse_config / DefaultParams().as_dict() inside a process: a history of
   calls whose RESULTS ARE LIVE, MUTABLE OBJECTS that the caller edits between the calls
   (group `config`, C19).

   Model_config.parse_config models ONE call as a function of the file contents.  User code
   parses several files in one process, and edits what it got back (`cfg["parameters"]
   ["number_of_grains"] = 500` for a cheap trial run, `params = DefaultParams().as_dict();
   params["gbm_mobility"] = 10`).  Whether a later call can see such an edit -- because a
   returned dictionary IS a module-level table, or two results share a list -- is not
   expressible in the one-call model; it is expressed here:

   * `lvalue`     a Python value whose mutable containers (dict, list) carry their identity
                  (`id(obj)`, a label).  The same label at two places = the same object.
   * `sstate`     everything that persists in the process: the label counter, one module-level
                  table of default parameters, the parameter records the caller keeps (frozen
                  dataclass instances: their class, and one dictionary slot per instance; the source
                  as it is never fills these containers, they exist so that implementations that
                  keep such tables can be expressed) and the live results of earlier calls.
   * `sop`        one step of a history: a parse of a file (given by its tomllib tree), the
                  construction of a parameter record (`rec = cls()`), `rec.as_dict()` of a kept
                  record or `cls().as_dict()` of a new one, reading a record's attributes, an edit
                  of a container reached from an earlier result by a path of keys (the edit goes to
                  the OBJECT, i.e. to every place the label occurs), or a read of an earlier result.
   * `step V`     the transition.  `as_source` is the source as it is: every parse builds its
                  result from the file contents alone and every container of the result is a new
                  object.  `vs_shared_defaults` is an implementation that fills omitted parameters
                  from a module-level table and hands that table out when the file has no
                  [parameters] table; `vs_cached_asdict` one that builds a record's dictionary once
                  per instance and returns that object on every `as_dict()`
                  (both refuted in Proofs_config_session) -- they show that the session semantics
                  can express a dependence on the history.

   Tied to /repo by the call-history correspondence of harness/props/c19.py: the same histories are
   executed in ONE Python process on the live objects, every output is compared with `run
   as_source`, and the identities of all containers of every new result are checked to be new.
   No proofs in this file. *)
From Coq Require Import Floats ZArith String List Bool.
From PV.gen Require Import Gen_tables_params.
From PV Require Import Model_config.
Import ListNotations.
Open Scope string_scope.

Definition loc := nat.

Inductive lvalue :=
| LImm (v : value)                                  (* immutable: numbers, strings, None, enum members, tuples, loaded-file tokens *)
| LList (l : loc) (items : list lvalue)
| LDict (l : loc) (items : list (string * lvalue)).

(* fresh objects for every dict / list of a pure value; labels n, n+1, ... in pre-order *)
Fixpoint label (v : value) (n : loc) {struct v} : lvalue * loc :=
  match v with
  | VList l =>
      let fix go (l : list value) (n : loc) {struct l} : list lvalue * loc :=
        match l with
        | [] => ([], n)
        | x :: r => let '(x', n1) := label x n in let '(r', n2) := go r n1 in (x' :: r', n2)
        end in
      let '(l', n') := go l (S n) in (LList n l', n')
  | VTable t =>
      let fix go (t : list (string * value)) (n : loc) {struct t} : list (string * lvalue) * loc :=
        match t with
        | [] => ([], n)
        | (k, x) :: r => let '(x', n1) := label x n in let '(r', n2) := go r n1 in ((k, x') :: r', n2)
        end in
      let '(t', n') := go t (S n) in (LDict n t', n')
  | _ => (LImm v, n)
  end.

(* the same two loops, named (used by the statements) *)
Fixpoint label_list (l : list value) (n : loc) : list lvalue * loc :=
  match l with
  | [] => ([], n)
  | x :: r => let '(x', n1) := label x n in let '(r', n2) := label_list r n1 in (x' :: r', n2)
  end.
Fixpoint label_items (t : list (string * value)) (n : loc) : list (string * lvalue) * loc :=
  match t with
  | [] => ([], n)
  | (k, x) :: r => let '(x', n1) := label x n in let '(r', n2) := label_items r n1 in ((k, x') :: r', n2)
  end.

(* contents, identities forgotten *)
Fixpoint erase (x : lvalue) : value :=
  match x with
  | LImm v => v
  | LList _ items => VList (map erase items)
  | LDict _ items => VTable (map (fun kv => match kv with (k, y) => (k, erase y) end) items)
  end.

(* identities of all containers reachable from x *)
Fixpoint labels (x : lvalue) : list loc :=
  match x with
  | LImm _ => []
  | LList l items => l :: flat_map labels items
  | LDict l items => l :: flat_map (fun kv => match kv with (_, y) => labels y end) items
  end.

(* ---------------------------------------------------------------- edits of one container *)
Inductive mut :=
| MSet (k : string) (v : value)        (* d[k] = v *)
| MDel (k : string)                    (* d.pop(k, None) *)
| MClear                               (* d.clear() / l.clear() *)
| MListSet (i : nat) (v : value)       (* l[i] = v            (i < len(l)) *)
| MAppend (v : value).                 (* l.append(v) *)

Fixpoint lget (k : string) (t : list (string * lvalue)) : option lvalue :=
  match t with
  | [] => None
  | (k', v) :: r => if String.eqb k k' then Some v else lget k r
  end.
Fixpoint ldset (k : string) (v : lvalue) (t : list (string * lvalue)) : list (string * lvalue) :=
  match t with
  | [] => [(k, v)]
  | (k', v') :: r => if String.eqb k k' then (k, v) :: r else (k', v') :: ldset k v r
  end.
Fixpoint lremove (k : string) (t : list (string * lvalue)) : list (string * lvalue) :=
  match t with
  | [] => []
  | (k', v) :: r => if String.eqb k k' then lremove k r else (k', v) :: lremove k r
  end.
Fixpoint set_nth (i : nat) (v : lvalue) (l : list lvalue) : list lvalue :=
  match l, i with
  | [], _ => []
  | _ :: r, O => v :: r
  | x :: r, S i' => x :: set_nth i' v r
  end.

(* values stored by the caller are immutable (numbers, strings, tuples, enum members) *)
Definition apply_mut (m : mut) (x : lvalue) : lvalue :=
  match x, m with
  | LDict l items, MSet k v => LDict l (ldset k (LImm v) items)
  | LDict l items, MDel k => LDict l (lremove k items)
  | LDict l _, MClear => LDict l []
  | LList l items, MListSet i v => LList l (set_nth i (LImm v) items)
  | LList l items, MAppend v => LList l (items ++ [LImm v])
  | LList l _, MClear => LList l []
  | _, _ => x                          (* wrong kind of container: raises in Python; not generated *)
  end.

(* the edit reaches the object labelled l wherever it occurs *)
Fixpoint update_at (l : loc) (m : mut) (x : lvalue) : lvalue :=
  match x with
  | LImm _ => x
  | LList l' items =>
      let x' := LList l' (map (update_at l m) items) in
      if Nat.eqb l l' then apply_mut m x' else x'
  | LDict l' items =>
      let x' := LDict l' (map (fun kv => match kv with (k, y) => (k, update_at l m y) end) items) in
      if Nat.eqb l l' then apply_mut m x' else x'
  end.

(* cfg[k1][k2]... : the container a path of keys leads to *)
Fixpoint resolve (path : list string) (x : lvalue) : option loc :=
  match path with
  | [] => match x with LList l _ | LDict l _ => Some l | LImm _ => None end
  | k :: rest =>
      match x with
      | LDict _ items => match lget k items with Some y => resolve rest y | None => None end
      | _ => None
      end
  end.

(* ---------------------------------------------------------------- the process *)
Record svariant := mkVS {
  vs_shared_defaults : bool;   (* omitted parameters filled from a module-level table that is handed out by reference *)
  vs_cached_asdict : bool      (* rec.as_dict() returns the same dictionary object on every call (built once per instance) *)
}.
Definition as_source := mkVS false false.

Definition classes : list pclass := default_params :: presets.
Definition asdict_of (c : nat) : table := pc_asdict (nth c classes default_params).

Record sstate := mkS {
  s_next : loc;                 (* labels >= s_next have not been used *)
  s_defaults : lvalue;          (* module-level table of default parameters *)
  s_instances : list (nat * lvalue);  (* records the caller keeps: class index, per-instance dictionary slot (LImm VNone = empty) *)
  s_results : list lvalue       (* what earlier calls returned, in order (a failed parse returns nothing: LImm VNone) *)
}.

(* state of a fresh process: the module-level table gets the label 0; no record is kept yet *)
Definition init : sstate :=
  let '(d, n) := label (VTable (asdict_of 0)) 0 in mkS n d [] [].

Inductive sop :=
| SParse (toml : table)                            (* parse_config(file whose tomllib tree is toml) *)
| SAsDict (c : nat)                                (* (DefaultParams :: presets)[c]().as_dict()      (a new record) *)
| SNew (c : nat)                                   (* rec = (DefaultParams :: presets)[c]()         (kept; records are numbered 0, 1, ...) *)
| SAsDictOf (i : nat)                              (* records[i].as_dict() *)
| SAttrs (i : nat)                                 (* {f: getattr(records[i], f) for f in fields} *)
| SMutate (r : nat) (path : list string) (m : mut) (* edit the container results[r][path...] in place *)
| SRead (r : nat).                                 (* look at results[r] *)

Inductive sout :=
| OParse (r : cres config) (containers : nat)      (* returned configuration; number of dicts / lists it consists of *)
| OAsDict (t : table) (containers : nat)
| OAttrs (t : table)
| ORead (v : value).

(* the dictionary parse_config returns *)
Definition config_value (c : config) : value :=
  VTable [("name", c.(c_name)); ("parameters", VTable c.(c_params)); ("input", VTable c.(c_input));
          ("output", VTable c.(c_output))].

Definition table_of (v : value) : table := match v with VTable t => t | _ => [] end.

(* the [parameters] table seen by an implementation that fills omitted keys from `dflt` *)
Definition prefill (dflt : table) (toml : table) : table :=
  match get "parameters" toml with
  | Some (VTable p) => dset "parameters" (VTable (with_defaults dflt p)) toml
  | Some _ => toml
  | None => dset "parameters" (VTable dflt) toml
  end.

Definition inst_cells (s : sstate) : list lvalue := map snd s.(s_instances).
Definition all_cells (s : sstate) : list lvalue := s.(s_defaults) :: inst_cells s ++ s.(s_results).

Definition mutate_all (l : loc) (m : mut) (s : sstate) : sstate :=
  mkS s.(s_next) (update_at l m s.(s_defaults)) (map (fun ci => (fst ci, update_at l m (snd ci))) s.(s_instances))
      (map (update_at l m) s.(s_results)).

Definition inst_class (s : sstate) (i : nat) : nat := fst (nth i s.(s_instances) (0, LImm VNone)).
Definition inst_slot (s : sstate) (i : nat) : lvalue := snd (nth i s.(s_instances) (0, LImm VNone)).
Fixpoint set_slot (i : nat) (x : lvalue) (l : list (nat * lvalue)) : list (nat * lvalue) :=
  match l, i with
  | [], _ => []
  | (c, _) :: r, O => (c, x) :: r
  | ci :: r, S i' => ci :: set_slot i' x r
  end.
Definition instance_of (c : nat) : table := pc_instance (nth c classes default_params).

Definition result (s : sstate) (r : nat) : lvalue := nth r s.(s_results) (LImm VNone).

Definition push (s : sstate) (n : loc) (x : lvalue) : sstate :=
  mkS n s.(s_defaults) s.(s_instances) (s.(s_results) ++ [x]).

Definition step (V : svariant) (s : sstate) (o : sop) : sstate * list sout :=
  match o with
  | SParse toml =>
      if V.(vs_shared_defaults) then
        let dflt := table_of (erase s.(s_defaults)) in
        match parse_config v_fixed (prefill dflt toml) with
        | COk cfg =>
            match get "parameters" toml with
            | None =>
                (* the module-level table itself was processed in place and is part of the result *)
                let d := match s.(s_defaults) with
                         | LDict l _ => LDict l (map (fun kv => (fst kv, LImm (snd kv))) cfg.(c_params))
                         | y => y end in
                let '(nm, n1) := label cfg.(c_name) (S s.(s_next)) in
                let '(i, n2) := label (VTable cfg.(c_input)) n1 in
                let '(ou, n3) := label (VTable cfg.(c_output)) n2 in
                let x := LDict s.(s_next) [("name", nm); ("parameters", d); ("input", i); ("output", ou)] in
                (mkS n3 d s.(s_instances) (s.(s_results) ++ [x]), [OParse (COk cfg) (length (labels x))])
            | Some _ =>
                let '(x, n) := label (config_value cfg) s.(s_next) in
                (push s n x, [OParse (COk cfg) (length (labels x))])
            end
        | CErr e => (push s s.(s_next) (LImm VNone), [OParse (CErr e) 0])
        end
      else
        match parse_config v_fixed toml with
        | COk cfg =>
            let '(x, n) := label (config_value cfg) s.(s_next) in
            (push s n x, [OParse (COk cfg) (length (labels x))])
        | CErr e => (push s s.(s_next) (LImm VNone), [OParse (CErr e) 0])
        end
  | SAsDict c =>
      (* a new record: its dictionary is new in either variant *)
      let '(x, n) := label (VTable (asdict_of c)) s.(s_next) in
      (push s n x, [OAsDict (asdict_of c) (length (labels x))])
  | SNew c => (mkS s.(s_next) s.(s_defaults) (s.(s_instances) ++ [(c, LImm VNone)]) s.(s_results), [])
  | SAsDictOf i =>
      if V.(vs_cached_asdict) then
        match inst_slot s i with
        | LImm _ =>
            let '(x, n) := label (VTable (asdict_of (inst_class s i))) s.(s_next) in
            (mkS n s.(s_defaults) (set_slot i x s.(s_instances)) (s.(s_results) ++ [x]),
             [OAsDict (asdict_of (inst_class s i)) (length (labels x))])
        | x => (push s s.(s_next) x, [OAsDict (table_of (erase x)) (length (labels x))])
        end
      else
        let '(x, n) := label (VTable (asdict_of (inst_class s i))) s.(s_next) in
        (push s n x, [OAsDict (asdict_of (inst_class s i)) (length (labels x))])
  | SAttrs i => (s, [OAttrs (instance_of (inst_class s i))])
  | SMutate r path m =>
      match resolve path (result s r) with
      | Some l => (mutate_all l m s, [])
      | None => (s, [])                  (* no such container: not generated *)
      end
  | SRead r => (s, [ORead (erase (result s r))])
  end.

Fixpoint run (V : svariant) (s : sstate) (h : list sop) : list sout :=
  match h with
  | [] => []
  | o :: t => let '(s', out) := step V s o in out ++ run V s' t
  end.

Fixpoint state_after (V : svariant) (s : sstate) (h : list sop) : sstate :=
  match h with
  | [] => s
  | o :: t => state_after V (fst (step V s o)) t
  end.

(* the reading of the property: a parse is the ONE-CALL model function of the file contents, an
   as_dict() is the class's table -- nothing else enters.
   records are frozen: the only thing a history does to them is to create them (cs = the classes of the
   records created so far); edits of results (SMutate) do not occur in this function at all *)
Fixpoint pure_run (cs : list nat) (h : list sop) : list (cres config + table) :=
  match h with
  | [] => []
  | SParse toml :: t => inl (parse_config v_fixed toml) :: pure_run cs t
  | SAsDict c :: t => inr (asdict_of c) :: pure_run cs t
  | SNew c :: t => pure_run (cs ++ [c]) t
  | SAsDictOf i :: t => inr (asdict_of (nth i cs 0)) :: pure_run cs t
  | SAttrs i :: t => inr (instance_of (nth i cs 0)) :: pure_run cs t
  | _ :: t => pure_run cs t
  end.
Definition call_out (o : sout) : list (cres config + table) :=
  match o with
  | OParse r _ => [inl r]
  | OAsDict t _ => [inr t]
  | OAttrs t => [inr t]
  | ORead _ => []
  end.
Definition is_edit (o : sop) : bool := match o with SMutate _ _ _ => true | _ => false end.

(* ---------------------------------------------------------------- comparison (correspondence)
   dictionaries are compared as finite maps at every level (the order in which keys were inserted
   is not claimed), floats bit-wise with all NaNs identified *)
Fixpoint veq (a b : value) {struct a} : bool :=
  let fix list_eq (l l' : list value) {struct l} : bool :=
    match l, l' with
    | [], [] => true
    | x :: r, y :: r' => veq x y && list_eq r r'
    | _, _ => false
    end in
  let fix tab_sub (t : list (string * value)) (t' : table) {struct t} : bool :=
    match t with
    | [] => true
    | (k, x) :: r => match get k t' with Some y => veq x y | None => false end && tab_sub r t'
    end in
  match a, b with
  | VInt x, VInt y => Z.eqb x y
  | VFloat x, VFloat y => float_eqb x y
  | VStr x, VStr y => String.eqb x y
  | VBool x, VBool y => Bool.eqb x y
  | VNone, VNone => true
  | VList l, VList l' => list_eq l l'
  | VTuple l, VTuple l' => list_eq l l'
  | VTable t, VTable t' => Nat.eqb (length t) (length t') && tab_sub t t'
  | VEnum c n z, VEnum c' n' z' => String.eqb c c' && String.eqb n n' && Z.eqb z z'
  | VJunk x, VJunk y => String.eqb x y
  | VOpaque t l, VOpaque t' l' => String.eqb t t' && list_eq l l'
  | _, _ => false
  end.

Definition sout_eqb (m e : sout) : bool :=
  match m, e with
  | OParse r n, OParse r' n' => result_eqb r r' && Nat.eqb n n'
  | OAsDict t n, OAsDict t' n' => veq (VTable t) (VTable t') && Nat.eqb n n'
  | OAttrs t, OAttrs t' => veq (VTable t) (VTable t')
  | ORead v, ORead v' => veq v v'
  | _, _ => false
  end.

Fixpoint souts_eqb (m e : list sout) : list bool :=
  match m, e with
  | [], [] => []
  | x :: r, y :: r' => sout_eqb x y :: souts_eqb r r'
  | _ :: r, [] => false :: souts_eqb r []
  | [], _ :: r' => [false]
  end.

(* printing (diagnostics of disagreeing histories only) *)
Definition show_sout (o : sout) : string :=
  match o with
  | OParse r n => "[""parse""," ++ show_result r ++ "," ++ q (show_Z (Z.of_nat n)) ++ "]"
  | OAsDict t n => "[""asdict""," ++ show (VTable t) ++ "," ++ q (show_Z (Z.of_nat n)) ++ "]"
  | OAttrs t => "[""attrs""," ++ show (VTable t) ++ "]"
  | ORead v => "[""read""," ++ show v ++ "]"
  end.
Definition show_souts (l : list sout) : string := "[" ++ join (map show_sout l) ++ "]".
