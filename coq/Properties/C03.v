(* Properties/C03.v -- C03: rates conserve the texture manifold.
   Only statements; each is closed by `exact` of a lemma proved elsewhere. *)
From Coq Require Import Reals ZArith List.
From Coquelicot Require Import Hierarchy Derive.
From PV Require Import Num NumR Model_core Model_minerals Proofs_core Proofs_total Inst_core Proofs_flow Proofs_path Proofs_path2 Model_blocks Proofs_blocks Proofs_blocks_sum.
From PV.gen Require Import Gen_core.
Import ListNotations.
Open Scope R_scope.

(* every grain's orientation rate Ad satisfies  Ad.A^T + A.Ad^T = 0  (A composed with a
   skew spin), in both dislocation-type regimes, any number of grains, any phase/fabric,
   any path through the generated kernel (including the early exits) *)
Theorem C03_orientation_rate_skew :
  forall regime ph fb os fs (D L S : arr NumR) p n lam M phi Ads fds,
  dislocation_regime regime ->
  @derivs NumR regime ph fb os fs D L S p n lam M phi = Ok (Ads, fds) ->
  Forall2 skew_wrt os Ads.
Proof. exact derivs_skew. Qed.

(* the rate of each grain is  w x a_p  for the spin vector w of the generated code *)
Theorem C03_rate_is_spin_cross_axis :
  forall (A L G : arr NumR) (g : R),
  let Ad := k_get_orientation_change A L G g in
  let w := spin_of L G g in
  forall p, lt3 p ->
    m3 Ad p 0 = w 1%nat * m3 A p 2 - w 2%nat * m3 A p 1 /\
    m3 Ad p 1 = w 2%nat * m3 A p 0 - w 0%nat * m3 A p 2 /\
    m3 Ad p 2 = w 0%nat * m3 A p 1 - w 1%nat * m3 A p 0.
Proof. exact orientation_change_rows. Qed.

Theorem C03_volume_rates_sum_zero :
  forall regime ph fb os fs (D L S : arr NumR) p n lam M phi Ads fds,
  length os = length fs -> rsum fs = 1 ->
  @derivs NumR regime ph fb os fs D L S p n lam M phi = Ok (Ads, fds) ->
  rsum fds = 0.
Proof. exact derivs_sum_zero. Qed.

(* the volume part of derivs is frac_rates of the per-grain energies ... *)
Theorem C03_volume_rates_form :
  forall regime ph fb os fs (D L S : arr NumR) p n lam M phi Ads fds,
  dislocation_regime regime ->
  @derivs NumR regime ph fb os fs D L S p n lam M phi = Ok (Ads, fds) ->
  exists es c, length es = length os /\ 0 < cfac c /\ fds = @frac_rates NumR c phi M fs es.
Proof. exact derivs_fracs. Qed.

(* ... for which: dead grains, linearity in M* and phi, zero mobility, growth criterion *)
Theorem C03_dead_grain : forall c phi M fs es i,
  (i < length fs)%nat -> length fs = length es -> nth i fs 0 = 0 ->
  nth i (@frac_rates NumR c phi M fs es) 0 = 0.
Proof. exact dead_grain. Qed.

Theorem C03_linear_in_mobility : forall c phi M k fs es,
  @frac_rates NumR c phi (k * M) fs es = map (Rmult k) (@frac_rates NumR c phi M fs es).
Proof. exact rates_linear_M. Qed.

Theorem C03_linear_in_phase_fraction : forall c phi M k fs es,
  @frac_rates NumR c (k * phi) M fs es = map (Rmult k) (@frac_rates NumR c phi M fs es).
Proof. exact rates_linear_phi. Qed.

Theorem C03_zero_mobility : forall c phi fs es i,
  nth i (@frac_rates NumR c phi 0 fs es) 0 = 0.
Proof. exact rates_zero_M. Qed.

Theorem C03_grows_iff_below_mean : forall c phi M fs es i,
  (i < length fs)%nat -> length fs = length es ->
  0 < cfac c -> 0 < phi * M * nth i fs 0 ->
  let emean := rsum (map2 Rmult fs es) in
  (0 < nth i (@frac_rates NumR c phi M fs es) 0 <-> nth i es 0 < emean).
Proof. exact grows_iff_below_mean. Qed.

(* no path raises: every valid (phase, fabric), both regimes, any n_grains, any input with
   deformation exponent <> 0 (p/n is a scalar division) -- includes grains on which no
   slip system can be activated *)
Theorem C03_solver_total :
  forall regime ph fb os fs (D L S : arr NumR) p n lam M phi,
  dislocation_regime regime -> valid_pair ph fb -> n <> 0 ->
  exists v, @derivs NumR regime ph fb os fs D L S p n lam M phi = Ok v.
Proof. exact derivs_total. Qed.

(* tie of the list model to the generated derivatives at n_grains = 1, 2, 3 *)
Theorem C03_instance_n1 : forall regime phase fabric (O f D L S : arr NumR) (p n lam M phi : R),
  res_match 1 (k_derivatives_n1 regime phase fabric O f D L S p n lam M phi)
    (derivs regime phase fabric [slice9 O 0] [f 0%nat] D L S p n lam M phi).
Proof. exact derivs_inst_1. Qed.
Theorem C03_instance_n2 : forall regime phase fabric (O f D L S : arr NumR) (p n lam M phi : R),
  res_match 2 (k_derivatives_n2 regime phase fabric O f D L S p n lam M phi)
    (derivs regime phase fabric [slice9 O 0; slice9 O 1] [f 0%nat; f 1%nat] D L S p n lam M phi).
Proof. exact derivs_inst_2. Qed.
Theorem C03_instance_n3 : forall regime phase fabric (O f D L S : arr NumR) (p n lam M phi : R),
  res_match 3 (k_derivatives_n3 regime phase fabric O f D L S p n lam M phi)
    (derivs regime phase fabric [slice9 O 0; slice9 O 1; slice9 O 2]
            [f 0%nat; f 1%nat; f 2%nat] D L S p n lam M phi).
Proof. exact derivs_inst_3. Qed.

(* non-vacuity: hypotheses are satisfiable *)
Example C03_nonvacuous :
  dislocation_regime 4 /\ valid_pair 0 2 /\ (3.5 <> 0) /\
  rsum [0.5; 0.5; 0] = 1 /\ nth 2 [0.5; 0.5; 0] 0 = 0.
Proof. exact C03_nonvacuous_proof. Qed.

(* ---- capstones for the texture ODE itself -------------------------------------------------------
   y is the state vector (entries 9 + 9 n + g, g < n, are the grain volume fractions);
   vf ... L s y i (Proofs_path.vf) is component i of the modelled eval_rhs at state y for velocity gradient
   L and strain-rate scale s; f ... Lh sh t y i is the same along a history (Lh t, sh t).  Where eval_rhs
   raises the modelled field is 0, so every regime ordinal is covered. *)

(* the vector field itself: the n volume rates sum to zero at every state that has a grain of positive
   volume (otherwise extract_vars' normalisation divides by zero and the code produces NaN) -- although
   extract_vars clips and renormalises the fractions before the kernel sees them *)
Theorem C03_field_volume_rates_sum_zero :
  forall (regime ph fb : Z) (n : nat) (ass : list Z) (frs Sd : list R) (p nn lam M : R)
         (L : list R) (s : R) (y : nat -> R),
  (exists g, (g < n)%nat /\ 0 < y (9 + 9 * n + g)%nat) ->
  rsum (map (fun g => vf regime ph fb n ass frs Sd p nn lam M L s y (9 + 9 * n + g)%nat) (seq 0 n)) = 0.
Proof. exact vf_volume_sum. Qed.

(* hence sum_{g<n} f_g(t) is constant along every exact solution (any regime, mineral, parameters) *)
Theorem C03_solution_conserves_volume :
  forall (regime ph fb : Z) (n : nat) (ass : list Z) (frs Sd : list R) (p nn lam M : R)
         (Lh : R -> list R) (sh : R -> R) (y : nat -> R -> R) (a b : R),
  a <= b ->
  (forall i t, a <= t <= b ->
     is_derive (y i) t (f regime ph fb n ass frs Sd p nn lam M Lh sh t (fun j => y j t) i)) ->
  (forall t, a <= t <= b -> exists g, (g < n)%nat /\ 0 < y (9 + 9 * n + g)%nat t) ->
  rsum (map (fun g => y (9 + 9 * n + g)%nat b) (seq 0 n)) = rsum (map (fun g => y (9 + 9 * n + g)%nat a) (seq 0 n)).
Proof. exact solution_volume_constant. Qed.

(* non-vacuity of the hypotheses (jointly): see C01_solution_nonvacuous *)
Example C03_solution_nonvacuous :
  let y := fun (i : nat) (_ : R) => y0_example i in
  dislocation_regime 4 /\
  (forall i t, is_derive (y i) t
     (f 4 0 0 2 [0%Z] [1] [] 1.5 3.5 30 125 (fun _ => repeat 0 9) (fun _ => 0) t (fun j => y j t) i)) /\
  (forall g k t, (g < 2)%nat -> (k < 9)%nat -> -1 <= y (9 + 9 * g + k)%nat t <= 1) /\
  (forall t, exists g, (g < 2)%nat /\ 0 < y (9 + 9 * 2 + g)%nat t) /\
  (forall t, exists out, @rhs NumR 4 0 0 2 [0%Z] [1] (repeat 0 9) 0 [] 1.5 3.5 30 125 (ylist 2 (fun j => y j t)) = Ok out) /\
  (forall r r', (r < 3)%nat -> (r' < 3)%nat -> gram (grainA y 1) r r' 0 = if Nat.eqb r r' then 1 else 0).
Proof. exact solution_hyps_nonvacuous_proof. Qed.

(* ---- blocked summation of the mean strain energy: any number of grains, any block size (seeded changes C03d, C14f) ----
   the volume-weighted mean energy  sum_g f_g E_g  accumulated as partial sums over consecutive blocks of ANY positive size (the
   shorter tail block included) is the mean energy of the model, so every statement above holds of such an implementation ... *)
Theorem C03_mean_energy_blocked_any_size : forall (fs es : list R) (b : nat), (0 < b)%nat ->
  bsum (map bsum (chunks b (map2 Rmult fs es))) = @sumf NumR (map2 Rmult fs es).
Proof. intros fs es b Hb. rewrite (sum_blocked b _ Hb). symmetry. exact (sumf_R _). Qed.

(* ... whereas summing only the n / b full blocks misses exactly the energy-weighted volume of the tail grains *)
Theorem C03_mean_energy_floor_blocks_defect : forall (fs es : list R) (b : nat), (0 < b)%nat ->
  @sumf NumR (map2 Rmult fs es) - bsum (map bsum (full_blocks b (map2 Rmult fs es))) =
  bsum (skipn (b * (length (map2 Rmult fs es) / b)) (map2 Rmult fs es)).
Proof. intros fs es b Hb. rewrite <- (sum_floor_blocks_defect b _ Hb). f_equal. exact (sumf_R _). Qed.
