(* Properties/C19.v -- C19: parameter records and configuration files mean what they declare.
   Only statements; each is closed by `exact` of a lemma of Proofs_config.v.

   Objects:  default_params / presets  -- tables regenerated from pydrex.core / pydrex.mock on
             every run (gen/Gen_tables_params.v);  parse_config V toml -- the model of
             pydrex.io.parse_config (Model_config.v), V = v_fixed is the code as committed;
             the other variants re-enable one recorded defect each (see *_refuted below). *)
From Coq Require Import Floats ZArith String List Bool.
From PV.gen Require Import Gen_tables_params Gen_io_config.
From PV Require Import Model_config Proofs_config Model_pyconfig Inst_config Model_config_session Proofs_config_session.
Import ListNotations.
Open Scope string_scope.

(* ---- parameter records ------------------------------------------------------------------ *)

(* every preset of pydrex.mock (and DefaultParams itself): each attribute assigned in the class
   body has, on a fresh instance and in as_dict(), exactly the declared value *)
Theorem C19_presets_faithful : Forall faithful presets /\ faithful default_params.
Proof. exact presets_faithful. Qed.

(* ... and this is not vacuous: there are presets, each declares something, and at least one
   declares a value different from the default *)
Theorem C19_presets_nonvacuous :
  presets <> [] /\ Forall (fun pc => pc_declared pc <> []) presets /\
  Exists (fun pc => exists k v d, In (k, v) (pc_declared pc) /\ get k (pc_instance default_params) = Some d /\ v <> d) presets.
Proof. exact presets_nonvacuous. Qed.

(* as_dict() lists the field values; DefaultParams( **as_dict()) has the same fields and
   compares equal (also for every preset) *)
Theorem C19_defaults_roundtrip : roundtrips default_params /\ Forall roundtrips presets.
Proof. exact defaults_roundtrip. Qed.

(* hash() succeeds; assigning any field, or a new attribute, raises FrozenInstanceError *)
Theorem C19_defaults_frozen_hashable : frozen_hashable default_params /\ Forall frozen_hashable presets.
Proof. exact defaults_frozen_hashable. Qed.

(* ---- configuration files: totality ------------------------------------------------------ *)

(* every configuration that supplies the required inputs ([input] with timestep or paths and a
   complete input option) and whose supplied optional values are valid parses; the hypotheses
   of wf_config are all of the form "if the key is present, its value is valid", so every
   subset of the optional keys may be absent *)
Theorem C19_parse_total : forall toml zs, wf_config toml zs -> exists cfg, parse_config v_fixed toml = COk cfg.
Proof. exact parse_total. Qed.

(* explicitly: from any valid configuration, drop ANY list of independent optional keys
   (16 [parameters] keys, all 6 [output] keys, input.strain_final, name, the [output] table):
   it still parses.  By induction over the key list, not by enumeration. *)
Theorem C19_parse_total_subsets : forall ks toml zs,
  forallb independent_optional ks = true -> wf_config toml zs ->
  exists cfg, parse_config v_fixed (fold_right drop toml ks) = COk cfg.
Proof. exact parse_total_subsets. Qed.

(* the defaults loop over DefaultParams().as_dict(), for any list of defaults and any supplied
   table: afterwards each key is bound to the supplied value, else to its default *)
Theorem C19_defaults_loop : forall d p k,
  get k (with_defaults d p) = match get k d with Some dv => Some (getd k p dv) | None => get k p end.
Proof. exact with_defaults_get. Qed.

(* ---- configuration files: omitted keys take their documented defaults -------------------- *)

(* [parameters]: every omitted field of DefaultParams has the value of DefaultParams().as_dict() *)
Theorem C19_parse_defaults_parameters : forall toml cfg p k d,
  parse_config v_fixed toml = COk cfg -> params_table toml = COk p ->
  get k defaults_asdict = Some d -> get k p = None -> get k (c_params cfg) = Some d.
Proof. exact defaults_parameters. Qed.

Theorem C19_defaults_cover_fields : forall k, In k default_field_names -> mem k defaults_asdict = true.
Proof. exact defaults_cover_fields. Qed.

(* [output] (present or not): directory -> working directory, raw_output / diagnostics -> all
   simulated phases, anisotropy -> the four outputs, paths -> None, log_level -> "WARNING" *)
Theorem C19_parse_defaults_output : forall toml cfg o,
  parse_config v_fixed toml = COk cfg -> output_table toml = COk o ->
  (get "directory" o = None -> get "directory" (c_output cfg) = Some (VOpaque "cwd" [])) /\
  (get "raw_output" o = None -> get "raw_output" (c_output cfg) = Some (VList (assemblage_of (c_params cfg)))) /\
  (get "diagnostics" o = None -> get "diagnostics" (c_output cfg) = Some (VList (assemblage_of (c_params cfg)))) /\
  (get "anisotropy" o = None ->
     get "anisotropy" (c_output cfg) = Some (VList [VStr "Voigt"; VStr "hexaxis"; VStr "moduli"; VStr "%decomp"])) /\
  (get "paths" o = None -> get "paths" (c_output cfg) = Some VNone) /\
  (get "log_level" o = None -> get "log_level" (c_output cfg) = Some (VStr "WARNING")).
Proof. exact defaults_output. Qed.

(* [input]: strain_final -> inf, timestep -> nan (only possible with pathline input); supplied
   values are kept *)
Theorem C19_parse_defaults_input : forall toml cfg i,
  parse_config v_fixed toml = COk cfg -> get "input" toml = Some (VTable i) ->
  (get "strain_final" i = None -> get "strain_final" (c_input cfg) = Some (VFloat infinity)) /\
  (get "timestep" i = None -> get "timestep" (c_input cfg) = Some (VFloat nan)) /\
  (forall v, get "strain_final" i = Some v -> get "strain_final" (c_input cfg) = Some v) /\
  (forall v, get "timestep" i = Some v -> get "timestep" (c_input cfg) = Some v).
Proof. exact defaults_input. Qed.

(* the three-way input-mode selection (mesh > callable > pathlines > none) and the keys each
   mode sets to None *)
Theorem C19_parse_input_modes : forall toml cfg i,
  parse_config v_fixed toml = COk cfg -> get "input" toml = Some (VTable i) ->
  (mem "mesh" i = true ->
     get "velocity_gradient" (c_input cfg) = Some VNone /\ get "locations_initial" (c_input cfg) = Some VNone /\
     get "paths" (c_input cfg) = Some VNone) /\
  (mem "mesh" i = false -> mem "velocity_gradient" i = true ->
     get "locations_final" (c_input cfg) = Some VNone /\ get "paths" (c_input cfg) = Some VNone /\
     get "mesh" (c_input cfg) = Some VNone) /\
  (mem "mesh" i = false -> mem "velocity_gradient" i = false -> mem "paths" i = true ->
     get "locations_initial" (c_input cfg) = Some VNone /\ get "locations_final" (c_input cfg) = Some VNone /\
     get "mesh" (c_input cfg) = Some VNone) /\
  (mem "mesh" i = false -> mem "velocity_gradient" i = false -> mem "paths" i = false ->
     get "paths" (c_input cfg) = Some VNone).
Proof. exact defaults_input_mode. Qed.

(* ---- invariants of every parsed configuration (no hypothesis on the input) --------------- *)

(* equal-length phase / fraction lists, |np.sum(fractions) - 1.0| <= 1e-16 in binary64,
   MineralPhase-typed phases, MineralFabric-typed fabric, output phase lists are simulated
   MineralPhase members *)
Theorem C19_parsed_invariants : forall toml cfg, parse_config v_fixed toml = COk cfg ->
  params_invariant (c_params cfg) /\
  (exists l, get "raw_output" (c_output cfg) = Some (VList l) /\ Forall (simulated (assemblage_of (c_params cfg))) l) /\
  (exists l, get "diagnostics" (c_output cfg) = Some (VList l) /\ Forall (simulated (assemblage_of (c_params cfg))) l).
Proof. exact parsed_invariants. Qed.

(* the tolerance in that invariant is the source's literal 1e-16 against the target 1.0 *)
Theorem C19_sum_tolerance : sum_tolerance = 0x1.cd2b297d889bcp-54%float /\ sum_target = 1%float.
Proof. exact tolerance_documented. Qed.

(* ---- single faults raise ConfigError ----------------------------------------------------- *)

Theorem C19_invalid_sum : forall toml p l xs,
  params_table toml = COk p -> list_of (eff "phase_fractions" p) l -> nums l = Some xs ->
  sum_ok v_fixed xs = false -> parse_config v_fixed toml = CErr ConfigError.
Proof. exact fault_sum. Qed.

Theorem C19_invalid_length : forall toml p l xs n,
  params_table toml = COk p -> list_of (eff "phase_fractions" p) l -> nums l = Some xs ->
  sum_ok v_fixed xs = true -> len_of (eff "phase_assemblage" p) = COk n -> n <> length l ->
  parse_config v_fixed toml = CErr ConfigError.
Proof. exact fault_length. Qed.

Theorem C19_invalid_phase : forall toml p l xs la,
  params_table toml = COk p -> list_of (eff "phase_fractions" p) l -> nums l = Some xs ->
  sum_ok v_fixed xs = true -> list_of (eff "phase_assemblage" p) la -> length la = length l ->
  Forall not_enum la -> Exists unknown_phase la ->
  parse_config v_fixed toml = CErr ConfigError.
Proof. exact fault_phase. Qed.

Theorem C19_invalid_fabric : forall toml p zs,
  params_table toml = COk p -> fractions_ok p (length zs) -> assemblage_ok p zs ->
  unknown_fabric (eff "initial_olivine_fabric" p) ->
  parse_config v_fixed toml = CErr ConfigError.
Proof. exact fault_fabric. Qed.

Theorem C19_invalid_coefficient_count : forall toml p zs l,
  params_table toml = COk p -> fractions_ok p (length zs) -> assemblage_ok p zs -> fabric_ok p ->
  list_of (eff "disl_coefficients" p) l -> length l <> n_coefficients ->
  parse_config v_fixed toml = CErr ConfigError.
Proof. exact fault_coefficients. Qed.

Theorem C19_invalid_no_input : forall toml p zs,
  params_table toml = COk p -> wf_params p zs -> get "input" toml = None ->
  parse_config v_fixed toml = CErr ConfigError.
Proof. exact fault_no_input. Qed.

Theorem C19_invalid_no_timestep : forall toml p zs i,
  params_table toml = COk p -> wf_params p zs -> get "input" toml = Some (VTable i) ->
  mem "timestep" i = false -> mem "paths" i = false ->
  parse_config v_fixed toml = CErr ConfigError.
Proof. exact fault_no_timestep. Qed.

Theorem C19_invalid_timestep_type : forall toml p zs i v,
  params_table toml = COk p -> wf_params p zs -> get "input" toml = Some (VTable i) ->
  get "timestep" i = Some v -> is_num v = false ->
  parse_config v_fixed toml = CErr ConfigError.
Proof. exact fault_timestep_type. Qed.

Theorem C19_invalid_strain_type : forall toml p zs i v,
  params_table toml = COk p -> wf_params p zs -> get "input" toml = Some (VTable i) ->
  (mem "timestep" i = true \/ mem "paths" i = true) -> num_if_present "timestep" i ->
  get "strain_final" i = Some v -> is_num v = false ->
  parse_config v_fixed toml = CErr ConfigError.
Proof. exact fault_strain_type. Qed.

(* an output phase list naming a non-member, or a member that is not simulated *)
Theorem C19_invalid_output_phase : forall toml p zs i o lvl names,
  params_table toml = COk p -> wf_params p zs -> get "input" toml = Some (VTable i) -> wf_input i ->
  output_table toml = COk o -> (forall v, get "directory" o = Some v -> is_str v) ->
  (lvl = "raw_output" \/ (lvl = "diagnostics" /\ output_names_ok "raw_output" o zs)) ->
  get lvl o = Some (VList (map VStr names)) -> Exists (bad_output_name zs) names ->
  parse_config v_fixed toml = CErr ConfigError.
Proof. exact fault_output_phase. Qed.

(* ---- the recorded defects: each single-defect variant violates its clause ----------------- *)

Theorem C19_variant_getattr_refuted :
  exists toml cfg, parse_config (mkV true false false false false) toml = COk cfg /\
                   ~ Forall is_phase (assemblage_of (c_params cfg)).
Proof. exact variant_getattr_refuted. Qed.

Theorem C19_variant_int_phase_refuted :
  parse_config (mkV false true false false false)
    (toml_of [("phase_assemblage", VList [VInt 5])] [("timestep", VFloat 1)] []) = CErr ValueErr.
Proof. exact variant_int_phase_refuted. Qed.

Theorem C19_variant_builtin_input_refuted :
  parse_config (mkV false false true false false) (toml_of [] [("timestep", VStr "1e9")] []) = CErr TypeErr /\
  parse_config (mkV false false true false false)
    (toml_of [] [("timestep", VFloat 1); ("strain_final", VStr "10")] []) = CErr TypeErr.
Proof. exact variant_builtin_input_refuted. Qed.

Theorem C19_variant_nan_refuted :
  exists cfg, parse_config (mkV false false false true false)
                (toml_of [("phase_fractions", VList [VFloat nan])] [("timestep", VFloat 1)] []) = COk cfg /\
              sum_ok v_fixed [nan%float] = false.
Proof. exact variant_nan_refuted. Qed.

Theorem C19_variant_out_paths_refuted :
  exists cfg, parse_config (mkV false false false false true)
                (toml_of [] [("timestep", VFloat 1)] [("paths", VList [VStr "p.scsv"])]) = COk cfg /\
              get "paths" (c_output cfg) = Some VNone /\
  exists cfg', parse_config v_fixed
                (toml_of [] [("timestep", VFloat 1)] [("paths", VList [VStr "p.scsv"])]) = COk cfg' /\
              get "paths" (c_output cfg') = Some (VList [VStr "p.scsv"]).
Proof. exact variant_out_paths_refuted. Qed.

(* ---- non-vacuity -------------------------------------------------------------------------- *)

(* the hypothesis of C19_parse_total holds for the configuration with everything optional
   omitted and for a fully populated two-phase configuration *)
Example C19_wf_minimal : exists zs, wf_config minimal_config zs.
Proof. exact wf_minimal. Qed.

Example C19_wf_full : wf_config full_config [0%Z; 1%Z].
Proof. exact wf_full. Qed.

Example C19_subsets_example :
  forallb independent_optional
    [("parameters", "initial_olivine_fabric"); ("parameters", "number_of_grains"); ("parameters", "disl_coefficients");
     ("output", "directory"); ("output", "raw_output"); ("output", "diagnostics"); ("output", "anisotropy");
     ("output", "paths"); ("output", "log_level"); ("input", "strain_final"); ("", "name"); ("", "output")] = true.
Proof. exact subsets_example. Qed.

(* the fault hypotheses are satisfiable (0.7 + 0.2 fails the sum test, 0.1 * 10 passes it in
   numpy's summation order, unknown names) *)
Example C19_fault_examples :
  sum_ok v_fixed [0x1.6666666666666p-1; 0x1.999999999999ap-3]%float = false /\
  sum_ok v_fixed [0x1.999999999999ap-4; 0x1.999999999999ap-4; 0x1.999999999999ap-4; 0x1.999999999999ap-4;
                  0x1.999999999999ap-4; 0x1.999999999999ap-4; 0x1.999999999999ap-4; 0x1.999999999999ap-4;
                  0x1.999999999999ap-4; 0x1.999999999999ap-4]%float = true /\
  unknown_phase (VStr "quartz") /\ unknown_phase (VInt 5) /\ unknown_fabric (VStr "F") /\
  bad_output_name [0%Z] "garnet" /\ bad_output_name [0%Z] "enstatite".
Proof. exact fault_examples. Qed.

Open Scope list_scope.

(* ---- call histories: results are live objects that the caller edits (Model_config_session) ------------- *)
(* `as_source` is the source as it is; s any well-formed state of the process (wf: no container is part of two
   live objects); h any history of parses, as_dict() calls on new and on kept records, attribute reads, edits of
   containers of earlier results, reads. *)

(* the state of a fresh process is well-formed and every history keeps it so *)
Theorem C19_session_states_wellformed : wf init /\ forall h s, wf s -> wf (state_after as_source s h).
Proof. exact (conj init_wf session_wf). Qed.

(* every parse returns the one-call result of its file, every as_dict() / attribute read the table of the
   record's class -- whatever was parsed, returned or edited before *)
Theorem C19_session_calls_pure : forall h s,
  flat_map call_out (run as_source s h) = pure_run (inst_classes s) h.
Proof. exact session_calls_pure. Qed.

(* deleting every edit from a history changes the result of no call *)
Theorem C19_session_edits_invisible : forall h s,
  flat_map call_out (run as_source s h) = flat_map call_out (run as_source s (filter (fun o => negb (is_edit o)) h)).
Proof. exact session_edits_invisible. Qed.

(* parse, anything, parse the same file again: twice the one-call result *)
Theorem C19_session_reparse : forall toml h s, exists mid,
  flat_map call_out (run as_source s (SParse toml :: h ++ [SParse toml])) =
  inl (parse_config v_fixed toml) :: mid ++ [inl (parse_config v_fixed toml)].
Proof. exact session_reparse. Qed.

(* rec.as_dict(), anything, rec.as_dict() again on a record the caller keeps: twice the class's table *)
Theorem C19_session_asdict_again : forall i h s, i < length (s_instances s) -> exists mid,
  flat_map call_out (run as_source s (SAsDictOf i :: h ++ [SAsDictOf i])) =
  inr (asdict_of (inst_class s i)) :: mid ++ [inr (asdict_of (inst_class s i))].
Proof. exact session_asdict_again. Qed.

(* what a parse returns consists of new objects only: pairwise distinct, none of them a module-level
   container, a record's slot or part of an earlier result *)
Theorem C19_session_parse_fresh : forall s toml cfg,
  wf s -> parse_config v_fixed toml = COk cfg ->
  exists x, s_results (fst (step as_source s (SParse toml))) = s_results s ++ [x] /\
            snd (step as_source s (SParse toml)) = [OParse (COk cfg) (length (labels x))] /\
            erase x = config_value cfg /\ NoDup (labels x) /\ fresh_in s x.
Proof. exact session_parse_fresh. Qed.

Theorem C19_session_asdict_fresh : forall s c,
  wf s ->
  exists x, s_results (fst (step as_source s (SAsDict c))) = s_results s ++ [x] /\
            snd (step as_source s (SAsDict c)) = [OAsDict (asdict_of c) (length (labels x))] /\
            erase x = VTable (asdict_of c) /\ NoDup (labels x) /\ fresh_in s x.
Proof. exact session_asdict_fresh. Qed.

Theorem C19_session_asdict_of_fresh : forall s i,
  wf s ->
  exists x, s_results (fst (step as_source s (SAsDictOf i))) = s_results s ++ [x] /\
            s_instances (fst (step as_source s (SAsDictOf i))) = s_instances s /\
            snd (step as_source s (SAsDictOf i)) = [OAsDict (asdict_of (inst_class s i)) (length (labels x))] /\
            erase x = VTable (asdict_of (inst_class s i)) /\ NoDup (labels x) /\ fresh_in s x.
Proof. exact session_asdict_of_fresh. Qed.

(* an edit made through one result changes no other result, no record, no module-level container *)
Theorem C19_session_mutation_local : forall s r path m,
  wf s ->
  let s' := fst (step as_source s (SMutate r path m)) in
  s_defaults s' = s_defaults s /\ s_instances s' = s_instances s /\
  length (s_results s') = length (s_results s) /\
  forall r', r' <> r -> result s' r' = result s r'.
Proof. exact session_mutation_local. Qed.

(* a result that is not edited itself keeps contents and identity through any history *)
Theorem C19_session_untouched_result : forall h s r,
  wf s -> r < length (s_results s) -> forallb (fun o => negb (edits r o)) h = true ->
  result (state_after as_source s h) r = result s r.
Proof. exact session_untouched_result. Qed.

(* the session semantics can express a dependence on the history: an implementation that fills omitted
   parameters from a module-level table handed out by reference ... *)
Theorem C19_session_shared_defaults_refuted :
  map (param_of "number_of_grains") (flat_map call_out (run shared_defaults init trial_history)) =
    [Some (VInt 3500); Some (VInt 500)] /\
  map (param_of "number_of_grains") (pure_run [] trial_history) = [Some (VInt 3500); Some (VInt 3500)] /\
  flat_map call_out (run shared_defaults init trial_history) <> pure_run [] trial_history.
Proof. exact shared_defaults_refuted. Qed.

(* ... and one that builds a record's dictionary once per instance *)
Theorem C19_session_cached_asdict_refuted :
  map (param_of "gbm_mobility") (flat_map call_out (run cached_asdict init asdict_history)) =
    [Some (VInt 125); Some (VInt 10); Some (VInt 125); Some (VInt 125)] /\
  map (param_of "gbm_mobility") (pure_run [] asdict_history) =
    [Some (VInt 125); Some (VInt 125); Some (VInt 125); Some (VInt 125)].
Proof. exact cached_asdict_refuted. Qed.

(* non-vacuity: in the source as it is the same two histories give the documented values every time; the edit
   is visible in the edited result (edits are not no-ops of the model) and in no other *)
Example C19_session_example :
  map (param_of "number_of_grains") (flat_map call_out (run as_source init trial_history)) =
    [Some (VInt 3500); Some (VInt 3500)] /\
  map (param_of "gbm_mobility") (flat_map call_out (run as_source init asdict_history)) =
    [Some (VInt 125); Some (VInt 125); Some (VInt 125); Some (VInt 125)] /\
  (exists v1 v2, run as_source init trial_history =
                 [OParse (parse_config v_fixed minimal_toml) 7; OParse (parse_config v_fixed minimal_toml) 7; ORead v1; ORead v2] /\
     match v1, v2 with
     | VTable t1, VTable t2 =>
         match get "parameters" t1, get "parameters" t2 with
         | Some (VTable p1), Some (VTable p2) => get "number_of_grains" p1 = Some (VInt 500) /\ get "number_of_grains" p2 = Some (VInt 3500)
         | _, _ => False
         end
     | _, _ => False
     end).
Proof. exact session_example. Qed.

(* ---- the parser's decision logic as regenerated from the source (tie T: gen/Gen_io_config.v) ------------- *)
(* translator/specs_ioconfig.py reads _parse_phase, _parse_config_params, _parse_config_input_common and
   _parse_output_options from the current source with Python's `ast` and writes them statement by statement over
   the Python-subset semantics of Model_pyconfig.v; the generated functions ARE the model functions the theorems
   above are about, wherever the model is defined (`defined r` = r is not `CErr Unmodelled`). *)

Theorem C19_generated_parse_phase : forall v,
  defined (parse_phase v_fixed v) -> gen__parse_phase v = parse_phase v_fixed v.
Proof. exact inst_parse_phase. Qed.

Theorem C19_generated_parse_config_params : forall toml,
  (forall t a, get "parameters" toml <> Some (VOpaque t a)) -> defined (parse_params v_fixed toml) ->
  gen__parse_config_params (VTable toml) = cmap VTable (parse_params v_fixed toml).
Proof. exact inst_parse_config_params. Qed.

Theorem C19_generated_parse_config_input_common : forall toml path,
  (forall i, get "input" toml = Some (VTable i) ->
     not_enum_value (getd "timestep" i (VFloat nan)) /\ not_enum_value (getd "strain_final" i (VFloat infinity))) ->
  defined (parse_input_common v_fixed toml) ->
  gen__parse_config_input_common (VTable toml) path = cmap VTable (parse_input_common v_fixed toml).
Proof. exact inst_parse_config_input_common. Qed.

Theorem C19_generated_parse_output_options : forall o level assemblage,
  Forall is_phase assemblage ->
  defined (output_options v_fixed o level assemblage) ->
  gen__parse_output_options (VTable o) (VStr level) (VTuple assemblage) = cmap VTable (output_options v_fixed o level assemblage).
Proof. exact inst_parse_output_options. Qed.

(* so the invariants are invariants of the code as it is on this run: whatever _parse_config_params returns has
   equal-length phase lists, fractions summing to one in binary64, enumeration-typed phases and fabric *)
Theorem C19_generated_params_invariants : forall toml p',
  (forall t a, get "parameters" toml <> Some (VOpaque t a)) ->
  parse_params v_fixed toml = COk p' ->
  gen__parse_config_params (VTable toml) = COk (VTable p') /\ params_invariant p'.
Proof. exact generated_params_invariants. Qed.
