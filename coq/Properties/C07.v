(* Properties/C07.v -- C07: null forcing leaves the texture unchanged; unsupported regimes are rejected *)
From Coq Require Import Reals ZArith List.
From Coquelicot Require Import Hierarchy Derive.
From PV Require Import Num NumR Model_core Model_minerals Proofs_core Proofs_total Proofs_minerals Proofs_rhs Inst_core Proofs_flow Proofs_path Proofs_path2 Proofs_path3 Proofs_path7.
From PV.gen Require Import Gen_core.
Import ListNotations.
Open Scope R_scope.

(* regimes documented as not yet supported (2, 3, 5) and every ordinal outside 0..7 *)
Theorem C07_unsupported_regimes_rejected : forall regime ph fb os fs (D L S : arr NumR) p n lam M phi,
  (regime <> 0 /\ regime <> 1 /\ regime <> 4 /\ regime <> 6 /\ regime <> 7)%Z ->
  @derivs NumR regime ph fb os fs D L S p n lam M phi = Err ValueError.
Proof. exact derivs_dispatch_unsupported. Qed.

(* mismatched / out-of-range (phase, fabric) *)
Theorem C07_invalid_phase_fabric_rejected : forall regime ph fb o os fs (D L S : arr NumR) p n lam M phi,
  dislocation_regime regime -> ~ valid_pair ph fb ->
  @derivs NumR regime ph fb (o :: os) fs D L S p n lam M phi = Err ValueError.
Proof. exact derivs_invalid_pair. Qed.

(* viscosity-bound regimes: all rates are zero *)
Theorem C07_null_regimes_zero_rates : forall regime ph fb os fs (D L S : arr NumR) p n lam M phi,
  (regime = 0 \/ regime = 7)%Z ->
  @derivs NumR regime ph fb os fs D L S p n lam M phi
  = Ok (map (fun _ => zeros9) os, map (fun _ => 0) os).
Proof. exact derivs_dispatch_null. Qed.

Theorem C07_null_regime_vector_field : forall regime ph fb n ass frs (L : list R) s Sd p nn lam M (y out : list R),
  regime = 0%Z \/ regime = 7%Z ->
  @rhs NumR regime ph fb n ass frs L s Sd p nn lam M y = Ok out ->
  all_zero (skipn 9 out).
Proof. exact rhs_null_regime. Qed.

(* zero strain-rate scale, in particular a zero velocity gradient: orientation and volume
   blocks of the vector field vanish in every regime, and L = 0 also gives dF/dt = 0 *)
Theorem C07_zero_strain_rate : forall regime ph fb n ass frs (L : list R) Sd p nn lam M (y : list R) phi,
  @lookup_fraction NumR ph ass frs = Ok phi ->
  exists out, @rhs NumR regime ph fb n ass frs L 0 Sd p nn lam M y = Ok out /\
              length (skipn 9 out) = (10 * n)%nat /\ all_zero (skipn 9 out).
Proof. exact rhs_zero_strain_rate. Qed.

Theorem C07_zero_L_zero_Fdot : forall (b : list R), all_zero (@mat_mul9 NumR (repeat 0 9) b).
Proof. exact mat_mul9_zero. Qed.

(* a state component whose rate vanishes on [a,b] is constant there along any exact solution *)
Theorem C07_zero_rate_component_constant : forall (f : R -> R) (a b : R),
  a <= b -> (forall t, a <= t <= b -> is_derive f t 0) -> f b = f a.
Proof. exact zero_derivative_constant. Qed.

(* capstones for the texture ODE itself (vector field = the modelled eval_rhs with velocity-gradient
   history Lh and strain-rate scale sh): along any exact solution every orientation entry and every
   volume fraction (state indices >= 9) is constant in the viscosity-bound regimes, and in every
   regime while the strain-rate scale is zero *)
Theorem C07_null_regime_texture_constant :
  forall (regime ph fb : Z) (n : nat) (ass : list Z) (frs Sd : list R) (p nn lam M : R)
         (Lh : R -> list R) (sh : R -> R) (y : nat -> R -> R) (a b : R),
  (regime = 0 \/ regime = 7)%Z -> a <= b ->
  (forall i t, a <= t <= b ->
     is_derive (y i) t (f regime ph fb n ass frs Sd p nn lam M Lh sh t (fun j => y j t) i)) ->
  forall i, (9 <= i)%nat -> y i b = y i a.
Proof. exact null_regime_texture_constant. Qed.

Theorem C07_zero_strain_rate_texture_constant :
  forall (regime ph fb : Z) (n : nat) (ass : list Z) (frs Sd : list R) (p nn lam M : R)
         (Lh : R -> list R) (sh : R -> R) (y : nat -> R -> R) (a b : R),
  a <= b -> (forall t, a <= t <= b -> sh t = 0) ->
  (forall i t, a <= t <= b ->
     is_derive (y i) t (f regime ph fb n ass frs Sd p nn lam M Lh sh t (fun j => y j t) i)) ->
  forall i, (9 <= i)%nat -> y i b = y i a.
Proof. exact zero_strain_rate_texture_constant. Qed.

(* zero boundary mobility: zero volume rates under any flow *)
Theorem C07_zero_mobility : forall c phi fs es i, nth i (@frac_rates NumR c phi 0 fs es) 0 = 0.
Proof. exact rates_zero_M. Qed.

(* a failed update leaves the stored history untouched *)
Theorem C07_failed_update_untouched : forall n chi h e,
  step n chi h (Err e) = h /\ fst (@update_history NumR n chi h (Err e)) = Err e.
Proof. exact (fun n chi h e => step_appends_one n chi h (Err e)). Qed.

(* ties to the generated derivatives: the dispatch above is the dispatch of the source *)
Theorem C07_instance_n1 : forall regime phase fabric (O f D L S : arr NumR) (p n lam M phi : R),
  res_match 1 (k_derivatives_n1 regime phase fabric O f D L S p n lam M phi)
    (derivs regime phase fabric [slice9 O 0] [f 0%nat] D L S p n lam M phi).
Proof. exact derivs_inst_1. Qed.
Theorem C07_instance_n2 : forall regime phase fabric (O f D L S : arr NumR) (p n lam M phi : R),
  res_match 2 (k_derivatives_n2 regime phase fabric O f D L S p n lam M phi)
    (derivs regime phase fabric [slice9 O 0; slice9 O 1] [f 0%nat; f 1%nat] D L S p n lam M phi).
Proof. exact derivs_inst_2. Qed.

Example C07_nonvacuous : (5 <> 0 /\ 5 <> 1 /\ 5 <> 4 /\ 5 <> 6 /\ 5 <> 7)%Z /\ ~ valid_pair 1 0.
Proof. exact C07_nonvacuous_proof. Qed.

(* zero velocity gradient on [a,b]: the strain-rate scale is then forced to be 0 (is_eigmax of the zero matrix
   has the single solution 0: C07_zero_gradient_scale_is_zero), so EVERY state component -- the F block, every
   orientation entry, every volume fraction -- is constant along every exact solution: any regime ordinal
   (unsupported ones included), any mineral, any parameters *)
Theorem C07_zero_gradient_scale_is_zero : forall m : R, is_eigmax (@sym9 NumR (repeat 0 9)) m -> m = 0.
Proof. exact eigmax_zero. Qed.

Theorem C07_zero_velocity_gradient_state_constant :
  forall (regime ph fb : Z) (n : nat) (ass : list Z) (frs Sd : list R) (p nn lam M : R)
         (Lh : R -> list R) (sh : R -> R) (y : nat -> R -> R) (a b : R),
  a <= b ->
  (forall t, a <= t <= b -> Lh t = repeat 0 9) ->
  (forall t, a <= t <= b -> is_eigmax (@sym9 NumR (Lh t)) (sh t)) ->
  (forall i t, a <= t <= b ->
     is_derive (y i) t (f regime ph fb n ass frs Sd p nn lam M Lh sh t (fun j => y j t) i)) ->
  forall i, y i b = y i a.
Proof. exact zero_velocity_gradient_state_constant. Qed.

(* non-vacuity: 0 IS the strain-rate scale of the zero gradient, and every constant state is an exact solution *)
Example C07_zero_velocity_gradient_nonvacuous :
  is_eigmax (@sym9 NumR (repeat 0 9)) 0 /\
  (forall (y0 : nat -> R) i t, is_derive (fun _ : R => y0 i) t
     (f 4 0 0 2 [0%Z] [1] [] 1.5 3.5 30 125 (fun _ => repeat 0 9) (fun _ => 0) t (fun j => y0 j) i)).
Proof. exact zero_gradient_nonvacuous_proof. Qed.

(* ---- zero boundary mobility under ANY flow ------------------------------------------------------------------
   the fraction block of the integrated vector field vanishes when M* = 0: every regime, any velocity gradient,
   any strain-rate scale, any state, any number of grains (index 9 + 9 n + g is grain g's volume fraction) *)
Theorem C07_zero_mobility_field :
  forall (regime ph fb : Z) (n : nat) (ass : list Z) (frs Sd : list R) (p nn lam M : R)
         (L : list R) (s : R) (y : nat -> R) (g : nat),
  M = 0 -> (g < n)%nat -> vf regime ph fb n ass frs Sd p nn lam M L s y (9 + 9 * n + g)%nat = 0.
Proof. exact vf_zero_mobility. Qed.

(* ... hence along ANY exact solution every volume fraction keeps its value over the whole interval *)
Theorem C07_zero_mobility_fractions_constant :
  forall (regime ph fb : Z) (n : nat) (ass : list Z) (frs Sd : list R) (p nn lam M : R)
         (Lh : R -> list R) (sh : R -> R) (y : nat -> R -> R) (a b : R) (g : nat),
  M = 0 -> a <= b -> (g < n)%nat ->
  (forall t, a <= t <= b ->
     is_derive (y (9 + 9 * n + g)%nat) t
               (f regime ph fb n ass frs Sd p nn lam M Lh sh t (fun j => y j t) (9 + 9 * n + g)%nat)) ->
  y (9 + 9 * n + g)%nat b = y (9 + 9 * n + g)%nat a.
Proof. exact zero_mobility_fractions_constant. Qed.
(* ---- round 5: the failure branch of the solver loop and of the bulk update (Model_minerals.solver_loop,
   update_all; tied to the source by Inst_minerals_drv: update_loop_inst_*, update_all_inst_1_{2,3}, whose
   generated code has a leaf `Err` for the failing step and whose translator adapter verifies that the stored
   history is untouched on that path) ----------------------------------------------------------------------- *)
From PV Require Import Proofs_driver.

(* a failing solver step -- after any number of successful steps, whatever would have followed -- makes the
   call raise, and the stored history is the one before the call *)
Theorem C07_failed_solver_step_untouched : forall n chi (h : @history NumR) (pre : list (list R)) e (rest : list (res (list R))),
  @update_steps NumR n chi h (map Ok pre ++ Err e :: rest) = (Err e, h).
Proof. exact update_steps_failure. Qed.

(* a failing mineral in a bulk update: minerals before it are updated, it and every later one are untouched *)
Theorem C07_bulk_failure_leaves_later_minerals : forall n chi (pre : list (@history NumR * list R)) (h : @history NumR) e
    (post_h : list (@history NumR)) (post_y : list (res (list R))) acc,
  @update_all NumR n chi (map fst pre ++ h :: post_h) (map Ok (map snd pre) ++ Err e :: post_y) acc
  = (Err e, map (fun m => step n chi (fst m) (Ok (snd m))) pre ++ h :: post_h).
Proof. exact bulk_failure. Qed.

(* an update whose integrator hands back the start vector unchanged (null forcing: every component of the modelled
   vector field is zero, C07_null_regime_vector_field / C07_zero_strain_rate) returns the same F and stores the SAME
   snapshot again -- provided no grain is below the sliding threshold chi/n (chi = 0 included) ... *)
Theorem C07_null_update_keeps_snapshot : forall n chi (Fd : list R) (s : @snapshot NumR),
  length Fd = 9%nat -> valid_snapshot n s -> Forall (fun f => thr chi n <= f) (sn_f s) ->
  @update NumR n chi s (@y_start NumR Fd s) = (Fd, s).
Proof. exact null_update_identity. Qed.

(* ... and the literal clause "volume fractions unchanged" is REFUTED for the faithful model otherwise (open finding
   C07:null-forcing:gbs-refloor): a valid snapshot with a grain below chi/n is re-floored and renormalised *)
Theorem C07_null_update_refloor_refuted :
  valid_snapshot 2 snap_small /\ 0 <= 0.3 /\
  sn_f (snd (@update NumR 2 0.3 snap_small (@y_start NumR id9 snap_small))) <> sn_f snap_small.
Proof. exact null_update_refloors. Qed.

(* non-vacuity of C07_null_update_keeps_snapshot: snap_ex = two identity grains with volumes (1/4, 3/4), chi = 0.3 *)
Example C07_null_update_nonvacuous :
  length id9 = 9%nat /\ valid_snapshot 2 snap_ex /\ Forall (fun f => thr 0.3 2 <= f) (sn_f snap_ex).
Proof. exact null_update_nonvacuous_proof. Qed.
