(* Properties/C01.v -- C01: every stored snapshot is a valid texture, after any update history *)
From Coq Require Import Reals ZArith List.
From Coquelicot Require Import Hierarchy Derive.
From PV Require Import Num NumR Model_core Model_minerals Proofs_core Proofs_minerals Proofs_rhs Proofs_flow Proofs_path Proofs_path2 Proofs_path3 Proofs_gronwall Proofs_path4.
From PV.gen Require Import Gen_core.
Import ListNotations.
Open Scope R_scope.

(* one update: whatever vector (of the right length, with a positive clipped fraction sum --
   otherwise the code stores NaN) the integrator ends with, the appended snapshot has exactly
   n fractions that are >= 0 and sum to 1 and n orientation matrices with entries in [-1,1] *)
Theorem C01_update_valid : forall n chi (prev : @snapshot NumR) (y : list R),
  (0 < n)%nat -> 0 <= chi -> length y = (9 + 10 * n)%nat -> 0 < rsum (clipped_fracs y n) ->
  length (sn_o prev) = n -> Forall grain_ok (sn_o prev) ->
  valid_snapshot n (snd (@update NumR n chi prev y)).
Proof. exact update_valid. Qed.

(* each update appends exactly one snapshot; a failed update leaves the history untouched *)
Theorem C01_appends_exactly_one : forall n chi h ry,
  match ry with
  | Ok y => step n chi h ry = h ++ [snd (@update NumR n chi (@last_snapshot NumR h) y)]
  | Err e => step n chi h ry = h /\ fst (@update_history NumR n chi h ry) = Err e
  end.
Proof. exact step_appends_one. Qed.

(* every reachable history: any number of updates, any integrator outputs, any failures *)
Theorem C01_history_invariant : forall n chi rys h,
  (0 < n)%nat -> 0 <= chi -> hist_inv n h -> Forall (step_ok n) rys -> hist_inv n (run n chi h rys).
Proof. exact history_inv. Qed.

(* earlier snapshots are never altered *)
Theorem C01_earlier_snapshots_untouched : forall n chi rys h,
  firstn (length h) (run n chi h rys) = h /\ (length h <= length (run n chi h rys))%nat.
Proof. exact history_prefix. Qed.

(* the initial snapshot: uniform volumes, orientation entries in [-1,1] *)
Theorem C01_initial_snapshot_valid : forall n (os : list (list R)),
  (0 < n)%nat -> length os = n -> Forall grain_ok os ->
  valid_snapshot n (@Build_snapshot NumR os (repeat (1 / INR n) n)).
Proof. exact init_valid. Qed.

(* first-order conservation of orthonormality: every dislocation-type rate satisfies
   Ad.A^T + A.Ad^T = 0, so A.A^T is a first integral of the exact flow (the quantitative
   drift bound of LSODA is measured at run time, not proved) *)
Theorem C01_rate_conserves_orthonormality_first_order :
  forall regime ph fb os fs (D L S : arr NumR) p n lam M phi Ads fds,
  dislocation_regime regime ->
  @derivs NumR regime ph fb os fs D L S p n lam M phi = Ok (Ads, fds) ->
  Forall2 skew_wrt os Ads.
Proof. exact derivs_skew. Qed.

(* ... and therefore every entry of A(t).A(t)^T is constant along any EXACT solution whose rate
   has that property (Coquelicot is_derive); LSODA's deviation from the exact solution is what
   the runtime monitor measures *)
Theorem C01_orthonormality_is_first_integral : forall (A Ad : nat -> nat -> R -> R) (a b : R),
  a <= b -> (forall p q t, a <= t <= b -> is_derive (A p q) t (Ad p q t)) ->
  forall p p' : nat,
  (forall t, a <= t <= b ->
    Ad p 0%nat t * A p' 0%nat t + Ad p 1%nat t * A p' 1%nat t + Ad p 2%nat t * A p' 2%nat t
    + (A p 0%nat t * Ad p' 0%nat t + A p 1%nat t * Ad p' 1%nat t + A p 2%nat t * Ad p' 2%nat t) = 0) ->
  gram A p p' b = gram A p p' a.
Proof. exact orthonormality_first_integral. Qed.

Example C01_nonvacuous :
  let y := [1;0;0; 0;1;0; 0;0;1;  1;0;0; 0;1;0; 0;0;1;  0;1;0; -1;0;0; 0;0;1;  0.25; 0.75] in
  length y = (9 + 10 * 2)%nat /\ 0 < rsum (clipped_fracs y 2).
Proof. exact C01_nonvacuous_proof. Qed.

(* ---- capstones for the texture ODE itself -------------------------------------------------------
   y : nat -> R -> R is the state vector as a function of time; entry (i,j) of grain g's orientation
   matrix A_g is y (9 + 9 g + (3 i + j)); f ... Lh sh t z i (Proofs_path.f) is component i of the modelled
   eval_rhs at time t and state z (velocity-gradient history Lh, strain-rate scale sh; where eval_rhs
   raises the modelled field is 0, so no "rhs Ok" hypothesis is needed below). *)

(* the vector field itself: in the dislocation regimes, at EVERY state whose grain-g entries lie in [-1,1]
   (extract_vars clips orientations to [-1,1] before the kernel sees them; on such a state the clip is the
   identity), any velocity gradient L and scale s (s = 0 included), any (phase, fabric), any parameters:
   (Ad.A^T + A.Ad^T)[r,r'] = 0 for the rate Ad the ODE assigns to grain g *)
Theorem C01_field_conserves_orthonormality :
  forall (regime ph fb : Z) (n : nat) (ass : list Z) (frs Sd : list R) (p nn lam M : R)
         (L : list R) (s : R) (y : nat -> R) (g r r' : nat),
  dislocation_regime regime -> (g < n)%nat -> (r < 3)%nat -> (r' < 3)%nat ->
  (forall k, (k < 9)%nat -> -1 <= y (9 + 9 * g + k)%nat <= 1) ->
  let A := fun i j : nat => y (9 + 9 * g + (3 * i + j))%nat in
  let Ad := fun i j : nat => vf regime ph fb n ass frs Sd p nn lam M L s y (9 + 9 * g + (3 * i + j))%nat in
  Ad r 0%nat * A r' 0%nat + Ad r 1%nat * A r' 1%nat + Ad r 2%nat * A r' 2%nat
  + (A r 0%nat * Ad r' 0%nat + A r 1%nat * Ad r' 1%nat + A r 2%nat * Ad r' 2%nat) = 0.
Proof. exact vf_gram_rate. Qed.

(* along any exact solution, every Gram entry (A_g.A_g^T)[r,r'] = sum_q A_g[r,q] A_g[r',q] is the same at b
   as at a, as long as grain g's entries stay in [-1,1] on [a,b].
   PARTIAL: that last hypothesis is an assumption on the trajectory.  It is implied by orthonormality of
   A_g(t) itself, but that the clip stays inactive for a solution starting orthonormal (invariance of the
   region, a Gronwall argument needing a bound on the spin) is NOT proved. *)
Theorem C01_solution_keeps_orthonormality_partial :
  forall (regime ph fb : Z) (n : nat) (ass : list Z) (frs Sd : list R) (p nn lam M : R)
         (Lh : R -> list R) (sh : R -> R) (y : nat -> R -> R) (a b : R) (g r r' : nat),
  dislocation_regime regime -> a <= b -> (g < n)%nat -> (r < 3)%nat -> (r' < 3)%nat ->
  (forall i t, a <= t <= b ->
     is_derive (y i) t (f regime ph fb n ass frs Sd p nn lam M Lh sh t (fun j => y j t) i)) ->
  (forall k t, (k < 9)%nat -> a <= t <= b -> -1 <= y (9 + 9 * g + k)%nat t <= 1) ->
  let A := fun (i j : nat) (t : R) => y (9 + 9 * g + (3 * i + j))%nat t in
  A r 0%nat b * A r' 0%nat b + A r 1%nat b * A r' 1%nat b + A r 2%nat b * A r' 2%nat b
  = A r 0%nat a * A r' 0%nat a + A r 1%nat a * A r' 1%nat a + A r 2%nat a * A r' 2%nat a.
Proof. exact solution_gram_constant. Qed.

(* corollary: an orthonormal A_g(a) gives an orthonormal A_g(b) (gram (grainA y g) r r' t is the Gram entry
   spelled out above) -- same partiality *)
Theorem C01_solution_stays_orthonormal_partial :
  forall (regime ph fb : Z) (n : nat) (ass : list Z) (frs Sd : list R) (p nn lam M : R)
         (Lh : R -> list R) (sh : R -> R) (y : nat -> R -> R) (a b : R) (g : nat),
  dislocation_regime regime -> a <= b -> (g < n)%nat ->
  (forall i t, a <= t <= b ->
     is_derive (y i) t (f regime ph fb n ass frs Sd p nn lam M Lh sh t (fun j => y j t) i)) ->
  (forall k t, (k < 9)%nat -> a <= t <= b -> -1 <= y (9 + 9 * g + k)%nat t <= 1) ->
  (forall r r', (r < 3)%nat -> (r' < 3)%nat -> gram (grainA y g) r r' a = if Nat.eqb r r' then 1 else 0) ->
  (forall r r', (r < 3)%nat -> (r' < 3)%nat -> gram (grainA y g) r r' b = if Nat.eqb r r' then 1 else 0).
Proof. exact solution_keeps_orthonormal. Qed.

(* non-vacuity of the hypotheses (jointly): olivine A-type, 2 grains, regime 4, L = 0: the constant state
   y0_example is an exact solution, entries in [-1,1], a grain of positive volume, rhs Ok, grain 1 orthonormal.
   That the Ok path of eval_rhs is reached at every state of regimes 4 and 6: C03_solver_total / C06_rhs_ok_supported *)
Example C01_solution_nonvacuous :
  let y := fun (i : nat) (_ : R) => y0_example i in
  dislocation_regime 4 /\
  (forall i t, is_derive (y i) t
     (f 4 0 0 2 [0%Z] [1] [] 1.5 3.5 30 125 (fun _ => repeat 0 9) (fun _ => 0) t (fun j => y j t) i)) /\
  (forall g k t, (g < 2)%nat -> (k < 9)%nat -> -1 <= y (9 + 9 * g + k)%nat t <= 1) /\
  (forall t, exists g, (g < 2)%nat /\ 0 < y (9 + 9 * 2 + g)%nat t) /\
  (forall t, exists out, @rhs NumR 4 0 0 2 [0%Z] [1] (repeat 0 9) 0 [] 1.5 3.5 30 125 (ylist 2 (fun j => y j t)) = Ok out) /\
  (forall r r', (r < 3)%nat -> (r' < 3)%nat -> gram (grainA y 1) r r' 0 = if Nat.eqb r r' then 1 else 0).
Proof. exact solution_hyps_nonvacuous_proof. Qed.

(* ---- right-handedness along exact solutions ---------------------------------------------------------
   grain_det y g t = the 3x3 determinant of the entries y (9 + 9 g + k) t, k = 0..8 (row-major), of grain g. *)

(* the kernel's rate of every grain is  w x a_i  row by row with ONE spin vector w per grain, in both
   dislocation regimes (regime 6 scales w by 0.3), for any number of grains and any path through the kernel *)
Theorem C01_rate_is_common_spin :
  forall regime ph fb os fs (D L S : arr NumR) p n lam M phi Ads fds,
  dislocation_regime regime ->
  @derivs NumR regime ph fb os fs D L S p n lam M phi = Ok (Ads, fds) ->
  Forall2 (fun A Ad => exists w : nat -> R, forall i, lt3 i ->
             m3 Ad i 0 = w 1%nat * m3 A i 2 - w 2%nat * m3 A i 1 /\
             m3 Ad i 1 = w 2%nat * m3 A i 0 - w 0%nat * m3 A i 2 /\
             m3 Ad i 2 = w 0%nat * m3 A i 1 - w 1%nat * m3 A i 0) os Ads.
Proof. exact derivs_spin. Qed.

(* the vector field itself: by trilinearity of det the rate of det A_g vanishes -- no orthonormality needed --
   at every state whose grain-g entries lie in [-1,1] (clip of extract_vars inactive), any L, s, mineral;
   ddet F G = sum_ij cof(F)_ij G_ij is the derivative of det at F in direction G *)
Theorem C01_field_conserves_handedness :
  forall (regime ph fb : Z) (n : nat) (ass : list Z) (frs Sd : list R) (p nn lam M : R)
         (L : list R) (s : R) (y : nat -> R) (g : nat),
  dislocation_regime regime -> (g < n)%nat ->
  (forall k, (k < 9)%nat -> -1 <= y (9 + 9 * g + k)%nat <= 1) ->
  ddet (fun k => y (9 + 9 * g + k)%nat)
       (fun k => vf regime ph fb n ass frs Sd p nn lam M L s y (9 + 9 * g + k)%nat) = 0.
Proof. exact vf_det_rate. Qed.

(* det A_g(b) = det A_g(a) along any exact solution, as long as grain g's entries stay in [-1,1] on [a,b].
   PARTIAL in the same sense as C01_solution_keeps_orthonormality_partial: the invariance of the unclipped
   region is an assumption on the trajectory, not proved *)
Theorem C01_solution_keeps_handedness_partial :
  forall (regime ph fb : Z) (n : nat) (ass : list Z) (frs Sd : list R) (p nn lam M : R)
         (Lh : R -> list R) (sh : R -> R) (y : nat -> R -> R) (a b : R) (g : nat),
  dislocation_regime regime -> a <= b -> (g < n)%nat ->
  (forall i t, a <= t <= b ->
     is_derive (y i) t (f regime ph fb n ass frs Sd p nn lam M Lh sh t (fun j => y j t) i)) ->
  (forall k t, (k < 9)%nat -> a <= t <= b -> -1 <= y (9 + 9 * g + k)%nat t <= 1) ->
  detF (fun k u => y (9 + 9 * g + k)%nat u) b = detF (fun k u => y (9 + 9 * g + k)%nat u) a.
Proof. exact solution_det_constant. Qed.

(* corollary: a proper rotation at a (orthonormal, det = 1) is a proper rotation at b -- same partiality *)
Theorem C01_solution_stays_proper_rotation_partial :
  forall (regime ph fb : Z) (n : nat) (ass : list Z) (frs Sd : list R) (p nn lam M : R)
         (Lh : R -> list R) (sh : R -> R) (y : nat -> R -> R) (a b : R) (g : nat),
  dislocation_regime regime -> a <= b -> (g < n)%nat ->
  (forall i t, a <= t <= b ->
     is_derive (y i) t (f regime ph fb n ass frs Sd p nn lam M Lh sh t (fun j => y j t) i)) ->
  (forall k t, (k < 9)%nat -> a <= t <= b -> -1 <= y (9 + 9 * g + k)%nat t <= 1) ->
  (forall r r', (r < 3)%nat -> (r' < 3)%nat -> gram (grainA y g) r r' a = if Nat.eqb r r' then 1 else 0) ->
  grain_det y g a = 1 ->
  (forall r r', (r < 3)%nat -> (r' < 3)%nat -> gram (grainA y g) r r' b = if Nat.eqb r r' then 1 else 0)
  /\ grain_det y g b = 1.
Proof. exact solution_stays_rotation. Qed.

(* non-vacuity: both grains of the witness of C01_solution_nonvacuous have determinant 1 *)
Example C01_solution_handedness_nonvacuous :
  let y := fun (i : nat) (_ : R) => y0_example i in
  grain_det y 0 0 = 1 /\ grain_det y 1 0 = 1.
Proof. exact handedness_nonvacuous_proof. Qed.

(* ---- the clip-inactive hypothesis of the `_partial` theorems above, DISCHARGED ---------------------------
   The vector field is skew with respect to the CLIPPED orientation at EVERY state (no hypothesis on the
   entries): clipR x = max(-1, min(1, x)) is extract_vars' clip. *)
Theorem C01_field_skew_wrt_clipped_orientation :
  forall (regime ph fb : Z) (n : nat) (ass : list Z) (frs Sd : list R) (p nn lam M : R)
         (L : list R) (s : R) (y : nat -> R) (g r r' : nat),
  dislocation_regime regime -> (g < n)%nat -> (r < 3)%nat -> (r' < 3)%nat ->
  let A := fun i j : nat => clipR (y (9 + 9 * g + (3 * i + j))%nat) in
  let Ad := fun i j : nat => vf regime ph fb n ass frs Sd p nn lam M L s y (9 + 9 * g + (3 * i + j))%nat in
  Ad r 0%nat * A r' 0%nat + Ad r 1%nat * A r' 1%nat + Ad r 2%nat * A r' 2%nat
  + (A r 0%nat * Ad r' 0%nat + A r 1%nat * Ad r' 1%nat + A r 2%nat * Ad r' 2%nat) = 0.
Proof. exact vf_skew_clipped. Qed.

(* Gronwall, zero initial value (the analytic core; any e >= 0 with e' <= C e and e(a) = 0 vanishes on [a,b]) *)
Theorem C01_gronwall_zero : forall (e e' : R -> R) (a b C : R),
  a <= b ->
  (forall t, a <= t <= b -> is_derive e t (e' t)) ->
  (forall t, a <= t <= b -> 0 <= e t) ->
  (forall t, a <= t <= b -> e' t <= C * e t) ->
  e a = 0 ->
  forall t, a <= t <= b -> e t = 0.
Proof. exact gronwall_zero. Qed.

(* FULL statement (replaces C01_solution_stays_orthonormal_partial): along ANY exact solution of the modelled
   texture ODE on [a,b] whose grain-g rates are bounded there (B arbitrary; every C^1 solution on a compact
   interval), a grain that is orthonormal at a is orthonormal at EVERY t in [a,b].  Nothing is assumed about
   the entries staying in [-1,1]: the squared orthonormality defect e satisfies e' <= 12 B e because the
   clip excess is at most half the defect of the row norm. *)
Theorem C01_solution_orthonormality_invariant :
  forall (regime ph fb : Z) (n : nat) (ass : list Z) (frs Sd : list R) (p nn lam M : R)
         (Lh : R -> list R) (sh : R -> R) (y : nat -> R -> R) (a b B : R) (g : nat),
  dislocation_regime regime -> a <= b -> (g < n)%nat ->
  (forall i t, a <= t <= b ->
     is_derive (y i) t (f regime ph fb n ass frs Sd p nn lam M Lh sh t (fun j => y j t) i)) ->
  (forall k t, (k < 9)%nat -> a <= t <= b ->
     Rabs (f regime ph fb n ass frs Sd p nn lam M Lh sh t (fun j => y j t) (9 + 9 * g + k)%nat) <= B) ->
  (forall r r', (r < 3)%nat -> (r' < 3)%nat -> gram (grainA y g) r r' a = if Nat.eqb r r' then 1 else 0) ->
  forall t, a <= t <= b -> forall r r', (r < 3)%nat -> (r' < 3)%nat ->
    gram (grainA y g) r r' t = if Nat.eqb r r' then 1 else 0.
Proof. exact solution_orthonormal_invariant. Qed.

(* ... hence extract_vars' clip to [-1,1] is never active on that grain along the solution (the hypothesis the
   `_partial` theorems had to assume) *)
Theorem C01_solution_clip_never_active :
  forall (regime ph fb : Z) (n : nat) (ass : list Z) (frs Sd : list R) (p nn lam M : R)
         (Lh : R -> list R) (sh : R -> R) (y : nat -> R -> R) (a b B : R) (g : nat),
  dislocation_regime regime -> a <= b -> (g < n)%nat ->
  (forall i t, a <= t <= b ->
     is_derive (y i) t (f regime ph fb n ass frs Sd p nn lam M Lh sh t (fun j => y j t) i)) ->
  (forall k t, (k < 9)%nat -> a <= t <= b ->
     Rabs (f regime ph fb n ass frs Sd p nn lam M Lh sh t (fun j => y j t) (9 + 9 * g + k)%nat) <= B) ->
  (forall r r', (r < 3)%nat -> (r' < 3)%nat -> gram (grainA y g) r r' a = if Nat.eqb r r' then 1 else 0) ->
  forall k t, (k < 9)%nat -> a <= t <= b -> -1 <= y (9 + 9 * g + k)%nat t <= 1.
Proof. exact solution_clip_inactive. Qed.

(* ... and a proper rotation (orthonormal, det = 1) stays a proper rotation on the whole of [a,b]
   (replaces C01_solution_stays_proper_rotation_partial: right-handedness along exact solutions) *)
Theorem C01_solution_proper_rotation_invariant :
  forall (regime ph fb : Z) (n : nat) (ass : list Z) (frs Sd : list R) (p nn lam M : R)
         (Lh : R -> list R) (sh : R -> R) (y : nat -> R -> R) (a b B : R) (g : nat),
  dislocation_regime regime -> a <= b -> (g < n)%nat ->
  (forall i t, a <= t <= b ->
     is_derive (y i) t (f regime ph fb n ass frs Sd p nn lam M Lh sh t (fun j => y j t) i)) ->
  (forall k t, (k < 9)%nat -> a <= t <= b ->
     Rabs (f regime ph fb n ass frs Sd p nn lam M Lh sh t (fun j => y j t) (9 + 9 * g + k)%nat) <= B) ->
  (forall r r', (r < 3)%nat -> (r' < 3)%nat -> gram (grainA y g) r r' a = if Nat.eqb r r' then 1 else 0) ->
  grain_det y g a = 1 ->
  forall t, a <= t <= b ->
    (forall r r', (r < 3)%nat -> (r' < 3)%nat -> gram (grainA y g) r r' t = if Nat.eqb r r' then 1 else 0)
    /\ grain_det y g t = 1.
Proof. exact solution_rotation_invariant. Qed.

(* non-vacuity: the constant solution of C01_solution_nonvacuous meets all hypotheses for grain 1 with B = 0 *)
Example C01_solution_invariance_nonvacuous :
  let y := fun (i : nat) (_ : R) => y0_example i in
  dislocation_regime 4 /\
  (forall i t, is_derive (y i) t
     (f 4 0 0 2 [0%Z] [1] [] 1.5 3.5 30 125 (fun _ => repeat 0 9) (fun _ => 0) t (fun j => y j t) i)) /\
  (forall k t, Rabs (f 4 0 0 2 [0%Z] [1] [] 1.5 3.5 30 125 (fun _ => repeat 0 9) (fun _ => 0) t
                       (fun j => y j t) (9 + 9 * 1 + k)%nat) <= 0) /\
  (forall r r', (r < 3)%nat -> (r' < 3)%nat -> gram (grainA y 1) r r' 0 = if Nat.eqb r r' then 1 else 0) /\
  grain_det y 1 0 = 1.
Proof. exact invariance_nonvacuous_proof. Qed.
(* ---- round 5: the driver around the integrator (Model_minerals: y_start / lsoda_problem_of / solver_loop /
   init_default), tied to Mineral.update_orientations and Mineral.__post_init__ by the instance lemmas of
   Inst_minerals_drv.v (generated = model at n_grains = 1, 2, 3) ------------------------------------------- *)
From PV Require Import Proofs_driver.

(* the vector the integration starts from: extract_vars gives back EXACTLY the caller's F and the last stored
   snapshot -- on a valid snapshot both clips and the normalisation are identities *)
Theorem C01_integration_starts_at_last_snapshot : forall (n : nat) (Fd : list R) (s : @snapshot NumR),
  length Fd = 9%nat -> valid_snapshot n s ->
  let y0 := @y_start NumR Fd s in
  @ev_F NumR y0 = Fd /\ @chunks9 NumR (@ev_o NumR y0 n) n = sn_o s /\ @ev_f NumR y0 n = sn_f s.
Proof. exact start_is_last_snapshot. Qed.

(* an update whose integrator takes several steps stores what `update` makes of the LAST state vector only *)
Theorem C01_only_last_solver_vector_is_stored : forall n chi (h : @history NumR) (ys : list (list R)) (y : list R),
  @update_steps NumR n chi h (map Ok (ys ++ [y])) = @update_history NumR n chi h (Ok y).
Proof. exact update_steps_last. Qed.

(* the history invariant with whole solver loops as updates: any number of updates, each any number of
   solver steps, any of them failing *)
Theorem C01_history_invariant_solver_loops : forall n chi (stepss : list (list (res (list R)))) (h : @history NumR),
  (0 < n)%nat -> 0 <= chi -> hist_inv n h -> Forall (steps_ok n) stepss -> hist_inv n (run_steps n chi h stepss).
Proof. exact history_inv_steps. Qed.

(* steps_ok asks something of the LAST vector of a loop only; a loop with a failing step is always admissible *)
Theorem C01_steps_ok_last_vector : forall n (ys : list (list R)) (y : list R),
  steps_ok n (map Ok (ys ++ [y])) <-> (length y = (9 + 10 * n)%nat /\ 0 < rsum (clipped_fracs y n)).
Proof. exact steps_ok_last. Qed.
Theorem C01_steps_ok_failure : forall n (pre : list (list R)) e rest, steps_ok n (map Ok pre ++ Err e :: rest).
Proof. exact steps_ok_failure. Qed.

(* the default initial snapshot of Mineral.__post_init__ (volumes np.full(n, 1/n), orientations from the
   Rotation.random oracle): valid whenever the oracle's entries are in [-1, 1] *)
Theorem C01_default_initial_snapshot_valid : forall n (R0 : list (list R)),
  (0 < n)%nat -> length R0 = n -> Forall grain_ok R0 -> valid_snapshot n (@init_default NumR n R0).
Proof. exact init_default_valid. Qed.

(* what is handed to scipy's LSODA satisfies LSODA's own argument checks (it raises ValueError otherwise) *)
Theorem C01_lsoda_arguments_well_formed : forall (Fd : list R) (s : @snapshot NumR) (t0 t1 : R), t0 <> t1 ->
  let P := @lsoda_problem_of NumR Fd s t0 t1 in
  0 < lp_first P <= Rabs (lp_tb P - lp_t0 P) /\ 0 < lp_rtol P /\ Forall (fun a => 0 < a) (lp_atol P)
  /\ length (lp_atol P) = length (lp_y0 P).
Proof. exact problem_well_formed. Qed.

Example C01_driver_nonvacuous :
  length id9 = 9%nat /\ valid_snapshot 2 snap_ex /\ (0 : R) <> 1 /\ 0 < 1 / 1000
  /\ steps_ok 2 (map Ok ([[]] ++ [@y_start NumR id9 snap_ex])).
Proof. exact driver_nonvacuous_proof. Qed.

(* the history invariant for whole assemblages advanced by any number of update_all calls: every stored snapshot of
   every mineral is a valid texture *)
Theorem C01_assemblage_history_invariant : forall n chi (yss : list (list (list R))) (hs : list (@history NumR)),
  (0 < n)%nat -> 0 <= chi -> Forall (hist_inv n) hs ->
  Forall (fun ys => length ys = length hs /\ Forall (fun y => step_ok n (Ok y)) ys) yss ->
  Forall (hist_inv n) (bulk_run n chi hs yss).
Proof. exact bulk_run_invariant. Qed.
