(* Properties/C01.v -- C01: every stored snapshot is a valid texture, after any update history *)
From Coq Require Import Reals ZArith List.
From Coquelicot Require Import Hierarchy Derive.
From PV Require Import Num NumR Model_core Model_minerals Proofs_core Proofs_minerals Proofs_flow.
From PV.gen Require Import Gen_core.
Import ListNotations.
Open Scope R_scope.

(* one update: whatever vector (of the right length, with a positive clipped fraction sum --
   otherwise the code stores NaN) the integrator ends with, the appended snapshot has exactly
   n fractions that are >= 0 and sum to 1 and n orientation matrices with entries in [-1,1] *)
Theorem C01_update_valid : forall n chi (prev : @snapshot NumR) (y : list R),
  (0 < n)%nat -> 0 <= chi -> length y = (9 + 10 * n)%nat -> 0 < rsum (clipped_fracs y n) ->
  length (sn_o prev) = n -> Forall grain_ok (sn_o prev) ->
  valid_snapshot n (snd (@update NumR n chi prev y)).
Proof. exact update_valid. Qed.

(* each update appends exactly one snapshot; a failed update leaves the history untouched *)
Theorem C01_appends_exactly_one : forall n chi h ry,
  match ry with
  | Ok y => step n chi h ry = h ++ [snd (@update NumR n chi (@last_snapshot NumR h) y)]
  | Err e => step n chi h ry = h /\ fst (@update_history NumR n chi h ry) = Err e
  end.
Proof. exact step_appends_one. Qed.

(* every reachable history: any number of updates, any integrator outputs, any failures *)
Theorem C01_history_invariant : forall n chi rys h,
  (0 < n)%nat -> 0 <= chi -> hist_inv n h -> Forall (step_ok n) rys -> hist_inv n (run n chi h rys).
Proof. exact history_inv. Qed.

(* earlier snapshots are never altered *)
Theorem C01_earlier_snapshots_untouched : forall n chi rys h,
  firstn (length h) (run n chi h rys) = h /\ (length h <= length (run n chi h rys))%nat.
Proof. exact history_prefix. Qed.

(* the initial snapshot: uniform volumes, orientation entries in [-1,1] *)
Theorem C01_initial_snapshot_valid : forall n (os : list (list R)),
  (0 < n)%nat -> length os = n -> Forall grain_ok os ->
  valid_snapshot n (@Build_snapshot NumR os (repeat (1 / INR n) n)).
Proof. exact init_valid. Qed.

(* first-order conservation of orthonormality: every dislocation-type rate satisfies
   Ad.A^T + A.Ad^T = 0, so A.A^T is a first integral of the exact flow (the quantitative
   drift bound of LSODA is measured at run time, not proved) *)
Theorem C01_rate_conserves_orthonormality_first_order :
  forall regime ph fb os fs (D L S : arr NumR) p n lam M phi Ads fds,
  dislocation_regime regime ->
  @derivs NumR regime ph fb os fs D L S p n lam M phi = Ok (Ads, fds) ->
  Forall2 skew_wrt os Ads.
Proof. exact derivs_skew. Qed.

(* ... and therefore every entry of A(t).A(t)^T is constant along any EXACT solution whose rate
   has that property (Coquelicot is_derive); LSODA's deviation from the exact solution is what
   the runtime monitor measures *)
Theorem C01_orthonormality_is_first_integral : forall (A Ad : nat -> nat -> R -> R) (a b : R),
  a <= b -> (forall p q t, a <= t <= b -> is_derive (A p q) t (Ad p q t)) ->
  forall p p' : nat,
  (forall t, a <= t <= b ->
    Ad p 0%nat t * A p' 0%nat t + Ad p 1%nat t * A p' 1%nat t + Ad p 2%nat t * A p' 2%nat t
    + (A p 0%nat t * Ad p' 0%nat t + A p 1%nat t * Ad p' 1%nat t + A p 2%nat t * Ad p' 2%nat t) = 0) ->
  gram A p p' b = gram A p p' a.
Proof. exact orthonormality_first_integral. Qed.

Example C01_nonvacuous :
  let y := [1;0;0; 0;1;0; 0;0;1;  1;0;0; 0;1;0; 0;0;1;  0;1;0; -1;0;0; 0;0;1;  0.25; 0.75] in
  length y = (9 + 10 * 2)%nat /\ 0 < rsum (clipped_fracs y 2).
Proof. exact C01_nonvacuous_proof. Qed.
