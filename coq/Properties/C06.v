(* Properties/C06.v -- C06: the returned deformation gradient solves dF/dt = L.F *)
From Coq Require Import Reals ZArith List.
From Coquelicot Require Import Hierarchy Derive.
From PV Require Import Num NumR Model_core Model_minerals Proofs_core Proofs_total Proofs_minerals Proofs_rhs Proofs_flow Proofs_path Proofs_path2 Proofs_gronwall Proofs_path5.
Import ListNotations.
Open Scope R_scope.

(* the first nine components of the integrated vector field are the row-major entries of
   L . F  (operand order included), whatever the mineral *)
Theorem C06_Fdot_is_L_times_F : forall regime ph fb n ass frs (L : list R) s Sd p nn lam M (y out : list R),
  @rhs NumR regime ph fb n ass frs L s Sd p nn lam M y = Ok out ->
  firstn 9 out = @mat_mul9 NumR L (firstn 9 y).
Proof. exact rhs_F_block. Qed.

Theorem C06_matmul_entries : forall (a b : list R) i j, (i < 3)%nat -> (j < 3)%nat ->
  nth (3 * i + j) (@mat_mul9 NumR a b) 0 =
  nth (3 * i) a 0 * nth j b 0 + nth (3 * i + 1) a 0 * nth (3 + j) b 0 + nth (3 * i + 2) a 0 * nth (6 + j) b 0.
Proof. exact mat_mul9_entries. Qed.

(* F's evolution does not depend on phase, fabric, regime, grain count, texture, parameters
   or assemblage: two minerals with the same F block and L have the same dF/dt *)
Theorem C06_noninterference : forall
  regime ph fb n ass frs Sd p nn lam M (y : list R)
  regime' ph' fb' n' ass' frs' Sd' p' nn' lam' M' (y' : list R) (L : list R) s s' out out',
  firstn 9 y = firstn 9 y' ->
  @rhs NumR regime ph fb n ass frs L s Sd p nn lam M y = Ok out ->
  @rhs NumR regime' ph' fb' n' ass' frs' L s' Sd' p' nn' lam' M' y' = Ok out' ->
  firstn 9 out = firstn 9 out'.
Proof. exact rhs_F_noninterference. Qed.

(* update returns the F block of the integrator's final vector untouched by clipping,
   flooring or normalisation *)
Theorem C06_returned_F_is_F_block : forall n chi (prev : @snapshot NumR) (y : list R),
  length y = (9 + 10 * n)%nat -> fst (@update NumR n chi prev y) = firstn 9 y.
Proof. exact update_returns_F_block'. Qed.

(* along any exact solution of dF/dt = L(t).F: (det F)' = tr L . det F *)
Theorem C06_det_rate : forall (F L : nat -> R -> R) (t : R),
  (forall i j, (i < 3)%nat -> (j < 3)%nat -> is_derive (F (3 * i + j)%nat) t (LF F L t i j)) ->
  is_derive (detF F) t ((L 0%nat t + L 4%nat t + L 8%nat t) * detF F t).
Proof. exact det_rate. Qed.
(* d/dt det F = tr L . det F : the algebraic identity behind det F = exp(int tr L) *)
Theorem C06_det_rate_identity : forall (L F : list R), length L = 9%nat -> length F = 9%nat ->
  det_rate9 F (@mat_mul9 NumR L F) = trace9 L * det9 F.
Proof. exact det_rate_identity. Qed.

(* ---- capstones for the texture ODE itself -------------------------------------------------------
   y : nat -> R -> R is the state vector as a function of time (entries 0..8 = F row-major, then 9 n
   orientation entries, then n volume fractions); f ... Lh sh t z i (Proofs_path.f) is component i of the
   modelled eval_rhs at time t and state z for the velocity-gradient history Lh and strain-rate scale sh.
   "rhs ... = Ok out" = eval_rhs does not raise at that state (it does not in regimes 0, 1, 7 and, for a
   valid (phase, fabric) and stress exponent <> 0, in regimes 4 and 6: see C06_rhs_ok_supported). *)

(* wherever the F entries of y satisfy the ODE and eval_rhs does not raise, the F block solves
   dF/dt = L(t).F  (operand order included) -- whatever the regime, the mineral, its parameters and its
   texture (entries >= 9 of y are not even required to solve anything) *)
Theorem C06_solution_F_block :
  forall (regime ph fb : Z) (n : nat) (ass : list Z) (frs Sd : list R) (p nn lam M : R)
         (Lh : R -> list R) (sh : R -> R) (y : nat -> R -> R) (t : R),
  (exists out, @rhs NumR regime ph fb n ass frs (Lh t) (sh t) Sd p nn lam M (ylist n (fun j => y j t)) = Ok out) ->
  (forall i, (i < 9)%nat ->
     is_derive (y i) t (f regime ph fb n ass frs Sd p nn lam M Lh sh t (fun j => y j t) i)) ->
  forall i j, (i < 3)%nat -> (j < 3)%nat ->
    is_derive (y (3 * i + j)%nat) t
      (nth (3 * i) (Lh t) 0 * y j t + nth (3 * i + 1) (Lh t) 0 * y (3 + j)%nat t
       + nth (3 * i + 2) (Lh t) 0 * y (6 + j)%nat t).
Proof. exact solution_F_block. Qed.

(* ... and consequently (det F)' = tr L(t) . det F  (detF y = determinant of entries 0..8 of y) *)
Theorem C06_solution_det_rate :
  forall (regime ph fb : Z) (n : nat) (ass : list Z) (frs Sd : list R) (p nn lam M : R)
         (Lh : R -> list R) (sh : R -> R) (y : nat -> R -> R) (t : R),
  (exists out, @rhs NumR regime ph fb n ass frs (Lh t) (sh t) Sd p nn lam M (ylist n (fun j => y j t)) = Ok out) ->
  (forall i, (i < 9)%nat ->
     is_derive (y i) t (f regime ph fb n ass frs Sd p nn lam M Lh sh t (fun j => y j t) i)) ->
  is_derive (detF y) t ((nth 0 (Lh t) 0 + nth 4 (Lh t) 0 + nth 8 (Lh t) 0) * detF y t).
Proof. exact solution_det_rate. Qed.

(* incompressible flow (tr L = 0 on [a,b]): det F is conserved along every exact solution *)
Theorem C06_solution_det_incompressible :
  forall (regime ph fb : Z) (n : nat) (ass : list Z) (frs Sd : list R) (p nn lam M : R)
         (Lh : R -> list R) (sh : R -> R) (y : nat -> R -> R) (a b : R),
  a <= b ->
  (forall t, a <= t <= b ->
     exists out, @rhs NumR regime ph fb n ass frs (Lh t) (sh t) Sd p nn lam M (ylist n (fun j => y j t)) = Ok out) ->
  (forall i t, (i < 9)%nat -> a <= t <= b ->
     is_derive (y i) t (f regime ph fb n ass frs Sd p nn lam M Lh sh t (fun j => y j t) i)) ->
  (forall t, a <= t <= b -> nth 0 (Lh t) 0 + nth 4 (Lh t) 0 + nth 8 (Lh t) 0 = 0) ->
  detF y b = detF y a.
Proof. exact solution_det_incompressible. Qed.

(* closed form: det F(b) = det F(a) exp(T(b) - T(a)) for every antiderivative T of tr L on [a,b]
   (i.e. exp of the integral of tr L) ... *)
Theorem C06_solution_det_exp :
  forall (regime ph fb : Z) (n : nat) (ass : list Z) (frs Sd : list R) (p nn lam M : R)
         (Lh : R -> list R) (sh : R -> R) (y : nat -> R -> R) (a b : R) (Tr : R -> R),
  a <= b ->
  (forall t, a <= t <= b ->
     exists out, @rhs NumR regime ph fb n ass frs (Lh t) (sh t) Sd p nn lam M (ylist n (fun j => y j t)) = Ok out) ->
  (forall i t, (i < 9)%nat -> a <= t <= b ->
     is_derive (y i) t (f regime ph fb n ass frs Sd p nn lam M Lh sh t (fun j => y j t) i)) ->
  (forall t, a <= t <= b -> is_derive Tr t (nth 0 (Lh t) 0 + nth 4 (Lh t) 0 + nth 8 (Lh t) 0)) ->
  detF y b = detF y a * exp (Tr b - Tr a).
Proof. exact solution_det_exp. Qed.

(* ... in particular for a constant trace c: det F(b) = det F(a) exp(c (b - a)) *)
Theorem C06_solution_det_constant_trace :
  forall (regime ph fb : Z) (n : nat) (ass : list Z) (frs Sd : list R) (p nn lam M : R)
         (Lh : R -> list R) (sh : R -> R) (y : nat -> R -> R) (a b c : R),
  a <= b ->
  (forall t, a <= t <= b ->
     exists out, @rhs NumR regime ph fb n ass frs (Lh t) (sh t) Sd p nn lam M (ylist n (fun j => y j t)) = Ok out) ->
  (forall i t, (i < 9)%nat -> a <= t <= b ->
     is_derive (y i) t (f regime ph fb n ass frs Sd p nn lam M Lh sh t (fun j => y j t) i)) ->
  (forall t, a <= t <= b -> nth 0 (Lh t) 0 + nth 4 (Lh t) 0 + nth 8 (Lh t) 0 = c) ->
  detF y b = detF y a * exp (c * (b - a)).
Proof. exact solution_det_const_trace. Qed.

(* the "rhs = Ok" hypothesis holds at EVERY state in the documented regimes once the phase is listed in
   the assemblage *)
Theorem C06_rhs_ok_supported :
  forall (regime ph fb : Z) (n : nat) (ass : list Z) (frs Sd : list R) (p nn lam M : R)
         (L : list R) (s : R) (yl : list R) (phi : R),
  (regime = 0%Z \/ regime = 1%Z \/ regime = 7%Z \/ (dislocation_regime regime /\ valid_pair ph fb /\ nn <> 0)) ->
  @lookup_fraction NumR ph ass frs = Ok phi ->
  exists out, @rhs NumR regime ph fb n ass frs L s Sd p nn lam M yl = Ok out.
Proof. exact rhs_ok_supported. Qed.

(* non-vacuity: pure shear L = diag(1,-1,0) (strain-rate scale 1), regime 0: shear_y, with
   F(t) = diag(e^t, e^-t, 1) and a constant 2-grain texture, IS an exact solution on which rhs is Ok;
   tr L = 0 and indeed det F(t) = 1 *)
Example C06_solution_nonvacuous :
  (forall i t, is_derive (shear_y i) t
     (f 0 0 0 2 [0%Z] [1] [] 1.5 3.5 30 125 (fun _ => shear_L) (fun _ => 1) t (fun j => shear_y j t) i)) /\
  (forall t, exists out, @rhs NumR 0 0 0 2 [0%Z] [1] shear_L 1 [] 1.5 3.5 30 125 (ylist 2 (fun j => shear_y j t)) = Ok out) /\
  (forall t : R, nth 0 shear_L 0 + nth 4 shear_L 0 + nth 8 shear_L 0 = 0) /\
  (forall t, detF shear_y t = 1).
Proof. exact shear_is_solution_proof. Qed.

(* ---- uniqueness: F is determined by its initial value and the velocity-gradient history ALONE -----------
   dF/dt = L(t).F is linear: two differentiable solutions with the same initial value coincide on [a,b] when
   L is bounded there (Gronwall on sum (F1 - F2)^2, e' <= 6 B e).  LF F L t i j = sum_m L[3i+m](t) F[3m+j](t). *)
Theorem C06_linear_solution_unique : forall (F1 F2 L : nat -> R -> R) (a b B : R),
  a <= b ->
  (forall i j t, (i < 3)%nat -> (j < 3)%nat -> a <= t <= b -> is_derive (F1 (3 * i + j)%nat) t (LF F1 L t i j)) ->
  (forall i j t, (i < 3)%nat -> (j < 3)%nat -> a <= t <= b -> is_derive (F2 (3 * i + j)%nat) t (LF F2 L t i j)) ->
  (forall k t, (k < 9)%nat -> a <= t <= b -> Rabs (L k t) <= B) ->
  (forall k, (k < 9)%nat -> F1 k a = F2 k a) ->
  forall t, a <= t <= b -> forall k, (k < 9)%nat -> F1 k t = F2 k t.
Proof. exact linear_F_unique. Qed.

(* the F block of an exact solution of the integrated system does NOT depend on the mineral: two systems that
   differ in phase, fabric, regime, grain count, texture (y1, y2 beyond index 9), assemblage, phase fractions
   (hence single-phase vs multiphase), recrystallisation parameters, diffusion-stretch and strain-rate-scale
   oracles, but see the same velocity-gradient history and start from the same F, have the same F at every time *)
Theorem C06_F_independent_of_mineral :
  forall (regime1 ph1 fb1 : Z) (n1 : nat) (ass1 : list Z) (frs1 Sd1 : list R) (p1 nn1 lam1 M1 : R) (sh1 : R -> R)
         (regime2 ph2 fb2 : Z) (n2 : nat) (ass2 : list Z) (frs2 Sd2 : list R) (p2 nn2 lam2 M2 : R) (sh2 : R -> R)
         (Lh : R -> list R) (y1 y2 : nat -> R -> R) (a b B : R),
  a <= b ->
  (forall t, a <= t <= b -> exists out,
     @rhs NumR regime1 ph1 fb1 n1 ass1 frs1 (Lh t) (sh1 t) Sd1 p1 nn1 lam1 M1 (ylist n1 (fun j => y1 j t)) = Ok out) ->
  (forall t, a <= t <= b -> exists out,
     @rhs NumR regime2 ph2 fb2 n2 ass2 frs2 (Lh t) (sh2 t) Sd2 p2 nn2 lam2 M2 (ylist n2 (fun j => y2 j t)) = Ok out) ->
  (forall i t, (i < 9)%nat -> a <= t <= b ->
     is_derive (y1 i) t (f regime1 ph1 fb1 n1 ass1 frs1 Sd1 p1 nn1 lam1 M1 Lh sh1 t (fun j => y1 j t) i)) ->
  (forall i t, (i < 9)%nat -> a <= t <= b ->
     is_derive (y2 i) t (f regime2 ph2 fb2 n2 ass2 frs2 Sd2 p2 nn2 lam2 M2 Lh sh2 t (fun j => y2 j t) i)) ->
  (forall k t, (k < 9)%nat -> a <= t <= b -> Rabs (Lcomp Lh k t) <= B) ->
  (forall k, (k < 9)%nat -> y1 k a = y2 k a) ->
  forall t, a <= t <= b -> forall k, (k < 9)%nat -> y1 k t = y2 k t.
Proof. exact solution_F_independent_of_mineral. Qed.

(* split interval = whole interval (exact solutions): integrate over [a,c], restart from that F and integrate
   over [c,b]: the F at b is the F of any exact solution over the whole of [a,b] *)
Theorem C06_F_split_equals_whole :
  forall (regime ph fb : Z) (n : nat) (ass : list Z) (frs Sd : list R) (p nn lam M : R) (sh : R -> R)
         (Lh : R -> list R) (yw ya yb : nat -> R -> R) (a c b B : R),
  a <= c <= b ->
  (forall t, a <= t <= b -> exists out,
     @rhs NumR regime ph fb n ass frs (Lh t) (sh t) Sd p nn lam M (ylist n (fun j => yw j t)) = Ok out) ->
  (forall t, a <= t <= c -> exists out,
     @rhs NumR regime ph fb n ass frs (Lh t) (sh t) Sd p nn lam M (ylist n (fun j => ya j t)) = Ok out) ->
  (forall t, c <= t <= b -> exists out,
     @rhs NumR regime ph fb n ass frs (Lh t) (sh t) Sd p nn lam M (ylist n (fun j => yb j t)) = Ok out) ->
  (forall i t, (i < 9)%nat -> a <= t <= b ->
     is_derive (yw i) t (f regime ph fb n ass frs Sd p nn lam M Lh sh t (fun j => yw j t) i)) ->
  (forall i t, (i < 9)%nat -> a <= t <= c ->
     is_derive (ya i) t (f regime ph fb n ass frs Sd p nn lam M Lh sh t (fun j => ya j t) i)) ->
  (forall i t, (i < 9)%nat -> c <= t <= b ->
     is_derive (yb i) t (f regime ph fb n ass frs Sd p nn lam M Lh sh t (fun j => yb j t) i)) ->
  (forall k t, (k < 9)%nat -> a <= t <= b -> Rabs (Lcomp Lh k t) <= B) ->
  (forall k, (k < 9)%nat -> ya k a = yw k a) ->
  (forall k, (k < 9)%nat -> yb k c = ya k c) ->
  forall k, (k < 9)%nat -> yb k b = yw k b.
Proof. exact solution_F_split_equals_whole. Qed.

(* non-vacuity: the velocity gradient of the pure-shear witness of C06_solution_nonvacuous is bounded by 1
   (the remaining hypotheses are those of C06_solution_nonvacuous, met by shear_y) *)
Example C06_uniqueness_nonvacuous :
  forall k t, (k < 9)%nat -> Rabs (Lcomp (fun _ => shear_L) k t) <= 1.
Proof. exact shear_L_bounded_proof. Qed.
(* ---- round 5: where the integration of F starts and what a bulk update returns (Model_minerals.y_start,
   bulk_update, bulk_y0; tied to the source by Inst_minerals_drv: lsoda_args_inst_*, update_all_inst_1_{2,3}) -- *)
From PV Require Import Proofs_driver.

(* the F block of the vector handed to the integrator is the caller's deformation gradient *)
Theorem C06_integration_starts_at_given_F : forall (Fd : list R) (s : @snapshot NumR),
  length Fd = 9%nat -> @ev_F NumR (@y_start NumR Fd s) = Fd.
Proof. exact y_start_F. Qed.

(* bulk clause: update_all hands the SAME starting F to every mineral's integrator ... *)
Theorem C06_bulk_same_starting_F : forall (Fd : list R) (hs : list (@history NumR)), length Fd = 9%nat ->
  Forall (fun y0 => @ev_F NumR y0 = Fd) (@bulk_y0 NumR Fd hs).
Proof. exact bulk_y0_same_F. Qed.

(* ... and returns the F block of the LAST mineral's integrator vector *)
Theorem C06_bulk_returns_last_F_block : forall n chi (ms : list (@history NumR * list R)) (h : @history NumR) (y : list R),
  length y = (9 + 10 * n)%nat -> fst (bulk_pairs n chi (ms ++ [(h, y)])) = Ok (firstn 9 y).
Proof. exact bulk_returns_last_F_block. Qed.

Example C06_bulk_nonvacuous : length id9 = 9%nat /\ length (@y_start NumR id9 snap_ex) = (9 + 10 * 2)%nat.
Proof. exact bulk_nonvacuous_proof. Qed.

(* across updates: when the F an update returns is handed to the next update (of this or another mineral), the next
   integration of F starts EXACTLY at the F block of the vector the previous integrator ended with *)
Theorem C06_F_handover_between_updates : forall n chi (prev s' : @snapshot NumR) (y : list R),
  length y = (9 + 10 * n)%nat ->
  @ev_F NumR (@y_start NumR (fst (@update NumR n chi prev y)) s') = firstn 9 y.
Proof. exact F_handover. Qed.
