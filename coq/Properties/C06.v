(* Properties/C06.v -- C06: the returned deformation gradient solves dF/dt = L.F *)
From Coq Require Import Reals ZArith List.
From Coquelicot Require Import Hierarchy Derive.
From PV Require Import Num NumR Model_core Model_minerals Proofs_core Proofs_minerals Proofs_rhs Proofs_flow.
Import ListNotations.
Open Scope R_scope.

(* the first nine components of the integrated vector field are the row-major entries of
   L . F  (operand order included), whatever the mineral *)
Theorem C06_Fdot_is_L_times_F : forall regime ph fb n ass frs (L : list R) s Sd p nn lam M (y out : list R),
  @rhs NumR regime ph fb n ass frs L s Sd p nn lam M y = Ok out ->
  firstn 9 out = @mat_mul9 NumR L (firstn 9 y).
Proof. exact rhs_F_block. Qed.

Theorem C06_matmul_entries : forall (a b : list R) i j, (i < 3)%nat -> (j < 3)%nat ->
  nth (3 * i + j) (@mat_mul9 NumR a b) 0 =
  nth (3 * i) a 0 * nth j b 0 + nth (3 * i + 1) a 0 * nth (3 + j) b 0 + nth (3 * i + 2) a 0 * nth (6 + j) b 0.
Proof. exact mat_mul9_entries. Qed.

(* F's evolution does not depend on phase, fabric, regime, grain count, texture, parameters
   or assemblage: two minerals with the same F block and L have the same dF/dt *)
Theorem C06_noninterference : forall
  regime ph fb n ass frs Sd p nn lam M (y : list R)
  regime' ph' fb' n' ass' frs' Sd' p' nn' lam' M' (y' : list R) (L : list R) s s' out out',
  firstn 9 y = firstn 9 y' ->
  @rhs NumR regime ph fb n ass frs L s Sd p nn lam M y = Ok out ->
  @rhs NumR regime' ph' fb' n' ass' frs' L s' Sd' p' nn' lam' M' y' = Ok out' ->
  firstn 9 out = firstn 9 out'.
Proof. exact rhs_F_noninterference. Qed.

(* update returns the F block of the integrator's final vector untouched by clipping,
   flooring or normalisation *)
Theorem C06_returned_F_is_F_block : forall n chi (prev : @snapshot NumR) (y : list R),
  length y = (9 + 10 * n)%nat -> fst (@update NumR n chi prev y) = firstn 9 y.
Proof. exact update_returns_F_block'. Qed.

(* along any exact solution of dF/dt = L(t).F: (det F)' = tr L . det F *)
Theorem C06_det_rate : forall (F L : nat -> R -> R) (t : R),
  (forall i j, (i < 3)%nat -> (j < 3)%nat -> is_derive (F (3 * i + j)%nat) t (LF F L t i j)) ->
  is_derive (detF F) t ((L 0%nat t + L 4%nat t + L 8%nat t) * detF F t).
Proof. exact det_rate. Qed.
(* d/dt det F = tr L . det F : the algebraic identity behind det F = exp(int tr L) *)
Theorem C06_det_rate_identity : forall (L F : list R), length L = 9%nat -> length F = 9%nat ->
  det_rate9 F (@mat_mul9 NumR L F) = trace9 L * det9 F.
Proof. exact det_rate_identity. Qed.
