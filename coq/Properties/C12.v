(* Properties/C12.v -- C12: the elastic symmetry decomposition is correct and frame
   independent.  Only statements; each is closed by `exact` of a lemma of Proofs_decomp.v / Proofs_decomp2.v.
   The frame clause for rotated orthorhombic tensors (sccs_is_R, mono = tric = 0, the
   reported axis is +- a column of the rotation) is proved in Proofs_decomp2.v; what stays
   open is named _partial below (see docs/C12.md). *)
From Coq Require Import Reals ZArith List.
From PV Require Import Num NumR Model_voigt Model_decomp Proofs_tensors_alg Proofs_tensors_rot
  Proofs_tensors_maps Proofs_tensors_proj Inst_tensors Proofs_decomp Proofs_decomp2.
From PV.gen Require Import Gen_tensors.
Import ListNotations.
Open Scope R_scope.

(* K and G of the model are full contractions of the 4th-order tensor (Voigt invariants) *)
Theorem C12_KG_are_contractions : forall M : arr NumR, sym6 M ->
  Kof M = trK (t4 (k_voigt_to_elastic_tensor M)) / 9 /\
  Gof M = (trG (t4 (k_voigt_to_elastic_tensor M)) - 3 * Kof M) / 10.
Proof. exact KG_contractions. Qed.

(* the isotropic vector built from K and G is the orthogonal projection of the 21-vector on
   the isotropic plane span(uK, uG): the residual is orthogonal to both basis vectors *)
Theorem C12_KG_isotropic_projection : forall M : arr NumR, sym6 M ->
  let x := k_voigt_matrix_to_vector M in
  let iso := iso_vec (Kof M) (Gof M) in
  dot21 (vsub x iso) uK = 0 /\ dot21 (vsub x iso) uG = 0.
Proof. exact KG_isotropic_projection. Qed.

Theorem C12_iso_vector_is_model : forall K G, veq (@iso_vector NumR K G) (iso_vec K G).
Proof. exact iso_vector_spec. Qed.

(* percent anisotropy = 100 |x - iso| / |x| lies in [0, 100] *)
Theorem C12_aniso_range : forall (x : arr NumR) K G,
  dot21 (vsub x (iso_vec K G)) (iso_vec K G) = 0 -> 0 < sumsq 21 x ->
  0 <= sqrt (sumsq 21 (vsub x (iso_vec K G))) / sqrt (sumsq 21 x) * 100 <= 100.
Proof. exact aniso_range. Qed.

(* frame independence of K, G and of the norm, for every R with R^T R = I *)
Theorem C12_KG_frame_invariant : forall M Q : arr NumR, sym6 M -> orth (mat3 Q) ->
  Kof (rotM M Q) = Kof M /\ Gof (rotM M Q) = Gof M.
Proof. exact KG_frame_invariant. Qed.

Theorem C12_norm_frame_invariant : forall M Q : arr NumR, sym6 M -> orth (mat3 Q) ->
  sumsq 21 (k_voigt_matrix_to_vector (rotM M Q)) = sumsq 21 (k_voigt_matrix_to_vector M).
Proof. exact norm_frame_invariant. Qed.

(* in whatever frame the code selects: tric^2 + mono^2 + ortho^2 + tetr^2 + hex^2 = aniso^2
   (squared norms; the percentages are these times (100/|x|)^2) *)
Theorem C12_squares_add_up : forall (rv : arr NumR) K G,
  dot21 (vsub rv (iso_vec K G)) (iso_vec K G) = 0 ->
  let m := k_mono_project rv in let o := k_ortho_project m in
  let t := k_tetr_project o in let h := hexv t in
  sumsq 21 (vsub rv m) + sumsq 21 (vsub m o) + sumsq 21 (vsub o t) + sumsq 21 (vsub t h)
  + sumsq 21 (vsub h (iso_vec K G)) = sumsq 21 (vsub rv (iso_vec K G)).
Proof. exact squares_add_up. Qed.

Theorem C12_perp_plane_gives_perp_iso : forall (x : arr NumR) K G K' G',
  dot21 (vsub x (iso_vec K G)) uK = 0 -> dot21 (vsub x (iso_vec K G)) uG = 0 ->
  dot21 (vsub x (iso_vec K G)) (iso_vec K' G') = 0.
Proof. exact perp_plane_iso. Qed.

(* orthorhombic vectors (components 9..20 zero) have no monoclinic / triclinic part *)
Theorem C12_ortho_range_in_mono : forall x : arr NumR,
  veq (k_ortho_project x) x -> veq (k_mono_project x) x.
Proof. exact ortho_range_in_mono. Qed.

(* contractions_rotate: dilat (rotate T R) = R . dilat T . R^T and the same for deviat, on the
   generated voigt_decompose, for every R with R^T R = I *)
Theorem C12_contractions_rotate : forall M Q : arr NumR, sym6 M -> orth (mat3 Q) ->
  eq2b (mat3 (fst (k_voigt_decompose (rotM M Q))))
       (mm (mm (mat3 Q) (mat3 (fst (k_voigt_decompose M)))) (tr3 (mat3 Q))) /\
  eq2b (mat3 (snd (k_voigt_decompose (rotM M Q))))
       (mm (mm (mat3 Q) (mat3 (snd (k_voigt_decompose M)))) (tr3 (mat3 Q))).
Proof. exact contractions_rotate. Qed.

(* eigvec_unique: S symmetric, E any orthonormal eigenbasis (column j for lam j), the three
   lam distinct: every unit eigenvector v (S v = mu v) is +- a column of E, mu its eigenvalue *)
Theorem C12_eigvec_unique : forall (S E : M3) (lam : nat -> R) (v : V3) (mu : R),
  sym3 S -> orth E -> eigcols S E lam ->
  (forall i, (i < 3)%nat -> mv S v i = mu * v i) ->
  distinct3 lam -> dotv v v = 1 ->
  exists j s, (j < 3)%nat /\ (s = 1 \/ s = -1) /\ mu = lam j /\
              forall i, (i < 3)%nat -> v i = s * E i j.
Proof. exact eigvec_unique. Qed.

(* sccs_is_R.  vm = T0 seen in the frame Rq (vte vm = rotate T0 Rq), T0 orthorhombic with
   three distinct principal values of BOTH contractions; Ed, Ev = what the two eigh oracles may
   return (orthonormal columns, each an eigenvector; any order, any signs).  Then the columns
   of Ed are a signed permutation (pi, s) of the columns of Rq, and row r of the rotation the
   model hands to `rotate` for candidate i is  s * (column pi((i+r) mod 3) of Rq)  -- the
   nearest-eigenvector pairing with its 10-degree bound and signed-index trick included. *)
Theorem C12_sccs_is_R : forall (vm Ed Ev Rq : arr NumR) (T0 : T4) (mud muv : nat -> R),
  sym6 vm -> ortho4 T0 -> orth (mat3 Rq) ->
  eq4b (t4 (k_voigt_to_elastic_tensor vm)) (rot4 T0 (mat3 Rq)) ->
  distinct3 (fun k => dil4 T0 k k) -> distinct3 (fun k => dev4 T0 k k) ->
  orth (mat3 Ed) -> eigcols (mat3 (fst (k_voigt_decompose vm))) (mat3 Ed) mud ->
  orth (mat3 Ev) -> eigcols (mat3 (snd (k_voigt_decompose vm))) (mat3 Ev) muv ->
  exists pi s, signed_cols Ed Rq pi s /\
    forall i r a, (r < 3)%nat -> (a < 3)%nat ->
      mat3 (@sccs_rotation NumR Ed Ev i) r a = s ((i + r) mod 3) * mat3 Rq a (pi ((i + r) mod 3)).
Proof. exact sccs_is_R. Qed.

(* ortho_mono_tric_vanish, on the WHOLE function: whichever of the three candidate frames
   elasticity_components1 selects, the reported monoclinic (index 6) and triclinic (index 7)
   percentages of a rotated orthorhombic tensor are exactly zero *)
Theorem C12_ortho_mono_tric_vanish :
  forall (M Ed Ev Rq : arr NumR) (T0 : T4) (mud muv : nat -> R) out,
  let vm := k_upper_tri_to_symmetric_6 M in
  sym6 vm -> ortho4 T0 -> orth (mat3 Rq) ->
  eq4b (t4 (k_voigt_to_elastic_tensor vm)) (rot4 T0 (mat3 Rq)) ->
  distinct3 (fun k => dil4 T0 k k) -> distinct3 (fun k => dev4 T0 k k) ->
  orth (mat3 Ed) -> eigcols (mat3 (fst (k_voigt_decompose vm))) (mat3 Ed) mud ->
  orth (mat3 Ev) -> eigcols (mat3 (snd (k_voigt_decompose vm))) (mat3 Ev) muv ->
  @elasticity_components1 NumR M Ed Ev = Ok out ->
  nth 6 out 0 = 0 /\ nth 7 out 0 = 0.
Proof. exact ec1_mono_tric_vanish. Qed.

(* hex_axis_corotates, PARTIAL: the reported hexagonal axis (indices 8..10) is +- Rq e_k for
   some k, i.e. the image under Rq of a coordinate axis of the orthorhombic frame (+- e_k is what
   the unrotated run, Rq = I, can report).  OPEN: that k is the SAME index in the rotated and
   the unrotated run (needs: the distance to the hexagonal projection of a candidate depends
   only on which axis is third, and a strict minimum among the three). *)
Theorem C12_hex_axis_corotates_partial :
  forall (M Ed Ev Rq : arr NumR) (T0 : T4) (mud muv : nat -> R) out,
  let vm := k_upper_tri_to_symmetric_6 M in
  sym6 vm -> ortho4 T0 -> orth (mat3 Rq) ->
  eq4b (t4 (k_voigt_to_elastic_tensor vm)) (rot4 T0 (mat3 Rq)) ->
  distinct3 (fun k => dil4 T0 k k) -> distinct3 (fun k => dev4 T0 k k) ->
  orth (mat3 Ed) -> eigcols (mat3 (fst (k_voigt_decompose vm))) (mat3 Ed) mud ->
  orth (mat3 Ev) -> eigcols (mat3 (snd (k_voigt_decompose vm))) (mat3 Ev) muv ->
  @elasticity_components1 NumR M Ed Ev = Ok out ->
  exists k sgn, (k < 3)%nat /\ pm1 sgn /\
    forall a, (a < 3)%nat -> nth (8 + a) out 0 = sgn * mat3 Rq a k.
Proof. exact ec1_hex_axis. Qed.

(* non-vacuity *)
Example C12_nonvacuous : sym6 (fun _ : nat => 1) /\ orth (mat3 (@eye3 NumR)) /\
  0 < sumsq 21 (@k_voigt_matrix_to_vector NumR (fun _ => 1)).
Proof. exact C12_nonvacuous_proof. Qed.

(* the tensor-side hypotheses of the frame theorems hold for diag(1,2,3,1,1,1) in the
   identity frame *)
Example C12_frame_nonvacuous :
  let vm := M_ortho_example in let T0 := t4 (k_voigt_to_elastic_tensor vm) in
  sym6 vm /\ ortho4 T0 /\ orth (mat3 (@eye3 NumR)) /\
  eq4b (t4 (k_voigt_to_elastic_tensor vm)) (rot4 T0 (mat3 (@eye3 NumR))) /\
  distinct3 (fun k => dil4 T0 k k) /\ distinct3 (fun k => dev4 T0 k k).
Proof. exact C12_frame_nonvacuous_proof. Qed.
