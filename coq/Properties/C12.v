(* Properties/C12.v -- C12: the elastic symmetry decomposition is correct and frame
   independent.  Only statements; each is closed by `exact` of a lemma of Proofs_decomp.v.
   The clause "for an orthorhombic tensor in a rotated frame the symmetry cartesian
   coordinate system found from the two eigenbases is the rotation (sccs_is_R), hence
   mono = tric = 0 and the hexagonal axis co-rotates" is NOT proved here (open obligation,
   see docs/C12.md); it is carried by the run-time comparison of harness/props/c12.py. *)
From Coq Require Import Reals ZArith List.
From PV Require Import Num NumR Model_voigt Model_decomp Proofs_tensors_alg Proofs_tensors_rot
  Proofs_tensors_maps Proofs_tensors_proj Inst_tensors Proofs_decomp.
From PV.gen Require Import Gen_tensors.
Import ListNotations.
Open Scope R_scope.

(* K and G of the model are full contractions of the 4th-order tensor (Voigt invariants) *)
Theorem C12_KG_are_contractions : forall M : arr NumR, sym6 M ->
  Kof M = trK (t4 (k_voigt_to_elastic_tensor M)) / 9 /\
  Gof M = (trG (t4 (k_voigt_to_elastic_tensor M)) - 3 * Kof M) / 10.
Proof. exact KG_contractions. Qed.

(* the isotropic vector built from K and G is the orthogonal projection of the 21-vector on
   the isotropic plane span(uK, uG): the residual is orthogonal to both basis vectors *)
Theorem C12_KG_isotropic_projection : forall M : arr NumR, sym6 M ->
  let x := k_voigt_matrix_to_vector M in
  let iso := iso_vec (Kof M) (Gof M) in
  dot21 (vsub x iso) uK = 0 /\ dot21 (vsub x iso) uG = 0.
Proof. exact KG_isotropic_projection. Qed.

Theorem C12_iso_vector_is_model : forall K G, veq (@iso_vector NumR K G) (iso_vec K G).
Proof. exact iso_vector_spec. Qed.

(* percent anisotropy = 100 |x - iso| / |x| lies in [0, 100] *)
Theorem C12_aniso_range : forall (x : arr NumR) K G,
  dot21 (vsub x (iso_vec K G)) (iso_vec K G) = 0 -> 0 < sumsq 21 x ->
  0 <= sqrt (sumsq 21 (vsub x (iso_vec K G))) / sqrt (sumsq 21 x) * 100 <= 100.
Proof. exact aniso_range. Qed.

(* frame independence of K, G and of the norm, for every R with R^T R = I *)
Theorem C12_KG_frame_invariant : forall M Q : arr NumR, sym6 M -> orth (mat3 Q) ->
  Kof (rotM M Q) = Kof M /\ Gof (rotM M Q) = Gof M.
Proof. exact KG_frame_invariant. Qed.

Theorem C12_norm_frame_invariant : forall M Q : arr NumR, sym6 M -> orth (mat3 Q) ->
  sumsq 21 (k_voigt_matrix_to_vector (rotM M Q)) = sumsq 21 (k_voigt_matrix_to_vector M).
Proof. exact norm_frame_invariant. Qed.

(* in whatever frame the code selects: tric^2 + mono^2 + ortho^2 + tetr^2 + hex^2 = aniso^2
   (squared norms; the percentages are these times (100/|x|)^2) *)
Theorem C12_squares_add_up : forall (rv : arr NumR) K G,
  dot21 (vsub rv (iso_vec K G)) (iso_vec K G) = 0 ->
  let m := k_mono_project rv in let o := k_ortho_project m in
  let t := k_tetr_project o in let h := hexv t in
  sumsq 21 (vsub rv m) + sumsq 21 (vsub m o) + sumsq 21 (vsub o t) + sumsq 21 (vsub t h)
  + sumsq 21 (vsub h (iso_vec K G)) = sumsq 21 (vsub rv (iso_vec K G)).
Proof. exact squares_add_up. Qed.

Theorem C12_perp_plane_gives_perp_iso : forall (x : arr NumR) K G K' G',
  dot21 (vsub x (iso_vec K G)) uK = 0 -> dot21 (vsub x (iso_vec K G)) uG = 0 ->
  dot21 (vsub x (iso_vec K G)) (iso_vec K' G') = 0.
Proof. exact perp_plane_iso. Qed.

(* orthorhombic vectors (components 9..20 zero) have no monoclinic / triclinic part *)
Theorem C12_ortho_mono_tric_vanish_partial : forall x : arr NumR,
  veq (k_ortho_project x) x -> veq (k_mono_project x) x.
Proof. exact ortho_range_in_mono. Qed.

(* non-vacuity *)
Example C12_nonvacuous : sym6 (fun _ : nat => 1) /\ orth (mat3 (@eye3 NumR)) /\
  0 < sumsq 21 (@k_voigt_matrix_to_vector NumR (fun _ => 1)).
Proof. exact C12_nonvacuous_proof. Qed.
