(* Properties/C12.v -- C12: the elastic symmetry decomposition is correct and frame
   independent.  Only statements; each is closed by `exact` of a lemma of Proofs_decomp.v /
   Proofs_decomp2.v / Proofs_decomp3.v.
   The frame clause for rotated orthorhombic tensors is complete: sccs_is_R, mono = tric = 0
   (Proofs_decomp2.v); the candidate distances depend only on the axis put third, the strict-<
   loop selects the strict minimum, hence the reported hexagonal axis co-rotates and all eight
   reported numbers are the same in both frames; the sum rule on the whole function
   (Proofs_decomp3.v).  See docs/C12.md. *)
From Coq Require Import Reals ZArith List.
From PV Require Import Num NumR Model_voigt Model_decomp Proofs_tensors_alg Proofs_tensors_rot
  Proofs_tensors_maps Proofs_tensors_proj Inst_tensors Proofs_decomp Proofs_decomp2 Proofs_decomp3
  Proofs_decomp4 Proofs_decomp5 Model_decomp_series Proofs_decomp_series
  Inst_decomp_base Inst_decomp_seg0 Inst_decomp_seg1 Inst_decomp_seg2 Inst_decomp Proofs_decomp_gen.
From PV.gen Require Import Gen_tensors Gen_decomp.
Import ListNotations.
Open Scope R_scope.

(* K and G of the model are full contractions of the 4th-order tensor (Voigt invariants) *)
Theorem C12_KG_are_contractions : forall M : arr NumR, sym6 M ->
  Kof M = trK (t4 (k_voigt_to_elastic_tensor M)) / 9 /\
  Gof M = (trG (t4 (k_voigt_to_elastic_tensor M)) - 3 * Kof M) / 10.
Proof. exact KG_contractions. Qed.

(* the isotropic vector built from K and G is the orthogonal projection of the 21-vector on
   the isotropic plane span(uK, uG): the residual is orthogonal to both basis vectors *)
Theorem C12_KG_isotropic_projection : forall M : arr NumR, sym6 M ->
  let x := k_voigt_matrix_to_vector M in
  let iso := iso_vec (Kof M) (Gof M) in
  dot21 (vsub x iso) uK = 0 /\ dot21 (vsub x iso) uG = 0.
Proof. exact KG_isotropic_projection. Qed.

Theorem C12_iso_vector_is_model : forall K G, veq (@iso_vector NumR K G) (iso_vec K G).
Proof. exact iso_vector_spec. Qed.

(* percent anisotropy = 100 |x - iso| / |x| lies in [0, 100] *)
Theorem C12_aniso_range : forall (x : arr NumR) K G,
  dot21 (vsub x (iso_vec K G)) (iso_vec K G) = 0 -> 0 < sumsq 21 x ->
  0 <= sqrt (sumsq 21 (vsub x (iso_vec K G))) / sqrt (sumsq 21 x) * 100 <= 100.
Proof. exact aniso_range. Qed.

(* frame independence of K, G and of the norm, for every R with R^T R = I *)
Theorem C12_KG_frame_invariant : forall M Q : arr NumR, sym6 M -> orth (mat3 Q) ->
  Kof (rotM M Q) = Kof M /\ Gof (rotM M Q) = Gof M.
Proof. exact KG_frame_invariant. Qed.

Theorem C12_norm_frame_invariant : forall M Q : arr NumR, sym6 M -> orth (mat3 Q) ->
  sumsq 21 (k_voigt_matrix_to_vector (rotM M Q)) = sumsq 21 (k_voigt_matrix_to_vector M).
Proof. exact norm_frame_invariant. Qed.

(* in whatever frame the code selects: tric^2 + mono^2 + ortho^2 + tetr^2 + hex^2 = aniso^2
   (squared norms; the percentages are these times (100/|x|)^2) *)
Theorem C12_squares_add_up : forall (rv : arr NumR) K G,
  dot21 (vsub rv (iso_vec K G)) (iso_vec K G) = 0 ->
  let m := k_mono_project rv in let o := k_ortho_project m in
  let t := k_tetr_project o in let h := hexv t in
  sumsq 21 (vsub rv m) + sumsq 21 (vsub m o) + sumsq 21 (vsub o t) + sumsq 21 (vsub t h)
  + sumsq 21 (vsub h (iso_vec K G)) = sumsq 21 (vsub rv (iso_vec K G)).
Proof. exact squares_add_up. Qed.

Theorem C12_perp_plane_gives_perp_iso : forall (x : arr NumR) K G K' G',
  dot21 (vsub x (iso_vec K G)) uK = 0 -> dot21 (vsub x (iso_vec K G)) uG = 0 ->
  dot21 (vsub x (iso_vec K G)) (iso_vec K' G') = 0.
Proof. exact perp_plane_iso. Qed.

(* orthorhombic vectors (components 9..20 zero) have no monoclinic / triclinic part *)
Theorem C12_ortho_range_in_mono : forall x : arr NumR,
  veq (k_ortho_project x) x -> veq (k_mono_project x) x.
Proof. exact ortho_range_in_mono. Qed.

(* contractions_rotate: dilat (rotate T R) = R . dilat T . R^T and the same for deviat, on the
   generated voigt_decompose, for every R with R^T R = I *)
Theorem C12_contractions_rotate : forall M Q : arr NumR, sym6 M -> orth (mat3 Q) ->
  eq2b (mat3 (fst (k_voigt_decompose (rotM M Q))))
       (mm (mm (mat3 Q) (mat3 (fst (k_voigt_decompose M)))) (tr3 (mat3 Q))) /\
  eq2b (mat3 (snd (k_voigt_decompose (rotM M Q))))
       (mm (mm (mat3 Q) (mat3 (snd (k_voigt_decompose M)))) (tr3 (mat3 Q))).
Proof. exact contractions_rotate. Qed.

(* eigvec_unique: S symmetric, E any orthonormal eigenbasis (column j for lam j), the three
   lam distinct: every unit eigenvector v (S v = mu v) is +- a column of E, mu its eigenvalue *)
Theorem C12_eigvec_unique : forall (S E : M3) (lam : nat -> R) (v : V3) (mu : R),
  sym3 S -> orth E -> eigcols S E lam ->
  (forall i, (i < 3)%nat -> mv S v i = mu * v i) ->
  distinct3 lam -> dotv v v = 1 ->
  exists j s, (j < 3)%nat /\ (s = 1 \/ s = -1) /\ mu = lam j /\
              forall i, (i < 3)%nat -> v i = s * E i j.
Proof. exact eigvec_unique. Qed.

(* sccs_is_R.  vm = T0 seen in the frame Rq (vte vm = rotate T0 Rq), T0 orthorhombic with
   three distinct principal values of BOTH contractions; Ed, Ev = what the two eigh oracles may
   return (orthonormal columns, each an eigenvector; any order, any signs).  Then the columns
   of Ed are a signed permutation (pi, s) of the columns of Rq, and row r of the rotation the
   model hands to `rotate` for candidate i is  s * (column pi((i+r) mod 3) of Rq)  -- the
   nearest-eigenvector pairing with its 10-degree bound and signed-index trick included. *)
Theorem C12_sccs_is_R : forall (vm Ed Ev Rq : arr NumR) (T0 : T4) (mud muv : nat -> R),
  sym6 vm -> ortho4 T0 -> orth (mat3 Rq) ->
  eq4b (t4 (k_voigt_to_elastic_tensor vm)) (rot4 T0 (mat3 Rq)) ->
  distinct3 (fun k => dil4 T0 k k) -> distinct3 (fun k => dev4 T0 k k) ->
  orth (mat3 Ed) -> eigcols (mat3 (fst (k_voigt_decompose vm))) (mat3 Ed) mud ->
  orth (mat3 Ev) -> eigcols (mat3 (snd (k_voigt_decompose vm))) (mat3 Ev) muv ->
  exists pi s, signed_cols Ed Rq pi s /\
    forall i r a, (r < 3)%nat -> (a < 3)%nat ->
      mat3 (@sccs_rotation NumR Ed Ev i) r a = s ((i + r) mod 3) * mat3 Rq a (pi ((i + r) mod 3)).
Proof. exact sccs_is_R. Qed.

(* ortho_mono_tric_vanish, on the WHOLE function: whichever of the three candidate frames
   elasticity_components1 selects, the reported monoclinic (index 6) and triclinic (index 7)
   percentages of a rotated orthorhombic tensor are exactly zero *)
Theorem C12_ortho_mono_tric_vanish :
  forall (M Ed Ev Rq : arr NumR) (T0 : T4) (mud muv : nat -> R) out,
  let vm := k_upper_tri_to_symmetric_6 M in
  sym6 vm -> ortho4 T0 -> orth (mat3 Rq) ->
  eq4b (t4 (k_voigt_to_elastic_tensor vm)) (rot4 T0 (mat3 Rq)) ->
  distinct3 (fun k => dil4 T0 k k) -> distinct3 (fun k => dev4 T0 k k) ->
  orth (mat3 Ed) -> eigcols (mat3 (fst (k_voigt_decompose vm))) (mat3 Ed) mud ->
  orth (mat3 Ev) -> eigcols (mat3 (snd (k_voigt_decompose vm))) (mat3 Ev) muv ->
  @elasticity_components1 NumR M Ed Ev = Ok out ->
  nth 6 out 0 = 0 /\ nth 7 out 0 = 0.
Proof. exact ec1_mono_tric_vanish. Qed.

(* whichever candidate is selected (ties allowed): the reported hexagonal axis (indices 8..10)
   is +- Rq e_k for some k, the image under Rq of a coordinate axis of the orthorhombic frame *)
Theorem C12_hex_axis_is_frame_axis :
  forall (M Ed Ev Rq : arr NumR) (T0 : T4) (mud muv : nat -> R) out,
  let vm := k_upper_tri_to_symmetric_6 M in
  sym6 vm -> ortho4 T0 -> orth (mat3 Rq) ->
  eq4b (t4 (k_voigt_to_elastic_tensor vm)) (rot4 T0 (mat3 Rq)) ->
  distinct3 (fun k => dil4 T0 k k) -> distinct3 (fun k => dev4 T0 k k) ->
  orth (mat3 Ed) -> eigcols (mat3 (fst (k_voigt_decompose vm))) (mat3 Ed) mud ->
  orth (mat3 Ev) -> eigcols (mat3 (snd (k_voigt_decompose vm))) (mat3 Ev) muv ->
  @elasticity_components1 NumR M Ed Ev = Ok out ->
  exists k sgn, (k < 3)%nat /\ pm1 sgn /\
    forall a, (a < 3)%nat -> nth (8 + a) out 0 = sgn * mat3 Rq a k.
Proof. exact ec1_hex_axis. Qed.

(* candidate_distance.  hex_dist T0 k = | v - hex (tetr (ortho (mono v))) |  for the 21-vector v
   of T0 with its axes listed as (k+1, k+2, k), i.e. axis k put third.  In ANY admissible run on
   the rotated tensor, the six norms frame_parts computes for candidate i (distance to the
   hexagonal projection, triclinic .. hexagonal parts) are those of the canonical candidate of
   the axis k = pi ((i+2) mod 3) that candidate i puts third -- the signs the eigh oracles chose
   and the order of the first two axes do not matter -- and the axis it would report is +- Rq e_k *)
Theorem C12_candidate_distance :
  forall (vm Ed Ev Rq : arr NumR) (T0 : T4) (mud muv : nat -> R),
  sym6 vm -> ortho4 T0 -> orth (mat3 Rq) ->
  eq4b (t4 (k_voigt_to_elastic_tensor vm)) (rot4 T0 (mat3 Rq)) ->
  distinct3 (fun k => dil4 T0 k k) -> distinct3 (fun k => dev4 T0 k k) ->
  orth (mat3 Ed) -> eigcols (mat3 (fst (k_voigt_decompose vm))) (mat3 Ed) mud ->
  orth (mat3 Ev) -> eigcols (mat3 (snd (k_voigt_decompose vm))) (mat3 Ev) muv ->
  exists pi s, signed_cols Ed Rq pi s /\
    forall i K G delta tric mono ortho tetr hex,
      @frame_parts NumR vm (@iso_vector NumR K G) (@sccs_rotation NumR Ed Ev i)
        = Ok (delta, (tric, mono, ortho, tetr, hex)) ->
      delta = hex_dist T0 (pi ((i + 2) mod 3)) /\
      [delta; tric; mono; ortho; tetr; hex] = cand3 T0 (@iso_vector NumR K G) (pi ((i + 2) mod 3)) /\
      forall a, (a < 3)%nat ->
        @sccs_rotation NumR Ed Ev i (6 + a)%nat = s ((i + 2) mod 3) * mat3 Rq a (pi ((i + 2) mod 3)).
Proof. exact candidate_distance. Qed.

(* hex_axis_corotates, FULL.  Two runs of the whole function: on the orthorhombic tensor in its
   own frame (M0, any admissible eigh outputs Ed0 Ev0, result out0) and on the same tensor seen
   in the frame Rq (M, any admissible Ed Ev, result out).  The property's own exclusion of ties
   is the hypothesis that the three candidate distances of the UNROTATED tensor have a strict
   minimum (strict_min3 D k := k < 3 /\ forall k' < 3, k' <> k -> D k < D k').  Then the axis
   reported for the rotated tensor is  +- Rq . (axis reported for the unrotated tensor). *)
Theorem C12_hex_axis_corotates :
  forall (M0 Ed0 Ev0 M Ed Ev Rq : arr NumR) (mud0 muv0 mud muv : nat -> R) (out0 out : list R),
  let vm0 := k_upper_tri_to_symmetric_6 M0 in
  let vm := k_upper_tri_to_symmetric_6 M in
  let T0 := t4 (k_voigt_to_elastic_tensor vm0) in
  sym6 vm0 -> ortho4 T0 ->
  distinct3 (fun k => dil4 T0 k k) -> distinct3 (fun k => dev4 T0 k k) ->
  (exists kst, strict_min3 (hex_dist T0) kst) ->
  orth (mat3 Ed0) -> eigcols (mat3 (fst (k_voigt_decompose vm0))) (mat3 Ed0) mud0 ->
  orth (mat3 Ev0) -> eigcols (mat3 (snd (k_voigt_decompose vm0))) (mat3 Ev0) muv0 ->
  @elasticity_components1 NumR M0 Ed0 Ev0 = Ok out0 ->
  sym6 vm -> orth (mat3 Rq) -> eq4b (t4 (k_voigt_to_elastic_tensor vm)) (rot4 T0 (mat3 Rq)) ->
  orth (mat3 Ed) -> eigcols (mat3 (fst (k_voigt_decompose vm))) (mat3 Ed) mud ->
  orth (mat3 Ev) -> eigcols (mat3 (snd (k_voigt_decompose vm))) (mat3 Ev) muv ->
  @elasticity_components1 NumR M Ed Ev = Ok out ->
  exists sgn, pm1 sgn /\
    forall a, (a < 3)%nat ->
      nth (8 + a) out 0 = sgn * sum3 (fun b => mat3 Rq a b * nth (8 + b) out0 0).
Proof. exact ec1_hex_axis_corotates. Qed.

(* frame independence of ALL reported numbers for orthorhombic tensors: under the same
   hypotheses K, G, percent anisotropy and the five class percentages (outputs 0..7) of the
   rotated run equal those of the unrotated run *)
Theorem C12_ortho_outputs_frame_invariant :
  forall (M0 Ed0 Ev0 M Ed Ev Rq : arr NumR) (mud0 muv0 mud muv : nat -> R) (out0 out : list R),
  let vm0 := k_upper_tri_to_symmetric_6 M0 in
  let vm := k_upper_tri_to_symmetric_6 M in
  let T0 := t4 (k_voigt_to_elastic_tensor vm0) in
  sym6 vm0 -> ortho4 T0 ->
  distinct3 (fun k => dil4 T0 k k) -> distinct3 (fun k => dev4 T0 k k) ->
  (exists kst, strict_min3 (hex_dist T0) kst) ->
  orth (mat3 Ed0) -> eigcols (mat3 (fst (k_voigt_decompose vm0))) (mat3 Ed0) mud0 ->
  orth (mat3 Ev0) -> eigcols (mat3 (snd (k_voigt_decompose vm0))) (mat3 Ev0) muv0 ->
  @elasticity_components1 NumR M0 Ed0 Ev0 = Ok out0 ->
  sym6 vm -> orth (mat3 Rq) -> eq4b (t4 (k_voigt_to_elastic_tensor vm)) (rot4 T0 (mat3 Rq)) ->
  orth (mat3 Ed) -> eigcols (mat3 (fst (k_voigt_decompose vm))) (mat3 Ed) mud ->
  orth (mat3 Ev) -> eigcols (mat3 (snd (k_voigt_decompose vm))) (mat3 Ev) muv ->
  @elasticity_components1 NumR M Ed Ev = Ok out ->
  forall n, (n < 8)%nat -> nth n out 0 = nth n out0 0.
Proof. exact ec1_outputs_frame_invariant. Qed.

(* the sum rule on the WHOLE function: hex^2 + tetr^2 + ortho^2 + mono^2 + tric^2 = aniso^2
   (percentages, outputs 3..7 and 2) for every symmetric input whose three candidate rotations
   are orthogonal ... *)
Theorem C12_sum_rule_orthogonal_sccs :
  forall (M Ed Ev : arr NumR) out,
  let vm := k_upper_tri_to_symmetric_6 M in
  sym6 vm -> (forall i, (i < 3)%nat -> orth (mat3 (@sccs_rotation NumR Ed Ev i))) ->
  @elasticity_components1 NumR M Ed Ev = Ok out ->
  nth 3 out 0 * nth 3 out 0 + nth 4 out 0 * nth 4 out 0 + nth 5 out 0 * nth 5 out 0
  + nth 6 out 0 * nth 6 out 0 + nth 7 out 0 * nth 7 out 0
  = nth 2 out 0 * nth 2 out 0.
Proof. exact ec1_sum_rule_orth. Qed.

(* ... in particular for every rotated orthorhombic tensor, in any admissible run (ties allowed) *)
Theorem C12_ortho_sum_rule :
  forall (M Ed Ev Rq : arr NumR) (T0 : T4) (mud muv : nat -> R) out,
  let vm := k_upper_tri_to_symmetric_6 M in
  sym6 vm -> ortho4 T0 -> orth (mat3 Rq) ->
  eq4b (t4 (k_voigt_to_elastic_tensor vm)) (rot4 T0 (mat3 Rq)) ->
  distinct3 (fun k => dil4 T0 k k) -> distinct3 (fun k => dev4 T0 k k) ->
  orth (mat3 Ed) -> eigcols (mat3 (fst (k_voigt_decompose vm))) (mat3 Ed) mud ->
  orth (mat3 Ev) -> eigcols (mat3 (snd (k_voigt_decompose vm))) (mat3 Ev) muv ->
  @elasticity_components1 NumR M Ed Ev = Ok out ->
  nth 3 out 0 * nth 3 out 0 + nth 4 out 0 * nth 4 out 0 + nth 5 out 0 * nth 5 out 0
  + nth 6 out 0 * nth 6 out 0 + nth 7 out 0 * nth 7 out 0
  = nth 2 out 0 * nth 2 out 0.
Proof. exact ec1_ortho_sum_rule. Qed.

(* pairwise different candidate distances are enough for the strict-minimum hypothesis *)
Theorem C12_distinct_gives_strict_min : forall D : nat -> R,
  D 0%nat <> D 1%nat -> D 0%nat <> D 2%nat -> D 1%nat <> D 2%nat -> exists k, strict_min3 D k.
Proof. exact distinct_strict_min. Qed.

(* non-vacuity *)
Example C12_nonvacuous : sym6 (fun _ : nat => 1) /\ orth (mat3 (@eye3 NumR)) /\
  0 < sumsq 21 (@k_voigt_matrix_to_vector NumR (fun _ => 1)).
Proof. exact C12_nonvacuous_proof. Qed.

(* the tensor-side hypotheses of the frame theorems hold for diag(1,2,3,1,1,1) in the
   identity frame *)
Example C12_frame_nonvacuous :
  let vm := M_ortho_example in let T0 := t4 (k_voigt_to_elastic_tensor vm) in
  sym6 vm /\ ortho4 T0 /\ orth (mat3 (@eye3 NumR)) /\
  eq4b (t4 (k_voigt_to_elastic_tensor vm)) (rot4 T0 (mat3 (@eye3 NumR))) /\
  distinct3 (fun k => dil4 T0 k k) /\ distinct3 (fun k => dev4 T0 k k).
Proof. exact C12_frame_nonvacuous_proof. Qed.

(* ALL hypotheses of C12_hex_axis_corotates / C12_ortho_outputs_frame_invariant are jointly
   satisfiable: diag(1,2,4,1,1,1) (squared candidate distances 5/2, 37/8, 5/8: strict minimum at
   axis 2) with both eigh oracles returning the identity, in the identity frame (take M = M0,
   Rq = Ed = Ev = I, out = out0 for the rotated run) -- the function returns Ok *)
Example C12_corotation_nonvacuous :
  let M0 := M_ortho_example2 in
  let vm0 := k_upper_tri_to_symmetric_6 M0 in
  let T0 := t4 (k_voigt_to_elastic_tensor vm0) in
  let I3 := @eye3 NumR in
  exists mud muv out,
    sym6 vm0 /\ ortho4 T0 /\
    distinct3 (fun k => dil4 T0 k k) /\ distinct3 (fun k => dev4 T0 k k) /\
    (exists kst, strict_min3 (hex_dist T0) kst) /\
    orth (mat3 I3) /\ eq4b (t4 (k_voigt_to_elastic_tensor vm0)) (rot4 T0 (mat3 I3)) /\
    eigcols (mat3 (fst (k_voigt_decompose vm0))) (mat3 I3) mud /\
    eigcols (mat3 (snd (k_voigt_decompose vm0))) (mat3 I3) muv /\
    @elasticity_components1 NumR M0 I3 I3 = Ok out.
Proof. exact C12_run_nonvacuous_proof. Qed.

(* ---------------------------------------------------------------------- *)
(* GENERAL tensors (no symmetry assumed): the frame clause at full strength *)
(* ---------------------------------------------------------------------- *)
(* M0 and M are the same tensor in two frames related by Rq (R^T R = I); both contractions have simple spectra
   (distinct3 mud, distinct3 muv: the property's own restriction); the eigh oracle returns, in both frames,
   orthonormal columns with column j an eigenvector for the j-th eigenvalue (eigh lists the eigenvalues in
   ascending order and they are the same in both frames).  Then, whenever the run in the original frame reports
   numbers at all, the run in the new frame reports the SAME bulk modulus, shear modulus, percent anisotropy and
   five class percentages, and its hexagonal axis is +- Rq . (the axis of the original run).  No tie exclusion is
   needed: both runs compare the same real numbers in the same order (Proofs_decomp4.v / Proofs_decomp5.v: the
   eigenvectors co-rotate up to sign, the pairing is equivariant, the candidate frames differ by reversals of axes,
   which the four projectors commute with). *)
Theorem C12_general_outputs_frame_independent :
  forall (M0 Ed0 Ev0 M Ed Ev Rq : arr NumR) (mud muv : nat -> R),
  let vm0 := k_upper_tri_to_symmetric_6 M0 in
  let vm := k_upper_tri_to_symmetric_6 M in
  sym6 vm0 -> sym6 vm -> orth (mat3 Rq) ->
  eq4b (t4 (k_voigt_to_elastic_tensor vm)) (rot4 (t4 (k_voigt_to_elastic_tensor vm0)) (mat3 Rq)) ->
  distinct3 mud -> distinct3 muv ->
  orth (mat3 Ed0) -> eigcols (mat3 (fst (k_voigt_decompose vm0))) (mat3 Ed0) mud ->
  orth (mat3 Ev0) -> eigcols (mat3 (snd (k_voigt_decompose vm0))) (mat3 Ev0) muv ->
  orth (mat3 Ed) -> eigcols (mat3 (fst (k_voigt_decompose vm))) (mat3 Ed) mud ->
  orth (mat3 Ev) -> eigcols (mat3 (snd (k_voigt_decompose vm))) (mat3 Ev) muv ->
  forall out0 : list R,
  @elasticity_components1 NumR M0 Ed0 Ev0 = Ok out0 ->
  exists out, @elasticity_components1 NumR M Ed Ev = Ok out /\
    (forall n, (n < 8)%nat -> nth n out 0 = nth n out0 0) /\
    exists sgn, pm1 sgn /\
      forall a, (a < 3)%nat -> nth (8 + a) out 0 = sgn * sum3 (fun b => mat3 Rq a b * nth (8 + b) out0 0).
Proof. exact ec1_general_frame_independent. Qed.

(* the two ingredients as statements of their own *)
(* (A) + (B): under the same oracle hypotheses column i of the SCCS built in the new frame is +- Rq . (column i of
   the SCCS built in the original frame) -- the nearest-eigenvector pairing (degrees, bound 10, sign(dot) * j,
   averaging, normalisation) is equivariant *)
Theorem C12_pairing_equivariant :
  forall (Q : M3) (Ed0 Ev0 Ed Ev : arr NumR) (s t : nat -> R),
  orth Q -> orth (mat3 Ed0) -> orth (mat3 Ev0) -> corot Q Ed0 Ed s -> corot Q Ev0 Ev t ->
  forall i, (i < 3)%nat -> forall r, (r < 3)%nat ->
    @sccs_col NumR Ed Ev i r = s i * rotv Q (@sccs_col NumR Ed0 Ev0 i) r.
Proof. exact sccs_col_corot. Qed.

(* (D): reversing axes (e_i = +-1) multiplies the 21 components by signs, and the six norms frame_parts computes
   (distance to the hexagonal projection and the five class parts) do not change *)
Theorem C12_parts_invariant_under_axis_reversal :
  forall (e : nat -> R) (x x0 : arr NumR) (K G : R), pm3 e -> veq x (flip21 e x0) ->
  cand x (@iso_vector NumR K G) = cand x0 (@iso_vector NumR K G).
Proof. exact cand_flip. Qed.

Example C12_general_nonvacuous :
  let M0 := M_ortho_example2 in
  let vm0 := k_upper_tri_to_symmetric_6 M0 in
  let I3 := @eye3 NumR in
  exists mud muv out0,
    sym6 vm0 /\ orth (mat3 I3) /\
    eq4b (t4 (k_voigt_to_elastic_tensor vm0)) (rot4 (t4 (k_voigt_to_elastic_tensor vm0)) (mat3 I3)) /\
    distinct3 mud /\ distinct3 muv /\
    eigcols (mat3 (fst (k_voigt_decompose vm0))) (mat3 I3) mud /\
    eigcols (mat3 (snd (k_voigt_decompose vm0))) (mat3 I3) muv /\
    @elasticity_components1 NumR M0 I3 I3 = Ok out0.
Proof. exact general_nonvacuous_proof. Qed.

(* ---------------------------------------------------------------------- *)
(* The public function takes a SERIES of matrices.  Model_decomp_series is  *)
(* the loop as written (table of rows allocated up front, iteration m       *)
(* writes row m, an exception aborts the call); the statements below hold   *)
(* for every Num instance F (binary64 of the extracted model as well as R)  *)
(* and every series: any length, any entries, any order.                    *)
(* ---------------------------------------------------------------------- *)

(* the loop is the map of the single-matrix function over the series (or raises what the
   first raising entry raises) *)
Theorem C12_series_is_map_of_single : forall (F : Num) (Ms : list (@ecin F)),
  elasticity_components_series Ms
  = match first_raise Ms with Some e => Err e | None => Ok (map row1 Ms) end.
Proof. exact @series_is_spec. Qed.

Theorem C12_series_length : forall (F : Num) (Ms : list (@ecin F)) tab,
  elasticity_components_series Ms = Ok tab -> length tab = length Ms.
Proof. exact @series_length. Qed.

(* row k = the row of matrix k decomposed on its own *)
Theorem C12_series_entry_is_single : forall (F : Num) (Ms : list (@ecin F)) tab k d,
  elasticity_components_series Ms = Ok tab -> (k < length Ms)%nat ->
  nth k tab None = row1 (nth k Ms d).
Proof. exact @series_entry. Qed.

(* row k depends on entry k only: two series of any lengths, with any other entries in any
   order, report the same row wherever they hold the same entry *)
Theorem C12_series_entry_depends_on_own_matrix_only :
  forall (F : Num) (Ms Ms' : list (@ecin F)) tab tab' k k' d,
  elasticity_components_series Ms = Ok tab -> elasticity_components_series Ms' = Ok tab' ->
  (k < length Ms)%nat -> (k' < length Ms')%nat -> nth k Ms d = nth k' Ms' d ->
  nth k tab None = nth k' tab' None.
Proof. exact @series_entry_local. Qed.

(* a series of one is the single-matrix function *)
Theorem C12_series_of_one : forall (F : Num) (x : @ecin F),
  elasticity_components_series [x]
  = match raises1 x with Some e => Err e | None => Ok [row1 x] end.
Proof. exact @series_singleton. Qed.

(* concatenation of series = concatenation of results *)
Theorem C12_series_concat : forall (F : Num) (A B : list (@ecin F)) ta tb,
  elasticity_components_series A = Ok ta -> elasticity_components_series B = Ok tb ->
  elasticity_components_series (A ++ B) = Ok (ta ++ tb).
Proof. exact @series_app. Qed.

(* any selection p of the entries -- a permutation, repeated entries, a sub-series -- gives
   the same selection of the rows *)
Theorem C12_series_reorder_repeat_select :
  forall (F : Num) (Ms : list (@ecin F)) tab (p : list nat) d,
  elasticity_components_series Ms = Ok tab -> (forall i, In i p -> (i < length Ms)%nat) ->
  elasticity_components_series (map (fun i => nth i Ms d) p)
  = Ok (map (fun i => nth i tab None) p).
Proof. exact @series_select. Qed.

(* the call raises exactly when some entry raises, and then what the first raising entry
   raises *)
Theorem C12_series_raises_first : forall (F : Num) (Ms : list (@ecin F)) e,
  elasticity_components_series Ms = Err e <->
  exists A x B, Ms = A ++ x :: B /\ (forall y, In y A -> raises1 y = None) /\ raises1 x = Some e.
Proof. exact @series_raises_first. Qed.

(* every initialised row is a result of elasticity_components1 on its own entry, so every
   single-matrix theorem above holds on every row of every series ... *)
Theorem C12_series_row_is_single_result :
  forall (F : Num) (Ms : list (@ecin F)) tab k M Ed Ev out,
  elasticity_components_series Ms = Ok tab -> nth_error Ms k = Some (M, Ed, Ev) ->
  nth k tab None = Some out -> elasticity_components1 M Ed Ev = Ok out.
Proof. exact @series_row_ok. Qed.

(* ... in particular the sum rule, whatever else is in the series *)
Theorem C12_series_sum_rule :
  forall (Ms : list (@ecin NumR)) tab k (M Ed Ev : arr NumR) out,
  elasticity_components_series Ms = Ok tab -> nth_error Ms k = Some (M, Ed, Ev) ->
  nth k tab None = Some out ->
  let vm := k_upper_tri_to_symmetric_6 M in
  sym6 vm -> (forall i, (i < 3)%nat -> orth (mat3 (@sccs_rotation NumR Ed Ev i))) ->
  nth 3 out 0 * nth 3 out 0 + nth 4 out 0 * nth 4 out 0 + nth 5 out 0 * nth 5 out 0
  + nth 6 out 0 * nth 6 out 0 + nth 7 out 0 * nth 7 out 0
  = nth 2 out 0 * nth 2 out 0.
Proof. exact series_sum_rule_orth. Qed.

(* ... and frame independence across series: the rotated tensor as entry k of one series, the
   unrotated tensor as entry k0 of another, any companions: outputs 0..7 agree *)
Theorem C12_series_outputs_frame_invariant :
  forall (Ms0 Ms : list (@ecin NumR)) tab0 tab k0 k
         (M0 Ed0 Ev0 M Ed Ev Rq : arr NumR) (mud0 muv0 mud muv : nat -> R) (out0 out : list R),
  elasticity_components_series Ms0 = Ok tab0 -> nth_error Ms0 k0 = Some (M0, Ed0, Ev0) ->
  nth k0 tab0 None = Some out0 ->
  elasticity_components_series Ms = Ok tab -> nth_error Ms k = Some (M, Ed, Ev) ->
  nth k tab None = Some out ->
  let vm0 := k_upper_tri_to_symmetric_6 M0 in
  let vm := k_upper_tri_to_symmetric_6 M in
  let T0 := t4 (k_voigt_to_elastic_tensor vm0) in
  sym6 vm0 -> ortho4 T0 ->
  distinct3 (fun k => dil4 T0 k k) -> distinct3 (fun k => dev4 T0 k k) ->
  (exists kst, strict_min3 (hex_dist T0) kst) ->
  orth (mat3 Ed0) -> eigcols (mat3 (fst (k_voigt_decompose vm0))) (mat3 Ed0) mud0 ->
  orth (mat3 Ev0) -> eigcols (mat3 (snd (k_voigt_decompose vm0))) (mat3 Ev0) muv0 ->
  sym6 vm -> orth (mat3 Rq) -> eq4b (t4 (k_voigt_to_elastic_tensor vm)) (rot4 T0 (mat3 Rq)) ->
  orth (mat3 Ed) -> eigcols (mat3 (fst (k_voigt_decompose vm))) (mat3 Ed) mud ->
  orth (mat3 Ev) -> eigcols (mat3 (snd (k_voigt_decompose vm))) (mat3 Ev) muv ->
  forall n, (n < 8)%nat -> nth n out 0 = nth n out0 0.
Proof. exact series_outputs_frame_invariant. Qed.

(* non-vacuity: a series of two entries (diag(1,2,4,1,1,1), identity eigh outputs) does not
   raise and returns two initialised rows *)
Example C12_series_nonvacuous :
  let x : @ecin NumR := (M_ortho_example2, @eye3 NumR, @eye3 NumR) in
  exists out, elasticity_components_series [x; x] = Ok [Some out; Some out] /\
              raises1 x = None.
Proof. exact series_nonvacuous_proof. Qed.

(* ---------------------------------------------------------------------- *)
(* Tie T: the statements below are about coq/gen/Gen_decomp.v, which the    *)
(* translator regenerates from pydrex.diagnostics.elasticity_components and *)
(* smallest_angle on every run (translator/specs_decomp.py).  LAPACK's eigh *)
(* is a FUNCTION PARAMETER `eigh : arr -> arr * arr` of the generated       *)
(* definitions: which matrix it is applied to, and which part of its result *)
(* is used, is part of the generated term and therefore of these theorems.  *)
(* ---------------------------------------------------------------------- *)

(* the numba kernel smallest_angle, every path (ZeroDivisionError for a zero vector, clip, degrees, fold at 90) *)
Theorem C12_generated_smallest_angle_is_model : forall v a : arr NumR,
  @k_ec_smallest_angle NumR v a
  = if @angle_raises1 NumR v a then Err DivZero else Ok (@smallest_angle NumR v a).
Proof. exact smallest_angle_inst. Qed.

(* the three iterations of the eigenvector-pairing loop, 64 control paths each (`angle < bound` in degrees with
   initial bound 10, `dot != 0`, np.sign, the signed index, column int(abs(index)), averaging, normalisation) *)
Theorem C12_generated_pairing_is_model : forall Ed Ev : arr NumR,
  @k_ec_sccs_col_0 NumR Ed Ev = (if @sccs_raises NumR Ed Ev 0 then Err DivZero else Ok (@sccs_col NumR Ed Ev 0)) /\
  @k_ec_sccs_col_1 NumR Ed Ev = (if @sccs_raises NumR Ed Ev 1 then Err DivZero else Ok (@sccs_col NumR Ed Ev 1)) /\
  @k_ec_sccs_col_2 NumR Ed Ev = (if @sccs_raises NumR Ed Ev 2 then Err DivZero else Ok (@sccs_col NumR Ed Ev 2)).
Proof. exact pairing_inst. Qed.

(* one pass of the loop over the series, for EVERY matrix and EVERY oracle (no hypothesis): the generated row is
   the hand-written single-matrix model applied to the eigenvector matrices eigh returns for the dilatational and
   the deviatoric contraction of upper_tri_to_symmetric(M) -- flag 1 and the eleven numbers, or flag 0 and zeros
   when no candidate frame beats the initial distance (row left as np.empty allocated it), or the exception *)
Theorem C12_generated_row_is_model : forall (eigh : arr NumR -> arr NumR * arr NumR) (M : arr NumR),
  @k_ec_row NumR eigh M
  = let '(d, v) := @k_voigt_decompose NumR (@k_upper_tri_to_symmetric_6 NumR M) in
    match @elasticity_components1_chk NumR M (snd (eigh d)) (snd (eigh v)) with
    | Ok l => Ok (mk_arr 0 [1], mk_arr 0 l)
    | Err NonFinite => Ok (mk_arr 0 [0], mk_arr 0 [0; 0; 0; 0; 0; 0; 0; 0; 0; 0; 0])
    | Err e => Err e
    end.
Proof. exact ec_row_inst_explicit. Qed.

(* the public function on a series of one and of two matrices IS the series model (hence the map of the
   single-matrix model, C12_series_is_map_of_single) on the entries (M, eigh(d)[1], eigh(v)[1]) *)
Theorem C12_generated_series_is_model :
  forall (eigh : arr NumR -> arr NumR * arr NumR) (M0 M1 : arr NumR),
  entry_ok (entry_of eigh M0) ->
  @k_elasticity_components_n1 NumR eigh M0 = enc_series (@elasticity_components_series NumR [entry_of eigh M0]) /\
  (entry_ok (entry_of eigh M1) ->
   @k_elasticity_components_n2 NumR eigh M0 M1
   = enc_series (@elasticity_components_series NumR [entry_of eigh M0; entry_of eigh M1])).
Proof. exact ec_series_inst. Qed.

(* unconditionally: a batch of two is the two rows side by side, an exception for either matrix aborts the call *)
Theorem C12_generated_batch_is_rows : forall (eigh : arr NumR -> arr NumR * arr NumR) (M0 M1 : arr NumR),
  @k_elasticity_components_n2 NumR eigh M0 M1 =
  match @k_ec_row NumR eigh M0 with
  | Err e => Err e
  | Ok (f0, r0) =>
      match @k_ec_row NumR eigh M1 with
      | Err e => Err e
      | Ok (f1, r1) => Ok (mk_arr 0 [f0 0%nat; f1 0%nat], mk_arr 0 (map r0 (seq 0 11) ++ map r1 (seq 0 11)))
      end
  end.
Proof. exact gen_batch_is_rows_proof. Qed.

(* the frame clauses of C12 on the GENERATED row: the same tensor presented in its own (orthorhombic) frame, M0,
   and in the frame Rq, M; the oracle is only assumed to return orthonormal eigenvector columns for the four
   matrices the generated code hands to it; both rows initialised (flag 1) *)
Theorem C12_generated_outputs_frame_invariant :
  forall (eigh : arr NumR -> arr NumR * arr NumR) (M0 M Rq : arr NumR) (mud0 muv0 mud muv : nat -> R)
         (f0 r0 f r : arr NumR),
  let vm0 := @k_upper_tri_to_symmetric_6 NumR M0 in
  let vm := @k_upper_tri_to_symmetric_6 NumR M in
  let T0 := t4 (@k_voigt_to_elastic_tensor NumR vm0) in
  let Ed0 := snd (eigh (fst (@k_voigt_decompose NumR vm0))) in
  let Ev0 := snd (eigh (snd (@k_voigt_decompose NumR vm0))) in
  let Ed := snd (eigh (fst (@k_voigt_decompose NumR vm))) in
  let Ev := snd (eigh (snd (@k_voigt_decompose NumR vm))) in
  sym6 vm0 -> ortho4 T0 ->
  distinct3 (fun k => dil4 T0 k k) -> distinct3 (fun k => dev4 T0 k k) ->
  orth (mat3 Ed0) -> eigcols (mat3 (fst (@k_voigt_decompose NumR vm0))) (mat3 Ed0) mud0 ->
  orth (mat3 Ev0) -> eigcols (mat3 (snd (@k_voigt_decompose NumR vm0))) (mat3 Ev0) muv0 ->
  @k_ec_row NumR eigh M0 = Ok (f0, r0) -> f0 0%nat = 1 ->
  sym6 vm -> orth (mat3 Rq) -> eq4b (t4 (@k_voigt_to_elastic_tensor NumR vm)) (rot4 T0 (mat3 Rq)) ->
  orth (mat3 Ed) -> eigcols (mat3 (fst (@k_voigt_decompose NumR vm))) (mat3 Ed) mud ->
  orth (mat3 Ev) -> eigcols (mat3 (snd (@k_voigt_decompose NumR vm))) (mat3 Ev) muv ->
  @k_ec_row NumR eigh M = Ok (f, r) -> f 0%nat = 1 ->
  (exists kst, strict_min3 (hex_dist T0) kst) ->
  forall n, (n < 8)%nat -> r n = r0 n.
Proof. exact gen_outputs_frame_invariant_proof. Qed.

Theorem C12_generated_hex_axis_corotates :
  forall (eigh : arr NumR -> arr NumR * arr NumR) (M0 M Rq : arr NumR) (mud0 muv0 mud muv : nat -> R)
         (f0 r0 f r : arr NumR),
  let vm0 := @k_upper_tri_to_symmetric_6 NumR M0 in
  let vm := @k_upper_tri_to_symmetric_6 NumR M in
  let T0 := t4 (@k_voigt_to_elastic_tensor NumR vm0) in
  let Ed0 := snd (eigh (fst (@k_voigt_decompose NumR vm0))) in
  let Ev0 := snd (eigh (snd (@k_voigt_decompose NumR vm0))) in
  let Ed := snd (eigh (fst (@k_voigt_decompose NumR vm))) in
  let Ev := snd (eigh (snd (@k_voigt_decompose NumR vm))) in
  sym6 vm0 -> ortho4 T0 ->
  distinct3 (fun k => dil4 T0 k k) -> distinct3 (fun k => dev4 T0 k k) ->
  orth (mat3 Ed0) -> eigcols (mat3 (fst (@k_voigt_decompose NumR vm0))) (mat3 Ed0) mud0 ->
  orth (mat3 Ev0) -> eigcols (mat3 (snd (@k_voigt_decompose NumR vm0))) (mat3 Ev0) muv0 ->
  @k_ec_row NumR eigh M0 = Ok (f0, r0) -> f0 0%nat = 1 ->
  sym6 vm -> orth (mat3 Rq) -> eq4b (t4 (@k_voigt_to_elastic_tensor NumR vm)) (rot4 T0 (mat3 Rq)) ->
  orth (mat3 Ed) -> eigcols (mat3 (fst (@k_voigt_decompose NumR vm))) (mat3 Ed) mud ->
  orth (mat3 Ev) -> eigcols (mat3 (snd (@k_voigt_decompose NumR vm))) (mat3 Ev) muv ->
  @k_ec_row NumR eigh M = Ok (f, r) -> f 0%nat = 1 ->
  (exists kst, strict_min3 (hex_dist T0) kst) ->
  exists sgn, pm1 sgn /\
    forall a, (a < 3)%nat -> r (8 + a)%nat = sgn * sum3 (fun b => mat3 Rq a b * r0 (8 + b)%nat).
Proof. exact gen_hex_axis_corotates_proof. Qed.

Theorem C12_generated_ortho_sum_rule :
  forall (eigh : arr NumR -> arr NumR * arr NumR) (M Rq : arr NumR) (T0 : T4) (mud muv : nat -> R) (f r : arr NumR),
  let vm := @k_upper_tri_to_symmetric_6 NumR M in
  let Ed := snd (eigh (fst (@k_voigt_decompose NumR vm))) in
  let Ev := snd (eigh (snd (@k_voigt_decompose NumR vm))) in
  sym6 vm -> ortho4 T0 -> orth (mat3 Rq) ->
  eq4b (t4 (@k_voigt_to_elastic_tensor NumR vm)) (rot4 T0 (mat3 Rq)) ->
  distinct3 (fun k => dil4 T0 k k) -> distinct3 (fun k => dev4 T0 k k) ->
  orth (mat3 Ed) -> eigcols (mat3 (fst (@k_voigt_decompose NumR vm))) (mat3 Ed) mud ->
  orth (mat3 Ev) -> eigcols (mat3 (snd (@k_voigt_decompose NumR vm))) (mat3 Ev) muv ->
  @k_ec_row NumR eigh M = Ok (f, r) -> f 0%nat = 1 ->
  r 3%nat * r 3%nat + r 4%nat * r 4%nat + r 5%nat * r 5%nat + r 6%nat * r 6%nat + r 7%nat * r 7%nat
  = r 2%nat * r 2%nat.
Proof. exact gen_ortho_sum_rule_proof. Qed.

(* C12 for GENERAL tensors on the generated row (see C12_general_outputs_frame_independent): simple spectra, the
   oracle lists the eigenvectors in the same order in both frames; if the row of the tensor in its original frame is
   initialised then so is the row in the new frame, with the same eight numbers and the co-rotated axis *)
Theorem C12_generated_general_frame_independent :
  forall (eigh : arr NumR -> arr NumR * arr NumR) (M0 M Rq : arr NumR) (mud muv : nat -> R) (f0 r0 : arr NumR),
  let vm0 := @k_upper_tri_to_symmetric_6 NumR M0 in
  let vm := @k_upper_tri_to_symmetric_6 NumR M in
  let Ed0 := snd (eigh (fst (@k_voigt_decompose NumR vm0))) in
  let Ev0 := snd (eigh (snd (@k_voigt_decompose NumR vm0))) in
  let Ed := snd (eigh (fst (@k_voigt_decompose NumR vm))) in
  let Ev := snd (eigh (snd (@k_voigt_decompose NumR vm))) in
  sym6 vm0 -> sym6 vm -> orth (mat3 Rq) ->
  eq4b (t4 (@k_voigt_to_elastic_tensor NumR vm)) (rot4 (t4 (@k_voigt_to_elastic_tensor NumR vm0)) (mat3 Rq)) ->
  distinct3 mud -> distinct3 muv ->
  orth (mat3 Ed0) -> eigcols (mat3 (fst (@k_voigt_decompose NumR vm0))) (mat3 Ed0) mud ->
  orth (mat3 Ev0) -> eigcols (mat3 (snd (@k_voigt_decompose NumR vm0))) (mat3 Ev0) muv ->
  orth (mat3 Ed) -> eigcols (mat3 (fst (@k_voigt_decompose NumR vm))) (mat3 Ed) mud ->
  orth (mat3 Ev) -> eigcols (mat3 (snd (@k_voigt_decompose NumR vm))) (mat3 Ev) muv ->
  @k_ec_row NumR eigh M0 = Ok (f0, r0) -> f0 0%nat = 1 ->
  exists f r, @k_ec_row NumR eigh M = Ok (f, r) /\ f 0%nat = 1 /\
    (forall n, (n < 8)%nat -> r n = r0 n) /\
    exists sgn, pm1 sgn /\
      forall a, (a < 3)%nat -> r (8 + a)%nat = sgn * sum3 (fun b => mat3 Rq a b * r0 (8 + b)%nat).
Proof. exact gen_general_frame_independent_proof. Qed.

(* non-vacuity: with the oracle that answers the identity matrix, the generated row of diag(1,2,4,1,1,1) is
   initialised and the orthonormality hypotheses hold (the tensor-side hypotheses: C12_corotation_nonvacuous) *)
Example C12_generated_nonvacuous :
  exists f r, @k_ec_row NumR eigh_id M_ortho_example2 = Ok (f, r) /\ f 0%nat = 1 /\
              orth (mat3 (gen_Ed eigh_id M_ortho_example2)) /\ orth (mat3 (gen_Ev eigh_id M_ortho_example2)).
Proof. exact gen_nonvacuous_proof. Qed.
