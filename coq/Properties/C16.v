(* Properties/C16.v -- C16: SCSV save/read round trip is lossless; invalid schemas and data
   are refused.  Only statements; each is closed by `exact` of a lemma of Proofs_scsv.v.
   O : oracles  = the text layers (csv, str/int/float/complex, isidentifier, namedtuple);
   y : yres     = PyYAML's loading of the header that save wrote (data, not modelled). *)
From Coq Require Import String List ZArith Bool.
From Coq Require Import Ascii NArith.
From PV Require Import Model_scsv Proofs_scsv Model_scsv_frame Proofs_scsv_frame Model_scsv_header Proofs_scsv_header.
From PV Require Import Model_scsv_py Gen_scsv Inst_scsv Inst_scsv_save Inst_scsv_header Proofs_scsv_faults.
From PV Require Import Model_memo Proofs_memo Proofs_scsv_session.
Import ListNotations.
Open Scope string_scope.

(* any number of fields and rows, all five types; cells equal to the fill come back as the fill *)
Theorem C16_roundtrip : forall (O : oracles) (s : schema) (y : yres) (data : list (list cell)),
  oracle_ok O ->
  validate_schema O s = Ok true ->
  representable O s data = true ->
  header_faithful O s y = true ->
  read_back O s y data = Ok (names s, data).
Proof. exact roundtrip_proof. Qed.

(* what save hands to csv.writer: header row, then the rows of zip of the columns in which every
   cell that the branch chain `substituted` selects (== fill, or NaN with a NaN fill) is the
   missing marker *)
Theorem C16_fill_cells_written_as_missing : forall O s data d m fs tfs,
  (forall d, csv_legal d = true -> o_delim_err O d = None) ->
  validate_schema O s = Ok true -> rep_facts O s data d m fs tfs ->
  save O s data = Ok (map name_str fs :: zipn (nrows_of data) (out_cols O m tfs data)) /\
  (forall t v c, substituted O t v c = Ok true -> out_text O m t v c = m).
Proof. exact fill_cells_written_as_missing. Qed.

(* each clause of `representable` (2 plain text, 3 text parses back, 4 identical to the fill
   when == to it, 5 text differs from the missing marker, 6 no one-column '---' row, 7 one
   column per field, 8 at least one row, 10 names accepted by namedtuple, 11 plain missing
   marker, 12 CSV-legal delimiter) has a witness on which all other clauses hold and the round
   trip fails; clause 1 (declared type) is implied by clause 3 *)
Theorem C16_representable_needed :
  (forall s data, representable_m toyO (fun _ => false) s data = representable toyO s data) /\
  needed 2 (sch "," "-" [fld "a" "string" (Some (YStr "x"))]) [[CStr " lead"]] /\
  needed 2 (sch "," "-" [fld "a" "string" (Some (YStr "x"))]) [[CStr ("a" ++ nl ++ "b")]] /\
  needed 3 (sch "," "-" [fld "a" "float" (Some (YStr "NaN"))]) [[CFloat (FFin "abc")]] /\
  needed 4 (sch "," "-" [fld "a" "float" (Some (YStr "0.0"))]) [[CFloat (FFin "-0.0")]] /\
  needed 5 (sch "," "5" [fld "a" "integer" (Some (YStr "0"))]) [[CInt 5; CInt 6]] /\
  needed 6 (sch "," "-" [fld "a" "string" (Some (YStr "x"))]) [[CStr "---"]] /\
  needed 7 (sch "," "-" [fld "a" "string" (Some (YStr "x"))]) [[CStr "p"]; [CStr "q"]] /\
  needed 8 (sch "," "-" [fld "a" "string" (Some (YStr "x"))]) [[]] /\
  needed 10 (sch "," "-" [fld "_a" "string" (Some (YStr "x"))]) [[CStr "p"]] /\
  needed 11 (sch "," " -" [fld "a" "string" (Some (YStr "x"))]) [[CStr "x"]] /\
  needed 12 (sch ",," "-" [fld "a" "string" (Some (YStr "x"))]) [[CStr "p"]].
Proof. exact representable_needed_proof. Qed.

Theorem C16_declared_type_is_implied : forall O t d, cl_text_rt O t d = true -> cl_typed t d = true.
Proof. exact typed_is_implied. Qed.

(* _validate_scsv_schema returns False exactly on the documented violations: missing key, no
   fields, delimiter equal to / contained in the missing marker, and - all earlier fields being
   fine - a non-identifier name, an unknown type, a numeric/complex field without fill *)
Theorem C16_validate_false_iff_violation : forall O s, validate_schema O s = Ok false <-> violation O s.
Proof. exact validate_false_iff. Qed.

(* ... and each of them makes save (any equal-length columns) and read raise SCSVError *)
Theorem C16_invalid_schema_refused : forall O s,
  violation O s ->
  (forall data, equal_lengths data -> save O s data = Err SCSV) /\
  (forall rows, read O (YLoaded s) rows = Err SCSV).
Proof. exact invalid_schema_refused_proof. Qed.

(* invalid data: columns of unequal length *)
Theorem C16_unequal_lengths_refused : forall O s (c0 : list cell) rest,
  Exists (fun c => length c <> length c0) rest -> save O s (c0 :: rest) = Err SCSV.
Proof. exact unequal_lengths_refused. Qed.

(* invalid data: wrong column count (too many / too few cells in a row whose cells are accepted) *)
Theorem C16_too_many_columns_refused : forall O m tfs pre extra,
  Forall2 (accepted O m) pre tfs -> extra <> [] -> save_row O m tfs (pre ++ extra)%list = Err SCSV.
Proof. exact save_row_too_many. Qed.
Theorem C16_too_few_columns_refused : forall O m row pre extra,
  Forall2 (accepted O m) row pre -> extra <> [] -> save_row O m (pre ++ extra)%list row = Err SCSV.
Proof. exact save_row_too_few. Qed.

(* invalid data: a cell whose text does not parse as the declared type (ValueError) *)
Theorem C16_unparsable_cell_refused : forall O m t v d,
  parse_cell O t (pystr O d) m v = Err EValue -> save_cell O m t v d = Err SCSV.
Proof. exact save_cell_unparsable. Qed.
Theorem C16_bad_cell_fails_row : forall O m pre pre_tfs d t v post post_tfs e,
  Forall2 (accepted O m) pre pre_tfs -> save_cell O m t v d = Err e ->
  save_row O m (pre_tfs ++ (t, v) :: post_tfs)%list (pre ++ d :: post)%list = Err e.
Proof. exact save_row_bad_cell. Qed.

(* ... a refused row (earlier rows accepted) makes save_scsv raise that row's exception *)
Theorem C16_invalid_data_refused : forall O s d m fs tfs c0 rest pre row post e,
  validate_schema O s = Ok true -> sdelim s = Some d -> smissing s = Some m -> sfields s = Some fs ->
  field_types fs = Ok tfs -> o_delim_err O d = None ->
  Forall (fun c => length c = length c0) rest ->
  zipn (length c0) (c0 :: rest) = (pre ++ row :: post)%list ->
  (exists ys, map_res (save_row O m tfs) pre = Ok ys) ->
  save_row O m tfs row = Err e ->
  save O s (c0 :: rest) = Err e.
Proof. exact invalid_data_refused_proof. Qed.

(* completeness: save succeeds only for equal-length columns, a valid schema, and rows with one
   accepted cell per field *)
Theorem C16_save_ok_only_if : forall O s data rows, save O s data = Ok rows ->
  equal_lengths data /\ validate_schema O s = Ok true /\
  exists d m fs tfs, sdelim s = Some d /\ smissing s = Some m /\ sfields s = Some fs /\
    field_types fs = Ok tfs /\ o_delim_err O d = None /\
    Forall (fun row => Forall2 (accepted O m) row tfs) (zipn (nrows_of data) data).
Proof. exact save_ok_only_if. Qed.

(* read side: a header row that differs from the schema's names is refused with SCSVError *)
Theorem C16_read_header_mismatch_refused : forall O s d m fs hdr body,
  validate_schema O s = Ok true -> sdelim s = Some d -> smissing s = Some m -> sfields s = Some fs ->
  o_delim_err O d = None -> list_str_eqb (map name_str fs) (map strip hdr) = false ->
  read O (YLoaded s) (hdr :: body) = Err SCSV.
Proof. exact read_header_mismatch. Qed.

(* terse parser: shape of every result (always a *string* fill, '' when the spec has none) *)
Theorem C16_terse_parse_spec : forall t s, parse_terse t = Ok s ->
  exists d m fs, s = mkSchema (Some d) (Some m) (Some fs) /\ Forall terse_field_shape fs.
Proof. exact terse_parse_shape. Qed.
Theorem C16_terse_field_spec : forall name,
  terse_field name "s" = Ok (mkField (Some (YStr name)) (Some "string") (Some (YStr ""))) /\
  terse_field name "" = Ok (mkField (Some (YStr name)) (Some "string") (Some (YStr ""))) /\
  terse_field name "i:999999" = Ok (mkField (Some (YStr name)) (Some "integer") (Some (YStr "999999"))) /\
  terse_field name "f:NaN:%" = Ok (mkField (Some (YStr name)) (Some "float") (Some (YStr "NaN"))) /\
  terse_field name "q" = Err SCSV.
Proof. exact terse_field_spec. Qed.
Example C16_terse_examples :
  parse_terse "d,m-:colA(s)colB(s:N/A:...)colC()colD(i:999999)colE(f:NaN:%)"
  = Ok (sch "," "-" [fld "colA" "string" (Some (YStr "")); fld "colB" "string" (Some (YStr "N/A"));
                      fld "colC" "string" (Some (YStr "")); fld "colD" "integer" (Some (YStr "999999"));
                      fld "colE" "float" (Some (YStr "NaN"))]) /\
  parse_terse "d,m-:a(s)" = Ok none_schema /\
  parse_terse "x" = Err SCSV /\ parse_terse "d,m:a(s)" = Err SCSV /\ parse_terse "dm-:a()" = Err SCSV /\
  parse_terse "d,m-:a" = Err SCSV /\ parse_terse "d,m-:a(s))" = Err SCSV /\ parse_terse "d,m-:a(q)" = Err SCSV.
Proof. exact terse_examples_proof. Qed.

(* the open finding: the terse schema "d,m-:a(s)" (string field, fill '') is valid and its data
   representable, but the header YAML loads has fill = null, which is not faithful; the model
   then reads the missing cell back as "None" *)
Theorem C16_header_unfaithful_refuted :
  oracle_ok toyO /\ validate_schema toyO none_schema = Ok true /\
  representable toyO none_schema [[CStr "x"; CStr ""; CStr "y"]] = true /\
  header_faithful toyO none_schema none_loaded = false /\
  read_back toyO none_schema none_loaded [[CStr "x"; CStr ""; CStr "y"]]
    = Ok (["a"], [[CStr "x"; CStr "None"; CStr "y"]]).
Proof. exact header_unfaithful_witness_proof. Qed.

(* non-vacuity: the hypotheses of C16_roundtrip are satisfiable (four fields of four types, two
   rows, the second row made of fill values, NaN fill included) *)
Example C16_nonvacuous :
  oracle_ok toyO /\ validate_schema toyO ex_schema = Ok true /\ representable toyO ex_schema ex_data = true /\
  header_faithful toyO ex_schema (YLoaded ex_schema) = true /\
  save toyO ex_schema ex_data =
    Ok [["name"; "count"; "value"; "flag"]; ["B, b"; "5"; "1.5"; "True"]; ["-"; "-"; "-"; "False"]] /\
  read_back toyO ex_schema (YLoaded ex_schema) ex_data = Ok (["name"; "count"; "value"; "flag"], ex_data).
Proof. exact nonvacuous_proof. Qed.

(* ---------------------------------------------------------------- the line level of the file
   frame = the loop of read_scsv that sorts the lines of the file into YAML header lines and csv
   lines (exact comparisons with "\n" and "---\n"); written_file hdr body = what save_scsv writes. *)

(* the file save_scsv writes is split into exactly its header lines and its csv lines, whatever
   they contain, as long as none of them is exactly "\n" or "---\n": a row of empty cells in a
   tab-delimited file ("\t\n"), a line that merely strips to "---" are csv lines *)
Theorem C16_frame_written_file : forall hdr body,
  Forall (fun l => line_kept l = true) hdr -> Forall (fun l => line_kept l = true) body ->
  frame false (written_file hdr body) = (hdr, body).
Proof. exact frame_written_file. Qed.

(* for any file and either start state: a line reaches the header lines or the csv lines iff it
   is not exactly "\n" / "---\n"; nothing else is dropped, nothing is duplicated *)
Theorem C16_frame_drops_only_blank_and_fence : forall lines is_yaml,
  (forall l, In l (fst (frame is_yaml lines)) \/ In l (snd (frame is_yaml lines))
             <-> In l lines /\ l <> blank_line /\ l <> fence_line) /\
  length (fst (frame is_yaml lines)) + length (snd (frame is_yaml lines)) = length (filter line_kept lines).
Proof. exact frame_drops_only_blank_and_fence. Qed.

(* without a fence line the loop is a filter into the side selected by the state *)
Theorem C16_frame_without_fence_is_filter : forall lines is_yaml,
  Forall (fun l => l <> fence_line) lines ->
  frame is_yaml lines = if is_yaml then (filter line_kept lines, []) else ([], filter line_kept lines).
Proof. exact frame_no_fence. Qed.

(* the only state carried from one line to the next is the is_yaml flag, flipped by "---\n" lines *)
Theorem C16_frame_state_is_the_only_carry : forall l1 is_yaml l2,
  frame is_yaml (l1 ++ l2)%list =
  ((fst (frame is_yaml l1) ++ fst (frame (frame_state is_yaml l1) l2))%list,
   (snd (frame is_yaml l1) ++ snd (frame (frame_state is_yaml l1) l2))%list).
Proof. exact frame_app. Qed.

(* C16_roundtrip with the transport oracle decomposed into csv.writer (W), the modelled loop and
   csv.reader (R).  What is asked of W and R concerns only the rows save writes for this data set:
   no written line is exactly "\n" or "---\n", and R inverts W on them (both checked on the real
   csv module and the real file on every generated case) *)
Theorem C16_roundtrip_through_file : forall O W R hdr s y data d,
  (forall d, csv_legal d = true -> o_delim_err O d = None) ->
  (forall d rows, o_transport O d rows = transport_via_file W R hdr d rows) ->
  sdelim s = Some d ->
  Forall (fun l => line_kept l = true) hdr ->
  (forall rows, save O s data = Ok rows -> Forall row_transportable rows ->
                Forall (fun l => line_kept l = true) (W d rows) /\ R d (W d rows) = Ok rows) ->
  validate_schema O s = Ok true -> representable O s data = true -> header_faithful O s y = true ->
  read_back O s y data = Ok (names s, data).
Proof. exact roundtrip_through_file. Qed.

(* its hypotheses are satisfiable on the case the line level matters for: tab delimiter, missing
   marker '', a row made of fill values only, written as the line "\t\n" *)
Example C16_through_file_nonvacuous :
  (forall d, csv_legal d = true -> o_delim_err toyF d = None) /\
  (forall d rows, o_transport toyF d rows = transport_via_file toy_writer toy_reader toy_hdr d rows) /\
  sdelim tab_schema = Some TAB /\ Forall kept toy_hdr /\
  save toyF tab_schema tab_data = Ok tab_rows /\
  toy_writer TAB tab_rows = ["a" ++ TAB ++ "b" ++ LF; "1.5" ++ TAB ++ LF; TAB ++ LF; "1.5" ++ TAB ++ "1.5" ++ LF] /\
  Forall row_transportable tab_rows /\
  Forall kept (toy_writer TAB tab_rows) /\ toy_reader TAB (toy_writer TAB tab_rows) = Ok tab_rows /\
  validate_schema toyF tab_schema = Ok true /\ representable toyF tab_schema tab_data = true /\
  header_faithful toyF tab_schema (YLoaded tab_schema) = true /\
  read_back toyF tab_schema (YLoaded tab_schema) tab_data = Ok (["a"; "b"], tab_data).
Proof. exact through_file_nonvacuous. Qed.

(* white-space-only lines, "---<tab>", "---" without terminator are csv lines; "\n" is skipped; a
   real fence in the body sends the remaining lines to the header *)
Example C16_frame_examples :
  frame false (written_file toy_hdr [TAB ++ LF; "---" ++ TAB ++ LF; " " ++ LF; "---"])
  = (toy_hdr, [TAB ++ LF; "---" ++ TAB ++ LF; " " ++ LF; "---"]) /\
  frame false (written_file toy_hdr ["a" ++ LF; LF; "1" ++ LF; LF])
  = (toy_hdr, ["a" ++ LF; "1" ++ LF]) /\
  frame false (written_file toy_hdr ["a" ++ LF; fence_line; "1" ++ LF])
  = ((toy_hdr ++ [("1" ++ LF)%string])%list, ["a" ++ LF]).
Proof. exact frame_examples. Qed.

(* open finding in the model: the global transport hypothesis of C16_roundtrip (`oracle_ok`) is
   not met by a faithful csv layer at the delimiter '-': a row of four empty cells is transportable,
   reader and writer are inverse on it, but its line is "---\n" and the loop takes it for a fence *)
Theorem C16_dash_delimiter_fence_refuted :
  csv_legal "-" = true /\ Forall row_transportable dash_rows /\
  toy_reader "-" (toy_writer "-" dash_rows) = Ok dash_rows /\
  toy_writer "-" dash_rows = ["a-b-c-d" ++ LF; fence_line; "1-2-3-4" ++ LF] /\
  transport_via_file toy_writer toy_reader toy_hdr "-" dash_rows = Ok [["a"; "b"; "c"; "d"]].
Proof. exact dash_fence_witness. Qed.

(* ---- the header writer: `_yaml_quote` and the lines of write_scsv_header (Model_scsv_header) ---- *)

(* `_yaml_quote` is exactly invertible by the scanner of a YAML single-quoted scalar, for EVERY string:
   the model string is the UTF-8 byte string, so every code point of every plane is covered, and so are
   apostrophes, control characters, line separators and the empty string *)
Theorem C16_yaml_quote_roundtrip : forall s, yaml_unquote (yaml_quote s) = Some s.
Proof. exact yaml_unquote_quote. Qed.

(* the quoted form is the only text that reads back as s: nothing else is accepted for it *)
Theorem C16_yaml_quote_exact : forall t s, yaml_unquote t = Some s -> t = yaml_quote s.
Proof. exact yaml_unquote_exact. Qed.

(* the same over any alphabet with a decidable equality, whichever character is the quote ... *)
Theorem C16_yaml_quote_any_alphabet : forall (A : Type) (eqb : A -> A -> bool) (q : A),
  (forall a b, eqb a b = true <-> a = b) ->
  forall s, unquote A eqb q (quote A eqb q s) = Some s.
Proof. exact unquote_quote. Qed.

(* ... in particular over lists of code points (any natural number; Unicode ends at 0x10FFFF) *)
Theorem C16_yaml_quote_code_points : forall s, cp_unquote (cp_quote s) = Some s.
Proof. exact cp_unquote_quote. Qed.

(* and the two agree through UTF-8: quoting the bytes = encoding the quoted code points (no byte of a
   multi-byte sequence is an apostrophe), for all code points below 2^21 *)
Theorem C16_yaml_quote_utf8 : forall s, Forall (fun n => (n < 2097152)%N) s ->
  quote ascii Ascii.eqb apostrophe (utf8 s) = utf8 (cp_quote s).
Proof. exact utf8_quote_commutes. Qed.

(* a header that write_scsv_header writes (any comments, any units) determines the delimiter and the
   missing marker ... *)
Theorem C16_header_delimiter_missing_recoverable : forall O cs s units ls,
  header_lines O cs s units = Ok ls ->
  exists d m, sdelim s = Some d /\ smissing s = Some m /\
    obind (nth_error ls (length cs + 1)) (scalar_of_line "  delimiter: ") = Some d /\
    obind (nth_error ls (length cs + 2)) (scalar_of_line "  missing: ") = Some m.
Proof. exact header_delimiter_missing_recoverable. Qed.

(* ... and every field name and every string fill value, whatever characters they contain *)
Theorem C16_header_field_recoverable : forall O f u l,
  field_lines O f u = Ok l ->
  exists n, fname f = Some (YStr n) /\
    obind (nth_error l 0) (scalar_of_line "    - name: ") = Some n /\
    forall x, ffill f = Some (YStr x) -> obind (nth_error l (length l - 1)) (scalar_of_line "      fill: ") = Some x.
Proof. exact header_field_recoverable. Qed.

(* ... and the unit of a field that has one, whatever characters it contains ('%', 'a: b', '[', apostrophes ...) *)
Theorem C16_header_unit_recoverable : forall O f u l,
  field_lines O f (Some u) = Ok l ->
  obind (nth_error l 2) (scalar_of_line "      unit: ") = Some u.
Proof. exact header_unit_recoverable. Qed.

(* by computation: apostrophes are doubled, U+1F600 is four bytes none of which is touched, NEL is C2 85,
   malformed scalars are refused, a two-field header with a comment, a unit, an empty string fill and an
   integer fill *)
Example C16_header_examples :
  yaml_quote "it's" = "'it''s'" /\ yaml_quote "" = "''" /\ yaml_quote "'" = "''''" /\
  utf8_cp 128512 = [byte 240; byte 159; byte 152; byte 128] /\ utf8_cp 133 = [byte 194; byte 133] /\
  cp_quote [128512%N; 39%N] = [39; 128512; 39; 39; 39]%N /\
  yaml_unquote "'a'b'" = None /\ yaml_unquote "'a" = None /\ yaml_unquote "a'" = None /\ yaml_unquote "''" = Some "" /\
  header_lines hdrO ["c"] (mkSchema (Some ",") (Some "n'a")
      (Some [mkField (Some (YStr "x")) None (Some (YStr "")); mkField (Some (YStr "y")) (Some "integer") (Some (YInt 0))]))
      [Some "km"; None] =
    Ok ["# c"; "schema:"; "  delimiter: ','"; "  missing: 'n''a'"; "  fields:";
        "    - name: 'x'"; "      type: string"; "      unit: 'km'"; "      fill: ''";
        "    - name: 'y'"; "      type: integer"; "      fill: 0"].
Proof. exact header_examples. Qed.

(* ---- tie T: the definitions gen_* of coq/gen/Gen_scsv.v are regenerated from /repo/src/pydrex/io.py on every run
   (translator/specs_scsv.py, a fail-closed Python-ast translator into the primitives of Model_scsv_py.v); each
   statement says that the generated code IS the hand-written model the theorems above are about, for ALL inputs ---- *)

(* _validate_scsv_schema: for every dictionary p that stands for a typed schema s (any key order, further keys such
   as 'unit', every key possibly absent, names and fills of any scalar type) the generated function returns what
   validate_schema returns, KeyError (field without name) and AttributeError (name not a string) included *)
Theorem C16_gen_validate_is_model : forall O p s, abs_schema p = Some s ->
  gen__validate_scsv_schema O p = lift_bool (validate_schema O s).
Proof. exact gen_validate_eq. Qed.

(* _parse_scsv_bool / _parse_scsv_cell: every type, every cell text, every missing marker, every fill value that is
   not a complex number (the typed model has no complex fills) *)
Theorem C16_gen_parse_bool_is_model : forall O x, gen__parse_scsv_bool O (PStr x) = Ok (PBool (parse_bool x)).
Proof. exact gen_parse_bool_str. Qed.
Theorem C16_gen_parse_cell_is_model : forall O t data missing fill, not_complex fill ->
  gen__parse_scsv_cell O (PType t) (PStr data) (PStr missing) fill
  = lift_cell (parse_cell O t data missing (abs_yval fill)).
Proof. exact gen_parse_cell_eq. Qed.

(* save_scsv, column-length check: columns given as lists or tuples *)
Theorem C16_gen_save_lengths_is_model : forall O (cols : list (bool * list pyval)),
  gen_save_scsv_lengths O (PList (map emb_col cols)) =
  match cols with
  | [] => Err EIndex
  | c0 :: rest => if existsb (fun c => negb (Nat.eqb (length (snd c)) (length (snd c0)))) rest then Err SCSV
                  else Ok (PInt (Z.of_nat (length (snd c0))))
  end.
Proof. exact gen_save_lengths_eq. Qed.

(* save_scsv, fills / types / names: field_types of the model, then the names *)
Theorem C16_gen_save_columns_is_model : forall kv l fs,
  dget kv "fields" = Some (PList l) -> abs_fields l = Some fs ->
  gen_save_scsv_columns (PDict kv) =
    match field_types fs with
    | Err e => Err e
    | Ok tfs => match raw_names l with
                | None => Err EKey
                | Some ns => Ok (PList (map raw_fill l), PList (map (fun tf => PType (fst tf)) tfs), PList ns)
                end
    end.
Proof. exact gen_save_columns_eq. Qed.

(* save_scsv, body of the row loop: per-cell parse check (ValueError -> SCSVError), the isinstance / in (float,
   complex) / np.isnan / == chain and the substitution of the missing marker, zip(strict=True) over the cells *)
Theorem C16_gen_save_row_is_model : forall O kv m names tfs row,
  dget kv "missing" = Some (PStr m) -> Forall (fun tf => not_complex (snd tf)) tfs -> length names = length tfs ->
  gen_save_scsv_row O (PDict kv) (PList names) (PList (map (fun tf => PType (fst tf)) tfs)) (PList (map snd tfs))
                    (PTuple (map emb_cell row))
  = match row_vals O m tfs row with Ok vs => Ok (PList (map emb_cell vs)) | Err e => Err e end.
Proof. exact gen_save_row_eq. Qed.
Theorem C16_gen_save_row_written_text : forall O m tfs row,
  value_to_scsv (match row_vals O m tfs row with Ok vs => Ok (map (pystr O) vs) | Err e => Err e end)
  = save_row O m (map (fun tf => (fst tf, abs_yval (snd tf))) tfs) row.
Proof. exact row_vals_model. Qed.

(* read_scsv, the line loop: for every file the generated loop computes `frame` *)
Theorem C16_gen_read_lines_is_model : forall O lines,
  gen_read_scsv_lines O (PList (map PStr lines))
  = Ok (PList (map PStr (fst (frame false lines))), PList (map PStr (snd (frame false lines)))).
Proof. exact gen_read_lines_eq. Qed.

(* read_scsv, schema names against the stripped header row; coltypes / missingstr / fillvals *)
Theorem C16_gen_read_names_is_model : forall O kv l ns hdr file,
  dget kv "fields" = Some (PList l) -> raw_names l = Some (map PStr ns) ->
  gen_read_scsv_names O (PDict kv) (PList (map PStr hdr)) file
  = if list_str_eqb ns (map strip hdr) then Ok (PList (map PStr ns)) else Err SCSV.
Proof. exact gen_read_names_eq. Qed.
Theorem C16_gen_read_columns_is_model : forall kv l fs,
  dget kv "fields" = Some (PList l) -> abs_fields l = Some fs ->
  gen_read_scsv_columns (PDict kv) =
    match field_types fs with
    | Err e => Err e
    | Ok tfs => match dget kv "missing" with
                | None => Err EKey
                | Some m => Ok (PList (map (fun tf => PType (fst tf)) tfs), m, PList (map raw_fill l))
                end
    end.
Proof. exact gen_read_columns_eq. Qed.

(* parse_scsv_schema: for EVERY string the generated parser raises exactly when parse_terse does (same exception)
   and otherwise returns a dictionary standing for the schema parse_terse returns *)
Theorem C16_gen_parse_terse_is_model : forall O t,
  match gen_parse_scsv_schema O (PStr t), parse_terse t with
  | Ok p, Ok s => abs_schema p = Some s
  | Err e, Err e' => e = e'
  | _, _ => False
  end.
Proof. exact gen_parse_terse_eq. Qed.

(* save_scsv as a whole: the model `save` (the subject of C16_roundtrip, C16_invalid_*_refused, C16_save_ok_only_if ...)
   IS the generated blocks (column-length check, _validate_scsv_schema, fills / types / names, the row block for every
   tuple of zip( *data)) put together by the skeleton `save_assembled` (order of the blocks, the SCSVError of
   write_scsv_header for an invalid schema, csv.writer's acceptance of the delimiter, the outer `except ValueError`),
   rows compared as csv.writer stringifies them; columns as lists or tuples *)
Theorem C16_gen_save_is_model : forall O p s (cs : list (bool * list cell)),
  abs_schema p = Some s -> fills_not_complex p ->
  match save_assembled O p (PList (map emb_ccol cs)) with
  | Ok rows => Ok (map (map (text_of O)) rows)
  | Err e => Err e
  end = save O s (map snd cs).
Proof. exact save_assembled_eq. Qed.

(* ---- one theorem per documented fault kind, over all schemas: `refused O s` = save_scsv (any equal-length columns)
   and read_scsv raise SCSVError ---- *)
Theorem C16_refused_missing_key_delimiter : forall O s, sdelim s = None -> refused O s.
Proof. exact refused_missing_key_delimiter. Qed.
Theorem C16_refused_missing_key_missing : forall O s, smissing s = None -> refused O s.
Proof. exact refused_missing_key_missing. Qed.
Theorem C16_refused_missing_key_fields : forall O s, sfields s = None -> refused O s.
Proof. exact refused_missing_key_fields. Qed.
Theorem C16_refused_no_fields : forall O s, sfields s = Some [] -> refused O s.
Proof. exact refused_no_fields. Qed.
Theorem C16_refused_delimiter_equals_missing : forall O s d, sdelim s = Some d -> smissing s = Some d -> refused O s.
Proof. exact refused_delimiter_equals_missing. Qed.
Theorem C16_refused_delimiter_in_missing : forall O s d m,
  sdelim s = Some d -> smissing s = Some m -> contains m d = true -> refused O s.
Proof. exact refused_delimiter_in_missing. Qed.
(* the faults of one field, all fields before it being fine *)
Theorem C16_refused_name_not_identifier : forall O s pre f post n,
  sfields s = Some (pre ++ f :: post)%list -> validate_fields O pre = Ok true ->
  fname f = Some (YStr n) -> o_is_ident O n = false -> refused O s.
Proof. exact refused_name_not_identifier. Qed.
Theorem C16_refused_unknown_type : forall O s pre f post n,
  sfields s = Some (pre ++ f :: post)%list -> validate_fields O pre = Ok true ->
  fname f = Some (YStr n) -> typemap (type_of f) = None -> refused O s.
Proof. exact refused_unknown_type. Qed.
Theorem C16_refused_numeric_without_fill : forall O s pre f post n t,
  sfields s = Some (pre ++ f :: post)%list -> validate_fields O pre = Ok true ->
  fname f = Some (YStr n) -> typemap (type_of f) = Some t -> (t = TInt \/ t = TFloat \/ t = TCplx) ->
  ffill f = None -> refused O s.
Proof. exact refused_numeric_without_fill. Qed.

(* column count: with at least one row a data set is written only if it has one column per field ... *)
Theorem C16_wrong_column_count_never_written : forall O s data rows fs,
  save O s data = Ok rows -> sfields s = Some fs -> nrows_of data <> 0 -> length data = length fs.
Proof. exact wrong_column_count_never_written. Qed.
(* ... and it is refused with SCSVError when the cells its first row shares with the fields are accepted *)
Theorem C16_wrong_column_count_refused : forall O s d m fs tfs c0 rest row0 R,
  validate_schema O s = Ok true -> sdelim s = Some d -> smissing s = Some m -> sfields s = Some fs ->
  field_types fs = Ok tfs -> o_delim_err O d = None ->
  Forall (fun c => length c = length c0) rest ->
  zipn (length c0) (c0 :: rest) = row0 :: R ->
  ((exists pre extra, row0 = (pre ++ extra)%list /\ Forall2 (accepted O m) pre tfs /\ extra <> []) \/
   (exists pre extra, tfs = (pre ++ extra)%list /\ Forall2 (accepted O m) row0 pre /\ extra <> [])) ->
  save O s (c0 :: rest) = Err SCSV.
Proof. exact wrong_column_count_refused. Qed.

(* ---- the round trip of ONE cell, every type: what save_scsv writes for a representable cell is read back as the
   cell (given a re-loaded fill that means the same), and the text is the missing marker exactly when the == / NaN
   chain selects the cell ---- *)
Theorem C16_cell_roundtrip : forall O k m t v v' d,
  plain m = true -> cell_ok O k m t v d = true -> fill_faithful O t v v' ->
  exists x, save_cell O m t v d = Ok x /\ parse_cell O t x m v' = Ok d /\
            (x = m <-> substituted O t v d = Ok true).
Proof. exact cell_roundtrip. Qed.

(* what "the text layer reads the cell's text back" asks, type by type: nothing for strings and booleans; for the
   numeric types Python's guarantees int(str(z)) == z (any size), float(repr(x)) == x as tokens (NaN, infinities,
   negative zero), complex(str(c)) == c -- checked on every number of every generated case *)
Theorem C16_text_clause_by_type : forall O,
  (forall s, cl_text_rt O TStr (CStr s) = true) /\
  (forall b, cl_text_rt O TBool (CBool b) = true) /\
  (forall z, cl_text_rt O TInt (CInt z) = true <-> o_int_of O (o_str_int O z) = Ok z) /\
  (forall f, cl_text_rt O TFloat (CFloat f) = true <-> o_float_of O (fstr f) = Ok f) /\
  (forall re im, cl_text_rt O TCplx (CCplx re im) = true <-> o_cplx_of O (o_str_cplx O re im) = Ok (re, im)).
Proof. exact text_clause_by_type. Qed.

(* cells equal to the fill: for ANY fill value of a non-boolean field ('' , NaN, numbers as text or as numbers) the
   cell t(fill) is selected by the chain, written as the missing marker, and the marker is read back as read_fill --
   which is t(fill) again unless the fill is the text "NaN" (then t(nan): the same for float / complex, the open
   finding string-fill-NaN for strings) *)
Theorem C16_fill_cell_is_substituted : forall O t v c, t <> TBool -> conv O t v = Ok c -> substituted O t v c = Ok true.
Proof. exact fill_cell_is_substituted. Qed.
Theorem C16_fill_cell_roundtrip : forall O m t v c,
  plain m = true -> t <> TBool -> conv O t v = Ok c ->
  (exists y, parse_cell O t (pystr O c) m v = Ok y) ->
  save_cell O m t v c = Ok m /\ parse_cell O t m m v = read_fill O t v /\
  (is_NaN_text v = false -> parse_cell O t m m v = Ok c).
Proof. exact fill_cell_roundtrip. Qed.
(* any NaN cell of a float / complex field with a NaN fill is written as the missing marker *)
Theorem C16_nan_cell_is_substituted : forall O t v d c,
  (t = TFloat \/ t = TCplx) -> cell_isnan d = Ok true -> conv O t v = Ok c -> cell_isnan c = Ok true ->
  substituted O t v d = Ok true.
Proof. exact nan_cell_is_substituted. Qed.

(* by computation on the toy oracle: fill '' (string), NaN fill given as text, -0.0 fill, integer fill with marker '';
   one column too many / too few; each schema fault on the example schema *)
Example C16_fault_examples :
  fill_cell_roundtrip_stmt toyO "-" TStr (YStr "") (CStr "") /\
  fill_cell_roundtrip_stmt toyO "-" TFloat (YStr "NaN") (CFloat FNan) /\
  fill_cell_roundtrip_stmt toyO "-" TFloat (YStr "-0.0") (CFloat (FFin "-0.0")) /\
  fill_cell_roundtrip_stmt toyO "" TInt (YInt 5) (CInt 5) /\
  save toyO ex_schema (ex_data ++ [[CStr "x"; CStr "y"]])%list = Err SCSV /\
  save toyO ex_schema (removelast ex_data) = Err SCSV /\
  save toyO (mkSchema None (Some "-") (sfields ex_schema)) ex_data = Err SCSV /\
  save toyO (mkSchema (Some ",") (Some "a,b") (sfields ex_schema)) ex_data = Err SCSV /\
  save toyO (sch "," "-" [fld "bad name" "string" None]) [[CStr "x"]] = Err SCSV /\
  save toyO (sch "," "-" [fld "a" "decimal" None]) [[CStr "x"]] = Err SCSV /\
  save toyO (sch "," "-" [fld "a" "float" None]) [[CFloat FNan]] = Err SCSV.
Proof. exact fault_examples_proof. Qed.

(* _yaml_quote (tie T): for every string the generated function is `yaml_quote`, the function C16_yaml_quote_roundtrip /
   _exact / _utf8 are about *)
Theorem C16_gen_yaml_quote_is_model : forall O s, gen__yaml_quote O (PStr s) = Ok (PStr (yaml_quote s)).
Proof. exact gen_yaml_quote_eq. Qed.

(* write_scsv_header as a whole (tie T): started on the strings `written` so far, the generated function appends the
   fence, the lines of `header_lines` (comments, schema:, quoted delimiter / missing marker, per field the quoted name,
   the type, the unit if present, the fill -- quoted when a string, str() otherwise) each with its line terminator,
   and the closing fence; SCSVError for an invalid schema; comments None or a list of strings *)
Theorem C16_gen_write_header_is_model : forall O p s co kv l units,
  abs_schema p = Some s -> p = PDict kv -> dget kv "fields" = Some (PList l) -> raw_units l = Some units ->
  fills_not_complex p ->
  forall written,
  gen_write_scsv_header O (PList written) p (comments_py co) =
  match header_lines O (comments_of co) s units with
  | Ok ls => Ok (PList (written ++ PStr fence_line :: map term ls ++ [PStr fence_line]))
  | Err e => Err e
  end.
Proof. exact gen_write_header_eq. Qed.

(* ---- call histories: `_parse_scsv_cell` behind a result cache (Model_memo; seeded change C16f) ----
   a cache that hands out copies is invisible on EVERY history of calls as soon as its key equality separates arguments with
   different results (any oracles, any key equality) ... *)
Theorem C16_parse_cell_cache_transparent : forall (O : oracles) (same : cellarg -> cellarg -> bool),
  (forall a b, same a b = true -> pc O a = pc O b) ->
  forall ops, run (pc O) same false [] ops = spec (pc O) ops.
Proof. exact parse_cell_cache_transparent. Qed.

(* ... and Python's == / hash on the fill does not: 0 == 0.0, so after a string column with fill 0 the missing cells of a string column
   with fill 0.0 are read back as '0'; 0.0 == -0.0, so a float column with fill -0.0 reads its missing cells back as +0.0 *)
Theorem C16_parse_cell_cache_python_equality_refuted :
  py_same wit_a wit_b = true /\
  run (pc toyO) py_same false [] [Call wit_a; Call wit_b] = [Ok (CStr "0"); Ok (CStr "0")] /\
  spec (pc toyO) [Call wit_a; Call wit_b] = [Ok (CStr "0"); Ok (CStr "0.0")].
Proof. exact parse_cell_cache_python_equality_refuted. Qed.

Theorem C16_parse_cell_cache_signed_zero_refuted :
  let a : cellarg := (TFloat, "NA", "NA", YFloat (FFin "0.0")) in
  let b : cellarg := (TFloat, "NA", "NA", YFloat (FFin "-0.0")) in
  py_same a b = true /\
  run (pc toyO) py_same false [] [Call a; Call b] = [Ok (CFloat (FFin "0.0")); Ok (CFloat (FFin "0.0"))] /\
  spec (pc toyO) [Call a; Call b] = [Ok (CFloat (FFin "0.0")); Ok (CFloat (FFin "-0.0"))].
Proof. exact parse_cell_cache_signed_zero_refuted. Qed.
