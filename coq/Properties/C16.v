(* Properties/C16.v -- C16: SCSV save/read round trip is lossless; invalid input is refused.
   Only statements; each is closed by `exact` of a lemma proved in Proofs_scsv.v. *)
From Coq Require Import String List ZArith Bool.
From PV Require Import Model_scsv Proofs_scsv.
Import ListNotations.
Open Scope string_scope.

Theorem C16_roundtrip : forall (O : oracles) (s : schema) (y : yres) (data : list (list cell)),
  oracle_ok O ->
  validate_schema O s = Ok true ->
  representable O s data = true ->
  header_faithful O s y = true ->
  read_back O s y data = Ok (names s, data).
Proof. exact roundtrip_proof. Qed.
