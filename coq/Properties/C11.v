(* Properties/C11.v -- C11: elastic tensor representations are mutually consistent,
   norm-preserving maps.  Only statements; each is closed by `exact` of a lemma proved in
   Proofs_tensors_*.v.  All k_* functions are the definitions regenerated from
   /repo/src/pydrex/tensors.py (gen/Gen_tensors.v); arrays are flat row-major
   (t4 a p q r s = a(27p+9q+3r+s), mat6 a i j = a(6i+j), mat3 a i j = a(3i+j)). *)
From Coq Require Import Reals ZArith List.
From PV Require Import Num NumR Model_voigt Model_decomp Proofs_tensors_alg Proofs_tensors_rot
  Proofs_tensors_maps Proofs_tensors_proj Proofs_tensors_polar Inst_polar Proofs_tensors_polar2.
From PV.gen Require Import Gen_tensors Gen_polar.
Import ListNotations.
Open Scope R_scope.

(* ---- index maps: exhaustive over the 81 (p,q,r,s) and the 36 (i,j) ---- *)
Theorem C11_voigt_index_exhaustive : forall (M : arr NumR) p q r s,
  (p < 3)%nat -> (q < 3)%nat -> (r < 3)%nat -> (s < 3)%nat ->
  t4 (k_voigt_to_elastic_tensor M) p q r s = mat6 M (vidx p q) (vidx r s).
Proof. exact vte_index_exhaustive. Qed.

(* entry (i,j) of the Voigt matrix of ANY 4th-order tensor is the symmetrised mean over the
   index tuples that map to (i,j) *)
Theorem C11_inverse_index_exhaustive : forall (T : arr NumR) i j, (i < 6)%nat -> (j < 6)%nat ->
  mat6 (k_elastic_tensor_to_voigt T) i j = (pre_mean (t4 T) i j + pre_mean (t4 T) j i) / 2.
Proof. exact etv_index_exhaustive. Qed.

Theorem C11_preimages_complete : forall p q, (p < 3)%nat -> (q < 3)%nat -> In (p, q) (pre (vidx p q)).
Proof. exact pre_complete. Qed.
Theorem C11_preimages_sound : forall i p q, (i < 6)%nat -> In (p, q) (pre i) ->
  vidx p q = i /\ (p < 3)%nat /\ (q < 3)%nat.
Proof. exact pre_sound. Qed.

Theorem C11_vte_symmetries : forall M : arr NumR, sym6 M ->
  elastic_sym (t4 (k_voigt_to_elastic_tensor M)).
Proof. exact vte_symmetries. Qed.

(* ---- contractions = voigt_decompose ---- *)
Theorem C11_contractions : forall M : arr NumR, sym6 M ->
  let C := t4 (k_voigt_to_elastic_tensor M) in
  eq2b (mat3 (fst (k_voigt_decompose M))) (dil4 C) /\
  eq2b (mat3 (snd (k_voigt_decompose M))) (dev4 C).
Proof. exact contractions. Qed.

(* ---- inverses ---- *)
Theorem C11_etv_vte : forall M : arr NumR, sym6 M -> forall i j, (i < 6)%nat -> (j < 6)%nat ->
  mat6 (k_elastic_tensor_to_voigt (k_voigt_to_elastic_tensor M)) i j = mat6 M i j.
Proof. exact etv_vte. Qed.

Theorem C11_vte_etv : forall T : arr NumR, elastic_sym (t4 T) ->
  eq4b (t4 (k_voigt_to_elastic_tensor (k_elastic_tensor_to_voigt T))) (t4 T).
Proof. exact vte_etv. Qed.

Theorem C11_etv_symmetric : forall T : arr NumR, sym6 (k_elastic_tensor_to_voigt T).
Proof. exact etv_symmetric. Qed.

Theorem C11_v2m_total : forall x : arr NumR, exists M, k_voigt_vector_to_matrix x = Ok M.
Proof. exact v2m_total. Qed.

Theorem C11_v2m_symmetric : forall x M : arr NumR, k_voigt_vector_to_matrix x = Ok M -> sym6 M.
Proof. exact v2m_symmetric. Qed.

Theorem C11_m2v_v2m : forall x M : arr NumR, k_voigt_vector_to_matrix x = Ok M ->
  forall k, (k < 21)%nat -> k_voigt_matrix_to_vector M k = x k.
Proof. exact m2v_v2m. Qed.

Theorem C11_v2m_m2v : forall M M' : arr NumR, sym6 M ->
  k_voigt_vector_to_matrix (k_voigt_matrix_to_vector M) = Ok M' ->
  forall i j, (i < 6)%nat -> (j < 6)%nat -> mat6 M' i j = mat6 M i j.
Proof. exact v2m_m2v. Qed.

Theorem C11_vector_norm_is_frobenius : forall M : arr NumR, sym6 M ->
  sumsq 21 (k_voigt_matrix_to_vector M) = sumsq 81 (k_voigt_to_elastic_tensor M).
Proof. exact vector_norm_is_frobenius. Qed.

(* ---- rotation ---- *)
Theorem C11_rotate_is_mode_products : forall T Q : arr NumR,
  eq4b (t4 (k_rotate T Q)) (rot4 (t4 T) (mat3 Q)).
Proof. exact rotate_is_mode_products. Qed.

Theorem C11_rotate_transformation_law : forall T Q : arr NumR,
  eq4b (t4 (k_rotate T Q))
       (fun i j k l => sum3 (fun a => sum3 (fun b => sum3 (fun c => sum3 (fun d =>
          mat3 Q i a * mat3 Q j b * mat3 Q k c * mat3 Q l d * t4 T a b c d))))).
Proof. exact rotate_transformation_law. Qed.

Theorem C11_rotate_id : forall T : arr NumR, eq4b (t4 (k_rotate T eye3)) (t4 T).
Proof. exact rotate_id. Qed.

(* group action, for ALL matrices R1 R2 *)
Theorem C11_rotate_compose : forall T R1 R2 : arr NumR,
  eq4b (t4 (k_rotate (k_rotate T R1) R2)) (t4 (k_rotate T (matmul3 R2 R1))).
Proof. exact rotate_compose. Qed.

Theorem C11_rotate_norm : forall T Q : arr NumR, orth (mat3 Q) ->
  sumsq 81 (k_rotate T Q) = sumsq 81 T.
Proof. exact rotate_norm. Qed.

Theorem C11_rotate_symmetries : forall T Q : arr NumR,
  elastic_sym (t4 T) -> elastic_sym (t4 (k_rotate T Q)).
Proof. exact rotate_symmetries. Qed.

(* ---- projectors ---- *)
Theorem C11_hex_total : forall x : arr NumR, k_hex_project x = Ok (hexv x).
Proof. exact hex_ok. Qed.

Theorem C11_mono_linear : forall a b (x y : arr NumR),
  veq (k_mono_project (vlin a x b y)) (vlin a (k_mono_project x) b (k_mono_project y)).
Proof. exact mono_linear. Qed.
Theorem C11_ortho_linear : forall a b (x y : arr NumR),
  veq (k_ortho_project (vlin a x b y)) (vlin a (k_ortho_project x) b (k_ortho_project y)).
Proof. exact ortho_linear. Qed.
Theorem C11_tetr_linear : forall a b (x y : arr NumR),
  veq (k_tetr_project (vlin a x b y)) (vlin a (k_tetr_project x) b (k_tetr_project y)).
Proof. exact tetr_linear. Qed.
Theorem C11_hex_linear : forall a b (x y : arr NumR),
  veq (hexv (vlin a x b y)) (vlin a (hexv x) b (hexv y)).
Proof. exact hex_linear. Qed.

Theorem C11_mono_idempotent : forall x : arr NumR, veq (k_mono_project (k_mono_project x)) (k_mono_project x).
Proof. exact mono_idem. Qed.
Theorem C11_ortho_idempotent : forall x : arr NumR, veq (k_ortho_project (k_ortho_project x)) (k_ortho_project x).
Proof. exact ortho_idem. Qed.
Theorem C11_tetr_idempotent : forall x : arr NumR, veq (k_tetr_project (k_tetr_project x)) (k_tetr_project x).
Proof. exact tetr_idem. Qed.
Theorem C11_hex_idempotent : forall x : arr NumR, veq (hexv (hexv x)) (hexv x).
Proof. exact hex_idem. Qed.

Theorem C11_mono_selfadjoint : forall x y : arr NumR, dot21 (k_mono_project x) y = dot21 x (k_mono_project y).
Proof. exact mono_selfadj. Qed.
Theorem C11_ortho_selfadjoint : forall x y : arr NumR, dot21 (k_ortho_project x) y = dot21 x (k_ortho_project y).
Proof. exact ortho_selfadj. Qed.
Theorem C11_tetr_selfadjoint : forall x y : arr NumR, dot21 (k_tetr_project x) y = dot21 x (k_tetr_project y).
Proof. exact tetr_selfadj. Qed.
Theorem C11_hex_selfadjoint : forall x y : arr NumR, dot21 (hexv x) y = dot21 x (hexv y).
Proof. exact hex_selfadj. Qed.

(* nested ranges  iso < hex < tetr < ortho < mono *)
Theorem C11_nested_mono_ortho : forall x : arr NumR,
  veq (k_mono_project (k_ortho_project x)) (k_ortho_project x) /\
  veq (k_ortho_project (k_mono_project x)) (k_ortho_project x).
Proof. exact (fun x => conj (mono_ortho x) (ortho_mono x)). Qed.
Theorem C11_nested_ortho_tetr : forall x : arr NumR,
  veq (k_ortho_project (k_tetr_project x)) (k_tetr_project x) /\
  veq (k_tetr_project (k_ortho_project x)) (k_tetr_project x).
Proof. exact (fun x => conj (ortho_tetr x) (tetr_ortho x)). Qed.
Theorem C11_nested_tetr_hex : forall x : arr NumR,
  veq (k_tetr_project (hexv x)) (hexv x) /\ veq (hexv (k_tetr_project x)) (hexv x).
Proof. exact (fun x => conj (tetr_hex x) (hex_tetr x)). Qed.
Theorem C11_nested_hex_iso : forall K G, veq (hexv (iso_vec K G)) (iso_vec K G).
Proof. exact hex_iso. Qed.

Theorem C11_pythagoras_chain : forall x : arr NumR,
  let m := k_mono_project x in let o := k_ortho_project m in
  let t := k_tetr_project o in let h := hexv t in
  sumsq 21 x = sumsq 21 (vsub x m) + sumsq 21 (vsub m o) + sumsq 21 (vsub o t)
               + sumsq 21 (vsub t h) + sumsq 21 h.
Proof. exact pythagoras_chain. Qed.

(* ---- polar decomposition over the SVD oracle (U, S, Vh) ---- *)
Theorem C11_polar_left_orthogonal : forall U S Vh : arr NumR,
  orth (mat3 U) -> orth (tr3 (mat3 U)) -> orth (mat3 Vh) -> orth (tr3 (mat3 Vh)) ->
  let R := fst (polar_left U S Vh) in orth (mat3 R) /\ orth (tr3 (mat3 R)).
Proof. exact polar_left_orthogonal. Qed.

Theorem C11_polar_left_stretch : forall U S Vh : arr NumR,
  (forall i, (i < 3)%nat -> 0 <= S i) ->
  let P := snd (polar_left U S Vh) in sym3 (mat3 P) /\ forall x, 0 <= quad (mat3 P) x.
Proof. exact (fun U S Vh HS => conj (polar_left_symmetric U S Vh) (polar_left_psd U S Vh HS)). Qed.

(* M = P . R  (stretch on the left -- the order the `left=True` variant realises) *)
Theorem C11_polar_left_product : forall M U S Vh : arr NumR,
  orth (mat3 U) -> eq2b (mat3 M) (mm (mat3 U) (mm (diagm S) (mat3 Vh))) ->
  eq2b (mm (mat3 (snd (polar_left U S Vh))) (mat3 (fst (polar_left U S Vh)))) (mat3 M).
Proof. exact polar_left_product. Qed.

Theorem C11_polar_right_total : forall M S Vh : arr NumR,
  det3 (matmul3 (transpose3 Vh) (matmul3 (diag3 S) Vh)) <> 0 ->
  exists Rr, polar_right M S Vh = Ok (Rr, matmul3 (transpose3 Vh) (matmul3 (diag3 S) Vh)).
Proof. exact polar_right_total. Qed.

(* M = R . U  with U = Vh^T diag(S) Vh symmetric positive semi-definite, R^T R = I *)
Theorem C11_polar_right : forall M U S Vh : arr NumR,
  orth (mat3 U) -> orth (tr3 (mat3 Vh)) -> (forall i, (i < 3)%nat -> 0 <= S i) ->
  eq2b (mat3 M) (mm (mat3 U) (mm (diagm S) (mat3 Vh))) ->
  forall Rr Ur, polar_right M S Vh = Ok (Rr, Ur) ->
  (eq2b (mm (mat3 Rr) (mat3 Ur)) (mat3 M) /\ orth (mat3 Rr)) /\
  sym3 (mat3 Ur) /\ forall x, 0 <= quad (mat3 Ur) x.
Proof.
  exact (fun M U S Vh HU1 HV2 HS HM Rr Ur E =>
    match polar_right_product M U S Vh HU1 HV2 HM Rr Ur E with
    | conj Eu (conj Hp Ho) =>
        conj (conj Hp Ho)
          (eq_ind_r (fun Ur => sym3 (mat3 Ur) /\ forall x, 0 <= quad (mat3 Ur) x)
             (conj (polar_right_stretch_symmetric S Vh) (polar_right_stretch_psd S Vh HS)) Eu)
    end).
Qed.

(* ---- polar decomposition: the GENERATED code (gen/Gen_polar.v, regenerated from the real
   pydrex.tensors.polar_decompose over the SVD oracle on every run) ---- *)
(* tie: both generated variants ARE the hand-written models the statements above are about
   (Leibniz equalities, all matrices, all oracle outputs, no hypothesis) *)
Theorem C11_polar_left_is_generated : forall M U S Vh : arr NumR,
  k_polar_decompose_left M U S Vh = polar_left U S Vh.
Proof. exact polar_left_inst. Qed.
(* the right variant is generated from whichever of the two versions of the source is current: the original
   `M @ inv(U_m), U_m` (Model_decomp.polar_right; raises for singular M -- finding) or the repaired `U @ Vh, U_m`
   (Model_decomp.polar_right_repaired, fixes/C11-polar-right-singular.patch) *)
Theorem C11_polar_right_is_generated :
  (forall M U S Vh : arr NumR, k_polar_decompose_right M U S Vh = polar_right M S Vh) \/
  (forall M U S Vh : arr NumR, k_polar_decompose_right M U S Vh = Ok (polar_right_repaired U S Vh)).
Proof. exact polar_right_inst. Qed.

(* the whole polar clause on what polar_decompose(M) returns, over the SVD oracle hypotheses
   (U, Vh orthogonal, S >= 0, M = U diag(S) Vh): R = U Vh orthogonal on both sides,
   P = U diag(S) U^T symmetric POSITIVE SEMI-DEFINITE, M = P R, and P P = M M^T *)
Theorem C11_polar_left_generated : forall M U S Vh : arr NumR,
  orth (mat3 U) -> orth (tr3 (mat3 U)) -> orth (mat3 Vh) -> orth (tr3 (mat3 Vh)) ->
  (forall i, (i < 3)%nat -> 0 <= S i) ->
  eq2b (mat3 M) (mm (mat3 U) (mm (diagm S) (mat3 Vh))) ->
  let '(R, P) := k_polar_decompose_left M U S Vh in
  (orth (mat3 R) /\ orth (tr3 (mat3 R))) /\
  (sym3 (mat3 P) /\ forall x, 0 <= quad (mat3 P) x) /\
  eq2b (mm (mat3 P) (mat3 R)) (mat3 M) /\
  eq2b (mm (mat3 P) (mat3 P)) (mm (mat3 M) (tr3 (mat3 M))).
Proof. exact polar_left_generated. Qed.

(* the stretch is a square root of M M^T ... *)
Theorem C11_polar_left_stretch_squared : forall M U S Vh : arr NumR,
  orth (mat3 U) -> orth (tr3 (mat3 Vh)) ->
  eq2b (mat3 M) (mm (mat3 U) (mm (diagm S) (mat3 Vh))) ->
  let P := snd (polar_left U S Vh) in eq2b (mm (mat3 P) (mat3 P)) (mm (mat3 M) (tr3 (mat3 M))).
Proof. exact polar_left_stretch_squared. Qed.
(* ... hence a matrix with a negative direction x^T M x < 0 -- symmetric or not -- is never
   returned as its own stretch (what a "symmetric input: return (I, M)" shortcut would do) *)
Theorem C11_polar_stretch_not_input_when_indefinite : forall M U S Vh : arr NumR,
  (forall i, (i < 3)%nat -> 0 <= S i) ->
  (exists x, quad (mat3 M) x < 0) -> ~ eq2b (mat3 (snd (polar_left U S Vh))) (mat3 M).
Proof. exact polar_stretch_not_input_when_indefinite. Qed.

(* right variant on the generated code, for either version of the source: a returned pair has R U_m = M,
   R^T R = I, U_m symmetric positive semi-definite; if the call raises it is LinAlgError and M is singular *)
Theorem C11_polar_right_generated : forall M U S Vh : arr NumR,
  orth (mat3 U) -> orth (tr3 (mat3 U)) -> orth (mat3 Vh) -> orth (tr3 (mat3 Vh)) -> (forall i, (i < 3)%nat -> 0 <= S i) ->
  eq2b (mat3 M) (mm (mat3 U) (mm (diagm S) (mat3 Vh))) ->
  match k_polar_decompose_right M U S Vh with
  | Ok (R, Ur) =>
      eq2b (mm (mat3 R) (mat3 Ur)) (mat3 M) /\ orth (mat3 R) /\
      sym3 (mat3 Ur) /\ forall x, 0 <= quad (mat3 Ur) x
  | Err e => e = ValueError /\ det3 M = 0
  end.
Proof. exact polar_right_generated. Qed.
(* the ORIGINAL version (Model_decomp.polar_right): a value exactly when det M <> 0 *)
Theorem C11_polar_right_ok_iff : forall M U S Vh : arr NumR,
  orth (mat3 U) -> orth (mat3 Vh) ->
  eq2b (mat3 M) (mm (mat3 U) (mm (diagm S) (mat3 Vh))) ->
  (exists Rr, polar_right M S Vh = Ok (Rr, matmul3 (transpose3 Vh) (matmul3 (diag3 S) Vh))) <-> det3 M <> 0.
Proof. exact polar_right_ok_iff. Qed.
(* finding about the original version: the property wants a decomposition of EVERY real 3x3 matrix;
   it refuses the singular ones *)
Theorem C11_polar_right_singular_refuted : forall M U S Vh : arr NumR,
  orth (mat3 U) -> orth (mat3 Vh) ->
  eq2b (mat3 M) (mm (mat3 U) (mm (diagm S) (mat3 Vh))) ->
  det3 M = 0 -> polar_right M S Vh = Err ValueError.
Proof. exact polar_right_singular_raises. Qed.
(* the REPAIRED version (Model_decomp.polar_right_repaired = (U Vh, U_m), fixes/C11-polar-right-singular.patch):
   orthogonal on both sides and R U_m = M for EVERY M, no determinant hypothesis; with it the call never raises *)
Theorem C11_polar_right_repaired : forall M U S Vh : arr NumR,
  orth (mat3 U) -> orth (tr3 (mat3 U)) -> orth (mat3 Vh) -> orth (tr3 (mat3 Vh)) ->
  eq2b (mat3 M) (mm (mat3 U) (mm (diagm S) (mat3 Vh))) ->
  let '(R, Um) := polar_right_repaired U S Vh in
  (orth (mat3 R) /\ orth (tr3 (mat3 R))) /\ eq2b (mm (mat3 R) (mat3 Um)) (mat3 M).
Proof. exact polar_right_repaired_spec. Qed.
Theorem C11_polar_right_repaired_total : forall M U S Vh : arr NumR,
  (forall M' U' S' Vh' : arr NumR, k_polar_decompose_right M' U' S' Vh' = Ok (polar_right_repaired U' S' Vh')) ->
  exists R Ur, k_polar_decompose_right M U S Vh = Ok (R, Ur).
Proof. exact polar_right_repaired_total. Qed.

(* non-vacuity of the singular / indefinite hypotheses: the exactly symmetric, singular,
   indefinite M = diag(1, -1, 0) with the SVD U = diag(1, -1, 1), S = (1, 1, 0), Vh = I *)
Example C11_polar_nonvacuous :
  orth (mat3 Ux) /\ orth (tr3 (mat3 Ux)) /\ orth (mat3 (@eye3 NumR)) /\ orth (tr3 (mat3 (@eye3 NumR))) /\
  (forall i, (i < 3)%nat -> 0 <= Sx i) /\
  eq2b (mat3 Mx) (mm (mat3 Ux) (mm (diagm Sx) (mat3 (@eye3 NumR)))) /\
  @det3 NumR Mx = 0 /\ (exists x, quad (mat3 Mx) x < 0) /\
  (forall i j, (i < 3)%nat -> (j < 3)%nat -> mat3 Mx i j = mat3 Mx j i).
Proof. exact polar2_nonvacuous. Qed.

(* ---- invariants ---- *)
Theorem C11_charpoly_coeffs : forall (M : arr NumR) x,
  charpoly M x = - (x * x * x) + I1 M * (x * x) - I2 M * x + I3 M.
Proof. exact charpoly_coeffs. Qed.

Theorem C11_invariants_are_esf : forall (M : arr NumR) l1 l2 l3,
  (forall x, charpoly M x = (l1 - x) * (l2 - x) * (l3 - x)) ->
  I1 M = l1 + l2 + l3 /\ I2 M = l1 * l2 + l2 * l3 + l3 * l1 /\ I3 M = l1 * l2 * l3.
Proof. exact invariants_are_esf. Qed.

(* ---- non-vacuity: the hypotheses above are satisfiable ---- *)
Example C11_nonvacuous :
  orth (mat3 (@eye3 NumR)) /\ orth (tr3 (mat3 (@eye3 NumR))) /\
  (forall i, (i < 3)%nat -> 0 <= (fun _ : nat => 1) i) /\
  eq2b (mat3 (@eye3 NumR)) (mm (mat3 (@eye3 NumR)) (mm (diagm (fun _ => 1)) (mat3 (@eye3 NumR)))) /\
  @det3 NumR (@matmul3 NumR (transpose3 eye3) (matmul3 (@diag3 NumR (fun _ => 1)) eye3)) <> 0 /\
  (forall i j, (i < 6)%nat -> (j < 6)%nat -> mat6 (fun _ => 1) i j = mat6 (fun _ => 1) j i) /\
  elastic_sym (t4 (fun _ => 1)).
Proof. exact C11_nonvacuous_proof. Qed.
