(* Properties/C10.v -- C10: the Voigt average is the volume-weighted mean of the rotated
   single-crystal stiffnesses.  Only statements; each is closed by `exact` of a lemma of
   Proofs_voigt.v / Proofs_voigt2.v / Proofs_voigt3.v.  Model_voigt.voigt_averages follows the source as it is now (stiffness
   looked up by phase ordinal); it runs the generated kernels of Gen_tensors. *)
From Coq Require Import Reals ZArith List Permutation.
From PV Require Import Num NumR Model_voigt Proofs_tensors_alg Proofs_tensors_rot
  Proofs_tensors_maps Proofs_tensors_proj Inst_tensors Proofs_voigt Model_decomp Proofs_decomp Proofs_voigt2 Proofs_voigt3
  Inst_voigt Inst_voigt_a0 Inst_voigt_a1 Inst_voigt_a01 Inst_voigt_a10 Proofs_voigt_gen.
From PV.gen Require Import Gen_tensors Gen_voigt.
Import ListNotations.
Open Scope R_scope.

(* result_i[k] = sum_m sum_n  f_{m,i,n} * phi_{phase m} * etv(rotate(vte(C_{phase m}), A_{m,i,n}^T))[k]
   for any number of snapshots, minerals and grains; C selected by PHASE IDENTITY *)
Theorem C10_avg_is_weighted_sum : forall tensors assemblage phis (ms : list (@mineral NumR)) res,
  voigt_averages ms assemblage phis tensors = Ok res ->
  length res = n_steps ms /\
  forall i k, (i < n_steps ms)%nat -> (k < 36)%nat ->
    nth i res zeroA k
    = rsum (map (fun m => rsum (map (fun n =>
        g_frac m i n * m_phi assemblage phis m *
        k_elastic_tensor_to_voigt
          (k_rotate (k_voigt_to_elastic_tensor (m_C tensors m)) (transpose3 (g_orient m i n))) k)
        (seq 0 (n_grains ms)))) ms).
Proof. exact avg_is_weighted_sum. Qed.

Theorem C10_avg_symmetric : forall tensors assemblage phis (ms : list (@mineral NumR)) res,
  voigt_averages ms assemblage phis tensors = Ok res ->
  forall i, (i < n_steps ms)%nat -> sym6 (nth i res zeroA).
Proof. exact avg_symmetric. Qed.

Theorem C10_avg_rejects : forall tensors assemblage phis (ms : list (@mineral NumR)),
  ms <> [] -> ~ consistent ms -> voigt_averages ms assemblage phis tensors = Err ValueError.
Proof. exact avg_rejects. Qed.

Theorem C10_avg_accepts_only_consistent : forall tensors assemblage phis (ms : list (@mineral NumR)) res,
  voigt_averages ms assemblage phis tensors = Ok res -> consistent ms.
Proof. exact avg_accepts_only_consistent. Qed.

Theorem C10_avg_single_aligned : forall tensors assemblage phis (m : @mineral NumR) res,
  m_ngrains m = 1%nat -> length (m_orients m) = 1%nat ->
  sym6 (m_C tensors m) -> is_identity (g_orient m 0 0) ->
  g_frac m 0 0 = 1 -> m_phi assemblage phis m = 1 ->
  voigt_averages [m] assemblage phis tensors = Ok res ->
  forall k, (k < 36)%nat -> nth 0 res zeroA k = m_C tensors m k.
Proof. exact avg_single_aligned. Qed.

(* K and G are linear functionals of the Voigt matrix ... *)
Theorem C10_KG_linear_functionals : forall M : arr NumR,
  Kof M = (M 0%nat + M 6%nat + M 12%nat + (M 1%nat + M 7%nat + M 13%nat) + (M 2%nat + M 8%nat + M 14%nat)) / 9 /\
  Gof M = ((M 0%nat + M 28%nat + M 35%nat) + (M 7%nat + M 21%nat + M 35%nat) + (M 14%nat + M 21%nat + M 28%nat) - 3 * Kof M) / 10.
Proof. exact KG_formula. Qed.

(* ... and every term of the weighted sum has the moduli of its single crystal, whatever the
   grain orientation (any A with A A^T = I) *)
Theorem C10_grain_moduli : forall tensors (m : @mineral NumR) i n,
  sym6 (m_C tensors m) -> orth (mat3 (transpose3 (g_orient m i n))) ->
  Kof (grain_voigt tensors m i n) = Kof (m_C tensors m) /\
  Gof (grain_voigt tensors m i n) = Gof (m_C tensors m).
Proof. exact grain_moduli. Qed.

(* avg_moduli, any numbers of snapshots / minerals / grains: if in snapshot i the grain
   fractions of every mineral sum to one (and the orientations are orthogonal, the stiffness
   matrices symmetric), the bulk and shear moduli of the averaged matrix are the sums over the
   mineral list of  phase_fractions[assemblage.index(phase m)] * K (resp. G) of the single
   crystal of phase m  -- no orientation appears: texture independent.  (The code weights
   every listed mineral by the fraction of its phase, so this is the exact form; it needs NO
   assumption on the phase fractions.) *)
Theorem C10_avg_moduli : forall tensors assemblage phis (ms : list (@mineral NumR)) res,
  voigt_averages ms assemblage phis tensors = Ok res ->
  (forall m, In m ms -> sym6 (m_C tensors m)) ->
  forall i, (i < n_steps ms)%nat ->
  (forall m n, In m ms -> (n < n_grains ms)%nat -> orth (mat3 (transpose3 (g_orient m i n)))) ->
  (forall m, In m ms -> rsum (map (fun n => g_frac m i n) (seq 0 (n_grains ms))) = 1) ->
  Kof (nth i res zeroA) = rsum (map (fun m => m_phi assemblage phis m * Kof (m_C tensors m)) ms) /\
  Gof (nth i res zeroA) = rsum (map (fun m => m_phi assemblage phis m * Gof (m_C tensors m)) ms).
Proof. exact avg_moduli. Qed.

(* ... and when the phase fractions of the listed minerals sum to one this is a weighted MEAN:
   single crystals that share K0, G0 average to exactly K0, G0 *)
Theorem C10_avg_moduli_mean : forall tensors assemblage phis (ms : list (@mineral NumR)) res K0 G0,
  voigt_averages ms assemblage phis tensors = Ok res ->
  (forall m, In m ms -> sym6 (m_C tensors m)) ->
  forall i, (i < n_steps ms)%nat ->
  (forall m n, In m ms -> (n < n_grains ms)%nat -> orth (mat3 (transpose3 (g_orient m i n)))) ->
  (forall m, In m ms -> rsum (map (fun n => g_frac m i n) (seq 0 (n_grains ms))) = 1) ->
  rsum (map (fun m => m_phi assemblage phis m) ms) = 1 ->
  (forall m, In m ms -> Kof (m_C tensors m) = K0 /\ Gof (m_C tensors m) = G0) ->
  Kof (nth i res zeroA) = K0 /\ Gof (nth i res zeroA) = G0.
Proof. exact avg_moduli_mean. Qed.

(* replacing a grain orientation A by A.Q^T rotates that grain's contribution by Q (for ALL
   matrices Q) ... *)
Theorem C10_grain_corotates : forall C o Q : arr NumR, sym6 C ->
  let C4 := k_voigt_to_elastic_tensor C in
  eq4b (t4 (k_voigt_to_elastic_tensor (k_elastic_tensor_to_voigt
              (k_rotate C4 (transpose3 (matmul3 o (transpose3 Q)))))))
       (t4 (k_rotate (k_voigt_to_elastic_tensor (k_elastic_tensor_to_voigt
              (k_rotate C4 (transpose3 o)))) Q)).
Proof. exact grain_corotates. Qed.

(* ... hence avg_corotates: rot_mineral Q m is m with every orientation A (all snapshots, all
   grains) replaced by A.Q^T.  The call on the re-expressed minerals succeeds whenever the
   original one does, returns as many matrices, and each is the rotated one:
   vte(avg') = rotate(vte(avg), Q) on all 81 components -- for every 3x3 matrix Q. *)
Theorem C10_avg_corotates : forall tensors assemblage phis (ms : list (@mineral NumR)) (Q : arr NumR) res,
  voigt_averages ms assemblage phis tensors = Ok res ->
  (forall m, In m ms -> sym6 (m_C tensors m)) ->
  exists res', voigt_averages (map (rot_mineral Q) ms) assemblage phis tensors = Ok res' /\
    length res' = length res /\
    forall i, (i < n_steps ms)%nat ->
      eq4b (t4 (k_voigt_to_elastic_tensor (nth i res' zeroA)))
           (t4 (k_rotate (k_voigt_to_elastic_tensor (nth i res zeroA)) Q)).
Proof. exact avg_corotates. Qed.

Theorem C10_rot_mineral_spec : forall (Q : arr NumR) (m : @mineral NumR),
  m_phase (rot_mineral Q m) = m_phase m /\ m_ngrains (rot_mineral Q m) = m_ngrains m /\
  m_fracs (rot_mineral Q m) = m_fracs m /\
  m_orients (rot_mineral Q m) = map (map (fun A => matmul3 A (transpose3 Q))) (m_orients m).
Proof. exact rot_mineral_spec. Qed.

(* when does the call succeed: exactly for consistent minerals all of whose innermost
   expressions evaluate (phase ordinal indexes a tensor, grain indexes in range, phase in the
   assemblage, its position indexes a fraction) *)
Theorem C10_avg_ok_iff : forall tensors assemblage phis (ms : list (@mineral NumR)),
  (exists res, voigt_averages ms assemblage phis tensors = Ok res)
  <-> consistent ms /\ all_grains_ok tensors assemblage phis ms.
Proof. exact voigt_ok_iff. Qed.

(* avg_order_independent (1): any permutation of the mineral list -- same success, same
   number of snapshots, same entries *)
Theorem C10_avg_order_independent : forall tensors assemblage phis (ms ms' : list (@mineral NumR)) res,
  Permutation ms ms' ->
  voigt_averages ms assemblage phis tensors = Ok res ->
  exists res', voigt_averages ms' assemblage phis tensors = Ok res' /\
    length res' = length res /\
    forall i k, (i < n_steps ms)%nat -> (k < 36)%nat -> nth i res' zeroA k = nth i res zeroA k.
Proof. exact avg_order_independent. Qed.

(* avg_order_independent (2): simultaneous permutation of the phase assemblage and of the
   phase fractions (phases listed once) -- same success, same entries: the stiffness is found
   by phase ordinal, the fraction by the position of the phase *)
Theorem C10_avg_assemblage_order_independent :
  forall tensors (ass ass' : list Z) (phis phis' : list R) (ms : list (@mineral NumR)) res,
  NoDup ass -> length ass = length phis -> length ass' = length phis' ->
  Permutation (combine ass phis) (combine ass' phis') ->
  voigt_averages ms ass phis tensors = Ok res ->
  exists res', voigt_averages ms ass' phis' tensors = Ok res' /\
    length res' = length res /\
    forall i k, (i < n_steps ms)%nat -> (k < 36)%nat -> nth i res' zeroA k = nth i res zeroA k.
Proof. exact avg_assemblage_order_independent. Qed.

Example C10_nonvacuous :
  consistent [m_example] /\ is_identity (g_orient m_example 0 0) /\ g_frac m_example 0 0 = 1 /\
  m_phi [0%Z] [1] m_example = 1 /\ orth (mat3 (transpose3 (g_orient m_example 0 0))).
Proof. exact C10_nonvacuous_proof. Qed.

(* the hypotheses of the aggregate theorems hold together for a succeeding call *)
Example C10_nonvacuous_aggregate :
  (exists res, voigt_averages [m_example] [0%Z] [1] [C_example] = Ok res) /\
  (forall m, In m [m_example] -> sym6 (m_C [C_example] m)) /\
  (forall m n, In m [m_example] -> (n < n_grains [m_example])%nat ->
      orth (mat3 (transpose3 (g_orient m 0 n)))) /\
  (forall m, In m [m_example] ->
      rsum (map (fun n => g_frac m 0 n) (seq 0 (n_grains [m_example]))) = 1) /\
  rsum (map (fun m => m_phi [0%Z] [1] m) [m_example]) = 1 /\
  (0 < n_steps [m_example])%nat /\
  NoDup [0%Z; 1%Z] /\
  Permutation (combine [0%Z; 1%Z] [1/4; 3/4]) (combine [1%Z; 0%Z] [3/4; 1/4]).
Proof. exact C10_nonvacuous_agg_proof. Qed.

(* ---- tie T (round 5): pydrex.minerals.voigt_averages is regenerated from the source on every run at small sizes
   (gen/Gen_voigt.v: real Mineral / StiffnessTensors objects with symbolic contents, symbolic phase ordinals, the real
   StiffnessTensors.__iter__, the tensor kernels kept as calls of Gen_tensors).  Each statement: the generated
   configuration IS the list model above on the corresponding minerals (`mk_min ph n_grains n_orientation_snapshots
   n_fraction_snapshots grains_per_array O F`), for ALL phase ordinals and all numbers; `flat_res` lays the list of
   result matrices out as the (ns, 6, 6) block the code returns. ---- *)
(* what flat_res means: entry (i, k) of the block is entry k of the model's i-th matrix; errors are the model's errors.
   So every theorem above holds for the block a generated configuration returns. *)
Theorem C10_generated_block_is_model_result : forall (r : res (list (arr NumR))) (a : arr NumR),
  flat_res r = Ok a ->
  exists res, r = Ok res /\
    forall i k, (i < length res)%nat -> (k < 36)%nat -> a (36 * i + k)%nat = nth i res zeroA k.
Proof. exact generated_block_is_model_result. Qed.
Theorem C10_generated_error_is_model_error : forall (r : res (list (arr NumR))) (e : err),
  flat_res r = Err e <-> r = Err e.
Proof. exact generated_error_is_model_error. Qed.

Theorem C10_generated_a0_m1_s1_g1 : forall (ph0 : Z) (phis Sol Sen O0 F0 : RA),
  @k_voigt_a0_m1_s1_g1 NumR ph0 phis Sol Sen O0 F0 =
  flat_res (@voigt_averages NumR [mk_min ph0 1 1 1 1 O0 F0] [0%Z] (arr_to_list 1 phis) [Sol; Sen]).
Proof. exact voigt_inst_a0_m1_s1_g1. Qed.

Theorem C10_generated_a0_m1_s2_g1 : forall (ph0 : Z) (phis Sol Sen O0 F0 : RA),
  @k_voigt_a0_m1_s2_g1 NumR ph0 phis Sol Sen O0 F0 =
  flat_res (@voigt_averages NumR [mk_min ph0 1 2 2 1 O0 F0] [0%Z] (arr_to_list 1 phis) [Sol; Sen]).
Proof. exact voigt_inst_a0_m1_s2_g1. Qed.

Theorem C10_generated_a0_m1_s1_g2 : forall (ph0 : Z) (phis Sol Sen O0 F0 : RA),
  @k_voigt_a0_m1_s1_g2 NumR ph0 phis Sol Sen O0 F0 =
  flat_res (@voigt_averages NumR [mk_min ph0 2 1 1 2 O0 F0] [0%Z] (arr_to_list 1 phis) [Sol; Sen]).
Proof. exact voigt_inst_a0_m1_s1_g2. Qed.

Theorem C10_generated_a1_m1_s1_g1 : forall (ph0 : Z) (phis Sol Sen O0 F0 : RA),
  @k_voigt_a1_m1_s1_g1 NumR ph0 phis Sol Sen O0 F0 =
  flat_res (@voigt_averages NumR [mk_min ph0 1 1 1 1 O0 F0] [1%Z] (arr_to_list 1 phis) [Sol; Sen]).
Proof. exact voigt_inst_a1_m1_s1_g1. Qed.

Theorem C10_generated_a1_m1_s2_g1 : forall (ph0 : Z) (phis Sol Sen O0 F0 : RA),
  @k_voigt_a1_m1_s2_g1 NumR ph0 phis Sol Sen O0 F0 =
  flat_res (@voigt_averages NumR [mk_min ph0 1 2 2 1 O0 F0] [1%Z] (arr_to_list 1 phis) [Sol; Sen]).
Proof. exact voigt_inst_a1_m1_s2_g1. Qed.

Theorem C10_generated_a1_m1_s1_g2 : forall (ph0 : Z) (phis Sol Sen O0 F0 : RA),
  @k_voigt_a1_m1_s1_g2 NumR ph0 phis Sol Sen O0 F0 =
  flat_res (@voigt_averages NumR [mk_min ph0 2 1 1 2 O0 F0] [1%Z] (arr_to_list 1 phis) [Sol; Sen]).
Proof. exact voigt_inst_a1_m1_s1_g2. Qed.

Theorem C10_generated_a01_m1_s1_g1 : forall (ph0 : Z) (phis Sol Sen O0 F0 : RA),
  @k_voigt_a01_m1_s1_g1 NumR ph0 phis Sol Sen O0 F0 =
  flat_res (@voigt_averages NumR [mk_min ph0 1 1 1 1 O0 F0] [0%Z; 1%Z] (arr_to_list 2 phis) [Sol; Sen]).
Proof. exact voigt_inst_a01_m1_s1_g1. Qed.

Theorem C10_generated_a01_m1_s2_g1 : forall (ph0 : Z) (phis Sol Sen O0 F0 : RA),
  @k_voigt_a01_m1_s2_g1 NumR ph0 phis Sol Sen O0 F0 =
  flat_res (@voigt_averages NumR [mk_min ph0 1 2 2 1 O0 F0] [0%Z; 1%Z] (arr_to_list 2 phis) [Sol; Sen]).
Proof. exact voigt_inst_a01_m1_s2_g1. Qed.

Theorem C10_generated_a01_m1_s1_g2 : forall (ph0 : Z) (phis Sol Sen O0 F0 : RA),
  @k_voigt_a01_m1_s1_g2 NumR ph0 phis Sol Sen O0 F0 =
  flat_res (@voigt_averages NumR [mk_min ph0 2 1 1 2 O0 F0] [0%Z; 1%Z] (arr_to_list 2 phis) [Sol; Sen]).
Proof. exact voigt_inst_a01_m1_s1_g2. Qed.

Theorem C10_generated_a10_m1_s1_g1 : forall (ph0 : Z) (phis Sol Sen O0 F0 : RA),
  @k_voigt_a10_m1_s1_g1 NumR ph0 phis Sol Sen O0 F0 =
  flat_res (@voigt_averages NumR [mk_min ph0 1 1 1 1 O0 F0] [1%Z; 0%Z] (arr_to_list 2 phis) [Sol; Sen]).
Proof. exact voigt_inst_a10_m1_s1_g1. Qed.

Theorem C10_generated_a10_m1_s2_g1 : forall (ph0 : Z) (phis Sol Sen O0 F0 : RA),
  @k_voigt_a10_m1_s2_g1 NumR ph0 phis Sol Sen O0 F0 =
  flat_res (@voigt_averages NumR [mk_min ph0 1 2 2 1 O0 F0] [1%Z; 0%Z] (arr_to_list 2 phis) [Sol; Sen]).
Proof. exact voigt_inst_a10_m1_s2_g1. Qed.

Theorem C10_generated_a10_m1_s1_g2 : forall (ph0 : Z) (phis Sol Sen O0 F0 : RA),
  @k_voigt_a10_m1_s1_g2 NumR ph0 phis Sol Sen O0 F0 =
  flat_res (@voigt_averages NumR [mk_min ph0 2 1 1 2 O0 F0] [1%Z; 0%Z] (arr_to_list 2 phis) [Sol; Sen]).
Proof. exact voigt_inst_a10_m1_s1_g2. Qed.

Theorem C10_generated_bad_ngrains : forall (ph0 ph1 : Z) (phis Sol Sen O0 F0 O1 F1 : RA),
  @k_voigt_bad_ngrains NumR ph0 ph1 phis Sol Sen O0 F0 O1 F1 =
  flat_res (@voigt_averages NumR [mk_min ph0 1 1 1 1 O0 F0; mk_min ph1 2 1 1 2 O1 F1] [0%Z; 1%Z] (arr_to_list 2 phis) [Sol; Sen]).
Proof. exact voigt_inst_bad_ngrains. Qed.

Theorem C10_generated_bad_osteps : forall (ph0 ph1 : Z) (phis Sol Sen O0 F0 O1 F1 : RA),
  @k_voigt_bad_osteps NumR ph0 ph1 phis Sol Sen O0 F0 O1 F1 =
  flat_res (@voigt_averages NumR [mk_min ph0 1 1 1 1 O0 F0; mk_min ph1 1 2 1 1 O1 F1] [0%Z; 1%Z] (arr_to_list 2 phis) [Sol; Sen]).
Proof. exact voigt_inst_bad_osteps. Qed.

Theorem C10_generated_bad_fsteps : forall (ph0 ph1 : Z) (phis Sol Sen O0 F0 O1 F1 : RA),
  @k_voigt_bad_fsteps NumR ph0 ph1 phis Sol Sen O0 F0 O1 F1 =
  flat_res (@voigt_averages NumR [mk_min ph0 1 1 1 1 O0 F0; mk_min ph1 1 1 2 1 O1 F1] [0%Z; 1%Z] (arr_to_list 2 phis) [Sol; Sen]).
Proof. exact voigt_inst_bad_fsteps. Qed.

Theorem C10_generated_bad_fsteps_first : forall (ph0 : Z) (phis Sol Sen O0 F0 : RA),
  @k_voigt_bad_fsteps_first NumR ph0 phis Sol Sen O0 F0 =
  flat_res (@voigt_averages NumR [mk_min ph0 1 1 2 1 O0 F0] [0%Z] (arr_to_list 1 phis) [Sol; Sen]).
Proof. exact voigt_inst_bad_fsteps_first. Qed.

Theorem C10_generated_no_minerals : forall (phis Sol Sen : RA),
  @k_voigt_no_minerals NumR phis Sol Sen =
  flat_res (@voigt_averages NumR [] [0%Z] (arr_to_list 1 phis) [Sol; Sen]).
Proof. exact voigt_inst_no_minerals. Qed.

Theorem C10_generated_ngrains_attr_larger : forall (ph0 : Z) (phis Sol Sen O0 F0 : RA),
  @k_voigt_ngrains_attr_larger NumR ph0 phis Sol Sen O0 F0 =
  flat_res (@voigt_averages NumR [mk_min ph0 2 1 1 1 O0 F0] [0%Z] (arr_to_list 1 phis) [Sol; Sen]).
Proof. exact voigt_inst_ngrains_attr_larger. Qed.

Theorem C10_generated_a0_m2_s1_g1 : forall (ph0 ph1 : Z) (phis Sol Sen O0 F0 O1 F1 : RA),
  @k_voigt_a0_m2_s1_g1 NumR ph0 ph1 phis Sol Sen O0 F0 O1 F1 =
  flat_res (@voigt_averages NumR [mk_min ph0 1 1 1 1 O0 F0; mk_min ph1 1 1 1 1 O1 F1] [0%Z] (arr_to_list 1 phis) [Sol; Sen]).
Proof. exact voigt_inst_a0_m2_s1_g1. Qed.

Theorem C10_generated_a0_m2_s2_g2 : forall (ph0 ph1 : Z) (phis Sol Sen O0 F0 O1 F1 : RA),
  @k_voigt_a0_m2_s2_g2 NumR ph0 ph1 phis Sol Sen O0 F0 O1 F1 =
  flat_res (@voigt_averages NumR [mk_min ph0 2 2 2 2 O0 F0; mk_min ph1 2 2 2 2 O1 F1] [0%Z] (arr_to_list 1 phis) [Sol; Sen]).
Proof. exact voigt_inst_a0_m2_s2_g2. Qed.

Theorem C10_generated_a1_m2_s1_g1 : forall (ph0 ph1 : Z) (phis Sol Sen O0 F0 O1 F1 : RA),
  @k_voigt_a1_m2_s1_g1 NumR ph0 ph1 phis Sol Sen O0 F0 O1 F1 =
  flat_res (@voigt_averages NumR [mk_min ph0 1 1 1 1 O0 F0; mk_min ph1 1 1 1 1 O1 F1] [1%Z] (arr_to_list 1 phis) [Sol; Sen]).
Proof. exact voigt_inst_a1_m2_s1_g1. Qed.

Theorem C10_generated_a1_m2_s2_g2 : forall (ph0 ph1 : Z) (phis Sol Sen O0 F0 O1 F1 : RA),
  @k_voigt_a1_m2_s2_g2 NumR ph0 ph1 phis Sol Sen O0 F0 O1 F1 =
  flat_res (@voigt_averages NumR [mk_min ph0 2 2 2 2 O0 F0; mk_min ph1 2 2 2 2 O1 F1] [1%Z] (arr_to_list 1 phis) [Sol; Sen]).
Proof. exact voigt_inst_a1_m2_s2_g2. Qed.

Theorem C10_generated_a01_m2_s1_g1 : forall (ph0 ph1 : Z) (phis Sol Sen O0 F0 O1 F1 : RA),
  @k_voigt_a01_m2_s1_g1 NumR ph0 ph1 phis Sol Sen O0 F0 O1 F1 =
  flat_res (@voigt_averages NumR [mk_min ph0 1 1 1 1 O0 F0; mk_min ph1 1 1 1 1 O1 F1] [0%Z; 1%Z] (arr_to_list 2 phis) [Sol; Sen]).
Proof. exact voigt_inst_a01_m2_s1_g1. Qed.

Theorem C10_generated_a01_m2_s1_g1_f1 : forall (ph0 ph1 : Z) (phis Sol Sen O0 F0 O1 F1 : RA),
  @k_voigt_a01_m2_s1_g1_f1 NumR ph0 ph1 phis Sol Sen O0 F0 O1 F1 =
  flat_res (@voigt_averages NumR [mk_min ph0 1 1 1 1 O0 F0; mk_min ph1 1 1 1 1 O1 F1] [0%Z; 1%Z] (arr_to_list 1 phis) [Sol; Sen]).
Proof. exact voigt_inst_a01_m2_s1_g1_f1. Qed.

Theorem C10_generated_a10_m2_s1_g1 : forall (ph0 ph1 : Z) (phis Sol Sen O0 F0 O1 F1 : RA),
  @k_voigt_a10_m2_s1_g1 NumR ph0 ph1 phis Sol Sen O0 F0 O1 F1 =
  flat_res (@voigt_averages NumR [mk_min ph0 1 1 1 1 O0 F0; mk_min ph1 1 1 1 1 O1 F1] [1%Z; 0%Z] (arr_to_list 2 phis) [Sol; Sen]).
Proof. exact voigt_inst_a10_m2_s1_g1. Qed.

Theorem C10_generated_block_symmetric : forall (G : res (arr NumR)) tensors assemblage phis (ms : list (@mineral NumR)) a,
  G = flat_res (voigt_averages ms assemblage phis tensors) -> G = Ok a ->
  forall i j k, (i < n_steps ms)%nat -> (j < 6)%nat -> (k < 6)%nat ->
    a (36 * i + (6 * j + k))%nat = a (36 * i + (6 * k + j))%nat.
Proof. exact generated_block_symmetric. Qed.
