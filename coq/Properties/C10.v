(* Properties/C10.v -- C10: the Voigt average is the volume-weighted mean of the rotated
   single-crystal stiffnesses.  Only statements; each is closed by `exact` of a lemma of
   Proofs_voigt.v.  Model_voigt.voigt_averages follows the source as it is now (stiffness
   looked up by phase ordinal); it runs the generated kernels of Gen_tensors. *)
From Coq Require Import Reals ZArith List Permutation.
From PV Require Import Num NumR Model_voigt Proofs_tensors_alg Proofs_tensors_rot
  Proofs_tensors_maps Inst_tensors Proofs_voigt.
From PV.gen Require Import Gen_tensors.
Import ListNotations.
Open Scope R_scope.

(* result_i[k] = sum_m sum_n  f_{m,i,n} * phi_{phase m} * etv(rotate(vte(C_{phase m}), A_{m,i,n}^T))[k]
   for any number of snapshots, minerals and grains; C selected by PHASE IDENTITY *)
Theorem C10_avg_is_weighted_sum : forall tensors assemblage phis (ms : list (@mineral NumR)) res,
  voigt_averages ms assemblage phis tensors = Ok res ->
  length res = n_steps ms /\
  forall i k, (i < n_steps ms)%nat -> (k < 36)%nat ->
    nth i res zeroA k
    = rsum (map (fun m => rsum (map (fun n =>
        g_frac m i n * m_phi assemblage phis m *
        k_elastic_tensor_to_voigt
          (k_rotate (k_voigt_to_elastic_tensor (m_C tensors m)) (transpose3 (g_orient m i n))) k)
        (seq 0 (n_grains ms)))) ms).
Proof. exact avg_is_weighted_sum. Qed.

Theorem C10_avg_symmetric : forall tensors assemblage phis (ms : list (@mineral NumR)) res,
  voigt_averages ms assemblage phis tensors = Ok res ->
  forall i, (i < n_steps ms)%nat -> sym6 (nth i res zeroA).
Proof. exact avg_symmetric. Qed.

Theorem C10_avg_rejects : forall tensors assemblage phis (ms : list (@mineral NumR)),
  ms <> [] -> ~ consistent ms -> voigt_averages ms assemblage phis tensors = Err ValueError.
Proof. exact avg_rejects. Qed.

Theorem C10_avg_accepts_only_consistent : forall tensors assemblage phis (ms : list (@mineral NumR)) res,
  voigt_averages ms assemblage phis tensors = Ok res -> consistent ms.
Proof. exact avg_accepts_only_consistent. Qed.

Theorem C10_avg_single_aligned : forall tensors assemblage phis (m : @mineral NumR) res,
  m_ngrains m = 1%nat -> length (m_orients m) = 1%nat ->
  sym6 (m_C tensors m) -> is_identity (g_orient m 0 0) ->
  g_frac m 0 0 = 1 -> m_phi assemblage phis m = 1 ->
  voigt_averages [m] assemblage phis tensors = Ok res ->
  forall k, (k < 36)%nat -> nth 0 res zeroA k = m_C tensors m k.
Proof. exact avg_single_aligned. Qed.
