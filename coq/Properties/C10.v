(* Properties/C10.v -- C10: the Voigt average is the volume-weighted mean of the rotated
   single-crystal stiffnesses.  Only statements; each is closed by `exact` of a lemma of
   Proofs_voigt.v.  Model_voigt.voigt_averages follows the source as it is now (stiffness
   looked up by phase ordinal); it runs the generated kernels of Gen_tensors. *)
From Coq Require Import Reals ZArith List Permutation.
From PV Require Import Num NumR Model_voigt Proofs_tensors_alg Proofs_tensors_rot
  Proofs_tensors_maps Proofs_tensors_proj Inst_tensors Proofs_voigt Model_decomp Proofs_decomp Proofs_voigt2.
From PV.gen Require Import Gen_tensors.
Import ListNotations.
Open Scope R_scope.

(* result_i[k] = sum_m sum_n  f_{m,i,n} * phi_{phase m} * etv(rotate(vte(C_{phase m}), A_{m,i,n}^T))[k]
   for any number of snapshots, minerals and grains; C selected by PHASE IDENTITY *)
Theorem C10_avg_is_weighted_sum : forall tensors assemblage phis (ms : list (@mineral NumR)) res,
  voigt_averages ms assemblage phis tensors = Ok res ->
  length res = n_steps ms /\
  forall i k, (i < n_steps ms)%nat -> (k < 36)%nat ->
    nth i res zeroA k
    = rsum (map (fun m => rsum (map (fun n =>
        g_frac m i n * m_phi assemblage phis m *
        k_elastic_tensor_to_voigt
          (k_rotate (k_voigt_to_elastic_tensor (m_C tensors m)) (transpose3 (g_orient m i n))) k)
        (seq 0 (n_grains ms)))) ms).
Proof. exact avg_is_weighted_sum. Qed.

Theorem C10_avg_symmetric : forall tensors assemblage phis (ms : list (@mineral NumR)) res,
  voigt_averages ms assemblage phis tensors = Ok res ->
  forall i, (i < n_steps ms)%nat -> sym6 (nth i res zeroA).
Proof. exact avg_symmetric. Qed.

Theorem C10_avg_rejects : forall tensors assemblage phis (ms : list (@mineral NumR)),
  ms <> [] -> ~ consistent ms -> voigt_averages ms assemblage phis tensors = Err ValueError.
Proof. exact avg_rejects. Qed.

Theorem C10_avg_accepts_only_consistent : forall tensors assemblage phis (ms : list (@mineral NumR)) res,
  voigt_averages ms assemblage phis tensors = Ok res -> consistent ms.
Proof. exact avg_accepts_only_consistent. Qed.

Theorem C10_avg_single_aligned : forall tensors assemblage phis (m : @mineral NumR) res,
  m_ngrains m = 1%nat -> length (m_orients m) = 1%nat ->
  sym6 (m_C tensors m) -> is_identity (g_orient m 0 0) ->
  g_frac m 0 0 = 1 -> m_phi assemblage phis m = 1 ->
  voigt_averages [m] assemblage phis tensors = Ok res ->
  forall k, (k < 36)%nat -> nth 0 res zeroA k = m_C tensors m k.
Proof. exact avg_single_aligned. Qed.

(* K and G are linear functionals of the Voigt matrix ... *)
Theorem C10_KG_linear_functionals : forall M : arr NumR,
  Kof M = (M 0%nat + M 6%nat + M 12%nat + (M 1%nat + M 7%nat + M 13%nat) + (M 2%nat + M 8%nat + M 14%nat)) / 9 /\
  Gof M = ((M 0%nat + M 28%nat + M 35%nat) + (M 7%nat + M 21%nat + M 35%nat) + (M 14%nat + M 21%nat + M 28%nat) - 3 * Kof M) / 10.
Proof. exact KG_formula. Qed.

(* ... and every term of the weighted sum has the moduli of its single crystal, whatever the
   grain orientation (any A with A A^T = I): the moduli of the average are texture independent.
   PARTIAL: the final summation step (K(avg) = sum_m phi_m K(C_m) when the fractions sum to one)
   is not stated as a Coq theorem; it is checked at run time by the property oracle. *)
Theorem C10_avg_moduli_partial : forall tensors (m : @mineral NumR) i n,
  sym6 (m_C tensors m) -> orth (mat3 (transpose3 (g_orient m i n))) ->
  Kof (grain_voigt tensors m i n) = Kof (m_C tensors m) /\
  Gof (grain_voigt tensors m i n) = Gof (m_C tensors m).
Proof. exact grain_moduli. Qed.

(* replacing a grain orientation A by A.Q^T rotates that grain's contribution by Q (for ALL
   matrices Q).  PARTIAL: the lifting through the (linear) sum is not stated in Coq. *)
Theorem C10_avg_corotates_partial : forall C o Q : arr NumR, sym6 C ->
  let C4 := k_voigt_to_elastic_tensor C in
  eq4b (t4 (k_voigt_to_elastic_tensor (k_elastic_tensor_to_voigt
              (k_rotate C4 (transpose3 (matmul3 o (transpose3 Q)))))))
       (t4 (k_rotate (k_voigt_to_elastic_tensor (k_elastic_tensor_to_voigt
              (k_rotate C4 (transpose3 o)))) Q)).
Proof. exact grain_corotates. Qed.

(* the order of the mineral list does not matter (the phase order does not matter because
   both lookups, stiffness by ordinal and fraction by position of the phase, are by identity;
   PARTIAL: simultaneous permutation of (assemblage, fractions) is not stated in Coq) *)
Theorem C10_avg_order_independent_partial : forall tensors assemblage phis (ms ms' : list (@mineral NumR)) ng i k,
  Permutation ms ms' ->
  weighted_sum tensors assemblage phis ms ng i k = weighted_sum tensors assemblage phis ms' ng i k.
Proof. exact weighted_sum_perm. Qed.

Example C10_nonvacuous :
  consistent [m_example] /\ is_identity (g_orient m_example 0 0) /\ g_frac m_example 0 0 = 1 /\
  m_phi [0%Z] [1] m_example = 1 /\ orth (mat3 (transpose3 (g_orient m_example 0 0))).
Proof. exact C10_nonvacuous_proof. Qed.
