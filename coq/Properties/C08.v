(* Properties/C08.v -- C08: multiphase: each phase evolves independently with its own volume factor *)
From Coq Require Import Reals ZArith List Permutation.
From Coquelicot Require Import Hierarchy Derive.
From PV Require Import Num NumR Model_core Model_minerals Proofs_core Proofs_minerals Proofs_rhs Proofs_path Proofs_path2 Proofs_multiphase.
Import ListNotations.
Open Scope R_scope.

(* in an assemblage a mineral's vector field is that of the same mineral alone with its OWN
   fraction; no other phase's fraction (nor the order of the lists) enters *)
Theorem C08_only_own_fraction : forall regime ph fb n ass frs (L : list R) s Sd p nn lam M (y : list R) phi,
  @lookup_fraction NumR ph ass frs = Ok phi ->
  @rhs NumR regime ph fb n ass frs L s Sd p nn lam M y
  = @rhs NumR regime ph fb n [ph] [phi] L s Sd p nn lam M y.
Proof. exact rhs_only_own_fraction. Qed.

(* the fraction acts only as a multiplier of the boundary mobility *)
Theorem C08_fraction_multiplies_mobility : forall regime ph fb os fs (D L S : arr NumR) p n lam M phi,
  @derivs NumR regime ph fb os fs D L S p n lam M phi
  = @derivs NumR regime ph fb os fs D L S p n lam (phi * M) 1.
Proof. exact derivs_fraction_times_mobility. Qed.

(* simultaneous permutation of phase list and fraction list *)
Theorem C08_lookup_permutation_invariant : forall ph (ass ass' : list Z) (frs frs' : list R),
  NoDup ass -> NoDup ass' -> length ass = length frs -> length ass' = length frs' ->
  Permutation (combine ass frs) (combine ass' frs') ->
  @lookup_fraction NumR ph ass frs = @lookup_fraction NumR ph ass' frs'.
Proof. exact lookup_permutation. Qed.

(* a lookup by list position (the mutation the property worries about) is NOT invariant *)
Theorem C08_lookup_by_position_refuted :
  exists (ass ass' : list Z) (frs frs' : list R),
    Permutation (combine ass frs) (combine ass' frs') /\ nth_error frs 0 <> nth_error frs' 0.
Proof. exact lookup_by_position_refuted. Qed.

Example C08_nonvacuous : NoDup [0; 1]%Z /\ Permutation (combine [0; 1]%Z [0.7; 0.3]) (combine [1; 0]%Z [0.3; 0.7]).
Proof. exact C08_nonvacuous_proof. Qed.

(* ---- capstone for the texture ODE itself ----------------------------------------------------------
   f ... ass frs ... M Lh sh t z i (Proofs_path.f) is component i of the modelled eval_rhs of a mineral of phase
   ph in the assemblage ass with fractions frs and mobility M.  If phi is that mineral's own fraction, the
   whole vector field (F block, orientation block, volume block; every time, every state) is the vector field
   of the SINGLE-phase problem (assemblage [ph], fraction 1) with mobility phi.M; hence the two problems have
   exactly the same exact solutions -- no other phase, fraction or list order enters *)
Theorem C08_multiphase_solution_is_single_phase :
  forall (regime ph fb : Z) (n : nat) (ass : list Z) (frs Sd : list R) (p nn lam M phi : R)
         (Lh : R -> list R) (sh : R -> R) (y : nat -> R -> R) (a b : R),
  @lookup_fraction NumR ph ass frs = Ok phi ->
  (forall t z i, f regime ph fb n ass frs Sd p nn lam M Lh sh t z i
               = f regime ph fb n [ph] [1] Sd p nn lam (phi * M) Lh sh t z i) /\
  ((forall i t, a <= t <= b ->
      is_derive (y i) t (f regime ph fb n ass frs Sd p nn lam M Lh sh t (fun j => y j t) i))
   <-> (forall i t, a <= t <= b ->
          is_derive (y i) t (f regime ph fb n [ph] [1] Sd p nn lam (phi * M) Lh sh t (fun j => y j t) i))).
Proof. exact multiphase_solution_is_single_phase. Qed.

(* non-vacuity: enstatite (phase 1) holds the fraction 0.3 in the assemblage [olivine; enstatite] *)
Example C08_solution_nonvacuous : @lookup_fraction NumR 1 [0; 1]%Z [0.7; 0.3] = Ok 0.3.
Proof. exact C08_solution_nonvacuous_proof. Qed.

(* ---- the boundary of the fraction simplex: fractions exactly 0 and exactly 1 ----------------------------
   (all assemblages, all list orders: the only hypothesis is what the lookup returns) *)

(* a mineral whose own phase holds the fraction 0 sees the vector field of the SINGLE-phase mineral with
   boundary mobility 0, whatever M is: the fraction switches off boundary migration and nothing else *)
Theorem C08_zero_fraction_is_zero_mobility : forall regime ph fb n ass frs (L : list R) (s : R) Sd p nn lam M (y : list R),
  @lookup_fraction NumR ph ass frs = Ok 0 ->
  @rhs NumR regime ph fb n ass frs L s Sd p nn lam M y
  = @rhs NumR regime ph fb n [ph] [1] L s Sd p nn lam 0 y.
Proof. exact rhs_zero_fraction_is_zero_mobility. Qed.

(* a mineral whose own phase holds the fraction 1 (the other listed phases hold 0) is the single-phase mineral *)
Theorem C08_unit_fraction_is_single_phase : forall regime ph fb n ass frs (L : list R) (s : R) Sd p nn lam M (y : list R),
  @lookup_fraction NumR ph ass frs = Ok 1 ->
  @rhs NumR regime ph fb n ass frs L s Sd p nn lam M y
  = @rhs NumR regime ph fb n [ph] [1] L s Sd p nn lam M y.
Proof. exact rhs_unit_fraction_is_single_phase. Qed.

(* ... and fraction 0 does NOT freeze the texture: there is an input with own fraction 0 whose modelled
   eval_rhs has a non-zero entry in the orientation / volume blocks (an implementation that returns zero
   texture derivatives for a phase of fraction 0 therefore contradicts the model) *)
Theorem C08_zero_fraction_not_frozen :
  exists (regime ph fb : Z) (n : nat) (ass : list Z) (frs L : list R) (s : R) (Sd : list R) (p nn lam M : R) (y out : list R),
    @lookup_fraction NumR ph ass frs = Ok 0 /\
    @rhs NumR regime ph fb n ass frs L s Sd p nn lam M y = Ok out /\
    length out = (9 + 10 * n)%nat /\
    ~ all_zero (skipn 9 out).
Proof. exact zero_fraction_not_frozen. Qed.

(* non-vacuity of the two boundary hypotheses, both list orders *)
Example C08_boundary_nonvacuous :
  @lookup_fraction NumR 1 [0; 1]%Z [1; 0] = Ok 0 /\ @lookup_fraction NumR 1 [1; 0]%Z [0; 1] = Ok 0 /\
  @lookup_fraction NumR 0 [0; 1]%Z [1; 0] = Ok 1 /\ @lookup_fraction NumR 0 [1; 0]%Z [0; 1] = Ok 1.
Proof. exact C08_boundary_nonvacuous_proof. Qed.

(* ---- round 5: pydrex.update_all as a theorem about the bulk model (Model_minerals.update_all / bulk_y0, tied
   to the source by Inst_minerals_drv.update_all_inst_1_2 / _1_3).  A mineral is paired with the vector its
   integrator ends with; that this vector belongs to the mineral and not to its position in the list is what
   C08_bulk_start_vectors_own says: the integrator's problem instance is a function of the caller's F and the
   mineral's own last snapshot ---------------------------------------------------------------------------- *)
From PV Require Import Proofs_driver.

(* every mineral's new history is its OWN single update; the value of the call is the F of the last mineral *)
Theorem C08_bulk_each_mineral_own_update : forall n chi (ms : list (@history NumR * list R)),
  bulk_pairs n chi ms
  = (match last_pair ms with
     | None => Err OtherError
     | Some (h, y) => Ok (fst (@update NumR n chi (@last_snapshot NumR h) y))
     end,
     map (fun m => step n chi (fst m) (Ok (snd m))) ms).
Proof. exact bulk_pairs_spec. Qed.

(* order independence: another order of the mineral list permutes the resulting histories in the same way *)
Theorem C08_bulk_order_independent : forall n chi (ms ms' : list (@history NumR * list R)),
  Permutation ms ms' -> Permutation (combine (map fst ms) (snd (bulk_pairs n chi ms)))
                                    (combine (map fst ms') (snd (bulk_pairs n chi ms'))).
Proof. exact bulk_order_independent. Qed.

(* interleaving independence: one bulk update of ms1 ++ ms2 = separate bulk updates of ms1 and of ms2 *)
Theorem C08_bulk_split : forall n chi (ms1 ms2 : list (@history NumR * list R)),
  snd (bulk_pairs n chi (ms1 ++ ms2)) = snd (bulk_pairs n chi ms1) ++ snd (bulk_pairs n chi ms2).
Proof. exact bulk_split. Qed.

(* the start vector of mineral i: the caller's F and mineral i's own last snapshot, whatever the other minerals *)
Theorem C08_bulk_start_vectors_own : forall (Fd : list R) (hs : list (@history NumR)) i (d : @history NumR),
  (i < length hs)%nat -> nth i (@bulk_y0 NumR Fd hs) [] = @y_start NumR Fd (@last_snapshot NumR (nth i hs d)).
Proof. exact bulk_y0_own. Qed.
Theorem C08_bulk_start_vectors_permute : forall (Fd : list R) (hs hs' : list (@history NumR)),
  Permutation hs hs' -> Permutation (@bulk_y0 NumR Fd hs) (@bulk_y0 NumR Fd hs').
Proof. exact bulk_y0_perm. Qed.

Example C08_bulk_nonvacuous :
  Permutation [([snap_ex], id9); (([] : @history NumR), ([] : list R))] [(([] : @history NumR), ([] : list R)); ([snap_ex], id9)].
Proof. exact bulk_perm_nonvacuous_proof. Qed.

(* any number of update_all calls on an assemblage (bulk_run = fold_left over the calls; ys = the vectors the K integrators
   of one call end with): mineral i ends with the history it would have had ALONE, updated with its own vectors *)
Theorem C08_bulk_histories_independent : forall n chi (yss : list (list (list R))) (hs : list (@history NumR)) i
    (d : @history NumR) (dy : list R),
  Forall (fun ys => length ys = length hs) yss -> (i < length hs)%nat ->
  nth i (bulk_run n chi hs yss) d = run n chi (nth i hs d) (map (fun ys => Ok (nth i ys dy)) yss).
Proof. exact bulk_run_each. Qed.
