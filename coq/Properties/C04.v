(* Properties/C04.v -- C04: frame indifference and crystal-symmetry invariance of rates *)
From Coq Require Import Reals ZArith List.
From PV Require Import Num NumR Model_core Spec_drex Proofs_core Proofs_total Proofs_spec
                       Proofs_frame Proofs_frame2 Proofs_frame3 Proofs_twofold Proofs_twofold2
                       Model_minerals Proofs_minerals Proofs_rhs Proofs_flow Proofs_path Proofs_path2 Proofs_path3 Proofs_path6.
From Coquelicot Require Import Hierarchy Derive.
From PV.gen Require Import Gen_core.
Import ListNotations.
Open Scope R_scope.

(* SO3 Q (Q^T Q = I and cof Q = Q) describes proper rotations *)
Theorem C04_SO3_det_one : forall Q, SO3 Q -> det3 Q = 1.
Proof. exact SO3_det. Qed.

(* slip invariants (hence activities, their order, relative slip rates, strain energies) are
   unchanged by the change of frame L -> Q L Q^T, D -> Q D Q^T, A -> A Q^T *)
Theorem C04_invariants_frame : forall (Q A D : arr R), SO3 Q ->
  @spec_invariants NumR (conj Q D) (mm A (tp Q)) = @spec_invariants NumR D A.
Proof. exact invariants_frame. Qed.

(* one grain, generated kernel: the orientation rate co-rotates (Ad -> Ad Q^T), the strain
   energy is identical, errors are identical *)
Theorem C04_kernel_frame : forall ph fb (Q A D L : arr R) p n lam,
  valid_pair ph fb -> n <> 0 -> SO3 Q ->
  frame_related Q (@k_get_rotation_and_strain NumR ph fb A D L p n lam)
                  (@k_get_rotation_and_strain NumR ph fb (rotQ Q A) (conj Q D) (conj Q L) p n lam).
Proof. exact kernel_frame. Qed.

(* any number of grains, both dislocation regimes: orientation rates co-rotate and EVERY volume
   rate is identical *)
Theorem C04_rates_frame_indifferent : forall regime ph fb (Q D L S : arr R) os fs p n lam M phi,
  dislocation_regime regime -> valid_pair ph fb -> n <> 0 -> SO3 Q ->
  derivs_related Q (@derivs NumR regime ph fb os fs D L S p n lam M phi)
                   (@derivs NumR regime ph fb (map (rotQ Q) os) fs (conj Q D) (conj Q L) S p n lam M phi).
Proof. exact derivs_frame. Qed.

(* the F block of the integrated vector field commutes with the change of frame, so (with the
   theorem above) all three blocks of the vector field do: exact solutions co-rotate *)
Theorem C04_Fdot_frame : forall (Q L F : arr R) k, SO3 Q -> (k < 9)%nat ->
  mm (conj Q L) (conj Q F) k = conj Q (mm L F) k.
Proof. exact Fdot_frame. Qed.

(* the spin co-rotates through the cofactor matrix: this is where properness (det Q = 1) enters;
   for an improper Q the spin would change sign *)
Theorem C04_spin_frame : forall (Q G L : arr R) g,
  @spec_spin NumR (conj Q G) (conj Q L) g = cofv Q (@spec_spin NumR G L g).
Proof. exact spin_frame. Qed.

(* crystal two-folds: a sign triple (sa, sb, sc) in {+1,-1}^3 scales the rows a, b, c of a grain's
   orientation; two flipped rows = a 180 degree rotation about the third crystal axis.
   Slip invariants pick up the sign product of their system, so all activities and the activity
   order are unchanged ... *)
Theorem C04_twofold_invariants : forall sa sb sc (D A : arr R),
  @spec_invariants NumR D (flip sa sb sc A)
  = mk_arr 0 [(sa * sb) * @spec_invariant NumR D A 0; (sa * sc) * @spec_invariant NumR D A 1;
              (sc * sb) * @spec_invariant NumR D A 2; (sc * sa) * @spec_invariant NumR D A 3].
Proof. exact invariants_flip. Qed.

Theorem C04_twofold_activities : forall sa sb sc tau (D A : arr R), pm1 sa -> pm1 sb -> pm1 sc ->
  @spec_activities NumR tau (@spec_invariants NumR D (flip sa sb sc A))
  = @spec_activities NumR tau (@spec_invariants NumR D A).
Proof. exact activities_flip. Qed.

(* ... the relative slip rates pick up t_s t_max (this is where the sign(I_s/I_max) factor of the
   source matters: with |r|^n instead of r|r|^(n-1) the lemma is false) ... *)
Theorem C04_twofold_slip_rates : forall (t : nat -> R) tau (inv : arr R) P n s,
  (forall k, pm1 (t k)) -> inv (pidx P 3) <> 0 ->
  @spec_beta NumR tau (fun k => t k * inv k) P n s
  = t s * t (pidx P 3) * @spec_beta NumR tau inv P n s.
Proof. exact beta_flip. Qed.

(* ... and the generated kernel returns the equivalent rate (rows scaled by the same signs) and
   the identical strain energy ... *)
Theorem C04_twofold_kernel : forall ph fb (s : sgn3) (A D L : arr R) p n lam,
  valid_pair ph fb -> n <> 0 -> sgn_ok s ->
  let '(a, b, c) := s in
  flip_related a b c (@k_get_rotation_and_strain NumR ph fb A D L p n lam)
                     (@k_get_rotation_and_strain NumR ph fb (flip3 s A) D L p n lam).
Proof. exact kernel_flip. Qed.

(* ... so that for ANY subset of grains (one sign triple per grain, any number of grains) the
   relabelled grains get the equivalent rate and ALL grains identical volume rates *)
Theorem C04_twofold_aggregate : forall regime ph fb (D L S : arr R) sg os fs p n lam M phi,
  dislocation_regime regime -> valid_pair ph fb -> n <> 0 ->
  Forall sgn_ok sg -> length sg = length os ->
  derivs_flipped sg (@derivs NumR regime ph fb os fs D L S p n lam M phi)
                    (@derivs NumR regime ph fb (flips sg os) fs D L S p n lam M phi).
Proof. exact derivs_flip. Qed.

Theorem C04_twofolds_are_sign_triples :
  sgn_ok (1, 1, 1) /\ sgn_ok (1, -1, -1) /\ sgn_ok (-1, 1, -1) /\ sgn_ok (-1, -1, 1).
Proof. exact twofolds_ok. Qed.

Example C04_nonvacuous : SO3 Qex /\ Qex 1%nat <> 0.
Proof. exact C04_nonvacuous_proof. Qed.

(* ---- the WHOLE integrated vector field, and its exact solutions ------------------------------------------
   rotS Q n y is the state seen from the rotated frame: F -> Q F Q^T (indices 0..8), every grain A_g -> A_g Q^T
   (indices 9 + 9 g + k), volume fractions unchanged; LQ Q L = Q L Q^T.  vf is the vector field LSODA integrates
   (Model_minerals.rhs through extract_vars), s the strain-rate scale (frame invariant: C05 / is_eigmax).
   At every state whose grains lie inside the clip range of extract_vars in both frames (true of orthonormal
   grains) the field of the rotated problem at the rotated state is the rotated field: *)
Theorem C04_vector_field_frame_indifferent :
  forall (regime ph fb : Z) (n : nat) (ass : list Z) (frs Sd : list R) (p nn lam M : R)
         (Q : arr R) (L : list R) (s : R) (y : nat -> R) (i : nat),
  dislocation_regime regime -> valid_pair ph fb -> nn <> 0 -> SO3 Q -> length L = 9%nat ->
  (forall g k, (g < n)%nat -> (k < 9)%nat -> -1 <= y (9 + 9 * g + k)%nat <= 1) ->
  (forall g k, (g < n)%nat -> (k < 9)%nat -> -1 <= rotS Q n y (9 + 9 * g + k)%nat <= 1) ->
  (i < 9 + 10 * n)%nat ->
  vf regime ph fb n ass frs Sd p nn lam M (LQ Q L) s (rotS Q n y) i
  = rotS Q n (vf regime ph fb n ass frs Sd p nn lam M L s y) i.
Proof. exact vf_frame. Qed.

(* integrated textures: if y(t) is an exact solution for the history L(t), then the rotated trajectory
   rotY n Q y i t = rotS Q n (y . t) i is an exact solution for the history Q L(t) Q^T -- orientations co-rotate,
   every volume fraction is the same function of time, the deformation gradient becomes Q F Q^T *)
Theorem C04_exact_solutions_corotate :
  forall (regime ph fb : Z) (n : nat) (ass : list Z) (frs Sd : list R) (p nn lam M : R) (Lh : R -> list R) (sh : R -> R)
         (Q : arr R) (y : nat -> R -> R) (a b : R),
  dislocation_regime regime -> valid_pair ph fb -> nn <> 0 -> SO3 Q ->
  (forall t, length (Lh t) = 9%nat) ->
  (forall i t, a <= t <= b -> is_derive (y i) t (f regime ph fb n ass frs Sd p nn lam M Lh sh t (fun j => y j t) i)) ->
  (forall g k t, (g < n)%nat -> (k < 9)%nat -> a <= t <= b -> -1 <= y (9 + 9 * g + k)%nat t <= 1) ->
  (forall g k t, (g < n)%nat -> (k < 9)%nat -> a <= t <= b -> -1 <= rotY n Q y (9 + 9 * g + k)%nat t <= 1) ->
  forall i t, (i < 9 + 10 * n)%nat -> a <= t <= b ->
    is_derive (rotY n Q y i) t
      (f regime ph fb n ass frs Sd p nn lam M (fun u => LQ Q (Lh u)) sh t (fun j => rotY n Q y j t) i).
Proof. exact solution_frame. Qed.

(* ... and for textures of orthonormal grains nothing has to be assumed about the clip: bounded rates suffice
   (Gronwall invariance of the orthonormal set, C01_solution_orthonormality_invariant; rows of A Q^T have the
   norms of the rows of A) *)
Theorem C04_orthonormal_textures_corotate :
  forall (regime ph fb : Z) (n : nat) (ass : list Z) (frs Sd : list R) (p nn lam M : R) (Lh : R -> list R) (sh : R -> R)
         (Q : arr R) (y : nat -> R -> R) (a b B : R),
  dislocation_regime regime -> valid_pair ph fb -> nn <> 0 -> SO3 Q -> a <= b ->
  (forall t, length (Lh t) = 9%nat) ->
  (forall i t, a <= t <= b -> is_derive (y i) t (f regime ph fb n ass frs Sd p nn lam M Lh sh t (fun j => y j t) i)) ->
  (forall g k t, (g < n)%nat -> (k < 9)%nat -> a <= t <= b ->
     Rabs (f regime ph fb n ass frs Sd p nn lam M Lh sh t (fun j => y j t) (9 + 9 * g + k)%nat) <= B) ->
  (forall g r r', (g < n)%nat -> (r < 3)%nat -> (r' < 3)%nat ->
     gram (grainA y g) r r' a = if Nat.eqb r r' then 1 else 0) ->
  forall i t, (i < 9 + 10 * n)%nat -> a <= t <= b ->
    is_derive (rotY n Q y i) t
      (f regime ph fb n ass frs Sd p nn lam M (fun u => LQ Q (Lh u)) sh t (fun j => rotY n Q y j t) i).
Proof. exact solution_frame_orthonormal. Qed.

(* non-vacuity: the 3-4-5 rotation about z is in SO3; olivine A-type is a valid pair; both grains of the constant
   solution y0_example (C01_solution_nonvacuous) are orthonormal *)
Example C04_solution_frame_nonvacuous :
  SO3 Q345 /\ valid_pair 0 0 /\ (3.5 <> 0) /\
  (forall g r r', (g < 2)%nat -> (r < 3)%nat -> (r' < 3)%nat ->
     gram (grainA (fun (i : nat) (_ : R) => y0_example i) g) r r' 0 = if Nat.eqb r r' then 1 else 0).
Proof. exact frame_solution_nonvacuous_proof. Qed.
