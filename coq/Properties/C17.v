(* Properties/C17.v -- C17: mineral persistence round trip is exact for any history and
   any postfix set.  Only statements; each is closed by `exact` of a lemma of
   Proofs_npz.v.  X is the array element type (float64 bit patterns, never inspected),
   blob the NPY byte strings; npy/unnpy are the numpy.save / numpy.load ORACLE with the
   round-trip hypothesis  RT : forall a, unnpy (npy a) = Some a  (checked bit-for-bit at
   run time).  All theorems are axiom free. *)
From Coq Require Import ZArith List String.
From PV.gen Require Import Gen_tables_npz.
From PV Require Import Num Model_npz Proofs_npz Proofs_npz_sizes Inst_npz.
Import ListNotations.
Local Open Scope string_scope.

Definition RT {X blob} (npy : payload X -> blob) (unnpy : blob -> option (payload X)) : Prop :=
  forall a, unnpy (npy a) = Some a.

(* ---- names ------------------------------------------------------------------ *)
(* f"{key}_{postfix}" is injective in (key, postfix) for the three base keys and
   ARBITRARY postfix strings (empty, containing '_' or '.', equal to a base name ...) *)
Theorem C17_key_injective :
  forall b b' p p', key b p = key b' p' -> b = b' /\ p = p'.
Proof. exact key_injective. Qed.

(* the same for the zip member names actually written, whole-file save included *)
Theorem C17_member_injective :
  forall b b' pf pf', member b pf = member b' pf' -> b = b' /\ pf = pf'.
Proof. exact member_injective. Qed.

Theorem C17_postfix_keys_disjoint_from_plain :
  forall b b' p, key b p <> base_name b' /\ key b p <> member b' None.
Proof. exact postfix_keys_disjoint. Qed.

(* mutation "f{key}{postfix}" (no separator): still injective, but the postfix ".npy"
   IS the whole-file member name and the empty postfix IS the plain subscript *)
Theorem C17_key_without_separator_refuted :
  (forall b b' p p', key_nosep b p = key_nosep b' p' -> b = b' /\ p = p') /\
  (forall b, key_nosep b ".npy" = member b None /\ key_nosep b "" = base_name b).
Proof. exact key_without_separator. Qed.

(* ---- save goes through exactly on consistent state ------------------------------ *)
Theorem C17_save_succeeds_iff_wf :
  forall X blob (npy : payload X -> blob) (m : mineral X) fn pf (fs : filesys),
  snd (save npy m fn pf fs) = Ok tt <-> wf m.
Proof. intros X blob npy. exact (save_succeeds_iff_wf npy). Qed.

(* ---- round trips ------------------------------------------------------------- *)
(* whole file, on top of ANY earlier content of the file system *)
Theorem C17_save_load_whole :
  forall X blob (npy : payload X -> blob) unnpy, RT npy unnpy ->
  forall fn (m : mineral X) (fs : filesys),
  ends_with ".npz" fn = true -> wf m ->
  let fs' := fst (save npy m fn None fs) in
  from_file unnpy fn None fs' = Ok m /\
  (forall t, load unnpy true t fn None fs' = Ok m).
Proof. intros X blob npy unnpy H fn. exact (save_load_one npy unnpy H fn None). Qed.

(* under any postfix, appended to ANY existing archive *)
Theorem C17_save_load_postfix :
  forall X blob (npy : payload X -> blob) unnpy, RT npy unnpy ->
  forall fn p (m : mineral X) (fs : filesys),
  ends_with ".npz" fn = true -> wf m ->
  let fs' := fst (save npy m fn (Some p) fs) in
  from_file unnpy fn (Some p) fs' = Ok m /\
  (forall t, load unnpy true t fn (Some p) fs' = Ok m).
Proof. intros X blob npy unnpy H fn p. exact (save_load_one npy unnpy H fn (Some p)). Qed.

(* the former load (sets_n = false: n_grains of the target left alone) restores
   everything but the grain count ... *)
Theorem C17_load_without_grain_count_partial :
  forall X blob (npy : payload X -> blob) unnpy, RT npy unnpy ->
  forall fn pf (m t : mineral X) (fs : filesys),
  ends_with ".npz" fn = true -> wf m ->
  exists r, load unnpy false t fn pf (fst (save npy m fn pf fs)) = Ok r /\
    phase r = phase m /\ fabric r = fabric m /\ regime r = regime m /\
    fractions r = fractions m /\ orientations r = orientations m /\
    n_grains r = n_grains t /\ (n_grains t = n_grains m -> r = m).
Proof. intros X blob npy unnpy H. exact (load_without_grain_count npy unnpy H). Qed.

(* ... and that breaks the property (finding fixed in /repo 3f474d8; the variant is the
   mutation "drop self.n_grains = ..."): with another grain count in the target it
   returns an inconsistent mineral that cannot even be saved again *)
Theorem C17_load_stale_grain_count_refuted :
  let fs := fst (save wnpy w_m2 "a.npz" None []) in
  exists r, load wunnpy false w_t1 "a.npz" None fs = Ok r /\
            n_grains r <> n_grains w_m2 /\ fractions r = fractions w_m2 /\
            snd (save wnpy r "b.npz" None fs) = Err ValueError.
Proof. exact load_stale_witness. Qed.

(* load and from_file are the same function of the file (same value, same failures),
   whatever object load is called on *)
Theorem C17_from_file_eq_load :
  forall X blob unnpy fn pf (fs : @filesys blob) (t : mineral X),
  match from_file unnpy fn pf fs, load unnpy true t fn pf fs with
  | Ok a, Ok b => a = b
  | Err _, Err _ => True
  | _, _ => False
  end.
Proof. intros X blob unnpy. exact (load_true_eq_from_file unnpy). Qed.

(* ---- histories --------------------------------------------------------------- *)
(* m is saved (whole file: pf = None, or under a postfix) after ANY earlier history l1
   on ANY initial file system; ANY list l2 of later postfix saves follows (any length,
   failing ones included, repeats among themselves allowed) none of which reuses m's
   postfix: both loaders return m *)
Theorem C17_history_roundtrip :
  forall X blob (npy : payload X -> blob) unnpy, RT npy unnpy ->
  forall fn pf (m : mineral X) l1 l2 (fs : filesys),
  ends_with ".npz" fn = true -> wf m -> later_ok pf l2 ->
  let fs' := save_all npy fn (l1 ++ (pf, m) :: l2) fs in
  from_file unnpy fn pf fs' = Ok m /\
  (forall t, load unnpy true t fn pf fs' = Ok m).
Proof. intros X blob npy unnpy H. exact (history_roundtrip_cur npy unnpy H). Qed.

(* any list of postfix saves with pairwise distinct postfixes, any length, any order *)
Theorem C17_many_saves :
  forall X blob (npy : payload X -> blob) unnpy, RT npy unnpy ->
  forall fn (l : list (string * mineral X)) (fs : filesys),
  ends_with ".npz" fn = true -> NoDup (map fst l) ->
  let fs' := save_all npy fn (with_postfix l) fs in
  forall p m, In (p, m) l -> wf m ->
    from_file unnpy fn (Some p) fs' = Ok m /\
    (forall t, load unnpy true t fn (Some p) fs' = Ok m).
Proof. intros X blob npy unnpy H. exact (many_saves npy unnpy H). Qed.

(* without distinctness: the LAST mineral saved under a postfix is the one loaded *)
Theorem C17_repeat_postfix_last_wins :
  forall X blob (npy : payload X -> blob) unnpy, RT npy unnpy ->
  forall fn p (m : mineral X) l1 l2 (fs : filesys),
  ends_with ".npz" fn = true -> wf m -> ~ In p (map fst l2) ->
  let fs' := save_all npy fn (with_postfix (l1 ++ (p, m) :: l2)) fs in
  from_file unnpy fn (Some p) fs' = Ok m /\
  (forall t, load unnpy true t fn (Some p) fs' = Ok m).
Proof. intros X blob npy unnpy H. exact (repeat_postfix_last_wins npy unnpy H). Qed.

(* numpy.savez replaces the file: a whole-file save discards every postfix entry *)
Theorem C17_whole_save_discards_postfixes :
  forall X blob (npy : payload X -> blob) (unnpy : blob -> option (payload X)) fn p (m : mineral X) (fs : filesys),
  ends_with ".npz" fn = true -> wf m ->
  from_file unnpy fn (Some p) (fst (save npy m fn None fs)) = Err KeyError.
Proof. intros X blob npy unnpy. exact (whole_save_discards_postfixes npy unnpy). Qed.

(* ---- rejection ---------------------------------------------------------------- *)
(* unequal snapshot counts / first snapshot sizes not matching the grain count / ragged
   later snapshots: ValueError and the file system is returned unchanged *)
Theorem C17_corrupt_rejected_before_write :
  forall X blob (npy : payload X -> blob) (m : mineral X) fn pf (fs : filesys),
  corrupt_counts m \/ corrupt_first_size m \/ corrupt_ragged m ->
  save npy m fn pf fs = (fs, Err ValueError).
Proof. intros X blob npy. exact (corrupt_rejected npy). Qed.

(* whatever the reason: a save that raises has written nothing *)
Theorem C17_save_error_no_write :
  forall X blob (npy : payload X -> blob) (m : mineral X) fn pf (fs : filesys) e,
  snd (save npy m fn pf fs) = Err e -> fst (save npy m fn pf fs) = fs.
Proof. intros X blob npy. exact (save_error_no_write npy). Qed.

Theorem C17_non_npz_rejected :
  forall X blob unnpy fn pf (fs : @filesys blob) (t : mineral X) sn,
  ends_with ".npz" fn = false ->
  load unnpy sn t fn pf fs = Err ValueError /\ from_file unnpy fn pf fs = Err ValueError.
Proof. intros X blob unnpy. exact (non_npz_rejected unnpy). Qed.

(* ---- recorded oddities of the name handling (witnesses) ------------------------- *)
(* NpzFile strips ".npy": a postfix that was never saved can load another one's data;
   harmless for the property: once both are saved each gets its own back *)
Theorem C17_npy_alias_witness :
  from_file wunnpy "a.npz" (Some "x") (fst (save wnpy w_m2 "a.npz" (Some "x.npy") [])) = Ok w_m2
  /\
  (let fs := fst (save wnpy w_t1 "a.npz" (Some "x") (fst (save wnpy w_m2 "a.npz" (Some "x.npy") []))) in
   from_file wunnpy "a.npz" (Some "x") fs = Ok w_t1 /\
   from_file wunnpy "a.npz" (Some "x.npy") fs = Ok w_m2).
Proof. exact npy_alias_both. Qed.

(* save does not test the suffix: whole-file save to "a" writes "a.npz", postfix save
   to "a.dat" writes "a.dat" which the loaders refuse *)
Theorem C17_save_name_witness :
  let fs := fst (save wnpy w_m2 "a" None []) in
  fs_get "a" fs = None /\ from_file wunnpy "a.npz" None fs = Ok w_m2 /\
  let fs2 := fst (save wnpy w_m2 "a.dat" (Some "p") []) in
  (exists ar, fs_get "a.dat" fs2 = Some ar) /\ from_file wunnpy "a.dat" (Some "p") fs2 = Err ValueError.
Proof. exact save_name_witness. Qed.

(* non-vacuity: a consistent mineral exists, the oracle hypothesis is satisfiable, and
   ".npz" names exist *)
Example C17_nonvacuous :
  wf w_m2 /\ RT wnpy wunnpy /\ ends_with ".npz" "a.npz" = true /\ NoDup (map fst [("x", w_m2); ("x_y", w_t1)]).
Proof. exact C17_nonvacuous_proof. Qed.

(* ---- every snapshot, not only the first (Proofs_npz_sizes) --------------------------------------- *)
(* the explicit test of Mineral.save looks at snapshot 0; np.stack does the rest.  Together: save goes through
   iff the counts agree, there is a snapshot, EVERY fractions array has the shape n_grains :: sf and EVERY
   orientations array the shape n_grains :: so (one sf, one so for all snapshots), metadata within 0..255 *)
Theorem C17_save_succeeds_iff_every_snapshot_sized :
  forall X blob (npy : payload X -> blob) (m : mineral X) fn pf (fs : filesys),
  snd (save npy m fn pf fs) = Ok tt <-> every_snapshot_sized m.
Proof.
  intros X blob npy m fn pf fs.
  exact (iff_trans (save_succeeds_iff_wf npy m fn pf fs) (wf_iff_every_snapshot_sized m)).
Qed.

(* a validation that joins the snapshots and checks the TOTAL only (np.concatenate(...).reshape(k, n, ...)) is not
   this test: n_grains = 2 with snapshots of 2, 1 and 3 grains is refused by the source as it is and accepted by
   that variant, which stores three snapshots of two grains with one grain moved to the neighbouring time step;
   on consistent state the two agree *)
Theorem C17_total_only_validation_refuted :
  ~ wf cr_m /\ build_data cr_m = Err ValueError /\
  (exists sf so, build_data_cr cr_m = Ok ([0; 0; 4]%Z, sf, so) /\
     unstack sf = [cr_arr 2 [] [10; 11]; cr_arr 2 [] [20; 30]; cr_arr 2 [] [31; 32]]%Z /\ unstack sf <> fractions cr_m).
Proof. exact concat_reshape_refuted. Qed.

Example C17_total_only_validation_agrees_on_valid :
  let m := mk_mineral 0 0 4 2 [cr_arr 2 [] [10; 11]; cr_arr 2 [] [20; 21]]%Z [cr_arr 2 t1 [1; 2]; cr_arr 2 t1 [3; 4]]%Z in
  wf m /\ build_data_cr m = build_data m.
Proof. exact concat_reshape_valid_example. Qed.

(* ---- names, order, packing and tests as read from the source on this run (tie T: gen/Gen_tables_npz.v) ----- *)
Theorem C17_source_save_structure : gen_save = model_save.
Proof. exact gen_save_is_model. Qed.

Theorem C17_source_loader_structure :
  gen_load = model_loader "len(self.fractions[0])" /\ gen_from_file = model_loader "len(fractions[0])".
Proof. exact (conj gen_load_is_model gen_from_file_is_model). Qed.

(* the member names the postfix branch of the source writes are Model_npz.member; the keys of `data` are the three
   base names in the model's order *)
Theorem C17_source_member_names : forall b pf,
  In (base_name b) (map fst (ss_data gen_save)) /\ fmt (ss_member gen_save) (base_name b) pf = member b (Some pf).
Proof. exact save_member_names. Qed.

(* metadata = uint8 (phase, fabric, regime) in this order; both stacks are np.stack; the two tests of build_data *)
Theorem C17_source_packing_and_validation :
  map snd (ss_data gen_save) = [DMetaU8 ["phase"; "fabric"; "regime"]; DStack "fractions"; DStack "orientations"] /\
  ss_counts gen_save = ["fractions"; "orientations"] /\ ss_counts_exc gen_save = "ValueError" /\
  ss_sizes gen_save = [SFirst "fractions"; SFirst "orientations"; SAttr "n_grains"] /\ ss_sizes_exc gen_save = "ValueError" /\
  ss_zip_mode gen_save = "a" /\ ss_whole_writer gen_save = "np.savez".
Proof.
  exact (conj save_data_packing (conj (proj1 save_validation) (conj (proj1 (proj2 save_validation))
          (conj (proj1 (proj2 (proj2 save_validation))) (conj (proj2 (proj2 (proj2 save_validation))) save_writers))))).
Qed.

(* the subscripts both loaders read are Model_npz.item, in the order of read_fields; the triple is unpacked as
   (phase, fabric, regime); suffix test ".npz" with ValueError *)
Theorem C17_source_loader_items : forall L, L = gen_load \/ L = gen_from_file -> forall pf,
  map (fun r => fmt (rd_item r) "" pf) (ls_postfix_reads L) = map (fun b => item b (Some pf)) [BMeta; BFractions; BOrientations] /\
  map (fun r => fmt (rd_item r) "" pf) (ls_plain_reads L) = map (fun b => item b None) [BMeta; BFractions; BOrientations].
Proof. exact loader_items. Qed.

Theorem C17_source_loader_unpacking : forall L, L = gen_load \/ L = gen_from_file ->
  map rd_targets (ls_postfix_reads L) = [["phase"; "fabric"; "regime"]; ["fractions"]; ["orientations"]] /\
  map rd_targets (ls_plain_reads L) = [["phase"; "fabric"; "regime"]; ["fractions"]; ["orientations"]] /\
  map rd_listed (ls_postfix_reads L) = [false; true; true] /\ map rd_listed (ls_plain_reads L) = [false; true; true].
Proof. exact loader_unpacking. Qed.
