(* Properties/C18.v -- C18: analytic flows are self-consistent; pathlines follow them.
   Only statements; each is closed by `exact` of a lemma proved in Proofs_velocity.v /
   Proofs_pathlines.v.  The six kernels of pydrex.velocity (each for the six index pairs), the
   axis-letter table and strain_increment (over the eigenvalue oracle) are GENERATED from
   /repo on every run (gen/Gen_velocity.v, gen/Gen_velocity_utils.v); the public wrappers,
   _is_inside, _ivp_func, the stateful terminal event and the time-stamp post-processing are
   the hand-written Model_pathlines.v, which the instance lemmas of Inst_pathlines.v equate (at
   dimensions 1, 2, 3 / 1, 2, 3 solver time stamps) with gen/Gen_pathlines.v, GENERATED from
   pydrex/pathlines.py on every run (the `C18_generated_*` statements are about that code).  flow: 0 simple_shear_2d, 1 cell_2d, 2 corner_2d;
   letters: 0 X, 1 Y, 2 Z.  A gradient G is a flat row-major 3x3 array: entry (k,m) = G(3k+m).
   `upd x m s` is x with coordinate m replaced by s, so
   `is_derive (fun s => field (upd x m s) k) (x m) g` says  d field_k / d x_m (x) = g.

   KNOWN FINDINGS (see Findings/C18_shear.v, Findings/C18_cell.v for the refutations): the
   full "gradient = Jacobian, trace-free" statement is false for simple_shear_2d and cell_2d;
   the `_partial` theorems below state exactly what the current code satisfies. *)
From Coq Require Import Reals ZArith List.
From Coquelicot Require Import Coquelicot.
From PV Require Import Num NumR Model_pathlines Proofs_velocity Proofs_pathlines.
From PV Require Import Model_pathline_session Proofs_pathline_session.
From PV Require Import Inst_velocity Inst_pathlines Proofs_pathline_gen Proofs_pathline_exact.
From PV Require Import Model_pathline_options Proofs_pathline_options.
From PV.gen Require Import Gen_velocity Gen_velocity_utils Gen_pathlines.
Import ListNotations.
Open Scope R_scope.

(* --- the axis-letter table: all 9 letter pairs ---------------------------------------- *)
Theorem C18_axes_map : forall (flow hl vl : Z) (ps : list R),
  letter_ok hl -> letter_ok vl -> no_neg_edge flow ps ->
  @wrapper_indices NumR flow hl vl ps
  = if Z.eqb hl vl then Err ValueError else Ok (Z.to_nat hl, Z.to_nat vl).
Proof. exact axes_map_proof. Qed.

Theorem C18_axes_table :
  @k_to_indices2d_ord NumR 0 1 = Ok (mk_arr 0 [0; 1]) /\ @k_to_indices2d_ord NumR 0 2 = Ok (mk_arr 0 [0; 2]) /\
  @k_to_indices2d_ord NumR 1 0 = Ok (mk_arr 0 [1; 0]) /\ @k_to_indices2d_ord NumR 1 2 = Ok (mk_arr 0 [1; 2]) /\
  @k_to_indices2d_ord NumR 2 0 = Ok (mk_arr 0 [2; 0]) /\ @k_to_indices2d_ord NumR 2 1 = Ok (mk_arr 0 [2; 1]) /\
  @k_to_indices2d_ord NumR 0 0 = Err ValueError /\ @k_to_indices2d_ord NumR 1 1 = Err ValueError /\
  @k_to_indices2d_ord NumR 2 2 = Err ValueError.
Proof.
  exact (conj table_XY (conj table_XZ (conj table_YX (conj table_YZ (conj table_ZX (conj table_ZY
        (conj table_XX (conj table_YY table_ZZ)))))))).
Qed.

Theorem C18_cell_negative_edge_rejected : forall hl vl (u d : R), d < 0 ->
  @wrapper_indices NumR 1 hl vl [u; d] = Err ValueError.
Proof. exact cell_negative_edge_rejected. Qed.

(* --- corner flow: the full statement ---------------------------------------------------- *)
(* all six ordered axis pairs, every plate speed, every point outside the excluded box
   |h|,|v| < 1e-15 that is not on the half line { h = 0, v >= 0 } (`corner_smooth`: v < 0 or
   h <> 0 -- this contains the whole physical domain v <= 0, see C18_corner_domain_smooth, incl.
   every neighbourhood of the corner singularity): the velocity callable is the closed-form field,
   every entry of the gradient callable is the corresponding partial derivative of that
   field, and the gradient is trace-free *)
Theorem C18_corner_grad_is_jacobian : forall (hl vl : Z) (U t : R) (x : arr R) i j,
  letter_ok hl -> letter_ok vl -> @wrapper_indices NumR 2 hl vl [U] = Ok (i, j) ->
  ~ corner_hole (x i) (x j) -> corner_smooth (x i) (x j) ->
  exists a G, @wrapper_velocity NumR 2 hl vl [U] t x = Ok a /\
              @wrapper_gradient NumR 2 hl vl [U] t x = Ok G /\
    (forall k, (k < 3)%nat -> a k = corner_field i j U x k) /\
    (forall k m, (k < 3)%nat -> (m < 3)%nat ->
       is_derive (fun s => corner_field i j U (upd x m s) k) (x m) (G (3 * k + m)%nat)) /\
    G 0%nat + G 4%nat + G 8%nat = 0.
Proof. exact corner_grad_is_jacobian_proof. Qed.

(* the physical domain (at or below the surface, outside the hole) lies in the smooth region ... *)
Theorem C18_corner_domain_smooth : forall h v : R, v <= 0 -> ~ corner_hole h v -> corner_smooth h v.
Proof. exact corner_domain_smooth. Qed.

(* ... and the exclusion of the half line above the surface is necessary: there the velocity callable
   jumps by more than 3 U across h = 0 (branch cut of atan2), so it has no partial derivative *)
Theorem C18_corner_cut_refuted : forall U v : R, 0 < v -> 0 < U ->
  (forall h, h < 0 -> corner_uh U 0 v - corner_uh U h v > 3 * U) /\
  ~ exists g, is_derive (fun s => corner_uh U s v) 0 g.
Proof. exact (fun U v Hv HU => conj (fun h => corner_cut_jump U v h Hv HU) (corner_cut_not_derivable U v Hv HU)). Qed.

(* the field IS the velocity callable on its whole domain (needed to read the theorem above
   as a statement about the callable; the field is defined with atan2, as the source is) *)
Theorem C18_corner_velocity_is_field : forall (hl vl : Z) (U t : R) (x : arr R) i j,
  letter_ok hl -> letter_ok vl -> @wrapper_indices NumR 2 hl vl [U] = Ok (i, j) ->
  ~ corner_hole (x i) (x j) ->
  exists a, @wrapper_velocity NumR 2 hl vl [U] t x = Ok a /\
    forall k, (k < 3)%nat -> a k = corner_field i j U x k.
Proof. exact corner_velocity_is_field_proof. Qed.

Theorem C18_corner_hole_rejected : forall i j U t (x : arr R), pair_ok i j ->
  corner_hole (x i) (x j) ->
  @kernel_velocity NumR 2 i j [U] t x = Err NonFinite /\
  @kernel_gradient NumR 2 i j [U] t x = Err NonFinite.
Proof. exact corner_hole_rejected. Qed.

(* --- simple shear: what holds (KNOWN FINDING: gradient = 2 x Jacobian) ------------------- *)
Theorem C18_shear_partial : forall (hl vl : Z) (rate t : R) (x : arr R) i j,
  letter_ok hl -> letter_ok vl -> @wrapper_indices NumR 0 hl vl [rate] = Ok (i, j) ->
  exists a G, @wrapper_velocity NumR 0 hl vl [rate] t x = Ok a /\
              @wrapper_gradient NumR 0 hl vl [rate] t x = Ok G /\
    (forall k, (k < 3)%nat -> a k = shear_field i j rate x k) /\
    (forall k m, (k < 3)%nat -> (m < 3)%nat ->
       exists J, is_derive (fun s => shear_field i j rate (upd x m s) k) (x m) J /\
                 G (3 * k + m)%nat = 2 * J) /\
    G 0%nat + G 4%nat + G 8%nat = 0.
Proof. exact shear_partial_proof. Qed.

(* --- Stokes cell: what holds (KNOWN FINDING: vertical-row entries exchanged) ------------- *)
Theorem C18_cell_partial : forall (hl vl : Z) (u d t : R) (x : arr R) i j,
  letter_ok hl -> letter_ok vl -> @wrapper_indices NumR 1 hl vl [u; d] = Ok (i, j) ->
  in_cell d (x i) (x j) ->
  exists a G, @wrapper_velocity NumR 1 hl vl [u; d] t x = Ok a /\
              @wrapper_gradient NumR 1 hl vl [u; d] t x = Ok G /\
    (forall k, (k < 3)%nat -> a k = cell_field i j u d x k) /\
    (forall k m, (k < 3)%nat -> (m < 3)%nat -> k <> j ->
       is_derive (fun s => cell_field i j u d (upd x m s) k) (x m) (G (3 * k + m)%nat)) /\
    is_derive (fun s => cell_field i j u d (upd x i s) j) (x i) (G (3 * j + j)%nat) /\
    is_derive (fun s => cell_field i j u d (upd x j s) j) (x j) (G (3 * j + i)%nat) /\
    (forall m, (m < 3)%nat -> m <> i -> m <> j -> G (3 * j + m)%nat = 0).
Proof. exact cell_partial_proof. Qed.

(* the trace the current cell gradient has (zero only on the lines h - v = d/2 + k d) *)
Theorem C18_cell_trace_partial : forall i j u d t (x : arr R) G, pair_ok i j ->
  in_cell d (x i) (x j) -> @kernel_gradient NumR 1 i j [u; d] t x = Ok G ->
  G 0%nat + G 4%nat + G 8%nat = - u * (PI / d) * cos (PI * (x i) / d - PI * (x j) / d).
Proof. exact cell_trace. Qed.

(* both domain tests of the cell kernels: outside the box both callables raise ValueError *)
Theorem C18_cell_outside_rejected : forall i j u d t (x : arr R), pair_ok i j ->
  d / 2 < Rabs (x i) \/ d / 2 < Rabs (x j) ->
  @kernel_velocity NumR 1 i j [u; d] t x = Err ValueError /\
  @kernel_gradient NumR 1 i j [u; d] t x = Err ValueError.
Proof. exact cell_velocity_outside. Qed.

(* --- strain increment (eigvalsh is an oracle: m = largest |eigenvalue| of (L+L^T)/2) ----- *)
Theorem C18_strain_increment_def : forall (dt : R) (L : arr R) (m : R),
  is_abs_eigmax (sym3 L) m ->
  @k_strain_increment NumR dt L m = Rabs dt * m /\ 0 <= @k_strain_increment NumR dt L m.
Proof. exact strain_increment_def_proof. Qed.

Theorem C18_strain_increment_homogeneous : forall (dt c : R) (L : arr R) (m : R),
  @k_strain_increment NumR (c * dt) L m = Rabs c * @k_strain_increment NumR dt L m /\
  @k_strain_increment NumR dt L (Rabs c * m) = Rabs c * @k_strain_increment NumR dt L m /\
  (is_abs_eigmax (sym3 L) m -> is_abs_eigmax (sym3 (fun k => c * L k)) (Rabs c * m)).
Proof. exact strain_increment_homogeneous_proof. Qed.

(* --- pathlines ------------------------------------------------------------------------- *)
Theorem C18_is_inside_spec : forall pt mn mx : list R,
  (length pt = length mn /\ length mn = length mx ->
     exists b, @is_inside NumR pt mn mx = Ok b /\ (b = true <-> in_box pt mn mx)) /\
  (~ (length pt = length mn /\ length mn = length mx) ->
     @is_inside NumR pt mn mx = Err AssertionError).
Proof. exact is_inside_spec. Qed.

(* the right-hand side handed to solve_ivp: the velocity inside the box, exactly zero outside
   (a trajectory cannot move once outside) *)
Theorem C18_ivp_func_spec : forall (get_velocity : list R -> res (list R)) (pt mn mx : list R),
  length pt = length mn -> length mn = length mx ->
  (in_box pt mn mx -> @ivp_func NumR get_velocity mn mx pt = get_velocity pt) /\
  (~ in_box pt mn mx ->
     exists z, @ivp_func NumR get_velocity mn mx pt = Ok z /\ length z = length pt /\
               List.Forall (fun c => c = 0) z).
Proof. exact ivp_func_spec_proof. Qed.

(* solve_ivp is an oracle: if its times start at 0 and strictly decrease, both returned
   time-stamp variants are strictly increasing and end at 0 *)
Theorem C18_timestamps_increasing : forall ts : list R,
  hd 0 ts = 0 -> strictly_decreasing ts ->
  strictly_increasing (@timestamps NumR ts None) /\ last (@timestamps NumR ts None) 0 = 0 /\
  length (@timestamps NumR ts None) = length ts.
Proof. exact timestamps_solver_proof. Qed.

Theorem C18_timestamps_regular_increasing : forall (ts : list R) (n : nat),
  (0 < n)%nat -> (2 <= length ts)%nat -> hd 0 ts = 0 -> strictly_decreasing ts ->
  let out := @timestamps NumR ts (Some n) in
  strictly_increasing out /\ last out 0 = 0 /\ length out = S n /\ hd 0 out = last ts 0.
Proof. exact timestamps_regular_proof. Qed.

(* the terminal event along a monotonically backward sequence of in-domain calls returns
   max_strain minus the left Riemann sum of the strain rate *)
Theorem C18_event_monotone_calls :
  forall (get_gradient : list R -> res (arr R)) (eigmax : arr R -> R) (mn mx : list R)
         (calls : list (R * list R)) (tp s : R),
  List.Forall (good_call get_gradient mn mx) calls -> backward tp calls ->
  exists st, @ev_run NumR get_gradient eigmax mn mx (@mk_ev NumR tp s) calls
             = Ok (st, back_values get_gradient eigmax tp s calls) /\
             @strain NumR st = last (back_values get_gradient eigmax tp s calls) s /\
             @t_prev NumR st = last (map fst calls) tp.
Proof. exact event_monotone_calls_proof. Qed.

(* ... but it is not a function of (t, x): two call histories ending with the same call
   return different values whenever the strain rate differs between two points -- the formal
   root cause of brentq's "f(a) and f(b) must have different signs" (KNOWN FINDING) *)
Theorem C18_event_not_a_function :
  forall (get_gradient : list R -> res (arr R)) (eigmax : arr R -> R) (mn mx : list R)
         (s0 t1 t2 : R) (x y : list R),
  t1 < t2 -> t2 < 0 -> good_call get_gradient mn mx (t2, x) -> good_call get_gradient mn mx (t1, y) ->
  rate get_gradient eigmax x <> rate get_gradient eigmax y ->
  exists stA vA stB vB1 vB,
    @ev_run NumR get_gradient eigmax mn mx (@ev_init NumR s0) [(t2, x)] = Ok (stA, [vA]) /\
    @ev_run NumR get_gradient eigmax mn mx (@ev_init NumR s0) [(t1, y); (t2, x)] = Ok (stB, [vB1; vB]) /\
    vA <> vB /\ vB - vA = Rabs t1 * (rate get_gradient eigmax x - rate get_gradient eigmax y).
Proof. exact event_not_a_function_proof. Qed.

Theorem C18_event_outside_is_zero :
  forall (get_gradient : list R -> res (arr R)) (eigmax : arr R -> R) (mn mx : list R) st t x,
  @is_inside NumR x mn mx = Ok false ->
  @ev_step NumR get_gradient eigmax mn mx st (t, x) = Ok (st, 0).
Proof. exact ev_step_outside. Qed.

(* non-vacuity: the hypotheses of event_not_a_function are satisfiable *)
Example C18_nonvacuous :
  good_call toy_gradient [-1] [1] (-1, [1 / 2]) /\ good_call toy_gradient [-1] [1] (-2, [1 / 4]) /\
  rate toy_gradient toy_eigmax [1 / 2] <> rate toy_gradient toy_eigmax [1 / 4].
Proof. exact event_hypotheses_satisfiable. Qed.

(* --- a SEQUENCE of get_pathline calls in one process (Model_pathline_session.v) ---------- *)
(* `solve` = the oracle solve_ivp as get_pathline calls it (any function of the solver
   arguments, may raise); `c` = whatever a module-level store contained before the first call.
   The current source has no such store (variant NoMemo): the batch of results is the map of
   the single call, for every history, every initial store, every solver. *)
Theorem C18_session_is_map :
  forall (Sol K : Type) (keq : K -> K -> bool) (solve : @sargs NumR -> res (@solution NumR Sol))
         (c : @store NumR Sol K) (rs : list (@request NumR)),
  @session NumR Sol K keq solve (NoMemo K) c rs = map (@get_pathline NumR Sol solve) rs.
Proof. exact (@session_is_map_proof NumR). Qed.

Theorem C18_session_store_untouched :
  forall (Sol K : Type) (keq : K -> K -> bool) (solve : @sargs NumR -> res (@solution NumR Sol))
         (c : @store NumR Sol K) (rs : list (@request NumR)),
  @session_store NumR Sol K keq solve (NoMemo K) c rs = c.
Proof. exact (@session_store_untouched_proof NumR). Qed.

(* the result of a call is get_pathline of ITS OWN request: it depends neither on the calls
   before it (h1 / h2), nor on the calls after it (t1 / t2), nor on the initial store *)
Theorem C18_session_history_independent :
  forall (Sol K : Type) (keq : K -> K -> bool) (solve : @sargs NumR -> res (@solution NumR Sol))
         (c1 c2 : @store NumR Sol K) (h1 h2 t1 t2 : list (@request NumR)) (r : @request NumR)
         (d : res (@pathline NumR Sol)),
  nth (length h1) (@session NumR Sol K keq solve (NoMemo K) c1 (h1 ++ r :: t1)) d
  = @get_pathline NumR Sol solve r /\
  nth (length h1) (@session NumR Sol K keq solve (NoMemo K) c1 (h1 ++ r :: t1)) d
  = nth (length h2) (@session NumR Sol K keq solve (NoMemo K) c2 (h2 ++ r :: t2)) d.
Proof. exact (@session_history_independent_proof NumR). Qed.

(* a memoizing get_pathline is invisible as soon as its key determines what solve_ivp returns
   (regular_steps need not be part of the key: it is applied after the look-up) *)
Theorem C18_session_memo_sound :
  forall (Sol K : Type) (keq : K -> K -> bool) (solve : @sargs NumR -> res (@solution NumR Sol))
         (key : @sargs NumR -> K),
  (forall a b, keq a b = true <-> a = b) ->
  (forall a b, key a = key b -> solve a = solve b) ->
  forall (rs : list (@request NumR)) (c : @store NumR Sol K),
  @consistent NumR Sol K keq solve key c ->
  @session NumR Sol K keq solve (Memo K key) c rs = map (@get_pathline NumR Sol solve) rs.
Proof. exact (@memo_sound_proof NumR). Qed.

(* ... and visible otherwise: if two requests share a key (e.g. id() of callables whose
   addresses have been recycled) but not their pathline, the second call of the history
   [r1; r2] returns the pathline of r1, whereas the current source returns that of r2 *)
Theorem C18_session_stale_memo_refuted :
  forall (Sol K : Type) (keq : K -> K -> bool) (solve : @sargs NumR -> res (@solution NumR Sol))
         (key : @sargs NumR -> K),
  (forall a b, keq a b = true <-> a = b) ->
  forall (a1 a2 : @sargs NumR) (st1 st2 : option nat) (s1 : @solution NumR Sol)
         (d : res (@pathline NumR Sol)),
  key a1 = key a2 -> solve a1 = Ok s1 ->
  @get_pathline NumR Sol solve (a2, st2) <> Ok (@post NumR Sol s1 st2) ->
  nth 1 (@session NumR Sol K keq solve (Memo K key) [] [(a1, st1); (a2, st2)]) d
  = Ok (@post NumR Sol s1 st2) /\
  nth 1 (@session NumR Sol K keq solve (Memo K key) [] [(a1, st1); (a2, st2)]) d
  <> @get_pathline NumR Sol solve (a2, st2) /\
  nth 1 (@session NumR Sol K keq solve (NoMemo K) [] [(a1, st1); (a2, st2)]) d
  = @get_pathline NumR Sol solve (a2, st2).
Proof. exact (@memo_stale_proof NumR). Qed.

(* non-vacuity: both sets of hypotheses are satisfiable (a plate-speed sweep at a fixed end
   point with a key that forgets the speed; a key that determines the solution) *)
Example C18_session_nonvacuous :
  (toy_key (toy_args 1) = toy_key (toy_args 2) /\
   toy_solve (toy_args 1) = Ok ([0; -1], tt) /\
   @get_pathline NumR unit toy_solve (toy_args 2, None) <> Ok (@post NumR unit ([0; -1], tt) None)) /\
  ((forall a b, Z.eqb a b = true <-> a = b) /\
   (forall a b, toy_key a = toy_key b -> toy_solve_flow a = toy_solve_flow b)).
Proof. exact session_hypotheses_satisfiable. Qed.

(* --- pydrex.pathlines as GENERATED from the source (gen/Gen_pathlines.v) ------------------- *)
(* `A l` is the array of the list l; `lift_v 3 gv` / `lift_g 3 gg` are the user callables reading
   their point from an array.  Points of dimension 3. *)
Theorem C18_generated_is_inside : forall pt mn mx : list R,
  length pt = 3%nat -> length mn = 3%nat -> length mx = 3%nat ->
  (in_box pt mn mx -> @k_is_inside_n3 NumR (A pt) (A mn) (A mx) = 1) /\
  (~ in_box pt mn mx -> @k_is_inside_n3 NumR (A pt) (A mn) (A mx) = 0).
Proof. exact gen_is_inside_spec. Qed.

(* the three size mismatches that were traced: the assertion fires for all values *)
Theorem C18_generated_is_inside_sizes : forall pt mn mx : arr R,
  @k_is_inside_n3_3_2 NumR pt mn mx = Err AssertionError /\
  @k_is_inside_n3_2_3 NumR pt mn mx = Err AssertionError /\
  @k_is_inside_n2_3_3 NumR pt mn mx = Err AssertionError.
Proof. exact gen_is_inside_sizes. Qed.

Theorem C18_generated_ivp_func : forall (pt mn mx : list R),
  length pt = 3%nat -> length mn = 3%nat -> length mx = 3%nat ->
  forall (t : R) (gv : list R -> res (list R)) (gg : arr R -> res (arr R)),
  (in_box pt mn mx ->
     @k_ivp_func_n3 NumR t (A pt) (lift_v 3 gv) gg (A mn) (A mx) = res_map A (gv pt)) /\
  (~ in_box pt mn mx ->
     @k_ivp_func_n3 NumR t (A pt) (lift_v 3 gv) gg (A mn) (A mx) = Ok (A [0; 0; 0])).
Proof. exact gen_ivp_func_spec. Qed.

(* the Jacobian handed to the solver is the velocity-GRADIENT callable inside the box (hence 2 x the
   Jacobian of the right-hand side for simple shear, see the known findings), zeros outside *)
Theorem C18_generated_ivp_jac : forall (pt mn mx : list R),
  length pt = 3%nat -> length mn = 3%nat -> length mx = 3%nat ->
  forall (t : R) (gv : arr R -> res (arr R)) (gg : list R -> res (arr R)),
  (in_box pt mn mx ->
     @k_ivp_jac_n3 NumR t (A pt) gv (lift_g 3 gg) (A mn) (A mx) = gg pt) /\
  (~ in_box pt mn mx ->
     exists Z, @k_ivp_jac_n3 NumR t (A pt) gv (lift_g 3 gg) (A mn) (A mx) = Ok Z /\ forall k, Z k = 0).
Proof. exact gen_ivp_jac_spec. Qed.

Theorem C18_ivp_jac_spec : forall (get_gradient : list R -> res (arr R)) (pt mn mx : list R),
  length pt = length mn -> length mn = length mx ->
  (in_box pt mn mx -> @ivp_jac NumR get_gradient mn mx pt = get_gradient pt) /\
  (~ in_box pt mn mx ->
     exists Z, @ivp_jac NumR get_gradient mn mx pt = Ok Z /\ forall k, Z k = 0).
Proof. exact ivp_jac_spec_proof. Qed.

(* ONE call of the generated event closure is one step of the state machine (any state, any call) *)
Theorem C18_generated_event_step :
  forall (tp s t : R) (gv : arr R -> res (arr R)) (gg : list R -> res (arr R)) (eig : arr R -> R) (pt mn mx : list R),
  length pt = 3%nat -> length mn = 3%nat -> length mx = 3%nat ->
  @k_terminate_n3 NumR tp s t (A pt) gv (lift_g 3 gg) eig (A mn) (A mx)
  = res_map ev_out (@ev_step NumR gg eig mn mx (@mk_ev NumR tp s) (t, pt)).
Proof. exact terminate_inst_3. Qed.

(* any HISTORY of calls of the generated closure, its two `nonlocal` variables threaded from call
   to call: along monotonically backward in-domain calls it returns max_strain minus the running
   Riemann sum of the strain rate *)
Theorem C18_generated_event_history :
  forall (gv : arr R -> res (arr R)) (gg : list R -> res (arr R)) (eig : arr R -> R) (mn mx : list R),
  length mn = 3%nat -> length mx = 3%nat ->
  forall (calls : list (R * list R)) (tp s : R),
  List.Forall (fun c => length (snd c) = 3%nat) calls ->
  List.Forall (good_call gg mn mx) calls -> backward tp calls ->
  gen_event_run gv (lift_g 3 gg) eig (A mn) (A mx) tp s calls
  = Ok (last (map fst calls) tp, s - riemann gg eig tp calls, back_values gg eig tp s calls).
Proof. exact gen_event_monotone. Qed.

(* the strain clause as far as the event semantics gives it: started from (0, max_strain), if the last
   returned value is not below -max_strain/4 the Riemann sum of the strain rate over the calls is at most
   1.25 max_strain (that the solver's accepted steps form such a history, and Riemann sum vs integral,
   are NOT proved: measured) *)
Theorem C18_generated_event_strain_bound :
  forall (gv : arr R -> res (arr R)) (gg : list R -> res (arr R)) (eig : arr R -> R) (mn mx : list R),
  length mn = 3%nat -> length mx = 3%nat ->
  forall (calls : list (R * list R)) (ms a b : R) (vs : list R),
  List.Forall (fun c => length (snd c) = 3%nat) calls ->
  List.Forall (good_call gg mn mx) calls -> backward 0 calls ->
  gen_event_run gv (lift_g 3 gg) eig (A mn) (A mx) 0 ms calls = Ok (a, b, vs) ->
  b = ms - riemann gg eig 0 calls /\ last vs ms = b /\
  (- ms / 4 <= b -> riemann gg eig 0 calls <= 1.25 * ms) /\ (b = 0 -> riemann gg eig 0 calls = ms).
Proof. exact gen_event_strain_bound. Qed.

(* what get_pathline asks solve_ivp for (vector layout: Model_pathlines.solver_request) *)
Theorem C18_generated_request : forall (fl mn mx : list R) (ms : R), length fl = 3%nat ->
  let rq := @k_request_n3 NumR (A fl) (A mn) (A mx) ms in
  rq 0%nat = 0 /\ rq 1%nat < 0 /\ rq 2%nat = 2 /\ [rq 3%nat; rq 4%nat; rq 5%nat] = fl /\
  0 < rq 6%nat /\ 0 < rq 7%nat /\ rq 8%nat = 5 /\ rq 9%nat = 1 /\ rq 10%nat = 1 /\ rq 11%nat = 0 /\
  rq 12%nat = 1 /\ rq 13%nat = 1 /\ rq 14%nat = 1 /\ rq 15%nat = 1 /\ rq 16%nat = 0 /\ rq 17%nat = 0 /\
  rq 18%nat = 0 /\ rq 19%nat = 0 /\ rq 20%nat = ms /\ rq 21%nat = 0.
Proof. exact gen_request_spec. Qed.

Theorem C18_generated_request_kwargs : forall (fl mn mx : list R) (ms atol rtol fs mxs : R), length fl = 3%nat ->
  let rq := @k_request_kw_n3 NumR (A fl) (A mn) (A mx) ms atol rtol fs mxs in
  let rq0 := @k_request_n3 NumR (A fl) (A mn) (A mx) ms in
  rq 6%nat = atol /\ rq 7%nat = rtol /\ rq 8%nat = 3 /\ rq 16%nat = fs /\ rq 17%nat = mxs /\ rq 21%nat = 4 /\
  forall k, (k < 22)%nat -> k <> 6%nat -> k <> 7%nat -> k <> 8%nat -> k <> 16%nat -> k <> 17%nat -> k <> 21%nat ->
            rq k = rq0 k.
Proof. exact gen_request_kw_spec. Qed.

(* the generated post-processing at three solver time stamps is the list model (all 15 instances are in
   Inst_pathlines.v; regular_steps = 0 returns the single EARLIEST time, not 0) *)
Theorem C18_generated_timestamps : forall ts : list R, length ts = 3%nat ->
  @k_post_m3_none NumR (A ts) = A (@timestamps NumR ts None) /\
  @k_post_m3_s2 NumR (A ts) = A (@timestamps NumR ts (Some 2%nat)) /\
  @k_post_m3_s0 NumR (A ts) = A [last ts 0].
Proof. exact gen_timestamps_m3. Qed.

(* solve_ivp as an oracle (ts = path.t, sol = path.sol); hypotheses relative to the GENERATED request,
   each checked on the real routine at run time: the integration starts at t_span[0], proceeds towards
   t_span[1], and the dense output at the start reproduces y0.  Then the returned time stamps are
   strictly increasing and end at 0, and the returned interpolant at the last time stamp IS the requested
   final location *)
Theorem C18_pathline_ends_at_final_location :
  forall (fl mn mx : list R) (ms : R) (ts : list R) (sol : R -> list R) (steps : option nat),
  length fl = 3%nat ->
  let rq := @k_request_n3 NumR (A fl) (A mn) (A mx) ms in
  hd 0 ts = rq 0%nat ->
  (rq 1%nat < rq 0%nat -> strictly_decreasing ts) ->
  sol (rq 0%nat) = [rq 3%nat; rq 4%nat; rq 5%nat] ->
  (2 <= length ts)%nat -> (steps = None \/ exists n, steps = Some n /\ (0 < n)%nat) ->
  let out := @timestamps NumR ts steps in
  strictly_increasing out /\ last out 0 = 0 /\ sol (last out 0) = fl.
Proof. exact pathline_ends_at_final_proof. Qed.

Example C18_pathline_nonvacuous :
  (let fl := [1; 2; 3] in let ts := [0; -1] in let sol := fun _ : R => fl in
   let rq := @k_request_n3 NumR (A fl) (A [0; 0; 0]) (A [4; 4; 4]) 1 in
   hd 0 ts = rq 0%nat /\ (rq 1%nat < rq 0%nat -> strictly_decreasing ts) /\
   sol (rq 0%nat) = [rq 3%nat; rq 4%nat; rq 5%nat] /\ (2 <= length ts)%nat) /\
  (let calls := [(-1, [1 / 2; 0; 0]); (-2, [1 / 4; 0; 0])] in
   List.Forall (fun c : R * list R => length (snd c) = 3%nat) calls /\
   List.Forall (good_call toy_gradient3 [-1; -1; -1] [1; 1; 1]) calls /\ backward 0 calls /\
   riemann toy_gradient3 toy_eigmax 0 calls = 3 / 4).
Proof. exact (conj pathline_hypotheses_satisfiable event_history_hypotheses_satisfiable). Qed.

(* --- the PUBLIC wrappers as GENERATED from the source (all 36 letter pairs "XYZxyz") -------- *)
(* k_<flow>_wrap_u / _L: the real simple_shear_2d / cell_2d / corner_2d called with the two letters, then
   the first / second returned callable applied to (t, x).  `fold_case` maps x y z to X Y Z. *)
Theorem C18_generated_wrappers : forall (hl vl : Z) (p q t : R) (x : arr R), letter6_ok hl -> letter6_ok vl ->
  let h := fold_case hl in let v := fold_case vl in
  @k_simple_shear_2d_wrap_u NumR hl vl p t x = @wrapper_velocity NumR 0 h v [p] t x /\
  @k_simple_shear_2d_wrap_L NumR hl vl p t x = @wrapper_gradient NumR 0 h v [p] t x /\
  @k_cell_2d_wrap_u NumR hl vl p q t x = @wrapper_velocity NumR 1 h v [p; q] t x /\
  @k_cell_2d_wrap_L NumR hl vl p q t x = @wrapper_gradient NumR 1 h v [p; q] t x /\
  @k_cell_2d_wrap_u_default NumR hl vl p t x = @wrapper_velocity NumR 1 h v [p; 2] t x /\
  @k_cell_2d_wrap_L_default NumR hl vl p t x = @wrapper_gradient NumR 1 h v [p; 2] t x /\
  @k_corner_2d_wrap_u NumR hl vl p t x = @wrapper_velocity NumR 2 h v [p] t x /\
  @k_corner_2d_wrap_L NumR hl vl p t x = @wrapper_gradient NumR 2 h v [p] t x.
Proof. exact gen_wrappers. Qed.

Theorem C18_generated_bad_letter : forall (hl vl : Z) (p q t : R) (x : arr R), ~ letter6_ok hl ->
  @k_simple_shear_2d_wrap_u NumR hl vl p t x = Err ValueError /\ @k_cell_2d_wrap_u NumR hl vl p q t x = Err ValueError /\
  @k_corner_2d_wrap_u NumR hl vl p t x = Err ValueError.
Proof. exact wrap_bad_letter. Qed.

(* what holds of the two defective flows (`_partial`, KNOWN FINDINGS), about the generated public wrappers *)
Theorem C18_generated_shear_partial : forall (hl vl : Z) (rate t : R) (x : arr R) i j,
  letter6_ok hl -> letter6_ok vl ->
  @wrapper_indices NumR 0 (fold_case hl) (fold_case vl) [rate] = Ok (i, j) ->
  exists a G, @k_simple_shear_2d_wrap_u NumR hl vl rate t x = Ok a /\
              @k_simple_shear_2d_wrap_L NumR hl vl rate t x = Ok G /\
    (forall k, (k < 3)%nat -> a k = shear_field i j rate x k) /\
    (forall k m, (k < 3)%nat -> (m < 3)%nat ->
       exists J, is_derive (fun s => shear_field i j rate (upd x m s) k) (x m) J /\
                 G (3 * k + m)%nat = 2 * J) /\
    G 0%nat + G 4%nat + G 8%nat = 0.
Proof. exact gen_shear_partial. Qed.

Theorem C18_generated_cell_partial : forall (hl vl : Z) (u d t : R) (x : arr R) i j,
  letter6_ok hl -> letter6_ok vl ->
  @wrapper_indices NumR 1 (fold_case hl) (fold_case vl) [u; d] = Ok (i, j) ->
  in_cell d (x i) (x j) ->
  exists a G, @k_cell_2d_wrap_u NumR hl vl u d t x = Ok a /\
              @k_cell_2d_wrap_L NumR hl vl u d t x = Ok G /\
    (forall k, (k < 3)%nat -> a k = cell_field i j u d x k) /\
    (forall k m, (k < 3)%nat -> (m < 3)%nat -> k <> j ->
       is_derive (fun s => cell_field i j u d (upd x m s) k) (x m) (G (3 * k + m)%nat)) /\
    is_derive (fun s => cell_field i j u d (upd x i s) j) (x i) (G (3 * j + j)%nat) /\
    is_derive (fun s => cell_field i j u d (upd x j s) j) (x j) (G (3 * j + i)%nat) /\
    (forall m, (m < 3)%nat -> m <> i -> m <> j -> G (3 * j + m)%nat = 0).
Proof. exact gen_cell_partial. Qed.

(* the full statement of the property for the corner flow, about the generated public wrappers *)
Theorem C18_generated_corner_grad_is_jacobian : forall (hl vl : Z) (U t : R) (x : arr R) i j,
  letter6_ok hl -> letter6_ok vl ->
  @wrapper_indices NumR 2 (fold_case hl) (fold_case vl) [U] = Ok (i, j) ->
  ~ corner_hole (x i) (x j) -> corner_smooth (x i) (x j) ->
  exists a G, @k_corner_2d_wrap_u NumR hl vl U t x = Ok a /\
              @k_corner_2d_wrap_L NumR hl vl U t x = Ok G /\
    (forall k, (k < 3)%nat -> a k = corner_field i j U x k) /\
    (forall k m, (k < 3)%nat -> (m < 3)%nat ->
       is_derive (fun s => corner_field i j U (upd x m s) k) (x m) (G (3 * k + m)%nat)) /\
    G 0%nat + G 4%nat + G 8%nat = 0.
Proof. exact gen_corner_grad_is_jacobian. Qed.

(* --- exact solutions of the problem get_pathline poses ------------------------------------- *)
(* x solves dx/dt = _ivp_func(x) on [a, 0] (any velocity callable, any box, any dimension) and ends
   inside the closed box: then it is inside the box at EVERY time.  (_ivp_func is exactly 0 outside:
   a point outside cannot move, so it would still be outside at t = 0.)  The "stays inside the domain
   box" clause for the exact solution; LSODA's deviation from it is measured. *)
Theorem C18_exact_pathline_stays_in_box :
  forall (gv : list R -> res (list R)) (mn mx : list R) (x : R -> list R) (a : R),
  length mn = length mx ->
  (forall t, a <= t <= 0 -> length (x t) = length mn /\
     exists v, @ivp_func NumR gv mn mx (x t) = Ok v /\
       forall k, (k < length mn)%nat -> is_derive (fun s => nth k (x s) 0) t (nth k v 0)) ->
  in_box (x 0) mn mx ->
  forall t, a <= t <= 0 -> in_box (x t) mn mx.
Proof. exact exact_pathline_stays_in_box. Qed.

(* the same with the right-hand side GENERATED from the source (dimension 3) *)
Theorem C18_generated_exact_pathline_stays_in_box :
  forall (gv : list R -> res (list R)) (gg : arr R -> res (arr R)) (mn mx : list R) (x : R -> list R) (a : R),
  length mn = 3%nat -> length mx = 3%nat ->
  (forall t, a <= t <= 0 -> length (x t) = 3%nat /\
     exists v, @k_ivp_func_n3 NumR t (A (x t)) (lift_v 3 gv) gg (A mn) (A mx) = Ok v /\
       forall k, (k < 3)%nat -> is_derive (fun s => nth k (x s) 0) t (v k)) ->
  in_box (x 0) mn mx ->
  forall t, a <= t <= 0 -> in_box (x t) mn mx.
Proof. exact gen_exact_pathline_stays_in_box. Qed.

Example C18_exact_nonvacuous :
  let gv := fun _ : list R => Ok [0; 0; 0] in let x := fun _ : R => [0; 0; 0] in
  let mn := [-1; -1; -1] in let mx := [1; 1; 1] in
  forall t : R, -1 <= t <= 0 -> length (x t) = length mn /\
     exists v, @ivp_func NumR gv mn mx (x t) = Ok v /\
       forall k, (k < length mn)%nat -> is_derive (fun s => nth k (x s) 0) t (nth k v 0).
Proof. exact exact_hypotheses_satisfiable. Qed.

(* --- the SOLVER OPTIONS of a sequence of get_pathline calls (Model_pathline_options.v) ------------- *)
(* `requests Fresh d calls` = the request vectors handed to solve_ivp by the call history `calls` made in a
   process whose defaults hold `d` (the current source: defaults are literals, evaluated at every call).
   The requests of a history are the map of the single call and the defaults are never written ... *)
Theorem C18_options_requests_are_map : forall (d : @opts NumR) (calls : list (@ocall NumR)),
  requests Fresh d calls = map req_of_call calls /\ defaults_after Fresh d calls = d.
Proof. exact (fun d calls => conj (requests_fresh_map d calls) (defaults_untouched d calls)). Qed.

(* ... the request of a call depends neither on earlier calls (h1 / h2), nor on later ones (t1 / t2), nor on
   what the defaults held (d1 / d2) ... *)
Theorem C18_options_request_history_independent :
  forall (d1 d2 : @opts NumR) (h1 h2 t1 t2 : list (@ocall NumR)) (c : @ocall NumR) (z : list R),
  nth (length h1) (requests Fresh d1 (h1 ++ c :: t1)) z = req_of_call c /\
  nth (length h1) (requests Fresh d1 (h1 ++ c :: t1)) z = nth (length h2) (requests Fresh d2 (h2 ++ c :: t2)) z.
Proof. exact (@request_history_independent NumR). Qed.

(* ... so a PLAIN call (no optional keyword argument) makes, anywhere in ANY history -- in particular after
   calls that passed method / atol / rtol / first_step / max_step / t_eval -- exactly the request GENERATED
   from the source, and a call with the traced keyword arguments the generated keyword request *)
Theorem C18_options_plain_call_request_is_generated :
  forall (d : @opts NumR) (h t : list (@ocall NumR)) (fl mn mx : list R) (ms : R) (z : list R),
  length fl = 3%nat ->
  A (nth (length h) (requests Fresh d (h ++ (fl, ms, no_opts) :: t)) z) = @k_request_n3 NumR (A fl) (A mn) (A mx) ms.
Proof. exact plain_call_request_is_generated. Qed.

Theorem C18_options_kw_call_request_is_generated :
  forall (d : @opts NumR) (h t : list (@ocall NumR)) (fl mn mx : list R) (ms atol rtol fs mxs : R) (z : list R),
  length fl = 3%nat ->
  A (nth (length h) (requests Fresh d (h ++ (fl, ms, kw_opts atol rtol fs mxs) :: t)) z)
  = @k_request_kw_n3 NumR (A fl) (A mn) (A mx) ms atol rtol fs mxs.
Proof. exact kw_call_request_is_generated. Qed.

(* defaults that are updated in place (a mutable default argument, seeded change C18e) are excluded: after one
   call with rtol = r the plain call would ask for rtol = r, the current source asks for the literal 1e-5 *)
Theorem C18_options_sticky_defaults_refuted : forall (fl1 fl2 : list R) (ms1 ms2 r : R) (z : list R),
  length fl2 = 3%nat -> r <> @default_rtol NumR ->
  let o := @mk_opts NumR None (Some r) None None None 0 0 in
  let hist : list (@ocall NumR) := [(fl1, ms1, o); (fl2, ms2, @no_opts NumR)] in
  nth 7 (nth 1 (requests Sticky no_opts hist) z) 0 = r /\
  nth 7 (nth 1 (requests Fresh no_opts hist) z) 0 = @default_rtol NumR /\
  nth 1 (requests Sticky no_opts hist) z <> nth 1 (requests Fresh no_opts hist) z.
Proof. exact sticky_defaults_refuted. Qed.

Example C18_options_nonvacuous : (2 / 10 : R) <> @default_rtol NumR.
Proof. exact sticky_hypotheses_satisfiable. Qed.
