(* Properties/C05.v -- C05: texture depends on the strain path, not on the strain rate *)
From Coq Require Import Reals ZArith List.
From Coquelicot Require Import Hierarchy Derive.
From PV Require Import Num NumR Model_core Model_minerals Proofs_core Proofs_minerals Proofs_rhs Proofs_flow Proofs_path Proofs_path2 Proofs_path3.
Import ListNotations.
Open Scope R_scope.

(* multiplying the velocity gradient (and with it the strain-rate scale s) by k multiplies the
   integrated vector field -- F block, orientation block and volume block alike -- by k;
   hence y(k t) solves the k-scaled problem when y(t) solves the original one *)
Theorem C05_vector_field_scales : forall regime ph fb n ass frs (L : list R) s Sd p nn lam M (y : list R) k,
  length L = 9%nat -> k <> 0 ->
  @rhs NumR regime ph fb n ass frs (map (Rmult k) L) (k * s) Sd p nn lam M y
  = res_map (map (Rmult k)) (@rhs NumR regime ph fb n ass frs L s Sd p nn lam M y).
Proof. exact rhs_scaling. Qed.

(* the strain-rate scale of the code is a function of D (uniqueness) that is positively
   homogeneous: scale(k D) = k scale(D) *)
Theorem C05_strain_rate_scale_unique : forall D m m', is_eigmax D m -> is_eigmax D m' -> m = m'.
Proof. exact eigmax_unique. Qed.

Theorem C05_strain_rate_scale_homogeneous : forall (D : list R) m k, length D = 9%nat -> 0 < k ->
  is_eigmax D m -> is_eigmax (map (Rmult k) D) (k * m).
Proof. exact eigmax_homogeneous. Qed.

(* the post-processing of the integrator's final vector does not involve the strain rate *)
Theorem C05_update_rate_free : forall n chi (prev : @snapshot NumR) (y : list R),
  length y = (9 + 10 * n)%nat -> fst (@update NumR n chi prev y) = firstn 9 y.
Proof. exact update_returns_F_block'. Qed.

(* exact solutions: if y solves y' = f(t, y) on [a,b] and the k-scaled history has the vector field
   fk(t, z) = k f(k t, z) (the theorem above), then z(t) = y(k t) solves the scaled problem on
   [a/k, b/k] and ends in the same state -- for every k > 0 and every partition *)
Theorem C05_solution_rescale : forall (f : R -> (nat -> R) -> nat -> R) (y : nat -> R -> R) (a b k : R),
  0 < k -> (forall i t, a <= t <= b -> is_derive (y i) t (f t (fun j => y j t) i)) ->
  forall i t, a / k <= t <= b / k ->
  is_derive (z y k i) t (fk f k t (fun j => z y k j t) i).
Proof. exact solution_rescale. Qed.

Theorem C05_rescaled_end_value : forall (y : nat -> R -> R) (b k : R), 0 < k ->
  forall i, z y k i (b / k) = y i b.
Proof. exact rescale_end_value. Qed.

(* capstone: for the texture ODE itself (vector field = the modelled eval_rhs with the velocity
   gradient history L(t) and its strain-rate scale s(t)), y(k t) solves the problem for the
   history k L(k t) -- whose scale is k s(k t) by homogeneity -- and ends in the same state *)
Theorem C05_strain_path_not_rate :
  forall (regime ph fb : Z) (n : nat) (ass : list Z) (frs Sd : list R) (p nn lam M : R)
         (Lh : R -> list R) (sh : R -> R),
  (forall t, length (Lh t) = 9%nat) ->
  forall (y : nat -> R -> R) (a b k : R), 0 < k ->
  (forall i t, a <= t <= b ->
     is_derive (y i) t (f regime ph fb n ass frs Sd p nn lam M Lh sh t (fun j => y j t) i)) ->
  (forall i t, a / k <= t <= b / k ->
     is_derive (z y k i) t (f_scaled regime ph fb n ass frs Sd p nn lam M Lh sh k t (fun j => z y k j t) i))
  /\ (forall i, z y k i (b / k) = y i b).
Proof. exact strain_path_not_rate. Qed.

Example C05_nonvacuous : length [1; 0; 0; 0; -1; 0; 0; 0; 0] = 9%nat /\ 1e-15 <> 0 /\ is_eigmax [1; 0; 0; 0; -1; 0; 0; 0; 0] 1.
Proof. exact C05_nonvacuous_proof. Qed.

(* the scale used by f_scaled in the capstone is not supplied by hand: if sh is the strain-rate scale of the
   history Lh (the eigenvalue oracle's characterisation, on D = sym L), then k.sh(k t) is the strain-rate scale
   of the scaled, time-compressed history k.Lh(k t) *)
Theorem C05_scaled_history_scale : forall (Lh : R -> list R) (sh : R -> R) (k : R),
  0 < k -> (forall t, length (Lh t) = 9%nat) ->
  (forall t, is_eigmax (@sym9 NumR (Lh t)) (sh t)) ->
  forall t, is_eigmax (@sym9 NumR (map (Rmult k) (Lh (k * t)))) (k * sh (k * t)).
Proof. exact scaled_history_scale. Qed.

(* non-vacuity: the constant pure-shear history Lh t = shear_L = diag(1,-1,0) has strain-rate scale sh t = 1 *)
Example C05_scaled_history_nonvacuous :
  length shear_L = 9%nat /\ is_eigmax (@sym9 NumR shear_L) 1.
Proof. exact scaled_history_nonvacuous_proof. Qed.

(* ---- round 5: the problem instance handed to the integrator (Model_minerals.lsoda_problem_of, tied to the
   constructor call `LSODA(eval_rhs, t0, y0, t_bound, atol=.., rtol=.., first_step=.., lband, uband)` of
   Mineral.update_orientations by Inst_minerals_drv.lsoda_args_inst_{1,2,3}; the translator fails closed when a
   further keyword -- max_step, min_step -- is passed) ---------------------------------------------------- *)
From PV Require Import Proofs_driver.

(* the k-scaled history (velocity gradient k L on the time interval [t0/k, t1/k]): the problem instance the code
   builds is the TIME RESCALING of the unscaled one -- t0, t_bound and first_step are divided by k; y0, atol and
   rtol are unchanged -- and the vector field it integrates is k times the unscaled field *)
Theorem C05_problem_instance_rescales :
  forall (regime ph fb : Z) (n : nat) (ass : list Z) (frs Sd : list R) (p nn lam M : R)
         (Fd : list R) (s0 : @snapshot NumR) (t0 t1 k : R) (L : list R) (sc : R) (y : list R),
  0 < k -> length L = 9%nat ->
  @lsoda_problem_of NumR Fd s0 (t0 / k) (t1 / k) = rescale_problem k (@lsoda_problem_of NumR Fd s0 t0 t1)
  /\ @rhs NumR regime ph fb n ass frs (map (Rmult k) L) (k * sc) Sd p nn lam M y
     = res_map (map (Rmult k)) (@rhs NumR regime ph fb n ass frs L sc Sd p nn lam M y).
Proof. exact problem_instance_rescales. Qed.

(* start vector and tolerances do not depend on the times at all; the first step is a fixed fraction
   (the binary64 value of 0.1) of the time span *)
Theorem C05_tolerances_time_free : forall (Fd : list R) (s : @snapshot NumR) (t0 t1 t0' t1' : R),
  let P := @lsoda_problem_of NumR Fd s t0 t1 in let P' := @lsoda_problem_of NumR Fd s t0' t1' in
  lp_y0 P = lp_y0 P' /\ lp_atol P = lp_atol P' /\ lp_rtol P = lp_rtol P'.
Proof. exact problem_time_free. Qed.
Theorem C05_first_step_relative_to_span : forall (Fd : list R) (s : @snapshot NumR) (t0 t1 : R),
  let P := @lsoda_problem_of NumR Fd s t0 t1 in
  lp_first P = Rabs (lp_tb P - lp_t0 P) * (3602879701896397 / 36028797018963968).
Proof. exact problem_first_step. Qed.

Example C05_problem_nonvacuous : 0 < 1 / 1000 /\ length id9 = 9%nat.
Proof. exact problem_nonvacuous_proof. Qed.
