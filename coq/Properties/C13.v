(* Properties/C13.v -- C13: eigenvalue-based texture and strain diagnostics are objective.
   Only statements; each is closed by `exact` of a lemma of Proofs_diag.v.
   Conventions: orientation sets are lists of any length of 3x3 matrices (rows = crystal
   axes in the sample frame); `scatter os r` is the model of stats._scatter_matrix
   (lower triangle); LAPACK is an oracle: `eigvalsh`, `eigh` are arbitrary functions and
   every theorem assumes `vals_spec` / `eig_spec` of their outputs on the matrices that are
   actually decomposed (two independent runs `eigh`, `eigh'` where two calls are compared);
   the harness checks these hypotheses on every recorded LAPACK call. *)
From Coq Require Import Reals ZArith List Permutation.
From PV Require Import Num NumR Model_diag Proofs_diag Proofs_diag_inst Proofs_diag_more Proofs_diag_angle
  Model_diag_session Proofs_diag_session Model_diag_fse_session Proofs_diag_fse_session.
From PV.gen Require Import Gen_diag.
Import ListNotations.
Open Scope R_scope.

(* ---- what the oracle hypothesis determines ---- *)
Theorem C13_sorted_roots_unique : forall l1 l2 l3 m1 m2 m3,
  l1 <= l2 -> l2 <= l3 -> m1 <= m2 -> m2 <= m3 ->
  (forall x, (l1 - x) * (l2 - x) * (l3 - x) = (m1 - x) * (m2 - x) * (m3 - x)) ->
  (l1, l2, l3) = (m1, m2, m3).
Proof. exact sorted_roots_unique. Qed.

Theorem C13_eig_spec_rotated : forall (Q : M3) S l v1 v2 v3, orthogonal Q ->
  eig_spec S (l, (v1, v2, v3)) -> eig_spec (congr Q S) (l, (mulv Q v1, mulv Q v2, mulv Q v3)).
Proof. exact eig_spec_congr. Qed.

Theorem C13_top_eigenvector_unique : forall S l1 l2 l3 v1 v2 v3 u,
  eig_spec S ((l1, l2, l3), (v1, v2, v3)) -> l2 < l3 -> eigvec S l3 u -> u = v3 \/ u = neg3 v3.
Proof. exact top_unique. Qed.

(* ---- scatter matrix ---- *)
Theorem C13_scatter_perm : forall os os' r,
  Permutation os os' -> @scatter NumR os r = scatter os' r.
Proof. exact scatter_perm. Qed.

Theorem C13_scatter_twofold : forall os os' r,
  Forall2 axes_flipped os os' -> @scatter NumR os r = scatter os' r.
Proof. exact scatter_twofold. Qed.

Theorem C13_scatter_frame : forall (Q : M3) os r,
  @scatter NumR (map (rotate_frame Q) os) r = congr Q (scatter os r).
Proof. exact scatter_frame. Qed.

Theorem C13_scatter_trace : forall os r,
  Forall unit_rows os -> tr6 (@scatter NumR os r) = INR (length os).
Proof. exact scatter_trace. Qed.

Theorem C13_scatter_eigs_nonneg : forall os r l1 l2 l3,
  vals_spec (@scatter NumR os r) (l1, l2, l3) -> 0 <= l1 /\ 0 <= l2 /\ 0 <= l3.
Proof. exact scatter_eigs_nonneg. Qed.

(* ---- P, G, R ---- *)
Theorem C13_pgr_sum_one_and_range : forall (eigvalsh : S3 -> V3) os r,
  os <> [] -> Forall unit_rows os ->
  vals_spec (scatter os r) (eigvalsh (scatter os r)) ->
  let '(P, G, Rn) := symmetry_pgr eigvalsh os r in
  P + G + Rn = 1 /\ in01 P /\ in01 G /\ in01 Rn.
Proof. exact pgr_sum_range. Qed.

(* permutation, axis flips (two-fold relabelling), frame rotation *)
Theorem C13_pgr_invariant : forall (eigvalsh eigvalsh' : S3 -> V3) os os' r,
  equivalent_texture os os' ->
  vals_spec (scatter os r) (eigvalsh (scatter os r)) ->
  vals_spec (scatter os' r) (eigvalsh' (scatter os' r)) ->
  symmetry_pgr eigvalsh' os' r = symmetry_pgr eigvalsh os r.
Proof. exact pgr_invariant. Qed.

Theorem C13_pgr_ascending_refuted :
  exists l1 l2 l3, l1 <= l2 /\ l2 <= l3 /\ 0 <= l1 /\ 0 < l1 + l2 + l3 /\
    let '(P, G, Rn) := @pgr_of_ascending NumR (l1, l2, l3) in ~ in01 P.
Proof. exact pgr_ascending_refuted. Qed.

(* ---- coaxial index ---- *)
Theorem C13_coaxial_range : forall (eigvalsh : S3 -> V3) os r1 r2,
  os <> [] -> Forall unit_rows os ->
  vals_spec (scatter os r1) (eigvalsh (scatter os r1)) ->
  vals_spec (scatter os r2) (eigvalsh (scatter os r2)) ->
  anisotropic (eigvalsh (scatter os r1)) -> anisotropic (eigvalsh (scatter os r2)) ->
  in01 (coaxial_index eigvalsh os r1 r2).
Proof. exact coaxial_range. Qed.

Theorem C13_coaxial_invariant : forall (eigvalsh eigvalsh' : S3 -> V3) os os' r1 r2,
  equivalent_texture os os' ->
  vals_spec (scatter os r1) (eigvalsh (scatter os r1)) ->
  vals_spec (scatter os r2) (eigvalsh (scatter os r2)) ->
  vals_spec (scatter os' r1) (eigvalsh' (scatter os' r1)) ->
  vals_spec (scatter os' r2) (eigvalsh' (scatter os' r2)) ->
  coaxial_index eigvalsh' os' r1 r2 = coaxial_index eigvalsh os r1 r2.
Proof. exact coaxial_invariant. Qed.

(* ---- Bingham average ---- *)
Theorem C13_bingham_unit : forall (eigh : S3 -> EV) os r,
  eig_spec (scatter os r) (eigh (scatter os r)) ->
  let b := bingham_average eigh os r in dot3 b b = 1.
Proof. exact bingham_unit. Qed.

Theorem C13_bingham_is_principal : forall (eigh : S3 -> EV) os r,
  let S := scatter os r in
  eig_spec S (eigh S) ->
  let b := bingham_average eigh os r in
  let l := last_val (eigh S) in
  b = last_vec (eigh S) /\ symv S b = scale3 l b /\
  (forall x, charpoly S x = 0 -> x <= l) /\
  (forall u : V3, dot3 u u = 1 -> qf S u <= qf S b).
Proof. exact bingham_is_principal. Qed.

Theorem C13_bingham_corotates : forall (eigh eigh' : S3 -> EV) (Q : M3) os r,
  orthogonal Q ->
  let os' := map (rotate_frame Q) os in
  eig_spec (scatter os r) (eigh (scatter os r)) ->
  eig_spec (scatter os' r) (eigh' (scatter os' r)) ->
  simple_top (eigh (scatter os r)) ->
  up_to_sign (bingham_average eigh' os' r) (mulv Q (bingham_average eigh os r)).
Proof. exact bingham_corotates. Qed.

Theorem C13_bingham_perm_twofold : forall (eigh eigh' : S3 -> EV) os os' r,
  Permutation os os' \/ Forall2 axes_flipped os os' ->
  eig_spec (scatter os r) (eigh (scatter os r)) ->
  eig_spec (scatter os' r) (eigh' (scatter os' r)) ->
  simple_top (eigh (scatter os r)) ->
  up_to_sign (bingham_average eigh' os' r) (bingham_average eigh os r).
Proof. exact bingham_same_scatter. Qed.

(* ---- finite strain ---- *)
Theorem C13_fse_value : forall (eigh : S3 -> EV) (Fm : M3),
  let B := left_cauchy_green Fm in
  eig_spec B (eigh B) ->
  let l := last_val (eigh B) in let v := last_vec (eigh B) in
  finite_strain eigh Fm = (sqrt l - 1, v) /\
  charpoly B l = 0 /\ (forall x, charpoly B x = 0 -> x <= l) /\
  symv B v = scale3 l v /\ dot3 v v = 1 /\
  dot3 (mulv (transpose Fm) v) (mulv (transpose Fm) v) = l /\
  (forall u : V3, dot3 u u = 1 -> dot3 (mulv (transpose Fm) u) (mulv (transpose Fm) u) <= l) /\
  0 <= l /\ (invertible Fm -> 0 < l).
Proof. exact fse_value. Qed.

Theorem C13_fse_right_rotation : forall (eigh eigh' : S3 -> EV) (Fm Q : M3),
  orthogonal Q ->
  left_cauchy_green (mmul Fm Q) = left_cauchy_green Fm /\
  (eig_spec (left_cauchy_green Fm) (eigh (left_cauchy_green Fm)) ->
   eig_spec (left_cauchy_green (mmul Fm Q)) (eigh' (left_cauchy_green (mmul Fm Q))) ->
   fst (finite_strain eigh' (mmul Fm Q)) = fst (finite_strain eigh Fm) /\
   (simple_top (eigh (left_cauchy_green Fm)) ->
    up_to_sign (snd (finite_strain eigh' (mmul Fm Q))) (snd (finite_strain eigh Fm)))).
Proof. exact fse_right_rotation. Qed.

Theorem C13_fse_left_rotation : forall (eigh eigh' : S3 -> EV) (Q Fm : M3),
  left_cauchy_green (mmul Q Fm) = congr Q (left_cauchy_green Fm) /\
  (orthogonal Q ->
   eig_spec (left_cauchy_green Fm) (eigh (left_cauchy_green Fm)) ->
   eig_spec (left_cauchy_green (mmul Q Fm)) (eigh' (left_cauchy_green (mmul Q Fm))) ->
   fst (finite_strain eigh' (mmul Q Fm)) = fst (finite_strain eigh Fm) /\
   (simple_top (eigh (left_cauchy_green Fm)) ->
    up_to_sign (snd (finite_strain eigh' (mmul Q Fm))) (mulv Q (snd (finite_strain eigh Fm))))).
Proof. exact fse_left_rotation. Qed.

Theorem C13_right_cauchy_green_refuted :
  exists (Q Fm : M3), orthogonal Q /\
    @right_cauchy_green NumR (mmul Q Fm) <> congr Q (@right_cauchy_green NumR Fm).
Proof. exact right_cauchy_green_refuted. Qed.

(* simple shear F = I + g e_y (x) e_x, g >= 0: the axis at the angle given by
   utils.angle_fse_simpleshear(g/2) (degrees, anticlockwise from x) is a unit eigenvector of
   F F^T for its largest eigenvalue 1 + g tan(theta); for g > 0 it is the returned axis *)
Theorem C13_fse_simple_shear : forall (eigh : S3 -> EV) g, 0 <= g ->
  let B := left_cauchy_green (shear_F g) in
  eig_spec B (eigh B) ->
  let theta := @angle_fse_simpleshear NumR (g / 2) * (PI / 180) in
  let ax : V3 := (cos theta, sin theta, 0) in
  tan theta = sqrt (g / 2 * (g / 2) + 1) + g / 2 /\
  last_val (eigh B) = 1 + g * tan theta /\
  eigvec B (last_val (eigh B)) ax /\
  (0 < g -> up_to_sign (snd (finite_strain eigh (shear_F g))) ax).
Proof. exact fse_simple_shear. Qed.

(* non-vacuity: the hypotheses used above are jointly satisfiable *)
Example C13_nonvacuous :
  (I3 :: nil) <> nil /\ Forall unit_rows (I3 :: nil) /\ orthogonal I3 /\ invertible I3 /\
  eig_spec (@scatter NumR (I3 :: nil) 0) ex_eig /\ simple_top ex_eig /\ anisotropic (fst ex_eig) /\
  eig_spec (left_cauchy_green (shear_F 1))
     ((3 - (1 + 1 * (sqrt (1 / 2 * (1 / 2) + 1) + 1 / 2)), 1,
       1 + 1 * (sqrt (1 / 2 * (1 / 2) + 1) + 1 / 2)),
      (let t := sqrt (1 / 2 * (1 / 2) + 1) + 1 / 2 in let n := sqrt (1 + t * t) in
       ((t / n, - (1 / n), 0), (0, 0, 1), (1 / n, t / n, 0)))) /\
  axes_flipped I3 ((1, 0, 0), (0, -1, 0), (0, 0, -1)).
Proof. exact nonvacuous_diag. Qed.

(* ---- when P, G, R reach 1; exchange of the two axes of the coaxial index ---- *)
(* P = 1 iff the eigenvalues are (0, 0, n) iff all axes of the chosen kind are pairwise parallel
   (cross product zero), and then any two of them are equal up to sign *)
Theorem C13_pgr_point_iff : forall (eigvalsh : S3 -> V3) os r,
  os <> [] -> Forall unit_rows os ->
  vals_spec (scatter os r) (eigvalsh (scatter os r)) ->
  let '(P, G, Rn) := symmetry_pgr eigvalsh os r in
  (P = 1 <-> eigvalsh (scatter os r) = (0, 0, INR (length os))) /\
  (P = 1 <-> ForallOrdPairs parallel (map (rowv r) os)) /\
  (P = 1 -> G = 0 /\ Rn = 0 /\
            forall o o', In o os -> In o' os -> rowv r o = rowv r o' \/ rowv r o = neg3 (rowv r o')).
Proof. exact pgr_point_iff. Qed.

(* G = 1 iff the eigenvalues are (0, n/2, n/2): coplanar axes (det S = 0), isotropic in the plane *)
Theorem C13_pgr_girdle_iff : forall (eigvalsh : S3 -> V3) os r,
  os <> [] -> Forall unit_rows os ->
  vals_spec (scatter os r) (eigvalsh (scatter os r)) ->
  let '(P, G, Rn) := symmetry_pgr eigvalsh os r in
  (G = 1 <-> eigvalsh (scatter os r) = (0, INR (length os) / 2, INR (length os) / 2)) /\
  (G = 1 -> P = 0 /\ Rn = 0 /\ det6 (scatter os r) = 0).
Proof. exact pgr_girdle_iff. Qed.

(* R = 1 iff the three eigenvalues coincide iff the scatter matrix is (n/3) I *)
Theorem C13_pgr_random_iff : forall (eigvalsh : S3 -> V3) os r,
  os <> [] -> Forall unit_rows os ->
  vals_spec (scatter os r) (eigvalsh (scatter os r)) ->
  let '(P, G, Rn) := symmetry_pgr eigvalsh os r in
  (Rn = 1 <-> eigvalsh (scatter os r) = (INR (length os) / 3, INR (length os) / 3, INR (length os) / 3)) /\
  (Rn = 1 <-> scatter os r = iso6 (INR (length os) / 3)) /\
  (Rn = 1 -> P = 0 /\ G = 0).
Proof. exact pgr_random_iff. Qed.

(* R = 0 iff all axes of the chosen kind lie in ONE plane (are orthogonal to a common unit vector); the normal
   is the first eigenvector of any orthonormal eigen-decomposition `e` of the scatter matrix (e.g. LAPACK's) *)
Theorem C13_pgr_coplanar_iff : forall (eigvalsh : S3 -> V3) os r (e : EV),
  os <> [] -> Forall unit_rows os ->
  vals_spec (scatter os r) (eigvalsh (scatter os r)) -> eig_spec (scatter os r) e ->
  let '(P, G, Rn) := symmetry_pgr eigvalsh os r in
  (Rn = 0 <-> exists u : V3, dot3 u u = 1 /\ Forall (fun o => dot3 (rowv r o) u = 0) os) /\
  (Rn = 0 -> Forall (fun o => dot3 (rowv r o) (fst (fst (snd e))) = 0) os).
Proof. exact pgr_coplanar_iff. Qed.

(* the coaxial index is NOT symmetric in its axes: BA(axis2, axis1) = 1 - BA(axis1, axis2), BA(axis, axis) = 1/2 *)
Theorem C13_coaxial_swap : forall (eigvalsh : S3 -> V3) os r1 r2,
  os <> [] -> Forall unit_rows os ->
  vals_spec (scatter os r1) (eigvalsh (scatter os r1)) ->
  vals_spec (scatter os r2) (eigvalsh (scatter os r2)) ->
  anisotropic (eigvalsh (scatter os r1)) -> anisotropic (eigvalsh (scatter os r2)) ->
  coaxial_index eigvalsh os r2 r1 = 1 - coaxial_index eigvalsh os r1 r2 /\
  coaxial_index eigvalsh os r1 r1 = 1 / 2.
Proof. exact coaxial_swap. Qed.

(* ---- finite strain of rotations, stretches, and of any F given by a singular value decomposition ---- *)
Theorem C13_fse_rotation_zero : forall (eigh : S3 -> EV) (Q : M3), orthogonal Q ->
  vals_spec (left_cauchy_green Q) (fst (eigh (left_cauchy_green Q))) ->
  fst (finite_strain eigh Q) = 0.
Proof. exact fse_rotation_zero. Qed.

Theorem C13_fse_svd_value : forall (eigh : S3 -> EV) (Q1 Q2 : M3) s1 s2 s3,
  orthogonal Q1 -> orthogonal Q2 -> 0 <= s1 -> s1 <= s2 -> s2 <= s3 ->
  let Fm := mmul (mmul Q1 (diag3 s1 s2 s3)) Q2 in
  vals_spec (left_cauchy_green Fm) (fst (eigh (left_cauchy_green Fm))) ->
  fst (eigh (left_cauchy_green Fm)) = (s1 * s1, s2 * s2, s3 * s3) /\
  fst (finite_strain eigh Fm) = s3 - 1.
Proof. exact fse_svd_value. Qed.

Theorem C13_fse_diag_value : forall (eigh : S3 -> EV) a b c, 0 <= a -> a <= b -> b <= c ->
  vals_spec (left_cauchy_green (diag3 a b c)) (fst (eigh (left_cauchy_green (diag3 a b c)))) ->
  fst (finite_strain eigh (diag3 a b c)) = c - 1.
Proof. exact fse_diag_value. Qed.

Example C13_more_nonvacuous :
  orthogonal I3 /\ (0 <= 1 /\ 1 <= 2 /\ 2 <= 3) /\
  vals_spec (left_cauchy_green (diag3 1 2 3)) (1 * 1, 2 * 2, 3 * 3) /\
  vals_spec (left_cauchy_green I3) (1, 1, 1) /\
  parallel (1, 0, 0) (-1, 0, 0) /\ ForallOrdPairs parallel (map (rowv 0) [I3; I3]).
Proof. exact nonvacuous_more. Qed.

(* ---- smallest_angle (numba kernel): generated = model; range, errors, sign invariance, value ---- *)
Theorem C13_gen_smallest_angle_is_model : forall (v a p : arr R),
  @k_smallest_angle NumR v a = @smallest_angle NumR (vec_at v 0) (vec_at a 0) None /\
  @k_smallest_angle_plane NumR v a p = @smallest_angle NumR (vec_at v 0) (vec_at a 0) (Some (vec_at p 0)).
Proof. exact smallest_angle_insts. Qed.

Theorem C13_smallest_angle_range : forall (v a : V3) plane x,
  @smallest_angle NumR v a plane = Ok x -> 0 <= x <= 90.
Proof. exact smallest_angle_range. Qed.

(* ZeroDivisionError exactly when the (projected) vector or the axis vanishes; no other error *)
Theorem C13_smallest_angle_error : forall (v a : V3) plane,
  let w := match plane with Some p => @project_out NumR v p | None => v end in
  (@smallest_angle NumR v a plane = Err DivZero <-> (w = (0, 0, 0) \/ a = (0, 0, 0))) /\
  (forall e, @smallest_angle NumR v a plane = Err e -> e = DivZero).
Proof. exact smallest_angle_error. Qed.

(* the axis is bidirectional; so are the vector and the plane normal *)
Theorem C13_smallest_angle_sign : forall (v a : V3) plane,
  @smallest_angle NumR v (neg3 a) plane = @smallest_angle NumR v a plane /\
  @smallest_angle NumR (neg3 v) a plane = @smallest_angle NumR v a plane /\
  (forall p, plane = Some p -> @smallest_angle NumR v a (Some (neg3 p)) = @smallest_angle NumR v a plane).
Proof. exact smallest_angle_sign. Qed.

(* the value: the angle in [0, 90] degrees whose cosine is |v.a| / (|v| |a|) *)
Theorem C13_smallest_angle_value : forall (v a : V3) x,
  @smallest_angle_core NumR v a = Ok x ->
  0 <= x <= 90 /\ cos (x * (PI / 180)) = Rabs (cosang v a).
Proof. exact smallest_angle_core_cos. Qed.

Example C13_smallest_angle_nonvacuous :
  @smallest_angle NumR (1, 0, 0) (0, 1, 0) None = Ok 90 /\
  @smallest_angle NumR (1, 0, 0) (-1, 0, 0) None = Ok 0 /\
  @smallest_angle NumR (0, 0, 0) (1, 0, 0) None = Err DivZero /\
  @smallest_angle NumR (0, 0, 1) (1, 0, 0) (Some (0, 0, 1)) = Err DivZero.
Proof. exact nonvacuous_angle. Qed.

(* ---- tie T: the definitions REGENERATED FROM THE SOURCE on every run (gen/Gen_diag.v) ----
   gen_scatter n r / gen_pgr n / gen_coaxial n / gen_bingham n are the generated
   k_scatter_matrix_n{n}_r{r} / k_symmetry_pgr_n{n} / k_coaxial_index_n{n} / k_bingham_average_n{n}
   (n = 1, 2, 3 grains); k_finite_strain, k_angle_fse_simpleshear are generated as well.  LAPACK is a
   function PARAMETER of the generated code (any `eg` from 3x3 arrays to eigenvalues [and eigenvector matrix], 3x3 row-major in);
   `ev_lower eg` / `eh_lower eg` / `eh_full eg` are the model-level oracles it induces (eigenvalues =
   the three entries returned, eigenvectors = the COLUMNS of the returned matrix; argument = the
   array with S in the lower triangle and zeros above, resp. the symmetric array of S).
   `on_axis axis f` = Err ValueError unless axis is the code of "a", "b", "c" (0, 1, 2 -> row). *)
Theorem C13_gen_scatter_is_model : forall n r (O : arr R), small n -> (r < 3)%nat ->
  gen_scatter n r O = lower_arr (@scatter NumR (grains_arr n O) r).
Proof. exact gen_scatter_is_model. Qed.

Theorem C13_gen_symmetry_pgr_is_model : forall n (eg : arr R -> arr R) axis (O : arr R), small n ->
  gen_pgr n eg axis O = on_axis axis (symmetry_pgr (ev_lower eg) (grains_arr n O)).
Proof. exact gen_pgr_is_model. Qed.

Theorem C13_gen_coaxial_index_is_model : forall n (eg : arr R -> arr R) a1 a2 (O : arr R), small n ->
  gen_coaxial n eg a1 a2 O = on_axes a1 a2 (coaxial_index (ev_lower eg) (grains_arr n O)).
Proof. exact gen_coaxial_is_model. Qed.

Theorem C13_gen_bingham_average_is_model : forall n (eg : arr R -> arr R * arr R) axis (O : arr R), small n ->
  gen_bingham n eg axis O =
  on_axis axis (fun r => mk_arr 0 (flat3 (bingham_average (eh_lower eg) (grains_arr n O) r))).
Proof. exact gen_bingham_is_model. Qed.

Theorem C13_gen_finite_strain_is_model : forall (eg : arr R -> arr R * arr R) (Fa : arr R),
  @k_finite_strain NumR eg Fa =
  let '(v, ax) := finite_strain (eh_full eg) (mat_at Fa 0) in (v, mk_arr 0 (flat3 ax)).
Proof. exact finite_strain_inst. Qed.

Theorem C13_gen_angle_fse_simpleshear_is_model : forall s : R,
  @k_angle_fse_simpleshear NumR s = @angle_fse_simpleshear NumR s.
Proof. exact angle_fse_simpleshear_inst. Qed.

(* the calls WITHOUT axis / driver arguments: axis "a"; axis1 "b", axis2 "a"; any driver *)
Theorem C13_gen_defaults : forall (ev : arr R -> arr R) (eh : arr R -> arr R * arr R) (O Fa : arr R),
  Ok (@k_symmetry_pgr_n1_default NumR ev O) = gen_pgr 1 ev 0 O /\
  @k_coaxial_index_n1_default NumR ev O = gen_coaxial 1 ev 1 0 O /\
  Ok (@k_bingham_average_n1_default NumR eh O) = gen_bingham 1 eh 0 O /\
  @k_finite_strain_driver NumR eh Fa = @k_finite_strain NumR eh Fa.
Proof. exact gen_defaults. Qed.

(* axis specifiers: every string other than "a", "b", "c" is rejected by all three functions (both
   arguments of coaxial_index); "a", "b", "c" select rows 0, 1, 2 *)
Theorem C13_gen_axis_letters : forall n (ev : arr R -> arr R) (eh : arr R -> arr R * arr R) axis axis' (O : arr R),
  small n ->
  (axis <> 0%Z -> axis <> 1%Z -> axis <> 2%Z ->
     gen_pgr n ev axis O = Err ValueError /\ gen_bingham n eh axis O = Err ValueError /\
     gen_coaxial n ev axis axis' O = Err ValueError /\
     (axis' = 0%Z \/ axis' = 1%Z \/ axis' = 2%Z -> gen_coaxial n ev axis' axis O = Err ValueError)) /\
  (forall r, (r < 3)%nat ->
     gen_pgr n ev (Z.of_nat r) O = Ok (symmetry_pgr (ev_lower ev) (grains_arr n O) r) /\
     gen_bingham n eh (Z.of_nat r) O = Ok (mk_arr 0 (flat3 (bingham_average (eh_lower eh) (grains_arr n O) r)))).
Proof. exact gen_axis_letters. Qed.

(* the clauses of the property, stated about the GENERATED code *)
Theorem C13_gen_pgr_sum_one_and_range : forall n (eg : arr R -> arr R) axis (O : arr R) P G Rn, small n ->
  let os := grains_arr n O in
  Forall unit_rows os ->
  (forall r, row_of_axis axis = Ok r -> vals_spec (scatter os r) (ev_lower eg (scatter os r))) ->
  gen_pgr n eg axis O = Ok (P, G, Rn) ->
  P + G + Rn = 1 /\ in01 P /\ in01 G /\ in01 Rn.
Proof. exact gen_pgr_sum_range. Qed.

Theorem C13_gen_pgr_invariant : forall n (eg eg' : arr R -> arr R) axis (O O' : arr R), small n ->
  let os := grains_arr n O in let os' := grains_arr n O' in
  equivalent_texture os os' ->
  (forall r, row_of_axis axis = Ok r -> vals_spec (scatter os r) (ev_lower eg (scatter os r))) ->
  (forall r, row_of_axis axis = Ok r -> vals_spec (scatter os' r) (ev_lower eg' (scatter os' r))) ->
  gen_pgr n eg' axis O' = gen_pgr n eg axis O.
Proof. exact gen_pgr_invariant. Qed.

Theorem C13_gen_coaxial_range_invariant : forall n (eg eg' : arr R -> arr R) a1 a2 (O O' : arr R) ba, small n ->
  let os := grains_arr n O in let os' := grains_arr n O' in
  Forall unit_rows os ->
  (forall r, row_of_axis a1 = Ok r \/ row_of_axis a2 = Ok r ->
     vals_spec (scatter os r) (ev_lower eg (scatter os r)) /\ anisotropic (ev_lower eg (scatter os r))) ->
  gen_coaxial n eg a1 a2 O = Ok ba ->
  in01 ba /\
  (equivalent_texture os os' ->
   (forall r, row_of_axis a1 = Ok r \/ row_of_axis a2 = Ok r ->
      vals_spec (scatter os' r) (ev_lower eg' (scatter os' r))) ->
   gen_coaxial n eg' a1 a2 O' = Ok ba).
Proof. exact gen_coaxial_range_invariant. Qed.

Theorem C13_gen_bingham_principal : forall n (eg : arr R -> arr R * arr R) axis (O b : arr R), small n ->
  let os := grains_arr n O in
  (forall r, row_of_axis axis = Ok r -> eig_spec (scatter os r) (eh_lower eg (scatter os r))) ->
  gen_bingham n eg axis O = Ok b ->
  exists r, row_of_axis axis = Ok r /\
    let S := scatter os r in let v := vec_at b 0 in
    b = mk_arr 0 (flat3 v) /\ dot3 v v = 1 /\
    v = last_vec (eh_lower eg S) /\ symv S v = scale3 (last_val (eh_lower eg S)) v /\
    (forall x, charpoly S x = 0 -> x <= last_val (eh_lower eg S)) /\
    (forall u : V3, dot3 u u = 1 -> qf S u <= qf S v).
Proof. exact gen_bingham_principal. Qed.

Theorem C13_gen_bingham_corotates : forall n (eg eg' : arr R -> arr R * arr R) axis (Q : M3) (O O' b b' : arr R),
  small n ->
  let os := grains_arr n O in let os' := grains_arr n O' in
  orthogonal Q -> os' = map (rotate_frame Q) os ->
  (forall r, row_of_axis axis = Ok r ->
     eig_spec (scatter os r) (eh_lower eg (scatter os r)) /\
     eig_spec (scatter os' r) (eh_lower eg' (scatter os' r)) /\
     simple_top (eh_lower eg (scatter os r))) ->
  gen_bingham n eg axis O = Ok b -> gen_bingham n eg' axis O' = Ok b' ->
  up_to_sign (vec_at b' 0) (mulv Q (vec_at b 0)).
Proof. exact gen_bingham_corotates. Qed.

Theorem C13_gen_fse_value : forall (eg : arr R -> arr R * arr R) (Fa : arr R),
  let Fm := mat_at Fa 0 in let B := left_cauchy_green Fm in
  eig_spec B (eh_full eg B) ->
  let l := last_val (eh_full eg B) in
  let ax := vec_at (snd (@k_finite_strain NumR eg Fa)) 0 in
  fst (@k_finite_strain NumR eg Fa) = sqrt l - 1 /\
  snd (@k_finite_strain NumR eg Fa) = mk_arr 0 (flat3 ax) /\
  charpoly B l = 0 /\ (forall x, charpoly B x = 0 -> x <= l) /\
  symv B ax = scale3 l ax /\ dot3 ax ax = 1 /\
  (forall u : V3, dot3 u u = 1 -> dot3 (mulv (transpose Fm) u) (mulv (transpose Fm) u) <= l) /\
  (invertible Fm -> 0 < l).
Proof. exact gen_fse_value. Qed.

Example C13_gen_nonvacuous :
  small 1 /\ small 2 /\ small 3 /\
  grains_arr 1 (mk_arr 0 (flat9 I3)) = [I3] /\ Forall unit_rows (grains_arr 1 (mk_arr 0 (flat9 I3))) /\
  (forall r, row_of_axis 0 = Ok r ->
     eig_spec (scatter [I3] r) (eh_lower ex_eg (scatter [I3] r)) /\ simple_top (eh_lower ex_eg (scatter [I3] r))) /\
  (forall r, row_of_axis 0 = Ok r \/ row_of_axis 0 = Ok r ->
     vals_spec (scatter [I3] r) (ev_lower ex_ev (scatter [I3] r)) /\ anisotropic (ev_lower ex_ev (scatter [I3] r))) /\
  equivalent_texture [I3] (map (rotate_frame I3) [I3]) /\
  (exists v, gen_pgr 1 ex_ev 0 (mk_arr 0 (flat9 I3)) = Ok v) /\
  (exists b, gen_bingham 1 ex_eg 0 (mk_arr 0 (flat9 I3)) = Ok b) /\
  (exists c, gen_coaxial 1 ex_ev 0 0 (mk_arr 0 (flat9 I3)) = Ok c).
Proof. exact nonvacuous_gen. Qed.

(* ---- call sequences on live objects that are modified in place (Model_diag_session) ----
   `run false` is the source as it is; `pure_run` / `pure_out` evaluate the ONE-CALL model
   functions above on the contents the argument has at the time of the call.  Any numeric
   instance F (so also binary64), any LAPACK oracle, any history, any initial table of
   remembered matrices. *)
Theorem C13_session_is_pure : forall (F : Num) (eigvalsh : @sym3 F -> @eigvals F)
    (eigh : @sym3 F -> @eigres F) (st : @store F) (c : @cache F) (h : list (@sop F)),
  run eigvalsh eigh false (st, c) h = pure_run eigvalsh eigh st h.
Proof. exact @run_false_pure. Qed.

(* the call made after a history h: its effect is the pure function of the store after h; the
   store after h is the one produced by the in-place modifications of h alone (diagnostic calls
   modify nothing); and it is the same for another history, another object and another table
   whenever the CONTENTS of the argument are the same *)
Theorem C13_session_call_history_independent : forall (F : Num) (eigvalsh : @sym3 F -> @eigvals F)
    (eigh : @sym3 F -> @eigres F) (st st' : @store F) (c c' : @cache F)
    (h h' : list (@sop F)) (o o' : @sop F),
  run eigvalsh eigh false (st, c) (h ++ [o]) =
    run eigvalsh eigh false (st, c) h ++ pure_out eigvalsh eigh (store_after st h) o /\
  store_after st h = store_after st (filter is_mutation h) /\
  (same_call (store_after st h) (store_after st' h') o o' ->
   pure_out eigvalsh eigh (store_after st h) o = pure_out eigvalsh eigh (store_after st' h') o').
Proof. exact @session_call_pure. Qed.

(* in-place frame rotation / reordering / sign relabelling of an object: equivalent texture *)
Theorem C13_session_inplace_equivalent : forall (st : @store NumR) b o,
  (b < length st)%nat -> inplace_symmetry (buf st b) b o ->
  equivalent_texture (buf st b) (buf (mutate st o) b).
Proof. exact inplace_equivalent. Qed.

Theorem C13_session_pgr_inplace : forall (eigvalsh : S3 -> V3) (eigh : S3 -> EV)
    (st : @store NumR) (c : @cache NumR) b r o,
  (b < length st)%nat -> inplace_symmetry (buf st b) b o ->
  let os := buf st b in let os' := buf (mutate st o) b in
  vals_spec (scatter os r) (eigvalsh (scatter os r)) ->
  vals_spec (scatter os' r) (eigvalsh (scatter os' r)) ->
  run eigvalsh eigh false (st, c) [SPgr b r; o; SPgr b r] =
    [OPgr (scatter os r) (symmetry_pgr eigvalsh os r);
     OPgr (scatter os' r) (symmetry_pgr eigvalsh os r)].
Proof. exact session_pgr_inplace. Qed.

Theorem C13_session_coaxial_inplace : forall (eigvalsh : S3 -> V3) (eigh : S3 -> EV)
    (st : @store NumR) (c : @cache NumR) b r1 r2 o,
  (b < length st)%nat -> inplace_symmetry (buf st b) b o ->
  let os := buf st b in let os' := buf (mutate st o) b in
  vals_spec (scatter os r1) (eigvalsh (scatter os r1)) ->
  vals_spec (scatter os r2) (eigvalsh (scatter os r2)) ->
  vals_spec (scatter os' r1) (eigvalsh (scatter os' r1)) ->
  vals_spec (scatter os' r2) (eigvalsh (scatter os' r2)) ->
  run eigvalsh eigh false (st, c) [SCoaxial b r1 r2; o; SCoaxial b r1 r2] =
    [OCoaxial (scatter os r1) (scatter os r2) (coaxial_index eigvalsh os r1 r2);
     OCoaxial (scatter os' r1) (scatter os' r2) (coaxial_index eigvalsh os r1 r2)].
Proof. exact session_coaxial_inplace. Qed.

Theorem C13_session_bingham_inplace_rotation : forall (eigvalsh : S3 -> V3) (eigh : S3 -> EV)
    (st : @store NumR) (c : @cache NumR) b r (Q : M3),
  (b < length st)%nat -> orthogonal Q ->
  let os := buf st b in let os' := map (rotate_frame Q) os in
  eig_spec (scatter os r) (eigh (scatter os r)) ->
  eig_spec (scatter os' r) (eigh (scatter os' r)) ->
  simple_top (eigh (scatter os r)) ->
  exists u u', run eigvalsh eigh false (st, c) [SBingham b r; SRotate b Q; SBingham b r] =
                 [OBingham (scatter os r) u; OBingham (scatter os' r) u'] /\
               u = bingham_average eigh os r /\ up_to_sign u' (mulv Q u).
Proof. exact session_bingham_inplace_rotation. Qed.

Theorem C13_session_bingham_inplace_perm_twofold : forall (eigvalsh : S3 -> V3) (eigh : S3 -> EV)
    (st : @store NumR) (c : @cache NumR) b r o,
  (b < length st)%nat ->
  (exists p, o = SPermute b p /\ Permutation p (seq 0 (length (buf st b)))) \/
  (exists ss, o = SFlip b ss /\ length ss = length (buf st b) /\ Forall sign3 ss) ->
  let os := buf st b in let os' := buf (mutate st o) b in
  eig_spec (scatter os r) (eigh (scatter os r)) ->
  eig_spec (scatter os' r) (eigh (scatter os' r)) ->
  simple_top (eigh (scatter os r)) ->
  exists u u', run eigvalsh eigh false (st, c) [SBingham b r; o; SBingham b r] =
                 [OBingham (scatter os r) u; OBingham (scatter os' r) u'] /\
               u = bingham_average eigh os r /\ up_to_sign u' u.
Proof. exact session_bingham_inplace_same. Qed.

(* an implementation that remembers the scatter matrix per (object, row) and does not
   invalidate it when the contents change: call, refill, call hands LAPACK the OLD matrix *)
Theorem C13_session_memo_refuted :
  exists (st : @store NumR) (h : list (@sop NumR)),
    forall (eigvalsh : S3 -> V3) (eigh : S3 -> EV),
      scatters_of (run eigvalsh eigh true (st, []) h) <> scatters_of (pure_run eigvalsh eigh st h) /\
      scatters_of (run eigvalsh eigh false (st, []) h) = scatters_of (pure_run eigvalsh eigh st h).
Proof. exact memo_refuted. Qed.

Example C13_session_nonvacuous :
  let st : @store NumR := [[I3]] in
  (0 < length st)%nat /\
  inplace_symmetry (buf st 0) 0 (SRotate 0 Iyx) /\
  inplace_symmetry (buf st 0) 0 (SPermute 0 [0%nat]) /\
  inplace_symmetry (buf st 0) 0 (SFlip 0 [((1, -1, -1) : V3)]) /\
  same_call st (store_after st [SFill 0 [Iyx]; SPgr 0 1; SFill 0 [I3]]) (SPgr 0 2) (SPgr 0 2).
Proof. exact nonvacuous_session. Qed.

(* ---- finite_strain call sequences on live deformation-gradient objects updated in place
        (Model_diag_fse_session): `frun false` is the source as it is, `fpure_run` evaluates the one-call
        function on the contents the argument has at the time of the call ---- *)
Theorem C13_fse_session_call_history_independent : forall (F : Num) (eigh : @sym3 F -> @eigres F)
    (st st' : @fstore F) (c c' : @fcache F) (h h' : list (@fop F)) (b b' : nat),
  frun eigh false (st, c) h = fpure_run eigh st h /\
  frun eigh false (st, c) (h ++ [FStrain b]) =
    frun eigh false (st, c) h ++ fpure_out eigh (fstore_after st h) (FStrain b) /\
  fstore_after st h = fstore_after st (filter is_update h) /\
  (fobj (fstore_after st h) b = fobj (fstore_after st' h') b' ->
   fpure_out eigh (fstore_after st h) (FStrain b) = fpure_out eigh (fstore_after st' h') (FStrain b')).
Proof. exact @fse_session_call_pure. Qed.

(* [call; F[...] = F @ Q; call] on one object: LAPACK is handed the SAME matrix, the second call
   returns exactly what the first did *)
Theorem C13_fse_session_right_rotation : forall (eigh : S3 -> EV) (st : @fstore NumR) (c : @fcache NumR) b,
  (b < length st)%nat -> forall Q : M3, orthogonal Q ->
  let B := left_cauchy_green (fobj st b) in
  exists v ax, frun eigh false (st, c) [FStrain b; FRight b Q; FStrain b] = [OFse B v ax; OFse B v ax] /\
               (v, ax) = finite_strain eigh (fobj st b).
Proof. exact fse_session_right_rotation. Qed.

(* [call; F[...] = Q @ F; call]: LAPACK gets Q B Q^T; same value; axis co-rotated up to sign *)
Theorem C13_fse_session_left_rotation : forall (eigh : S3 -> EV) (st : @fstore NumR) (c : @fcache NumR) b,
  (b < length st)%nat -> forall Q : M3, orthogonal Q ->
  let B := left_cauchy_green (fobj st b) in
  eig_spec B (eigh B) -> eig_spec (congr Q B) (eigh (congr Q B)) ->
  exists v ax ax', frun eigh false (st, c) [FStrain b; FLeft b Q; FStrain b] =
                     [OFse B v ax; OFse (congr Q B) v ax'] /\
                   (v, ax) = finite_strain eigh (fobj st b) /\
                   (simple_top (eigh B) -> up_to_sign ax' (mulv Q ax)).
Proof. exact fse_session_left_rotation. Qed.

(* F *= k (k > 0): every principal stretch is multiplied by k *)
Theorem C13_fse_scale_value : forall (eigh eigh' : S3 -> EV) (Fm : M3) (k : R), 0 < k ->
  vals_spec (left_cauchy_green Fm) (fst (eigh (left_cauchy_green Fm))) ->
  vals_spec (left_cauchy_green (@scale_m3 NumR k Fm)) (fst (eigh' (left_cauchy_green (@scale_m3 NumR k Fm)))) ->
  fst (finite_strain eigh' (@scale_m3 NumR k Fm)) + 1 = k * (fst (finite_strain eigh Fm) + 1).
Proof. exact fse_scale_value. Qed.

(* F[...] = F.T: the value is unchanged (F^T F and F F^T have the same eigenvalues) *)
Theorem C13_fse_transpose_value : forall (eigh eigh' : S3 -> EV) (Fm : M3),
  vals_spec (left_cauchy_green Fm) (fst (eigh (left_cauchy_green Fm))) ->
  vals_spec (left_cauchy_green (transpose Fm)) (fst (eigh' (left_cauchy_green (transpose Fm)))) ->
  fst (finite_strain eigh' (transpose Fm)) = fst (finite_strain eigh Fm).
Proof. exact fse_transpose_value. Qed.

(* remembering F.F^T per object identity without invalidation: [call; overwrite; call] hands LAPACK the OLD matrix *)
Theorem C13_fse_session_memo_refuted :
  exists (st : @fstore NumR) (h : list (@fop NumR)),
    forall (eigh : S3 -> EV),
      lcgs_of (frun eigh true (st, []) h) <> lcgs_of (fpure_run eigh st h) /\
      lcgs_of (frun eigh false (st, []) h) = lcgs_of (fpure_run eigh st h).
Proof. exact fse_memo_refuted. Qed.

Example C13_fse_session_nonvacuous :
  let st : @fstore NumR := [F2] in
  (0 < length st)%nat /\ orthogonal Iyx /\
  eig_spec (left_cauchy_green (fobj st 0)) ex_eig_F2 /\ simple_top ex_eig_F2 /\
  eig_spec (congr Iyx (left_cauchy_green (fobj st 0))) ex_eig_F2_swapped /\
  vals_spec (left_cauchy_green (fobj st 0)) (fst ex_eig_F2) /\
  fobj (fstore_after st [FSet 0 I3; FStrain 0; FSet 0 F2]) 0 = fobj st 0.
Proof. exact nonvacuous_fse_session. Qed.
