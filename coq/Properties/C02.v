(* Properties/C02.v -- C02: solver rates equal the published D-Rex equations.
   "Published" = Spec_drex.v (tensor form; reproduced in DESIGN.md section 5/C02). *)
From Coq Require Import Reals ZArith List.
From PV Require Import Num NumR Model_core Spec_drex Proofs_core Proofs_total Proofs_spec Inst_core.
From PV.gen Require Import Gen_core.
Import ListNotations.
Open Scope R_scope.

(* slip invariants I_s = l^_s . D n^_s in the documented slip-system order *)
Theorem C02_invariants : forall (D A : arr NumR),
  k_get_slip_invariants D A = spec_invariants D A.
Proof. exact invariants_eq_spec. Qed.

(* Schmid tensor G = 2 sum_s beta_s l^_s (x) n^_s *)
Theorem C02_schmid_tensor : forall ph (A b : arr NumR),
  k_get_deformation_rate ph A b = spec_schmid A b.
Proof. exact schmid_eq_spec. Qed.

(* softest-system slip rate: closed form of the least-squares fit, with the 1e-15 guard ... *)
Theorem C02_softest_slip_rate : forall (G L : arr NumR),
  k_get_slip_rate_softest G L = Ok (spec_gamma0 G L).
Proof. exact softest_eq_spec. Qed.

(* ... and that closed form minimises || sym L - g sym G ||_F over all g *)
Theorem C02_softest_is_least_squares : forall (G L : arr NumR) g,
  let S := sym2 (F := NumR) G in let E := sym2 (F := NumR) L in
  frob (F := NumR) S S <> 0 ->
  let g0 := frob (F := NumR) S E / frob (F := NumR) S S in
  frob (F := NumR) (fun i j => E i j - g0 * S i j) (fun i j => E i j - g0 * S i j)
  <= frob (F := NumR) (fun i j => E i j - g * S i j) (fun i j => E i j - g * S i j).
Proof. exact gamma0_minimises. Qed.

(* lattice spin and orientation rate: rows  w x a_i,  w = axial(skew L - g skew G) *)
Theorem C02_orientation_rate : forall (A L G : arr NumR) g,
  k_get_orientation_change A L G g = spec_rate A G L g.
Proof. exact orientation_change_eq_spec. Qed.

(* one grain, every supported (phase, fabric): CRSS table, activity ordering, relative
   slip rates with exponent n, Schmid tensor, softest slip rate, spin, three-term
   dislocation-density strain energy -- the generated kernel IS the published model *)
Theorem C02_grain : forall ph fb (A D L : arr NumR) p n lam,
  valid_pair ph fb -> n <> 0 ->
  k_get_rotation_and_strain ph fb A D L p n lam = spec_grain ph fb A D L p n lam.
Proof. exact grain_eq_spec. Qed.

(* any number of grains, both dislocation-type regimes: boundary-migration law and the
   documented damping factor of the yielding regime *)
Theorem C02_aggregate : forall regime ph fb os fs (D L S : arr NumR) p n lam M phi,
  dislocation_regime regime -> valid_pair ph fb -> n <> 0 ->
  @derivs NumR regime ph fb os fs D L S p n lam M phi
  = @spec_derivs NumR regime ph fb os fs D L p n lam M phi.
Proof. exact derivs_eq_spec. Qed.

(* unsupported (phase, fabric) pairs are rejected *)
Theorem C02_invalid_pair : forall ph fb (A D L : arr NumR) p n lam,
  tau_table ph fb = None -> k_get_rotation_and_strain ph fb A D L p n lam = Err ValueError.
Proof. exact grain_invalid_pair. Qed.

(* ties of the list model to the generated `derivatives` (n_grains = 1, 2, 3) *)
Theorem C02_instance_n1 : forall regime phase fabric (O f D L S : arr NumR) (p n lam M phi : R),
  res_match 1 (k_derivatives_n1 regime phase fabric O f D L S p n lam M phi)
    (derivs regime phase fabric [slice9 O 0] [f 0%nat] D L S p n lam M phi).
Proof. exact derivs_inst_1. Qed.
Theorem C02_instance_n2 : forall regime phase fabric (O f D L S : arr NumR) (p n lam M phi : R),
  res_match 2 (k_derivatives_n2 regime phase fabric O f D L S p n lam M phi)
    (derivs regime phase fabric [slice9 O 0; slice9 O 1] [f 0%nat; f 1%nat] D L S p n lam M phi).
Proof. exact derivs_inst_2. Qed.
Theorem C02_instance_n3 : forall regime phase fabric (O f D L S : arr NumR) (p n lam M phi : R),
  res_match 3 (k_derivatives_n3 regime phase fabric O f D L S p n lam M phi)
    (derivs regime phase fabric [slice9 O 0; slice9 O 1; slice9 O 2]
            [f 0%nat; f 1%nat; f 2%nat] D L S p n lam M phi).
Proof. exact derivs_inst_3. Qed.

Example C02_nonvacuous : valid_pair 0 4 /\ valid_pair 1 5 /\ dislocation_regime 6 /\ (3.5 <> 0).
Proof. exact C02_nonvacuous_proof. Qed.

(* ---- exact ties of slip-system activities (the property text sets them aside as ambiguous): the published model,
   and with it the generated kernel, is in fact ORDER-INDEPENDENT there ------------------------------------- *)
From PV Require Import Proofs_tie.

(* for ANY activity order P whose two last positions (the two most active systems) hold systems of equal non-zero
   activity, calling the other one "the most active" gives the same orientation rate and the same strain energy:
   the relative slip rates of the other order are sigma times the first, sigma = +-1, hence Schmid tensor sigma G,
   least-squares slip rate sigma g0, and spin skew L - g0 skew G and |beta_s g0| unchanged *)
Theorem C02_tie_order_irrelevant : forall tau (A D L : arr NumR) p n lam P, tau_ok tau ->
  let q := @spec_activities NumR tau (@spec_invariants NumR D A) in
  q (pidx P 3) = q (pidx P 2) -> q (pidx P 3) <> 0 ->
  spec_olivine_with tau A D L p n lam (swap_top P) = spec_olivine_with tau A D L p n lam P.
Proof. exact tie_order_irrelevant. Qed.

(* ... for the published model as a whole and for the generated kernel: at an exact tie of the two largest
   activities both ARE the olivine formulas evaluated with either order *)
Theorem C02_tie_order_irrelevant_kernel : forall fb tau (A D L : arr NumR) p n lam,
  @tau_table 0 fb = Some tau -> n <> 0 ->
  let q := @spec_activities NumR tau (@spec_invariants NumR D A) in
  let P := @argsort4 NumR q in
  q (pidx P 3) = q (pidx P 2) -> q (pidx P 3) <> 0 ->
  @spec_grain NumR 0 fb A D L p n lam = Ok (spec_olivine_with tau A D L p n lam P) /\
  @spec_grain NumR 0 fb A D L p n lam = Ok (spec_olivine_with tau A D L p n lam (swap_top P)) /\
  k_get_rotation_and_strain 0 fb A D L p n lam = Ok (spec_olivine_with tau A D L p n lam (swap_top P)).
Proof. exact grain_tie_order_irrelevant. Qed.

(* the two middle positions may be exchanged unconditionally, the two lowest when both activities are exactly 0
   (in olivine the least active system always has activity 0, one CRSS being infinite) *)
Theorem C02_middle_order_irrelevant : forall tau (A D L : arr NumR) p n lam P,
  spec_olivine_with tau A D L p n lam (swap_mid P) = spec_olivine_with tau A D L p n lam P.
Proof. exact mid_order_irrelevant. Qed.
Theorem C02_bottom_tie_order_irrelevant : forall tau (A D L : arr NumR) p n lam P, tau_ok tau -> p <> 0 -> n <> 0 ->
  let inv := @spec_invariants NumR D A in
  xs tau inv (pidx P 0) = 0 -> xs tau inv (pidx P 1) = 0 ->
  spec_olivine_with tau A D L p n lam (swap_bot P) = spec_olivine_with tau A D L p n lam P.
Proof. exact bottom_order_irrelevant. Qed.

(* non-vacuity: olivine A-type, identity orientation, D01 = 1, D02 = 2: activities (1, 1, 0, 0), an exact tie at the top *)
Example C02_tie_nonvacuous :
  let q := @spec_activities NumR tauA (@spec_invariants NumR tie_D tie_A) in
  q 0%nat = 1 /\ q 1%nat = 1 /\ q 2%nat = 0 /\ q 3%nat = 0 /\ @tau_table 0 0 = Some tauA.
Proof. exact tie_nonvacuous_proof. Qed.

