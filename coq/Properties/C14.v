(* Properties/C14.v -- C14: M-index is a frame-independent texture-strength scalar in [0, 1].
   Only statements; each is closed by `exact` of a lemma of Proofs_mindex.v.
   The quaternion product of the model carries a variant (Dropped = what the source computes,
   Hamilton = the quaternion product); range, permutation invariance, the single-orientation value and the batched
   variant are proved for BOTH variants, frame / symmetry invariance for Hamilton with proper
   operators only (they are false of the Dropped variant: Findings/C14_quat.v). *)
From Coq Require Import Reals ZArith List Permutation.
From PV Require Import Num NumR Model_mindex Proofs_mindex Proofs_mindex_mass
  Proofs_mindex_single Proofs_mindex_single_thm Proofs_mindex_batched Proofs_mindex_hist Inst_mindex
  Inst_mindex_random Inst_mindex_index Proofs_mindex_gen Proofs_mindex_frame Model_blocks Proofs_blocks.
From PV.gen Require Import Gen_mindex.
Import ListNotations.
Open Scope R_scope.

(* ---- range ---- *)
Theorem C14_mindex_range_abstract : forall n (th obs : list R),
  Forall (Rle 0) th -> Forall (Rle 0) obs ->
  let c := IZR (Z.of_nat n) / IZR (2 * Z.of_nat (length obs)) in
  0 <= @m_of NumR n th obs <= c * (rsum th + rsum obs).
Proof. exact mindex_range_abstract. Qed.

(* any variant, any lattice system whose theoretical density is defined and non-negative,
   at least one pair angle inside [0, theta_max]:  0 <= M <= (1 + T) / 2,  T = sum of theory *)
Theorem C14_mindex_range : forall s (angs : list R) th m,
  @theory NumR s = Ok th -> Forall (Rle 0) th ->
  (0 < zsum (@hist_counts NumR (theta_max s) angs))%Z ->
  @mindex_of_angles NumR s angs = Ok m ->
  0 <= m <= (1 + rsum th) / 2.
Proof. exact mindex_range. Qed.

(* the theoretical density is non-negative and integrates to 1 +- 1e-3 (kernel-checked
   interval arithmetic over the 180 / 180 / 120 closed-form bin values) -- the three systems
   for which this holds of the source's formula *)
Theorem C14_theory_mass_partial : forall s, good_mass s ->
  exists th, @theory NumR s = Ok th /\ Forall (Rle 0) th /\ Rabs (rsum th - 1) <= 1 / 1000.
Proof. exact theory_mass_partial. Qed.

(* hence M in [0, 1 + 5e-4] for these systems *)
Theorem C14_mindex_in_unit_interval : forall s (angs : list R) m,
  good_mass s ->
  (0 < zsum (@hist_counts NumR (theta_max s) angs))%Z ->
  @mindex_of_angles NumR s angs = Ok m ->
  0 <= m <= 1 + 5 / 10000.
Proof. exact mindex_in_unit_interval. Qed.

(* ---- permutation of the grains (both variants, every system) ---- *)
Theorem C14_pair_angle_symmetric : forall v ops (q1 q2 : Q4), ops <> [] ->
  @pair_angle NumR v ops q1 q2 = @pair_angle NumR v ops q2 q1.
Proof. exact pair_angle_sym. Qed.

Theorem C14_pairs_perm : forall v s (qs qs' : list Q4),
  Permutation qs qs' -> Permutation (@angles NumR v s qs) (@angles NumR v s qs').
Proof. exact angles_perm. Qed.

Theorem C14_mindex_perm : forall v s (qs qs' : list Q4),
  Permutation qs qs' -> @mindex_quats NumR v s qs' = @mindex_quats NumR v s qs.
Proof. exact mindex_perm. Qed.

(* ---- Hamilton product: isometries ---- *)
Theorem C14_hamilton_isometry : forall s p q : Q4,
  qnorm2 (hmul p q) = qnorm2 p * qnorm2 q /\
  qdot (hmul s p) (hmul s q) = qnorm2 s * qdot p q /\
  qdot (hmul p s) (hmul q s) = qnorm2 s * qdot p q.
Proof.
  exact (fun s p q => conj (hamilton_norm p q) (conj (hamilton_left_isometry s p q) (hamilton_right_isometry s p q))).
Qed.

Theorem C14_rotation_matrix_homomorphism : forall p q : Q4,
  @mat_of_quat NumR (hmul p q) = mmul9 (@mat_of_quat NumR p) (@mat_of_quat NumR q).
Proof. exact mat_of_quat_hmul. Qed.

(* rigid rotation of the sample frame: every grain quaternion gets the common right factor r
   (as_quat may return either sign) -- all pair angles, hence the index, are unchanged *)
Theorem C14_mindex_frame_invariant : forall ops (r : Q4) (qs qs' : list Q4),
  Forall is_rot ops -> qnorm2 r = 1 ->
  Forall2 (fun q q' => eqpm q' (hmul q r)) qs qs' ->
  angles_ops Hamilton ops qs' = angles_ops Hamilton ops qs.
Proof. exact angles_frame_invariant. Qed.

(* replacing grains by symmetry-equivalent orientations u_i (x) q_i, the operator set being
   closed (up to sign) under right multiplication by each u_i *)
Theorem C14_mindex_symmetry_invariant : forall ops (qs qs' : list Q4),
  ops <> [] -> Forall is_rot ops ->
  Forall2 (fun q q' => exists u, In (Rot u) ops /\ closed_under ops u /\ eqpm q' (hmul u q)) qs qs' ->
  angles_ops Hamilton ops qs' = angles_ops Hamilton ops qs.
Proof. exact angles_symmetry_invariant. Qed.

Theorem C14_angles_are_angles_ops : forall v s (qs : list Q4),
  @angles NumR v s qs = angles_ops v (symmetry_operations s) qs.
Proof. exact angles_angles_ops. Qed.

(* ---- the defects, as theorems with witnesses ---- *)
Theorem C14_dropped_product_refuted :
  @qprod NumR Dropped (1, 0, 0, 0) (0, 1, 0, 0) = (0, 0, 0, 0) /\
  hmul (1, 0, 0, 0) (0, 1, 0, 0) = (0, 0, 1, 0) /\
  qnorm2 (@qprod NumR Dropped (1, 0, 0, 0) (0, 1, 0, 0)) <> qnorm2 (1, 0, 0, 0) * qnorm2 (0, 1, 0, 0).
Proof. exact dropped_product_refuted. Qed.

Theorem C14_ortho_ops_not_group :
  exists (s t : OP) (q : Q4), In s ortho_ops_exact /\ In t ortho_ops_exact /\
    forall u, In u ortho_ops_exact ->
      apply_op Hamilton s (apply_op Hamilton t q) <> apply_op Hamilton u q /\
      apply_op Hamilton s (apply_op Hamilton t q) <> qneg (apply_op Hamilton u q).
Proof. exact ortho_ops_not_group. Qed.

(* ---- single-orientation texture (both variants) ---- *)
(* the identity operator is in every system's list and fixes the quaternion under both
   products; hence the misorientation angle of a unit quaternion with itself is 0 *)
Theorem C14_pair_angle_self : forall v s (q : Q4), 1 <= qnorm2 q ->
  In (@Rot NumR qid) (@symmetry_operations NumR s) /\
  @apply_op NumR v (Rot qid) q = q /\
  @pair_angle NumR v (symmetry_operations s) q q = 0.
Proof. exact pair_angle_self_system. Qed.

(* all grains equal (at least two), unit quaternion from the oracle: all pair angles are 0, the
   observed density is the unit mass in bin 0 and M = (1 + T) / 2 - th_0 -- ANY lattice system
   whose theoretical density is defined, non-negative, with first bin <= 1 *)
Theorem C14_mindex_single_closed_form : forall (as_quat : list R -> Q4) v s (os : list (list R)) o th,
  (2 <= length os)%nat -> Forall (eq o) os -> qnorm2 (as_quat o) = 1 ->
  @theory NumR s = Ok th -> Forall (Rle 0) th -> nth 0 th 0 <= 1 ->
  Forall (eq 0) (@angles NumR v s (map as_quat os)) /\
  @misorientation_index NumR as_quat v s os = Ok ((1 + rsum th) / 2 - nth 0 th 0).
Proof. exact mindex_single_closed. Qed.

(* "close to 1 for a single-orientation texture": |M - 1| <= 1e-4 for the three systems whose
   density has mass 1 (interval arithmetic on the closed form; the code gives 0.9999996,
   0.9999992, 1.0000493) *)
Theorem C14_mindex_single : forall (as_quat : list R -> Q4) v s (os : list (list R)) o,
  good_mass s -> (2 <= length os)%nat -> Forall (eq o) os -> qnorm2 (as_quat o) = 1 ->
  Forall (eq 0) (@angles NumR v s (map as_quat os)) /\
  exists m, @misorientation_index NumR as_quat v s os = Ok m /\ Rabs (m - 1) <= 1 / 10000.
Proof. exact mindex_single. Qed.

(* ---- batched variant (model of imap over the stack) ---- *)
(* Ok exactly when every snapshot is Ok; then the result has the length of the stack and
   position k holds the value of snapshot k *)
Theorem C14_batched_iff : forall (as_quat : list R -> Q4) v s stack ms,
  @misorientation_indices NumR as_quat v s stack = Ok ms <->
  Forall2 (fun os m => @misorientation_index NumR as_quat v s os = Ok m) stack ms.
Proof. exact batched_iff. Qed.

Theorem C14_batched_positional : forall (as_quat : list R -> Q4) v s stack ms,
  @misorientation_indices NumR as_quat v s stack = Ok ms ->
  length ms = length stack /\
  forall k, (k < length stack)%nat ->
    @misorientation_index NumR as_quat v s (nth k stack []) = Ok (nth k ms 0).
Proof. exact batched_nth. Qed.

(* cutting the stack into chunks that are processed separately and concatenating the chunk
   results in chunk order gives the result of the whole stack (values or error) *)
Theorem C14_batched_chunks : forall (as_quat : list R -> Q4) v s (chunks : list (list (list (list R)))),
  @misorientation_indices NumR as_quat v s (concat chunks) =
  fold_right (fun c acc => bind_app (@misorientation_indices NumR as_quat v s c) acc) (Ok []) chunks.
Proof. exact batched_chunks. Qed.

(* an error is the error of the first failing snapshot *)
Theorem C14_batched_first_error : forall (as_quat : list R -> Q4) v s stack e,
  @misorientation_indices NumR as_quat v s stack = Err e ->
  exists k, (k < length stack)%nat /\
    @misorientation_index NumR as_quat v s (nth k stack []) = Err e /\
    forall j, (j < k)%nat -> exists m, @misorientation_index NumR as_quat v s (nth j stack []) = Ok m.
Proof. exact batched_first_error. Qed.

(* non-vacuity: a closed proper operator set (the four-group {1, i, j, k}), a unit r *)
Example C14_nonvacuous :
  Forall is_rot d2_ops /\ d2_ops <> [] /\ closed_under d2_ops (1, 0, 0, 0) /\
  In (@Rot NumR (1, 0, 0, 0)) d2_ops /\ qnorm2 (1 / 2, 1 / 2, 1 / 2, 1 / 2) = 1 /\
  (0 < zsum (@hist_counts NumR 180 (30%R :: nil)))%Z.
Proof. exact nonvacuous_mindex. Qed.

Example C14_single_nonvacuous :
  good_mass Orthorhombic /\ (2 <= length [[1; 0; 0; 0; 1; 0; 0; 0; 1]; [1; 0; 0; 0; 1; 0; 0; 0; 1]])%nat /\
  qnorm2 (0, 0, 0, 1) = 1.
Proof. exact single_nonvacuous. Qed.

(* ---- the binning of the observed angles: np.histogram(bins = n, range = (0, n)), last bin CLOSED ---- *)
(* the maximal admissible angle n is counted, in the last bin; every angle of [0, n] lies in exactly one bin *)
Theorem C14_hist_last_bin_closed : forall n, (0 < n)%nat ->
  @in_bin NumR n (n - 1) (edgeR n) = true /\
  forall x, 0 <= x <= edgeR n ->
    exists k, (k < n)%nat /\ @in_bin NumR n k x = true /\
              forall k', (k' < n)%nat -> @in_bin NumR n k' x = true -> k' = k.
Proof. exact (fun n Hn => conj (in_bin_last n Hn) (fun x Hx => every_angle_has_one_bin n x Hn Hx)). Qed.

(* the counts add up to the number of angles in [0, n]: each is counted exactly once, the others never *)
Theorem C14_hist_counts_every_angle_once : forall n (xs : list R), (0 < n)%nat ->
  zsum (@hist_counts NumR n xs) = Z.of_nat (length (filter (in_range n) xs)) /\
  (Forall (fun x => 0 <= x <= edgeR n) xs -> zsum (@hist_counts NumR n xs) = Z.of_nat (length xs)).
Proof. exact (fun n xs Hn => conj (hist_counts_total n xs Hn) (hist_counts_all_in_range n xs Hn)). Qed.

(* one angle in [0, n] (n itself included) is enough: the observed density is non-negative with mass 1 *)
Theorem C14_hist_density_mass_one : forall n (xs : list R), (0 < n)%nat ->
  (exists x, In x xs /\ 0 <= x <= edgeR n) ->
  Forall (Rle 0) (@hist_density NumR n xs) /\ rsum (@hist_density NumR n xs) = 1 /\
  length (@hist_density NumR n xs) = n.
Proof. exact hist_density_mass_one. Qed.

(* no angle in [0, n]: all counts are 0 -- np.histogram(density=True) then divides 0 by 0 (known finding) *)
Theorem C14_hist_counts_empty : forall n (xs : list R), (0 < n)%nat ->
  Forall (fun x => in_range n x = false) xs -> zsum (@hist_counts NumR n xs) = 0%Z.
Proof. exact hist_counts_empty. Qed.

Example C14_hist_nonvacuous :
  (0 < 180)%nat /\ (exists x, In x [edgeR 180] /\ 0 <= x <= edgeR 180) /\ in_range 90 (IZR 110) = false.
Proof.
  exact (conj (Nat.lt_0_succ 179)
        (conj (ex_intro _ (edgeR 180) (conj (or_introl eq_refl) (conj (edgeR_nonneg 180) (Rle_refl _))))
              hist_nonvacuous_out)).
Qed.

(* ---- tie T: the definitions regenerated from the source coincide with the model (all inputs) ---- *)
(* utils.quat_product as generated is the Dropped product ... *)
Theorem C14_gen_quat_product_is_dropped : forall q1 q2 : arr R,
  @k_quat_product NumR q1 q2 = mk_arr 0 (lq (@qprod NumR Dropped (qat q1 0) (qat q2 0))).
Proof. exact quat_product_inst. Qed.

(* ... and not the quaternion product: (1,0,0,0) (x) (0,1,0,0) is 0 instead of (0,0,1,0) *)
Theorem C14_gen_quat_product_refuted :
  (forall k, (k < 4)%nat -> @k_quat_product NumR (mk_arr 0 [1; 0; 0; 0]) (mk_arr 0 [0; 1; 0; 0]) k = 0) /\
  hmul (1, 0, 0, 0) (0, 1, 0, 0) = (0, 0, 1, 0).
Proof. exact gen_quat_product_refuted. Qed.

(* LatticeSystem.value and stats._max_misorientation, member by member; np.histogram's parameters *)
Theorem C14_gen_lattice_table :
  (length g_lattice_table = 6%nat /\
   forall c s, lattice_of_code c = Some s ->
     nth (Z.to_nat c) g_lattice_table (0, 0, 0)%Z = (fst (lattice_MN s), snd (lattice_MN s), Z.of_nat (theta_max s))) /\
  (length g_hist_params = 6%nat /\
   forall c s, lattice_of_code c = Some s ->
     nth (Z.to_nat c) g_hist_params (0, 0, 0)%Z = (Z.of_nat (theta_max s), 0%Z, Z.of_nat (theta_max s))).
Proof. exact (conj lattice_table_inst hist_params_inst). Qed.

(* geometry.symmetry_operations evaluated for every member = the model's operator lists *)
Theorem C14_gen_symmetry_operations :
  [op4 (@k_symmetry_operations_triclinic NumR)] = @symmetry_operations NumR Triclinic /\
  (let '(o0, o1, o2, o3, o4, o5, o6) := @k_symmetry_operations_monoclinic NumR in
   [op4 o0; op4 o1; op4 o2; op4 o3; op16 o4; op16 o5; op16 o6] = @symmetry_operations NumR Monoclinic
   /\ diag16 o4 /\ diag16 o5 /\ diag16 o6) /\
  (let '(o0, o1, o2, o3, o4, o5, o6) := @k_symmetry_operations_orthorhombic NumR in
   [op4 o0; op4 o1; op4 o2; op4 o3; op16 o4; op16 o5; op16 o6] = @symmetry_operations NumR Orthorhombic
   /\ diag16 o4 /\ diag16 o5 /\ diag16 o6) /\
  (let '(o0, o1, o2, o3, o4, o5, o6) := @k_symmetry_operations_rhombohedral NumR in
   [op4 o0; op4 o1; op4 o2; op4 o3; op4 o4; op4 o5; op4 o6] = @symmetry_operations NumR Rhombohedral) /\
  (let '(o0, o1, o2, o3, o4, o5, o6, o7, o8, o9) := @k_symmetry_operations_tetragonal NumR in
   [op4 o0; op4 o1; op4 o2; op4 o3; op4 o4; op4 o5; op4 o6; op4 o7; op4 o8; op4 o9]
   = @symmetry_operations NumR Tetragonal) /\
  (let '(o0, o1, o2, o3, o4, o5, o6, o7, o8, o9, o10, o11, o12, o13, o14, o15) :=
     @k_symmetry_operations_hexagonal NumR in
   [op4 o0; op4 o1; op4 o2; op4 o3; op4 o4; op4 o5; op4 o6; op4 o7; op4 o8; op4 o9; op4 o10; op4 o11;
    op4 o12; op4 o13; op4 o14; op4 o15] = @symmetry_operations NumR Hexagonal).
Proof.
  exact (conj symops_inst_triclinic (conj symops_inst_monoclinic (conj symops_inst_orthorhombic
        (conj symops_inst_rhombohedral (conj symops_inst_tetragonal symops_inst_hexagonal))))).
Qed.

(* geometry.misorientation_angles: one minimum of ang1 over all operator pairs per row (the sizes
   misorientation_hist uses for 2 and 3 grains, and small generic ones) *)
Theorem C14_gen_misorientation_angles : forall q1 q2 : arr R,
  @k_misorientation_angles_n1_a2_b3 NumR q1 q2 = mk_arr 0 (misangles (@ang1 NumR) 1 2 3 q1 q2) /\
  @k_misorientation_angles_n2_a2_b2 NumR q1 q2 = mk_arr 0 (misangles (@ang1 NumR) 2 2 2 q1 q2) /\
  @k_misorientation_angles_n1_a7_b7 NumR q1 q2 = mk_arr 0 (misangles (@ang1 NumR) 1 7 7 q1 q2) /\
  @k_misorientation_angles_n3_a7_b7 NumR q1 q2 = mk_arr 0 (misangles (@ang1 NumR) 3 7 7 q1 q2) /\
  @k_misorientation_angles_n3_a10_b10 NumR q1 q2 = mk_arr 0 (misangles (@ang1 NumR) 3 10 10 q1 q2) /\
  @k_misorientation_angles_n1_a16_b16 NumR q1 q2 = mk_arr 0 (misangles (@ang1 NumR) 1 16 16 q1 q2).
Proof.
  exact (fun q1 q2 => conj (misangles_inst_n1_a2_b3 q1 q2) (conj (misangles_inst_n2_a2_b2 q1 q2)
        (conj (misangles_inst_n1_a7_b7 q1 q2) (conj (misangles_inst_n3_a7_b7 q1 q2)
        (conj (misangles_inst_n3_a10_b10 q1 q2) (misangles_inst_n1_a16_b16 q1 q2)))))).
Qed.

(* stats.misorientation_hist up to np.histogram: what is binned ARE the model's pair angles (Dropped
   product, the system's operator list, itertools.combinations order), for 2 and 3 grains *)
Theorem C14_gen_hist_data : forall quats : arr R,
  @k_misorientation_hist_data_triclinic_n3 NumR quats = mk_arr 0 (@angles NumR Dropped Triclinic [qat quats 0; qat quats 4; qat quats 8]) /\
  @k_misorientation_hist_data_monoclinic_n3 NumR quats = mk_arr 0 (@angles NumR Dropped Monoclinic [qat quats 0; qat quats 4; qat quats 8]) /\
  @k_misorientation_hist_data_orthorhombic_n2 NumR quats = mk_arr 0 (@angles NumR Dropped Orthorhombic [qat quats 0; qat quats 4]) /\
  @k_misorientation_hist_data_orthorhombic_n3 NumR quats = mk_arr 0 (@angles NumR Dropped Orthorhombic [qat quats 0; qat quats 4; qat quats 8]) /\
  @k_misorientation_hist_data_rhombohedral_n3 NumR quats = mk_arr 0 (@angles NumR Dropped Rhombohedral [qat quats 0; qat quats 4; qat quats 8]) /\
  @k_misorientation_hist_data_tetragonal_n3 NumR quats = mk_arr 0 (@angles NumR Dropped Tetragonal [qat quats 0; qat quats 4; qat quats 8]) /\
  @k_misorientation_hist_data_hexagonal_n2 NumR quats = mk_arr 0 (@angles NumR Dropped Hexagonal [qat quats 0; qat quats 4]).
Proof.
  exact (fun quats => conj (hist_data_inst_triclinic_n3 quats) (conj (hist_data_inst_monoclinic_n3 quats)
        (conj (hist_data_inst_orthorhombic_n2 quats) (conj (hist_data_inst_orthorhombic_n3 quats)
        (conj (hist_data_inst_rhombohedral_n3 quats) (conj (hist_data_inst_tetragonal_n3 quats)
              (hist_data_inst_hexagonal_n2 quats))))))).
Qed.

(* diagnostics.misorientation_indices with a sequential pool: position k holds the value of snapshot k *)
Theorem C14_gen_indices_positional : forall m : arr R,
  (forall k, (k < 1)%nat -> @k_misorientation_indices_l1 NumR m k = m k /\ @k_misorientation_indices_pool_l1 NumR m k = m k) /\
  (forall k, (k < 2)%nat -> @k_misorientation_indices_l2 NumR m k = m k /\ @k_misorientation_indices_pool_l2 NumR m k = m k) /\
  (forall k, (k < 3)%nat -> @k_misorientation_indices_l3 NumR m k = m k /\ @k_misorientation_indices_pool_l3 NumR m k = m k).
Proof. exact indices_inst. Qed.

(* stats.misorientations_random as generated (symbolic bin edges: range check, four Grimmer branches per
   edge, assert False) IS the model's density, for every lattice system and ALL low, high; in particular it
   is ValueError outside 0 <= low <= high <= theta_max *)
Theorem C14_gen_random_is_model : forall s (low high : R),
  gen_random s low high = @misorientations_random NumR low high s /\
  (low < 0 \/ high < low \/ IZR (Z.of_nat (theta_max s)) < high -> gen_random s low high = Err ValueError).
Proof. exact (fun s low high => conj (gen_random_inst s low high) (gen_random_value_error s low high)). Qed.

(* diagnostics.misorientation_index as generated, given the histogram: the theta_max density calls in
   source order (first error wins), then theta_max / (2 n_bins) * sum |theory - observed|; after the
   histogram of any angle list it is the model's index *)
Theorem C14_gen_index_is_model : forall s,
  (forall obs : list R, length obs = theta_max s ->
     gen_index s (mk_arr 0 obs) =
     match @theory NumR s with Err e => Err e | Ok th => Ok (@m_of NumR (theta_max s) th obs) end) /\
  (forall angs : list R,
     gen_index s (mk_arr 0 (@hist_density NumR (theta_max s) angs)) = @mindex_of_angles NumR s angs).
Proof. exact (fun s => conj (gen_index_inst s) (gen_index_hist s)). Qed.

(* the mass theorem, now about generated code, and its consequence for the generated index of ANY
   normalised theta_max-bin histogram: M in [0, 1.0005] for the three good-mass systems *)
Theorem C14_gen_theory_mass : forall s, good_mass s ->
  (exists th, gen_theory s = Ok th /\ Forall (Rle 0) th /\ Rabs (rsum th - 1) <= 1 / 1000) /\
  (forall (obs : list R) m, length obs = theta_max s -> Forall (Rle 0) obs -> rsum obs = 1 ->
     gen_index s (mk_arr 0 obs) = Ok m -> 0 <= m <= 1 + 5 / 10000).
Proof. exact (fun s Hs => conj (gen_theory_mass s Hs) (fun obs m => gen_index_unit_interval s obs m Hs)). Qed.

(* ANY normalised histogram against ANY non-negative density of mass 1: M in [0, 1] *)
Theorem C14_mindex_unit_abstract : forall n (th obs : list R), (0 < n)%nat -> length obs = n ->
  Forall (Rle 0) th -> Forall (Rle 0) obs -> rsum th = 1 -> rsum obs = 1 ->
  0 <= @m_of NumR n th obs <= 1.
Proof. exact mindex_unit_abstract. Qed.

(* the generated index of ANY normalised histogram with theta_max bins *)
Theorem C14_gen_index_range : forall s (obs th : list R) m,
  length obs = theta_max s -> Forall (Rle 0) obs -> rsum obs = 1 ->
  gen_theory s = Ok th -> Forall (Rle 0) th ->
  gen_index s (mk_arr 0 obs) = Ok m ->
  m = @m_of NumR (theta_max s) th obs /\ 0 <= m <= (1 + rsum th) / 2.
Proof. exact gen_index_range. Qed.

(* the generated pipeline for 2 / 3 grains (hist data -> np.histogram = hist_density -> generated index)
   is the model's index of the oracle's quaternions with the Dropped product *)
Theorem C14_gen_pipeline : forall quats : arr R,
  gen_pipeline Triclinic 3 (@k_misorientation_hist_data_triclinic_n3 NumR quats) =
    @mindex_quats NumR Dropped Triclinic [qat quats 0; qat quats 4; qat quats 8] /\
  gen_pipeline Monoclinic 3 (@k_misorientation_hist_data_monoclinic_n3 NumR quats) =
    @mindex_quats NumR Dropped Monoclinic [qat quats 0; qat quats 4; qat quats 8] /\
  gen_pipeline Orthorhombic 3 (@k_misorientation_hist_data_orthorhombic_n3 NumR quats) =
    @mindex_quats NumR Dropped Orthorhombic [qat quats 0; qat quats 4; qat quats 8] /\
  gen_pipeline Rhombohedral 3 (@k_misorientation_hist_data_rhombohedral_n3 NumR quats) =
    @mindex_quats NumR Dropped Rhombohedral [qat quats 0; qat quats 4; qat quats 8] /\
  gen_pipeline Tetragonal 3 (@k_misorientation_hist_data_tetragonal_n3 NumR quats) =
    @mindex_quats NumR Dropped Tetragonal [qat quats 0; qat quats 4; qat quats 8] /\
  gen_pipeline Hexagonal 1 (@k_misorientation_hist_data_hexagonal_n2 NumR quats) =
    @mindex_quats NumR Dropped Hexagonal [qat quats 0; qat quats 4].
Proof.
  exact (fun quats => conj (gen_pipeline_triclinic_n3 quats) (conj (gen_pipeline_monoclinic_n3 quats)
        (conj (gen_pipeline_orthorhombic_n3 quats) (conj (gen_pipeline_rhombohedral_n3 quats)
        (conj (gen_pipeline_tetragonal_n3 quats) (gen_pipeline_hexagonal_n2 quats)))))).
Qed.

(* what the product of the source does to norms: |p (x)_D q|^2 = |p|^2 |q|^2 - |v_p x v_q|^2 *)
Theorem C14_dropped_norm_defect : forall p q : Q4,
  qnorm2 (@qprod NumR Dropped p q) = qnorm2 p * qnorm2 q - cross2 p q.
Proof. exact dropped_norm_defect. Qed.

Theorem C14_gen_product_norm : forall q1 q2 : arr R,
  qnorm2 (qat (@k_quat_product NumR q1 q2) 0) =
  qnorm2 (qat q1 0) * qnorm2 (qat q2 0) - cross2 (qat q1 0) (qat q2 0).
Proof. exact gen_product_norm. Qed.

(* the operator lists: every rotation operator is a unit quaternion ... *)
Theorem C14_symops_unit : forall s (q : Q4),
  In (@Rot NumR q) (@symmetry_operations NumR s) -> qnorm2 q = 1.
Proof. exact symops_unit. Qed.

(* ... but their number is the order of the proper point group (Grimmer's b) for triclinic only ... *)
Theorem C14_symops_order_refuted : forall s, s <> Triclinic ->
  Z.of_nat (length (@symmetry_operations NumR s)) <> snd (lattice_MN s).
Proof. exact symops_order_refuted. Qed.

(* ... and the rhombohedral, tetragonal and hexagonal lists are not closed under the quaternion product
   (not even up to sign): they are not groups *)
Theorem C14_symops_not_closed :
  not_closed (@symmetry_operations NumR Rhombohedral) /\
  not_closed (@symmetry_operations NumR Tetragonal) /\
  not_closed (@symmetry_operations NumR Hexagonal).
Proof. exact (conj rhombohedral_not_closed (conj tetragonal_not_closed hexagonal_not_closed)). Qed.

(* the frame-invariance clause FAILS of the product the source computes (orthorhombic list): 1 and k have
   misorientation angle 0; seen from the sample frame rotated by r = (1,2,2,4)/5 the angle is positive *)
Theorem C14_dropped_frame_dependent :
  exists q1 q2 r : Q4, qnorm2 q1 = 1 /\ qnorm2 q2 = 1 /\ qnorm2 r = 1 /\
    @pair_angle NumR Dropped (@symmetry_operations NumR Orthorhombic) q1 q2 = 0 /\
    0 < @pair_angle NumR Dropped (@symmetry_operations NumR Orthorhombic) (hmul q1 r) (hmul q2 r).
Proof. exact dropped_frame_dependent. Qed.

(* the symmetry clause fails of it too: a grain q and its symmetry-equivalent copy k q (half turn about the
   crystal z axis, an operator of the list) are not at misorientation angle 0 *)
Theorem C14_dropped_symmetry_dependent :
  exists q u : Q4, qnorm2 q = 1 /\ qnorm2 u = 1 /\
    In (@Rot NumR u) (@symmetry_operations NumR Orthorhombic) /\
    @pair_angle NumR Dropped (@symmetry_operations NumR Orthorhombic) q q = 0 /\
    0 < @pair_angle NumR Dropped (@symmetry_operations NumR Orthorhombic) (hmul u q) q.
Proof. exact dropped_symmetry_dependent. Qed.

(* ---- blocked evaluation of the pair rows: any number of grains, any block size (seeded change C14f) ----
   `geometry.misorientation_angles` is row-wise (one output per grain pair).  Evaluating the rows in consecutive blocks of
   ANY positive size b, the shorter tail block included, and concatenating gives the angles of the whole stack ... *)
Theorem C14_pair_rows_blocked_any_size : forall v s (qs : list Q4) (b : nat), (0 < b)%nat ->
  blocked b (map (fun pq => @pair_angle NumR v (@symmetry_operations NumR s) (fst pq) (snd pq))) (pairs qs) = @angles NumR v s qs.
Proof. exact (fun v s qs b Hb => blocked_rowwise b _ (pairs qs) Hb). Qed.

(* ... hence the index of a blocked implementation is the index, for every block size *)
Theorem C14_mindex_blocked_any_size : forall s (qs : list Q4) v (b : nat), (0 < b)%nat ->
  @mindex_of_angles NumR s (blocked b (map (fun pq => @pair_angle NumR v (@symmetry_operations NumR s) (fst pq) (snd pq))) (pairs qs)) =
  @mindex_of_angles NumR s (@angles NumR v s qs).
Proof. intros s qs v b Hb. now rewrite (blocked_rowwise b _ (pairs qs) Hb). Qed.

(* ... whereas the floor-division variant (`for k in range(n_rows // b)`) evaluates only the first b * (n_rows / b) rows: it
   loses rows exactly when the number of pair rows is not a multiple of the block size, and is exact otherwise *)
Theorem C14_pair_rows_floor_blocks_lose_the_tail : forall v s (qs : list Q4) (b : nat), (0 < b)%nat ->
  (length (pairs qs) mod b <> 0)%nat ->
  (length (blocked_floor b (map (fun pq => @pair_angle NumR v (@symmetry_operations NumR s) (fst pq) (snd pq))) (pairs qs)) <
   length (@angles NumR v s qs))%nat.
Proof. exact (fun v s qs b Hb Hm => blocked_floor_loses_rows b _ (pairs qs) Hb Hm). Qed.

Theorem C14_pair_rows_floor_blocks_prefix : forall v s (qs : list Q4) (b : nat), (0 < b)%nat ->
  blocked_floor b (map (fun pq => @pair_angle NumR v (@symmetry_operations NumR s) (fst pq) (snd pq))) (pairs qs) =
  firstn (b * (length (pairs qs) / b)) (@angles NumR v s qs).
Proof. intros v s qs b Hb. rewrite (blocked_floor_rowwise b _ (pairs qs) Hb). unfold angles. now rewrite firstn_map. Qed.

Local Open Scope nat_scope.
Example C14_blocked_nonvacuous :
  blocked 2 (map S) [1; 2; 3] = [2; 3; 4] /\ blocked_floor 2 (map S) [1; 2; 3] = [2; 3] /\
  length (@pairs nat [1; 2; 3]) mod 2 <> 0.
Proof. repeat split; discriminate. Qed.
