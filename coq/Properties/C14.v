(* Properties/C14.v -- C14: M-index is a frame-independent texture-strength scalar in [0, 1].
   Only statements; each is closed by `exact` of a lemma of Proofs_mindex.v.
   The quaternion product of the model carries a variant (Dropped = what the source computes,
   Hamilton = the quaternion product); range, permutation invariance, the single-orientation value and the batched
   variant are proved for BOTH variants, frame / symmetry invariance for Hamilton with proper
   operators only (they are false of the Dropped variant: Findings/C14_quat.v). *)
From Coq Require Import Reals ZArith List Permutation.
From PV Require Import Num NumR Model_mindex Proofs_mindex Proofs_mindex_mass
  Proofs_mindex_single Proofs_mindex_single_thm Proofs_mindex_batched.
Import ListNotations.
Open Scope R_scope.

(* ---- range ---- *)
Theorem C14_mindex_range_abstract : forall n (th obs : list R),
  Forall (Rle 0) th -> Forall (Rle 0) obs ->
  let c := IZR (Z.of_nat n) / IZR (2 * Z.of_nat (length obs)) in
  0 <= @m_of NumR n th obs <= c * (rsum th + rsum obs).
Proof. exact mindex_range_abstract. Qed.

(* any variant, any lattice system whose theoretical density is defined and non-negative,
   at least one pair angle inside [0, theta_max]:  0 <= M <= (1 + T) / 2,  T = sum of theory *)
Theorem C14_mindex_range : forall s (angs : list R) th m,
  @theory NumR s = Ok th -> Forall (Rle 0) th ->
  (0 < zsum (@hist_counts NumR (theta_max s) angs))%Z ->
  @mindex_of_angles NumR s angs = Ok m ->
  0 <= m <= (1 + rsum th) / 2.
Proof. exact mindex_range. Qed.

(* the theoretical density is non-negative and integrates to 1 +- 1e-3 (kernel-checked
   interval arithmetic over the 180 / 180 / 120 closed-form bin values) -- the three systems
   for which this holds of the source's formula *)
Theorem C14_theory_mass_partial : forall s, good_mass s ->
  exists th, @theory NumR s = Ok th /\ Forall (Rle 0) th /\ Rabs (rsum th - 1) <= 1 / 1000.
Proof. exact theory_mass_partial. Qed.

(* hence M in [0, 1 + 5e-4] for these systems *)
Theorem C14_mindex_in_unit_interval : forall s (angs : list R) m,
  good_mass s ->
  (0 < zsum (@hist_counts NumR (theta_max s) angs))%Z ->
  @mindex_of_angles NumR s angs = Ok m ->
  0 <= m <= 1 + 5 / 10000.
Proof. exact mindex_in_unit_interval. Qed.

(* ---- permutation of the grains (both variants, every system) ---- *)
Theorem C14_pair_angle_symmetric : forall v ops (q1 q2 : Q4), ops <> [] ->
  @pair_angle NumR v ops q1 q2 = @pair_angle NumR v ops q2 q1.
Proof. exact pair_angle_sym. Qed.

Theorem C14_pairs_perm : forall v s (qs qs' : list Q4),
  Permutation qs qs' -> Permutation (@angles NumR v s qs) (@angles NumR v s qs').
Proof. exact angles_perm. Qed.

Theorem C14_mindex_perm : forall v s (qs qs' : list Q4),
  Permutation qs qs' -> @mindex_quats NumR v s qs' = @mindex_quats NumR v s qs.
Proof. exact mindex_perm. Qed.

(* ---- Hamilton product: isometries ---- *)
Theorem C14_hamilton_isometry : forall s p q : Q4,
  qnorm2 (hmul p q) = qnorm2 p * qnorm2 q /\
  qdot (hmul s p) (hmul s q) = qnorm2 s * qdot p q /\
  qdot (hmul p s) (hmul q s) = qnorm2 s * qdot p q.
Proof.
  exact (fun s p q => conj (hamilton_norm p q) (conj (hamilton_left_isometry s p q) (hamilton_right_isometry s p q))).
Qed.

Theorem C14_rotation_matrix_homomorphism : forall p q : Q4,
  @mat_of_quat NumR (hmul p q) = mmul9 (@mat_of_quat NumR p) (@mat_of_quat NumR q).
Proof. exact mat_of_quat_hmul. Qed.

(* rigid rotation of the sample frame: every grain quaternion gets the common right factor r
   (as_quat may return either sign) -- all pair angles, hence the index, are unchanged *)
Theorem C14_mindex_frame_invariant : forall ops (r : Q4) (qs qs' : list Q4),
  Forall is_rot ops -> qnorm2 r = 1 ->
  Forall2 (fun q q' => eqpm q' (hmul q r)) qs qs' ->
  angles_ops Hamilton ops qs' = angles_ops Hamilton ops qs.
Proof. exact angles_frame_invariant. Qed.

(* replacing grains by symmetry-equivalent orientations u_i (x) q_i, the operator set being
   closed (up to sign) under right multiplication by each u_i *)
Theorem C14_mindex_symmetry_invariant : forall ops (qs qs' : list Q4),
  ops <> [] -> Forall is_rot ops ->
  Forall2 (fun q q' => exists u, In (Rot u) ops /\ closed_under ops u /\ eqpm q' (hmul u q)) qs qs' ->
  angles_ops Hamilton ops qs' = angles_ops Hamilton ops qs.
Proof. exact angles_symmetry_invariant. Qed.

Theorem C14_angles_are_angles_ops : forall v s (qs : list Q4),
  @angles NumR v s qs = angles_ops v (symmetry_operations s) qs.
Proof. exact angles_angles_ops. Qed.

(* ---- the defects, as theorems with witnesses ---- *)
Theorem C14_dropped_product_refuted :
  @qprod NumR Dropped (1, 0, 0, 0) (0, 1, 0, 0) = (0, 0, 0, 0) /\
  hmul (1, 0, 0, 0) (0, 1, 0, 0) = (0, 0, 1, 0) /\
  qnorm2 (@qprod NumR Dropped (1, 0, 0, 0) (0, 1, 0, 0)) <> qnorm2 (1, 0, 0, 0) * qnorm2 (0, 1, 0, 0).
Proof. exact dropped_product_refuted. Qed.

Theorem C14_ortho_ops_not_group :
  exists (s t : OP) (q : Q4), In s ortho_ops_exact /\ In t ortho_ops_exact /\
    forall u, In u ortho_ops_exact ->
      apply_op Hamilton s (apply_op Hamilton t q) <> apply_op Hamilton u q /\
      apply_op Hamilton s (apply_op Hamilton t q) <> qneg (apply_op Hamilton u q).
Proof. exact ortho_ops_not_group. Qed.

(* ---- single-orientation texture (both variants) ---- *)
(* the identity operator is in every system's list and fixes the quaternion under both
   products; hence the misorientation angle of a unit quaternion with itself is 0 *)
Theorem C14_pair_angle_self : forall v s (q : Q4), 1 <= qnorm2 q ->
  In (@Rot NumR qid) (@symmetry_operations NumR s) /\
  @apply_op NumR v (Rot qid) q = q /\
  @pair_angle NumR v (symmetry_operations s) q q = 0.
Proof. exact pair_angle_self_system. Qed.

(* all grains equal (at least two), unit quaternion from the oracle: all pair angles are 0, the
   observed density is the unit mass in bin 0 and M = (1 + T) / 2 - th_0 -- ANY lattice system
   whose theoretical density is defined, non-negative, with first bin <= 1 *)
Theorem C14_mindex_single_closed_form : forall (as_quat : list R -> Q4) v s (os : list (list R)) o th,
  (2 <= length os)%nat -> Forall (eq o) os -> qnorm2 (as_quat o) = 1 ->
  @theory NumR s = Ok th -> Forall (Rle 0) th -> nth 0 th 0 <= 1 ->
  Forall (eq 0) (@angles NumR v s (map as_quat os)) /\
  @misorientation_index NumR as_quat v s os = Ok ((1 + rsum th) / 2 - nth 0 th 0).
Proof. exact mindex_single_closed. Qed.

(* "close to 1 for a single-orientation texture": |M - 1| <= 1e-4 for the three systems whose
   density has mass 1 (interval arithmetic on the closed form; the code gives 0.9999996,
   0.9999992, 1.0000493) *)
Theorem C14_mindex_single : forall (as_quat : list R -> Q4) v s (os : list (list R)) o,
  good_mass s -> (2 <= length os)%nat -> Forall (eq o) os -> qnorm2 (as_quat o) = 1 ->
  Forall (eq 0) (@angles NumR v s (map as_quat os)) /\
  exists m, @misorientation_index NumR as_quat v s os = Ok m /\ Rabs (m - 1) <= 1 / 10000.
Proof. exact mindex_single. Qed.

(* ---- batched variant (model of imap over the stack) ---- *)
(* Ok exactly when every snapshot is Ok; then the result has the length of the stack and
   position k holds the value of snapshot k *)
Theorem C14_batched_iff : forall (as_quat : list R -> Q4) v s stack ms,
  @misorientation_indices NumR as_quat v s stack = Ok ms <->
  Forall2 (fun os m => @misorientation_index NumR as_quat v s os = Ok m) stack ms.
Proof. exact batched_iff. Qed.

Theorem C14_batched_positional : forall (as_quat : list R -> Q4) v s stack ms,
  @misorientation_indices NumR as_quat v s stack = Ok ms ->
  length ms = length stack /\
  forall k, (k < length stack)%nat ->
    @misorientation_index NumR as_quat v s (nth k stack []) = Ok (nth k ms 0).
Proof. exact batched_nth. Qed.

(* cutting the stack into chunks that are processed separately and concatenating the chunk
   results in chunk order gives the result of the whole stack (values or error) *)
Theorem C14_batched_chunks : forall (as_quat : list R -> Q4) v s (chunks : list (list (list (list R)))),
  @misorientation_indices NumR as_quat v s (concat chunks) =
  fold_right (fun c acc => bind_app (@misorientation_indices NumR as_quat v s c) acc) (Ok []) chunks.
Proof. exact batched_chunks. Qed.

(* an error is the error of the first failing snapshot *)
Theorem C14_batched_first_error : forall (as_quat : list R -> Q4) v s stack e,
  @misorientation_indices NumR as_quat v s stack = Err e ->
  exists k, (k < length stack)%nat /\
    @misorientation_index NumR as_quat v s (nth k stack []) = Err e /\
    forall j, (j < k)%nat -> exists m, @misorientation_index NumR as_quat v s (nth j stack []) = Ok m.
Proof. exact batched_first_error. Qed.

(* non-vacuity: a closed proper operator set (the four-group {1, i, j, k}), a unit r *)
Example C14_nonvacuous :
  Forall is_rot d2_ops /\ d2_ops <> [] /\ closed_under d2_ops (1, 0, 0, 0) /\
  In (@Rot NumR (1, 0, 0, 0)) d2_ops /\ qnorm2 (1 / 2, 1 / 2, 1 / 2, 1 / 2) = 1 /\
  (0 < zsum (@hist_counts NumR 180 (30%R :: nil)))%Z.
Proof. exact nonvacuous_mindex. Qed.

Example C14_single_nonvacuous :
  good_mass Orthorhombic /\ (2 <= length [[1; 0; 0; 0; 1; 0; 0; 0; 1]; [1; 0; 0; 0; 1; 0; 0; 0; 1]])%nat /\
  qnorm2 (0, 0, 0, 1) = 1.
Proof. exact single_nonvacuous. Qed.
