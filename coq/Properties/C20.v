(* Properties/C20.v -- C20: coordinate conversions and pole-figure primitives.
   Only statements; each is closed by `exact` of a lemma proved in Proofs_geometry.v /
   Proofs_density.v.  k_to_cartesian, k_to_spherical, k_lambert_equal_area and k_poles_*
   are GENERATED from /repo's geometry.py on every run (gen/Gen_geometry.v); point_density,
   its kernels and poles_all are the hand-written Model_density.v (tied by the differential run).
   Arrays are `arr R = nat -> R`; the scalar entry points return arrays of length 1. *)
From Coq Require Import Ascii String.
From Coq Require Import Reals ZArith List Permutation.
From PV Require Import Num NumR Model_density Proofs_geometry Proofs_density.
From PV Require Import Model_poles_axes Proofs_poles_axes.
From PV Require Import Inst_density Inst_density_all.
From PV Require Import Model_memo Proofs_memo Proofs_density_session.
From PV.gen Require Import Gen_geometry Gen_density.
Import ListNotations.
Open Scope R_scope.

(* --- spherical <-> cartesian -------------------------------------------------------- *)

(* to_cartesian (to_spherical p) = p for every point but the origin *)
Theorem C20_sph_cart_roundtrip : forall x y z : R, x <> 0 \/ y <> 0 \/ z <> 0 ->
  exists r p t : arr R, @k_to_spherical NumR x y z = Ok (r, p, t) /\
  let '(x', y', z') := @k_to_cartesian NumR (p 0%nat) (t 0%nat) (r 0%nat) in
  x' 0%nat = x /\ y' 0%nat = y /\ z' 0%nat = z.
Proof. exact sph_cart_roundtrip_proof. Qed.

(* r = |p| > 0; theta = acos (z/r) is the colatitude in [0, pi]; phi is the longitude:
   (cos phi, sin phi) is the direction of (x, y); phi is reported in (-pi, pi] *)
Theorem C20_sph_convention : forall x y z : R, x <> 0 \/ y <> 0 \/ z <> 0 ->
  exists r p t : arr R, @k_to_spherical NumR x y z = Ok (r, p, t) /\
    r 0%nat = norm3 x y z /\ 0 < r 0%nat /\
    t 0%nat = acos (z / norm3 x y z) /\ 0 <= t 0%nat <= PI /\ cos (t 0%nat) = z / norm3 x y z /\
    - PI < p 0%nat <= PI /\
    sqrt (x * x + y * y) * cos (p 0%nat) = x /\ sqrt (x * x + y * y) * sin (p 0%nat) = y.
Proof. exact sph_convention_proof. Qed.

(* the excluded point: z / r is 0 / 0 there (the implementation returns NaN) *)
Theorem C20_sph_origin_undefined : @k_to_spherical NumR 0 0 0 = Err DivZero.
Proof. exact to_spherical_origin. Qed.

(* --- poles -------------------------------------------------------------------------- *)

(* for each of the six reference-axes strings (ax = 0..5 <-> xy xz yx yz zx zy) and any
   number of orientations: every pole is unit (A^T hkl) with output x / y / z = the component
   along the first letter / the second letter / the remaining (upward) axis *)
Theorem C20_poles_are_direction : forall ax (As : list (arr R)) (hkl : arr R) ps,
  valid_axes ax -> @poles_all NumR ax As hkl = Ok ps ->
  Forall2 (fun A p => dnorm A hkl <> 0 /\ p = unit_dir ax A hkl) As ps.
Proof. exact poles_are_direction_proof. Qed.

Theorem C20_poles_unit : forall ax (As : list (arr R)) (hkl : arr R) ps,
  valid_axes ax -> @poles_all NumR ax As hkl = Ok ps ->
  Forall (fun p : R * R * R => let '(a, b, c) := p in a * a + b * b + c * c = 1) ps.
Proof. exact poles_unit_proof. Qed.

Theorem C20_poles_total : forall ax (As : list (arr R)) (hkl : arr R),
  valid_axes ax -> Forall (fun A => dnorm A hkl <> 0) As ->
  exists ps, @poles_all NumR ax As hkl = Ok ps.
Proof. exact poles_total_proof. Qed.

(* --- poles: the reference-axes STRING (every spelling, defaults, batch) ---------------- *)
(* poles_str / ref_axes_read (Model_poles_axes.v) model what the source does with the string
   itself: .lower(), set("xyz") - set(..) .pop() (`pick` = the element pop() returns), the
   two dictionary look-ups.  spelling_table = the 24 case spellings of the six strings. *)

(* case-insensitive for EVERY string (legal or not), every number type, every pop() *)
Theorem C20_poles_case_insensitive : forall (F : Num) (s : string) (pick : nat) (As : list (arr F)) (hkl : arr F),
  poles_str (lower_str s) pick As hkl = poles_str s pick As hkl.
Proof. exact @poles_case_insensitive_proof. Qed.

(* each of the 24 spellings is read as (first letter, second letter, [the remaining axis]) *)
Theorem C20_poles_spellings_read :
  Forall (fun sa : string * Z => valid_axes (snd sa) /\ ref_axes_read (fst sa) = read_as (snd sa)) spelling_table.
Proof. exact spellings_read_proof. Qed.

Theorem C20_poles_spellings_complete :
  List.length spelling_table = 24%nat /\ NoDup (map fst spelling_table) /\
  (forall ax, valid_axes ax -> exists s, In (s, ax) spelling_table /\ lower_str s = s) /\
  (forall s ax, In (s, ax) spelling_table -> In (lower_str s, ax) spelling_table).
Proof. exact spellings_complete_proof. Qed.

(* every spelling: same result as the batch over the generated function of the lower-case
   string (C20_poles_are_direction / _unit / _total then apply), independent of pop() *)
Theorem C20_poles_spelling : forall (s : string) (ax : Z) (pick : nat) (As : list (arr R)) (hkl : arr R),
  In (s, ax) spelling_table -> @poles_str NumR s pick As hkl = @poles_all NumR ax As hkl.
Proof. exact poles_str_spelling_proof. Qed.

Theorem C20_poles_spelling_direction : forall (s : string) (ax : Z) (pick : nat) (As : list (arr R)) (hkl : arr R) ps,
  In (s, ax) spelling_table -> @poles_str NumR s pick As hkl = Ok ps ->
  Forall2 (fun A p => dnorm A hkl <> 0 /\ p = unit_dir ax A hkl) As ps /\
  Forall (fun p : R * R * R => let '(a, b, c) := p in a * a + b * b + c * c = 1) ps.
Proof. exact poles_str_are_direction_proof. Qed.

(* tie T: `poles` is traced from the source for each of the 24 spellings (k_poles_xz,
   k_poles_Xz, k_poles_xZ, k_poles_XZ, ...); all four traces of a pair are the same function *)
Theorem C20_poles_generated_spellings :
  map fst gen_table = spelling_table /\
  Forall (fun t : string * Z * gen_fn => forall A hkl, snd t A hkl = poles_gen (snd (fst t)) A hkl) gen_table.
Proof. exact gen_spellings_proof. Qed.

(* the default arguments, traced from the source: ref_axes = "xz", hkl = [1, 0, 0] *)
Theorem C20_poles_defaults : forall A : arr R, @k_poles_default NumR A = poles_gen 1 A e100.
Proof. exact poles_default_proof. Qed.

(* the batch is the map of the one-orientation function; batches concatenate *)
Theorem C20_poles_batch_is_map : forall (F : Num) (ax : Z) (As : list (arr F)) (hkl : arr F) ps,
  poles_all ax As hkl = Ok ps -> Forall2 (fun A p => poles_one ax A hkl = Ok p) As ps.
Proof. exact @poles_batch_proof. Qed.

Theorem C20_poles_batch_app : forall (F : Num) (ax : Z) (As Bs : list (arr F)) (hkl : arr F) ps qs,
  poles_all ax As hkl = Ok ps -> poles_all ax Bs hkl = Ok qs ->
  poles_all ax (As ++ Bs) hkl = Ok (ps ++ qs).
Proof. exact @poles_batch_app_proof. Qed.

(* illegal strings (outside the property; pinned behaviour): shorter than two characters ->
   IndexError; a successful read means the first two letters are axis letters and the upward
   candidates are the axis letters that do not occur; a repeated letter leaves TWO candidates *)
Theorem C20_poles_short_string : forall s : string,
  (String.length s < 2)%nat -> ref_axes_read s = Err IndexError.
Proof. exact ref_axes_short_proof. Qed.

Theorem C20_poles_string_read_inv : forall (s : string) (h v : nat) (ups : list nat),
  ref_axes_read s = Ok (h, v, ups) ->
  exists a b, String.get 0 s = Some a /\ String.get 1 s = Some b /\
    axis_index (lower_ascii a) = Some h /\ axis_index (lower_ascii b) = Some v /\
    ups = leftover (lower_str s) /\ ups <> [].
Proof. exact ref_axes_ok_inv_proof. Qed.

Theorem C20_poles_illegal_strings :
  ref_axes_read "xx" = Ok (0, 0, [1; 2])%nat /\ ref_axes_read "ZZ" = Ok (2, 2, [0; 1])%nat /\
  ref_axes_read "xzz" = Ok (0, 2, [1])%nat /\ ref_axes_read "xz " = Ok (0, 2, [1])%nat /\
  ref_axes_read "xzy" = Err KeyError /\ ref_axes_read "xw" = Err KeyError /\
  ref_axes_read " xz" = Err KeyError /\ ref_axes_read "x" = Err IndexError /\
  ref_axes_read "" = Err IndexError.
Proof. exact ref_axes_illegal_proof. Qed.

(* non-vacuity of the new hypotheses *)
Example C20_poles_str_nonvacuous :
  In ("XZ"%string, 1%Z) spelling_table /\ (String.length "x" < 2)%nat /\
  exists ps, @poles_str NumR "XZ" 0 [id9] e100 = Ok ps.
Proof. exact poles_str_nonvacuous_proof. Qed.

(* --- Lambert equal-area projection --------------------------------------------------- *)

(* squared radius 1 - |z| for every unit vector outside the cut-off |x|,|y| < 1e-16 of the
   source; inside it the image is the centre and 1 - |z| <= 2 * (1e-16)^2 *)
Theorem C20_lambert_radius : forall x y z : R, x * x + y * y + z * z = 1 ->
  exists X Y : arr R, @k_lambert_equal_area NumR x y z = (X, Y) /\
    (~ tiny2 x y -> X 0%nat * X 0%nat + Y 0%nat * Y 0%nat = 1 - Rabs z) /\
    (tiny2 x y -> X 0%nat = 0 /\ Y 0%nat = 0 /\ 0 <= 1 - Rabs z <= 2 * (cut16 * cut16)).
Proof. exact lambert_radius_proof. Qed.

(* unchanged azimuth: (X, Y) is a non-negative multiple of (x, y) -- for every input *)
Theorem C20_lambert_azimuth : forall x y z : R,
  exists (X Y : arr R) (c : R), @k_lambert_equal_area NumR x y z = (X, Y) /\
    0 <= c /\ X 0%nat = c * x /\ Y 0%nat = c * y.
Proof. exact lambert_azimuth_proof. Qed.

Theorem C20_lambert_in_disk : forall x y z : R, x * x + y * y + z * z = 1 ->
  exists X Y : arr R, @k_lambert_equal_area NumR x y z = (X, Y) /\
    X 0%nat * X 0%nat + Y 0%nat * Y 0%nat <= 1.
Proof. exact lambert_in_disk_proof. Qed.

(* both poles of the sphere (any point of the z axis) go to the centre of the disk *)
Theorem C20_lambert_poles : forall z : R,
  exists X Y : arr R, @k_lambert_equal_area NumR 0 0 z = (X, Y) /\ X 0%nat = 0 /\ Y 0%nat = 0.
Proof. exact lambert_poles_proof. Qed.

(* lift : closed unit disk -> upper unit hemisphere, the inverse equal-area map *)
Theorem C20_lift_unit : forall X Y : R, X * X + Y * Y <= 1 ->
  let '(x, y, z) := lift X Y in x * x + y * y + z * z = 1.
Proof. exact lift_unit. Qed.

Theorem C20_lambert_inverts_lift : forall X Y : R, X * X + Y * Y <= 1 ->
  let '(x, y, z) := lift X Y in
  exists X' Y' : arr R, @k_lambert_equal_area NumR x y z = (X', Y') /\
    (~ tiny2 x y -> X' 0%nat = X /\ Y' 0%nat = Y) /\
    (tiny2 x y -> X' 0%nat = 0 /\ Y' 0%nat = 0 /\ Rabs X < cut16 /\ Rabs Y < cut16).
Proof. exact lambert_inverts_lift_proof. Qed.

Theorem C20_cutoff_is_1e16 : 0 < cut16 < 2 / 10 ^ 16.
Proof. exact (conj cut16_pos cut16_small). Qed.

(* --- point density ------------------------------------------------------------------- *)

(* any kernel k, smoothing sigma, weight w, axial flag, grid size g: data order is irrelevant *)
Theorem C20_density_perm : forall k sigma w axial g (data data' : list (@vec3 NumR)),
  Permutation data data' ->
  @raw_totals NumR k sigma w axial g data = @raw_totals NumR k sigma w axial g data' /\
  @point_density NumR k sigma w axial g data = @point_density NumR k sigma w axial g data'.
Proof. exact density_perm_proof. Qed.

(* axial data: negating any subset of the data changes nothing, all five kernels *)
Theorem C20_density_axial_sign : forall k sigma w g (data data' : list (@vec3 NumR)),
  Forall2 flipped data data' ->
  @raw_totals NumR k sigma w true g data' = @raw_totals NumR k sigma w true g data /\
  @point_density NumR k sigma w true g data' = @point_density NumR k sigma w true g data.
Proof. exact density_axial_sign_proof. Qed.

(* normalised to a grid mean of 1 before clipping (guard: the raw grid mean is not 0) *)
Theorem C20_density_mean_one : forall ts : list R,
  @mean_list NumR ts <> 0 -> @mean_list NumR (@normalise NumR ts) = 1.
Proof. exact density_mean_one_proof. Qed.

Theorem C20_density_nonneg : forall ts : list R, Forall (fun t => 0 <= t) (@clip NumR ts).
Proof. exact density_nonneg_proof. Qed.

(* grid points are reported inside the closed unit disk; g*g of them *)
Theorem C20_grid_in_disk : forall k sigma w axial g (data : list (@vec3 NumR)),
  let pd := @point_density NumR k sigma w axial g data in
  Forall2 (fun X Y : R => X * X + Y * Y <= 1) (fst (fst pd)) (snd (fst pd)) /\
  length (fst (fst pd)) = (g * g)%nat /\ length (snd pd) = (g * g)%nat.
Proof. exact grid_in_disk_proof. Qed.

(* finiteness guard 1: the divisor of every total is positive -- axial counting, every
   kernel, every non-empty data set, every sigma <> 0 *)
Theorem C20_density_scale_pos_axial : forall k sigma (cs : list NumR),
  cs <> [] -> sigma <> 0 -> 0 < snd (@kernel_apply NumR k sigma true cs).
Proof. exact scale_pos_axial_proof. Qed.

(* non-axial counting with the Kamb-radius kernels is only defined for n > sigma^2 *)
Theorem C20_density_scale_nonaxial : forall k sigma (cs : list NumR),
  kamb_radius_kernel k -> cs <> [] -> sigma <> 0 ->
  (sigma * sigma < INR (length cs) -> 0 < snd (@kernel_apply NumR k sigma false cs)) /\
  (INR (length cs) <= sigma * sigma -> snd (@kernel_apply NumR k sigma false cs) = 0).
Proof. exact scale_nonaxial_proof. Qed.

(* non-vacuity: the hypotheses above are satisfiable *)
Example C20_nonvacuous :
  (1 <> 0 \/ 1 <> 0 \/ 1 <> 0) /\
  (6 / 10) * (6 / 10) + 0 * 0 + (8 / 10) * (8 / 10) = 1 /\ ~ tiny2 (6 / 10) 0 /\ tiny2 0 0 /\
  (1 / 2) * (1 / 2) + (1 / 2) * (1 / 2) <= 1 /\
  valid_axes 1 /\ dnorm id9 e100 <> 0 /\
  @mean_list NumR [1; 2] <> 0 /\ ([1] : list R) <> [] /\ 10 <> 0 /\
  kamb_radius_kernel 3 /\ INR (length [1; 1]) <= 10 * 10 /\
  Forall2 flipped [((1, 0, 0) : @vec3 NumR)] [@neg3 NumR (1, 0, 0)].
Proof. exact C20_nonvacuous_proof. Qed.

(* ================================================================================================ *)
(* TIE T for point_density and for poles on several orientations: statements about the code          *)
(* REGENERATED from pydrex/stats.py / pydrex/geometry.py on every run (gen/Gen_density.v).           *)
(* `generated_density k axial g n gen` enumerates the 19 definitions traced from the public function *)
(* point_density (all five kernels, axial and not, g x g counting grids with g = 2 or 3, n = 1 or 2  *)
(* data vectors); arrays are flat (`A l` = `mk_arr 0 l`), `zip3 xs ys zs` are the data vectors.      *)
(* ================================================================================================ *)

(* every generated definition IS the hand-written list model, for all data, weights and sigma <> 0 *)
Theorem C20_generated_density_is_model :
  forall k axial g n gen, generated_density k axial g n gen ->
  forall (xs ys zs : list R) (sigma w : R),
    length xs = n -> length ys = n -> length zs = n -> sigma <> 0 ->
    gen (A xs) (A ys) (A zs) sigma w = Ok (pack3 (@point_density NumR k sigma w axial g (zip3 xs ys zs))).
Proof. exact generated_density_is_model. Qed.

(* order independence, on generated code *)
Theorem C20_generated_density_perm :
  forall k axial g n gen, generated_density k axial g n gen ->
  forall (sigma w : R), sigma <> 0 ->
  forall xs ys zs xs' ys' zs' : list R,
    length xs = n -> length ys = n -> length zs = n -> length xs' = n -> length ys' = n -> length zs' = n ->
    Permutation (zip3 xs ys zs) (zip3 xs' ys' zs') ->
    gen (A xs) (A ys) (A zs) sigma w = gen (A xs') (A ys') (A zs') sigma w.
Proof. exact generated_density_perm. Qed.

(* axial sign independence, on generated code: every kernel including schmidt_count *)
Theorem C20_generated_density_axial_sign :
  forall k g n gen, generated_density k true g n gen ->
  forall (sigma w : R) (xs ys zs xs' ys' zs' : list R), sigma <> 0 ->
    length xs = n -> length ys = n -> length zs = n -> length xs' = n -> length ys' = n -> length zs' = n ->
    Forall2 flipped (zip3 xs ys zs) (zip3 xs' ys' zs') ->
    gen (A xs') (A ys') (A zs') sigma w = gen (A xs) (A ys) (A zs) sigma w.
Proof. exact generated_density_axial_sign. Qed.

(* what generated code returns: g*g grid points in the closed unit disk; the totals are the clipped
   normalisation of the raw totals -- every entry >= 0, and the normalisation has grid mean 1 before the
   clip (guard: raw grid mean <> 0) *)
Theorem C20_generated_density_shape :
  forall k axial g n gen, generated_density k axial g n gen ->
  forall (sigma w : R), sigma <> 0 ->
  forall (xs ys zs : list R) X Y T,
    length xs = n -> length ys = n -> length zs = n ->
    gen (A xs) (A ys) (A zs) sigma w = Ok (X, Y, T) ->
    exists Xl Yl raw,
      X = A Xl /\ Y = A Yl /\ T = A (@clip NumR (@normalise NumR raw)) /\
      raw = @raw_totals NumR k sigma w axial g (zip3 xs ys zs) /\
      length Xl = (g * g)%nat /\ length (@clip NumR (@normalise NumR raw)) = (g * g)%nat /\
      Forall2 (fun a b : R => a * a + b * b <= 1) Xl Yl /\
      Forall (fun t => 0 <= t) (@clip NumR (@normalise NumR raw)) /\
      (@mean_list NumR raw <> 0 -> @mean_list NumR (@normalise NumR raw) = 1).
Proof. exact generated_density_shape. Qed.

(* poles regenerated for 2 and 3 orientations: the batch is the one-orientation function, grain by grain *)
Theorem C20_generated_poles_batch_is_map :
  forall ax n gen, generated_poles_batch ax n gen ->
  forall os hkl : list R, length os = (9 * n)%nat -> length hkl = 3%nat ->
    gen (A os) (A hkl) = pack_poles (@poles_all NumR ax (chunks9 n os) (A hkl)).
Proof. exact generated_poles_batch_is_map. Qed.

Example C20_generated_nonvacuous :
  generated_density 1 true 2 1 (fun x y z s w => Ok (@k_point_density_k1_a1_g2_n1 NumR x y z s w)) /\
  generated_density 3 true 2 1 (@k_point_density_k3_a1_g2_n1 NumR) /\
  (10 : R) <> 0 /\
  Forall2 flipped (zip3 [1] [0] [0]) (zip3 [-1] [-0] [-0]) /\
  Permutation (zip3 [1; 0] [0; 1] [0; 0]) (zip3 [0; 1] [1; 0] [0; 0]) /\
  generated_poles_batch 1 2 (@k_poles_batch_xz_n2 NumR).
Proof. exact generated_density_nonvacuous. Qed.

(* ---- call histories: the counting grid behind a cache keyed on the grid size (Model_memo; seeded change C20f) ----
   a cache that hands out COPIES of the grid is invisible on every history of calls and caller-side edits ... *)
Theorem C20_grid_cache_copying_transparent : forall ops, run grid_of Nat.eqb false [] ops = spec grid_of ops.
Proof. exact grid_cache_copying_transparent. Qed.

(* ... one that hands out the stored arrays is not: after the caller has edited the returned grid in place (here: one more entry in
   X), the same call returns the edited grid instead of the grid points inside the unit disk *)
Theorem C20_grid_cache_aliased_refuted : forall g (x : R),
  let r := (x :: fst (grid_of g), snd (grid_of g)) in
  run grid_of Nat.eqb true [] [Call g; Scribble g r; Call g] = [grid_of g; r] /\
  run grid_of Nat.eqb true [] [Call g; Scribble g r; Call g] <> spec grid_of [Call g; Scribble g r; Call g].
Proof. exact grid_cache_aliased_refuted. Qed.
